(* C22 - READ returns DATA items in program order.
   Only statements, `exact`, Print Assumptions and non-vacuity examples here.

   read_one / read_vars / restore : model of Interpreter.read_ / restore_ on the program byte code (model/Data.v)
   data_items p                   : the DATA entries of byte code p (one pass, statement by statement)
   data_ahead p dp ln             : the entries in front of data pointer dp
   enc_prog ls trailer            : byte code of the program with lines ls in the format
                                    00 | link(2) | num(2) | statements separated by ':' | ... | 00 00 00
   numok / setvar                 : do number conversion (C07) and variable assignment raise?  (oracles) *)
From Coq Require Import ZArith List Bool Permutation.
From PCB Require Import lib.Result lib.PyInt gen.Gen_data model.Data proofs.Data_proofs.
Import ListNotations.
Open Scope Z_scope.

(* ---- level 1: every byte code ---------------------------------------------------------------- *)

(* after RUN (and after RESTORE) the data pointer is 0 and stands in front of all entries of the program *)
Theorem C22_run_restore : forall p tbl,
  restore tbl None = Ok 0 /\ data_ahead p 0 (-1) = data_items p.
Proof. intros p tbl. split; reflexivity. Qed.
Print Assumptions C22_run_restore.

(* READ of a string variable takes the next entry and moves the pointer behind it (whatever the oracles answer) *)
Theorem C22_read_string : forall numok setvar p cur dp ln it its e tgt,
  data_ahead p dp ln = (it :: its, e) -> is_str tgt = true ->
  exists dp', read_one numok setvar p cur dp tgt
              = lift_unit (setvar tgt (VStr (it_str it))) (cur - 1) (Done (VStr (it_str it)) dp')
              /\ data_ahead p dp' (it_line it) = (its, e).
Proof. exact read_str_step. Qed.
Print Assumptions C22_read_string.

(* READ of a numeric variable from an entry that reads as a number; a conversion error (Overflow ...) is raised
   with the program stream behind the number text, an assignment error (subscript, overflow of the target type)
   at the READ statement; in both cases the pointer stays *)
Theorem C22_read_number : forall numok setvar p cur dp ln it its e tgt,
  data_ahead p dp ln = (it :: its, e) -> is_str tgt = false -> it_numeric it = true ->
  exists dp', read_one numok setvar p cur dp tgt
                = lift_unit (numok (it_word it)) (pos_of p (it_after it) - 1)
                    (lift_unit (setvar tgt (VNum (it_word it))) (cur - 1) (Done (VNum (it_word it)) dp'))
                /\ data_ahead p dp' (it_line it) = (its, e).
Proof. exact read_num_step. Qed.
Print Assumptions C22_read_number.

(* the k-th READ after RUN / RESTORE returns entry k: a READ statement with variables ts, started with the data
   pointer in front of the entries its, assigns entry i to variable i and leaves the pointer in front of the
   remaining entries (conversions and assignments succeeding; each numeric variable meeting a numeric entry) *)
Theorem C22_sequence : forall numok setvar,
  (forall w, numok w = Ok tt) -> (forall t v, setvar t v = Ok tt) ->
  forall p cur dp ln its e ts,
  data_ahead p dp ln = (its, e) -> (length ts <= length its)%nat ->
  forallb (fun ti => readable (fst ti) (snd ti)) (combine ts its) = true ->
  exists os dp' ln',
    read_vars numok setvar p cur dp ts = (os, dp') /\
    map outcome_value os = map (fun ti => Some (value_for (fst ti) (snd ti))) (combine ts its) /\
    data_ahead p dp' ln' = (skipn (length ts) its, e).
Proof. exact sequence_from. Qed.
Print Assumptions C22_sequence.

(* Out of DATA exactly when the entries are exhausted; the error is raised at the READ statement *)
Theorem C22_out_of_data : forall numok setvar,
  (forall w, numok w = Ok tt) -> (forall t v, setvar t v = Ok tt) ->
  forall p cur dp ln its e tgt,
  data_ahead p dp ln = (its, e) ->
  (read_one numok setvar p cur dp tgt = Fail data_OUT_OF_DATA (cur - 1) None <-> its = [] /\ e = EndOfData).
Proof. exact out_of_data_iff. Qed.
Print Assumptions C22_out_of_data.

(* a non-numeric entry read into a numeric variable (after the entries before it have been read):
   the partial value is assigned, then Syntax error with the program stream at the offending character of the
   entry; the data pointer stays in front of that entry *)
Theorem C22_syntax_error : forall numok setvar,
  (forall w, numok w = Ok tt) -> (forall t v, setvar t v = Ok tt) ->
  forall p cur dp ln its e ts tgt rest it,
  data_ahead p dp ln = (its, e) -> (length ts <= length its)%nat ->
  forallb (fun ti => readable (fst ti) (snd ti)) (combine ts its) = true ->
  nth_error its (length ts) = Some it -> readable tgt it = false ->
  exists os dp' ln',
    read_vars numok setvar p cur dp (ts ++ tgt :: rest) =
      (os ++ [Fail data_STX (pos_of p (it_rest it) - 1) (Some (VNum (it_word it)))], dp') /\
    map outcome_value os = map (fun ti => Some (value_for (fst ti) (snd ti))) (combine ts its) /\
    data_ahead p dp' ln' = (skipn (length ts) its, e).
Proof. exact syntax_error_after. Qed.
Print Assumptions C22_syntax_error.

(* an entry that is malformed even as a string (text behind a closing quote) stops every READ with Syntax error *)
Theorem C22_malformed_entry : forall numok setvar p cur dp ln l w nrest srest tgt,
  data_ahead p dp ln = ([], BadEntry l w nrest srest) ->
  (is_str tgt = true -> read_one numok setvar p cur dp tgt = Fail data_STX (pos_of p srest - 1) None) /\
  (is_str tgt = false -> exists q, read_one numok setvar p cur dp tgt
                         = lift_unit (numok w) q
                             (lift_unit (setvar tgt (VNum w)) (cur - 1)
                                (Fail data_STX (pos_of p nrest - 1) (Some (VNum w))))).
Proof. exact read_bad_entry. Qed.
Print Assumptions C22_malformed_entry.

(* a READ statement that fails at one of its variables (any reason, any oracles: Out of DATA, Syntax error in DATA,
   conversion error, subscript out of range in the assignment ...): the variables before it have been assigned,
   the data pointer stands behind the last entry that was read (the entries consumed stay consumed), the failing
   variable's outcome is that of a single READ from there, the variables behind it are not touched *)
Theorem C22_pointer_after_failed_read : forall numok setvar p cur ts dp os dp' tgt rest,
  read_vars numok setvar p cur dp ts = (os, dp') ->
  Forall (fun o => outcome_value o <> None) os ->
  outcome_value (read_one numok setvar p cur dp' tgt) = None ->
  read_vars numok setvar p cur dp (ts ++ tgt :: rest) = (os ++ [read_one numok setvar p cur dp' tgt], dp').
Proof. exact read_vars_fail_mid. Qed.
Print Assumptions C22_pointer_after_failed_read.

(* READ with more variables than entries are left: the entries are assigned, then Out of DATA; the pointer stays
   behind the last entry *)
Theorem C22_out_of_data_mid_statement : forall numok setvar,
  (forall w, numok w = Ok tt) -> (forall t v, setvar t v = Ok tt) ->
  forall p cur dp ln its ts tgt rest,
  data_ahead p dp ln = (its, EndOfData) -> length ts = length its ->
  forallb (fun ti => readable (fst ti) (snd ti)) (combine ts its) = true ->
  exists os dp' ln',
    read_vars numok setvar p cur dp (ts ++ tgt :: rest) = (os ++ [Fail data_OUT_OF_DATA (cur - 1) None], dp') /\
    map outcome_value os = map (fun ti => Some (value_for (fst ti) (snd ti))) (combine ts its) /\
    data_ahead p dp' ln' = ([], EndOfData).
Proof. exact out_of_data_after. Qed.
Print Assumptions C22_out_of_data_mid_statement.

(* READ outside run mode (direct mode): same values and same pointer; every error is raised without a position,
   so ERL is 65535 and the message names no line; on a protected program: Illegal function call *)
Theorem C22_direct_mode : forall numok setvar run p cur dp ts tbl,
  let r := read_vars numok setvar p cur dp ts in
  read_stmt numok setvar run false p cur dp ts = (map (direct run) (fst r), snd r) /\
  map outcome_value (map (direct run) (fst r)) = map outcome_value (fst r) /\
  (forall o e q part, In o (map (direct false) (fst r)) -> o = Fail e q part -> q = -1 /\ erl tbl q = 65535) /\
  read_stmt numok setvar false true p cur dp ts = ([Fail 5 (-1) None], dp).
Proof. exact direct_mode_thm. Qed.
Print Assumptions C22_direct_mode.

(* ---- level 2: programs in the modelled byte format ------------------------------------------- *)

(* data_items is the concatenation of the entries of the DATA statements in line and statement order, each with
   the number of its line; string value as written (quotes, blanks), numeric reading of digit strings / empty /
   non-numeric entries as item_rel says *)
Theorem C22_program_order : forall ls trailer,
  forallb line_ok ls = true -> (length trailer <= 2)%nat ->
  exists its, data_items (enc_prog ls trailer) = (its, EndOfData) /\ Forall2 item_rel (prog_entries ls) its.
Proof. exact program_order_thm. Qed.
Print Assumptions C22_program_order.

(* RESTORE n: the line must exist; the pointer goes to the start of line n and stands in front of exactly the
   entries of line n and the lines behind it (a suffix of data_items).  tbl = Program.line_numbers: a dictionary
   with the content of table_of (any order) *)
Theorem C22_restore_n : forall ls1 l ls2 trailer tbl,
  forallb line_ok (ls1 ++ l :: ls2) = true -> (length trailer <= 2)%nat -> ascending (-1) (ls1 ++ l :: ls2) = true ->
  Permutation tbl (table_of (ls1 ++ l :: ls2) 0) ->
  let p := enc_prog (ls1 ++ l :: ls2) trailer in
  exists dp A B,
    restore tbl (Some (l_num l)) = Ok dp /\
    fst (data_items p) = A ++ B /\
    (forall ln, data_ahead p dp ln = (B, EndOfData)) /\
    (forall ln, data_ahead p dp ln = data_items (enc_prog (l :: ls2) trailer)) /\
    Forall2 item_rel (prog_entries ls1) A /\ Forall2 item_rel (prog_entries (l :: ls2)) B.
Proof. exact restore_n_thm. Qed.
Print Assumptions C22_restore_n.

Theorem C22_restore_undefined : forall ls n tbl,
  forallb line_ok ls = true -> ascending (-1) ls = true -> Permutation tbl (table_of ls 0) ->
  (forall l, In l ls -> l_num l <> n) -> n <> 65536 ->
  restore tbl (Some n) = Err data_UNDEFINED_LINE_NUMBER.
Proof. exact restore_undefined_thm. Qed.
Print Assumptions C22_restore_undefined.

(* error LINES: for every entry of the program, the position of the Syntax error of C22_syntax_error (non-numeric
   entry into a numeric variable) and the position of a conversion error of C22_read_number lie in the line that
   holds the entry: ERL and the error message name the DATA line (lines in ascending order; tbl = the line
   dictionary) *)
Theorem C22_syntax_error_line : forall ls trailer tbl k it,
  forallb line_ok ls = true -> (length trailer <= 2)%nat -> ascending (-1) ls = true ->
  Permutation tbl (table_of ls 0) ->
  nth_error (fst (data_items (enc_prog ls trailer))) k = Some it ->
  let p := enc_prog ls trailer in
  erl tbl (pos_of p (it_rest it) - 1) = it_line it /\ erl tbl (pos_of p (it_after it) - 1) = it_line it.
Proof. exact error_line_thm. Qed.
Print Assumptions C22_syntax_error_line.

(* ---- final round: clauses behind the seeds C22c / C22d / C22e ---------------------------------- *)

(* C22d: a numeric entry followed by blanks before its separator (DATA 1 , 2 / DATA 5 :DATA 6): the READ returns the
   number, the data pointer stands ON the separator (comma, colon, NUL) or at the end of the code, the blanks being
   skipped, and in front of the remaining entries, so the next READ returns the next entry (every byte code).
   (The second half is C22_read_number / C22_sequence; that the pointer is on the separator is new.) *)
Theorem C22_pointer_on_separator : forall numok setvar p cur dp ln it its e tgt,
  data_ahead p dp ln = (it :: its, e) -> is_str tgt = false -> it_numeric it = true ->
  numok (it_word it) = Ok tt -> setvar tgt (VNum (it_word it)) = Ok tt ->
  exists dp', read_one numok setvar p cur dp tgt = Done (VNum (it_word it)) dp' /\
              seek p dp' = it_rest it /\ at_sep (seek p dp') = true /\
              (seek p dp' = [] \/ exists c r, seek p dp' = c :: r /\ (c = 0 \/ c = 58 \/ c = 44)) /\
              data_ahead p dp' (it_line it) = (its, e).
Proof. exact read_num_on_sep. Qed.
Print Assumptions C22_pointer_on_separator.

Theorem C22_pointer_on_separator_string : forall numok setvar p cur dp ln it its e tgt,
  data_ahead p dp ln = (it :: its, e) -> is_str tgt = true -> setvar tgt (VStr (it_str it)) = Ok tt ->
  exists dp', read_one numok setvar p cur dp tgt = Done (VStr (it_str it)) dp' /\
              at_sep (seek p dp') = true /\ data_ahead p dp' (it_line it) = (its, e).
Proof. exact read_str_on_sep. Qed.
Print Assumptions C22_pointer_on_separator_string.

(* C22e: RESTORE n to a line that does not exist raises Undefined line number and leaves the DATA pointer where it
   was; in general RESTORE moves the pointer only when the lookup succeeds (restore_stmt = the statement on the
   interpreter state; C22_restore_undefined had the error only) *)
Theorem C22_restore_missing_keeps_pointer : forall ls n tbl dp,
  forallb line_ok ls = true -> ascending (-1) ls = true -> Permutation tbl (table_of ls 0) ->
  (forall l, In l ls -> l_num l <> n) -> n <> 65536 ->
  restore_stmt tbl dp (Some n) = (Some data_UNDEFINED_LINE_NUMBER, dp).
Proof. exact restore_stmt_missing. Qed.
Print Assumptions C22_restore_missing_keeps_pointer.

Theorem C22_restore_error_keeps_pointer : forall tbl dp arg,
  match restore_stmt tbl dp arg with
  | (None, d) => restore tbl arg = Ok d
  | (Some e, d) => d = dp
  end.
Proof. exact restore_stmt_any. Qed.
Print Assumptions C22_restore_error_keeps_pointer.

(* C22c: an empty statement (nothing or blanks: `10 DATA 1:: DATA 2`, `20 :DATA 5`) in front of statement i of any
   line of any well-formed program keeps the program well-formed and does not hide anything: READ delivers exactly
   the entries of the program without it.  (A consequence of C22_program_order, whose grammar contains empty
   statements - also as the last statement of a line, i.e. a line ending in a colon; stated here explicitly.) *)
Theorem C22_empty_statement_transparent : forall ls1 l ls2 trailer i bl,
  forallb line_ok (ls1 ++ l :: ls2) = true -> (length trailer <= 2)%nat ->
  all_blank bl = true -> (i < length (l_stmts l))%nat ->
  forallb line_ok (ls1 ++ with_empty l i bl :: ls2) = true /\
  prog_entries (ls1 ++ with_empty l i bl :: ls2) = prog_entries (ls1 ++ l :: ls2) /\
  exists its, data_items (enc_prog (ls1 ++ with_empty l i bl :: ls2) trailer) = (its, EndOfData) /\
              Forall2 item_rel (prog_entries (ls1 ++ l :: ls2)) its.
Proof. exact empty_statement_thm. Qed.
Print Assumptions C22_empty_statement_transparent.

(* the empty statement as the last statement of a line (a line ending in a colon) is well-formed *)
Theorem C22_trailing_colon_ok : forall bl, all_blank bl = true -> stmt_ok true (SOther (map LCh bl) TNone) = true.
Proof. intros bl. exact (empty_stmt_ok true bl). Qed.
Print Assumptions C22_trailing_colon_ok.

(* ---- non-vacuity ------------------------------------------------------------------------------ *)
(* 10 DATA 1 / 20 PRINT / 30 DATA x, "a,b" :DATA5   -- well-formed, ascending; READ A: READ B gives 1, then Syntax
   error in 30 (the witness of defect D22a); RESTORE 30 stands in front of x *)
Definition ex_l1 := {| l_link := (118, 18); l_lo := 10; l_hi := 0; l_stmts := [SData [] [EPlain [32] [49] []]] |}.
Definition ex_l2 := {| l_link := (124, 18); l_lo := 20; l_hi := 0; l_stmts := [SOther [LCh 145] TNone] |}.
Definition ex_l3 := {| l_link := (144, 18); l_lo := 30; l_hi := 0;
                       l_stmts := [SData [] [EPlain [32] [120] []; EQuoted [32] [97; 44; 98] [32]];
                                   SData [] [EPlain [] [53] []]] |}.
Definition ex_l4 := {| l_link := (150, 18); l_lo := 40; l_hi := 0;
                       l_stmts := [SOther [LCh 65; LCh 231; LTok 15 [58]] TNone; SData [32] [EMixedOpen [] [98] [99; 58]]] |}.
Definition ex_l5 := {| l_link := (160, 18); l_lo := 50; l_hi := 0;
                       l_stmts := [SData [] [EPlain [32] [49] []]; SOther [] TNone; SData [32] [EPlain [32] [50] []]] |}.
Definition ex_l6 := {| l_link := (170, 18); l_lo := 60; l_hi := 0;
                       l_stmts := [SOther [] TNone; SData [] [EPlain [32] [53] [32]; EPlain [32] [54] []]; SOther [] TNone] |}.
Example C22_nonvacuous_empty_statements :
  let ls := [ex_l5; ex_l6] in
  let p := enc_prog ls [] in
  let ok := fun _ : list Z => @Ok unit tt in
  let oks := fun (_ : Z) (_ : val) => @Ok unit tt in
  forallb line_ok ls = true /\ ascending (-1) ls = true /\
  enc_body ex_l5 = [132; 32; 49; 58; 58; 32; 132; 32; 50] /\
  enc_body ex_l6 = [58; 132; 32; 53; 32; 44; 32; 54; 58] /\
  map (fun it => (it_line it, it_word it)) (fst (data_items p)) = [(50, [49]); (50, [50]); (60, [53]); (60, [54])] /\
  map outcome_value (fst (read_vars ok oks p 60 0 [3; 3; 3; 3])) =
    [Some (VNum [49]); Some (VNum [50]); Some (VNum [53]); Some (VNum [54])] /\
  restore_stmt (table_of ls 0) 21 (Some 55) = (Some data_UNDEFINED_LINE_NUMBER, 21).
Proof. vm_compute. repeat split; reflexivity. Qed.

Example C22_nonvacuous :
  let ls := [ex_l1; ex_l2; ex_l3; ex_l4] in
  let p := enc_prog ls [] in
  let ok := fun _ : list Z => @Ok unit tt in
  let oks := fun (_ : Z) (_ : val) => @Ok unit tt in
  forallb line_ok ls = true /\ ascending (-1) ls = true /\
  map (fun it => (it_line it, it_str it)) (fst (data_items p))
    = [(10, [49]); (30, [120]); (30, [97; 44; 98]); (30, [53]); (40, [98; 34; 99; 58])] /\
  fst (read_vars ok oks p 60 0 [3; 7; 0]) = [Done (VNum [49]) 8; Fail data_STX 20 (Some (VNum []))] /\
  erl (table_of ls 0) 20 = 30 /\
  fst (read_stmt ok oks false false p 60 0 [3; 7; 0]) = [Done (VNum [49]) 8; Fail data_STX (-1) (Some (VNum []))] /\
  restore (table_of ls 0) (Some 30) = Ok 14 /\
  fst (read_vars ok oks p 60 14 [0; 4; 3; 0; 0]) =
    [Done (VStr [120]) 22; Done (VStr [97; 44; 98]) 30; Done (VNum [53]) 33; Done (VStr [98; 34; 99; 58]) 49;
     Fail data_OUT_OF_DATA 59 None].
Proof. vm_compute. repeat split; reflexivity. Qed.
