(* C22 - READ returns DATA items in program order.
   Only statements, `exact`, Print Assumptions and non-vacuity examples here.

   read_one / read_vars / restore : model of Interpreter.read_ / restore_ on the program byte code (model/Data.v)
   data_items p                   : the DATA entries of byte code p (one pass, statement by statement)
   data_ahead p dp ln             : the entries in front of data pointer dp
   enc_prog ls trailer            : byte code of the program with lines ls in the format
                                    00 | link(2) | num(2) | statements separated by ':' | ... | 00 00 00
   numok / setvar                 : do number conversion (C07) and variable assignment raise?  (oracles) *)
From Coq Require Import ZArith List Bool.
From PCB Require Import lib.Result lib.PyInt gen.Gen_data model.Data proofs.Data_proofs.
Import ListNotations.
Open Scope Z_scope.

(* ---- level 1: every byte code ---------------------------------------------------------------- *)

(* after RUN (and after RESTORE) the data pointer is 0 and stands in front of all entries of the program *)
Theorem C22_run_restore : forall p tbl,
  restore tbl None = Ok 0 /\ data_ahead p 0 (-1) = data_items p.
Proof. intros p tbl. split; reflexivity. Qed.
Print Assumptions C22_run_restore.

(* READ of a string variable takes the next entry and moves the pointer behind it (whatever the oracles answer) *)
Theorem C22_read_string : forall numok setvar p cur dp ln it its e,
  data_ahead p dp ln = (it :: its, e) ->
  exists dp', read_one numok setvar p cur dp 0
              = lift_unit (setvar 0 (VStr (it_str it))) (cur - 1) (Done (VStr (it_str it)) dp')
              /\ data_ahead p dp' (it_line it) = (its, e).
Proof. exact read_str_step. Qed.
Print Assumptions C22_read_string.

(* READ of a numeric variable from an entry that reads as a number *)
Theorem C22_read_number : forall numok setvar p cur dp ln it its e tgt,
  data_ahead p dp ln = (it :: its, e) -> tgt <> 0 -> it_numeric it = true ->
  exists q dp', read_one numok setvar p cur dp tgt
                = lift_unit (numok (it_word it)) q
                    (lift_unit (setvar tgt (VNum (it_word it))) (cur - 1) (Done (VNum (it_word it)) dp'))
                /\ data_ahead p dp' (it_line it) = (its, e).
Proof. exact read_num_step. Qed.
Print Assumptions C22_read_number.

(* the k-th READ after RUN / RESTORE returns entry k: a READ statement with variables ts, started with the data
   pointer in front of the entries its, assigns entry i to variable i and leaves the pointer in front of the
   remaining entries (conversions and assignments succeeding; each numeric variable meeting a numeric entry) *)
Theorem C22_sequence : forall numok setvar,
  (forall w, numok w = Ok tt) -> (forall t v, setvar t v = Ok tt) ->
  forall p cur dp ln its e ts,
  data_ahead p dp ln = (its, e) -> (length ts <= length its)%nat ->
  forallb (fun ti => readable (fst ti) (snd ti)) (combine ts its) = true ->
  exists os dp' ln',
    read_vars numok setvar p cur dp ts = (os, dp') /\
    map outcome_value os = map (fun ti => Some (value_for (fst ti) (snd ti))) (combine ts its) /\
    data_ahead p dp' ln' = (skipn (length ts) its, e).
Proof. exact sequence_from. Qed.
Print Assumptions C22_sequence.

(* Out of DATA exactly when the entries are exhausted; the error is raised at the READ statement *)
Theorem C22_out_of_data : forall numok setvar,
  (forall w, numok w = Ok tt) -> (forall t v, setvar t v = Ok tt) ->
  forall p cur dp ln its e tgt,
  data_ahead p dp ln = (its, e) ->
  (read_one numok setvar p cur dp tgt = Fail data_OUT_OF_DATA (cur - 1) None <-> its = [] /\ e = EndOfData).
Proof. exact out_of_data_iff. Qed.
Print Assumptions C22_out_of_data.

(* a non-numeric entry read into a numeric variable (after the entries before it have been read):
   the partial value is assigned, then Syntax error with the program stream at the offending character of the
   entry; the data pointer stays in front of that entry *)
Theorem C22_syntax_error : forall numok setvar,
  (forall w, numok w = Ok tt) -> (forall t v, setvar t v = Ok tt) ->
  forall p cur dp ln its e ts tgt it,
  data_ahead p dp ln = (its, e) -> (length ts <= length its)%nat ->
  forallb (fun ti => readable (fst ti) (snd ti)) (combine ts its) = true ->
  nth_error its (length ts) = Some it -> readable tgt it = false ->
  exists os dp' ln',
    read_vars numok setvar p cur dp (ts ++ [tgt]) =
      (os ++ [Fail data_STX (pos_of p (it_rest it) - 1) (Some (VNum (it_word it)))], dp') /\
    map outcome_value os = map (fun ti => Some (value_for (fst ti) (snd ti))) (combine ts its) /\
    data_ahead p dp' ln' = (skipn (length ts) its, e).
Proof. exact syntax_error_after. Qed.
Print Assumptions C22_syntax_error.

(* an entry that is malformed even as a string (text behind a closing quote) stops every READ with Syntax error *)
Theorem C22_malformed_entry : forall numok setvar p cur dp ln l w nrest srest tgt,
  data_ahead p dp ln = ([], BadEntry l w nrest srest) ->
  (tgt = 0 -> read_one numok setvar p cur dp tgt = Fail data_STX (pos_of p srest - 1) None) /\
  (tgt <> 0 -> exists q, read_one numok setvar p cur dp tgt
                         = lift_unit (numok w) q
                             (lift_unit (setvar tgt (VNum w)) (cur - 1)
                                (Fail data_STX (pos_of p nrest - 1) (Some (VNum w))))).
Proof. exact read_bad_entry. Qed.
Print Assumptions C22_malformed_entry.

(* ---- level 2: programs in the modelled byte format ------------------------------------------- *)

(* data_items is the concatenation of the entries of the DATA statements in line and statement order, each with
   the number of its line; string value as written (quotes, blanks), numeric reading of digit strings / empty /
   non-numeric entries as item_rel says *)
Theorem C22_program_order : forall ls trailer,
  forallb line_ok ls = true -> (length trailer <= 2)%nat ->
  exists its, data_items (enc_prog ls trailer) = (its, EndOfData) /\ Forall2 item_rel (prog_entries ls) its.
Proof.
  intros ls trailer H1 H2. destruct (prog_items ls trailer (-1) H1 H2) as [its [Ha [Hb _]]]. eauto.
Qed.
Print Assumptions C22_program_order.

(* RESTORE n: the line must exist; the pointer goes to the start of line n and stands in front of exactly the
   entries of line n and the lines behind it (a suffix of data_items) *)
Theorem C22_restore_n : forall ls1 l ls2 trailer,
  forallb line_ok (ls1 ++ l :: ls2) = true -> (length trailer <= 2)%nat -> ascending (-1) (ls1 ++ l :: ls2) = true ->
  let p := enc_prog (ls1 ++ l :: ls2) trailer in
  exists dp A B,
    restore (table_of (ls1 ++ l :: ls2) 0) (Some (l_num l)) = Ok dp /\
    fst (data_items p) = A ++ B /\
    (forall ln, data_ahead p dp ln = (B, EndOfData)) /\
    Forall2 item_rel (prog_entries ls1) A /\ Forall2 item_rel (prog_entries (l :: ls2)) B.
Proof.
  intros ls1 l ls2 trailer Hok Ht Hasc p.
  destruct (prog_items_split ls1 (l :: ls2) trailer (-1) Hok Ht) as [A [B [H1 [H2 [H3 H4]]]]].
  exists (zlen (flat_map enc_line ls1)), A, B. split.
  - rewrite restore_some, (assocz_table ls1 l ls2 0 (-1) Hasc). reflexivity.
  - split; [unfold p; rewrite data_items_ia, H1; reflexivity|]. split; [|auto].
    intros ln. change (ia ln (seek (enc_prog (ls1 ++ l :: ls2) trailer) (zlen (flat_map enc_line ls1))) = (B, EndOfData)).
    rewrite seek_line.
    rewrite (ia_prog_ln ln (-1)); [exact H2 | | exact Ht].
    rewrite forallb_app in Hok. now apply andb_true_iff in Hok as [_ ?].
Qed.
Print Assumptions C22_restore_n.

Theorem C22_restore_undefined : forall ls n,
  (forall l, In l ls -> l_num l <> n) -> n <> 65536 ->
  restore (table_of ls 0) (Some n) = Err data_UNDEFINED_LINE_NUMBER.
Proof. intros ls n H1 H2. rewrite restore_some, assocz_table_none by assumption. reflexivity. Qed.
Print Assumptions C22_restore_undefined.

(* the position of the Syntax error of C22_syntax_error lies in the line that holds the entry: ERL and the error
   message name the DATA line (lines in ascending order, Program.line_numbers consistent with the byte code) *)
Theorem C22_syntax_error_line : forall ls trailer k it,
  forallb line_ok ls = true -> (length trailer <= 2)%nat -> ascending (-1) ls = true ->
  nth_error (fst (data_items (enc_prog ls trailer))) k = Some it ->
  get_line_number (table_of ls 0) (pos_of (enc_prog ls trailer) (it_rest it) - 1) = it_line it.
Proof.
  intros ls trailer k it Hok Ht Hasc Hn.
  destruct (prog_items ls trailer (-1) Hok Ht) as [its [Ha [_ Hloc]]].
  rewrite data_items_ia, Ha in Hn. simpl in Hn. apply nth_error_In in Hn.
  rewrite Forall_forall in Hloc. apply located_line; auto.
Qed.
Print Assumptions C22_syntax_error_line.

(* ---- non-vacuity ------------------------------------------------------------------------------ *)
(* 10 DATA 1 / 20 PRINT / 30 DATA x, "a,b" :DATA5   -- well-formed, ascending; READ A: READ B gives 1, then Syntax
   error in 30 (the witness of defect D22a); RESTORE 30 stands in front of x *)
Definition ex_l1 := {| l_link := (118, 18); l_lo := 10; l_hi := 0; l_stmts := [SData [] [EPlain [32] [49] []]] |}.
Definition ex_l2 := {| l_link := (124, 18); l_lo := 20; l_hi := 0; l_stmts := [SOther [LCh 145] TNone] |}.
Definition ex_l3 := {| l_link := (144, 18); l_lo := 30; l_hi := 0;
                       l_stmts := [SData [] [EPlain [32] [120] []; EQuoted [32] [97; 44; 98] [32]];
                                   SData [] [EPlain [] [53] []]] |}.
Example C22_nonvacuous :
  let ls := [ex_l1; ex_l2; ex_l3] in
  let p := enc_prog ls [] in
  let ok := fun _ : list Z => @Ok unit tt in
  let oks := fun (_ : Z) (_ : val) => @Ok unit tt in
  forallb line_ok ls = true /\ ascending (-1) ls = true /\
  map (fun it => (it_line it, it_str it)) (fst (data_items p)) = [(10, [49]); (30, [120]); (30, [97; 44; 98]); (30, [53])] /\
  fst (read_vars ok oks p 40 0 [3; 3]) = [Done (VNum [49]) 8; Fail data_STX 20 (Some (VNum []))] /\
  get_line_number (table_of ls 0) 20 = 30 /\
  restore (table_of ls 0) (Some 30) = Ok 14 /\
  fst (read_vars ok oks p 40 14 [0; 0; 3; 0]) =
    [Done (VStr [120]) 22; Done (VStr [97; 44; 98]) 30; Done (VNum [53]) 33; Fail data_OUT_OF_DATA 39 None].
Proof. vm_compute. repeat split; reflexivity. Qed.
