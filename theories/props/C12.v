(* C12 - Array subscripts address distinct elements within declared bounds.
   Only statements, `exact`, Print Assumptions and non-vacuity examples here.
   arrays_index / arrays_flat_length / arrays_check_subscripts / size_bytes are REGENERATED from
   pcbasic/basic/memory/arrays.py on every run (gen/Gen_arrays.v); allocate / check_dim / erase_ /
   option_base_ / elem_get / elem_set are the hand model (model/Arrays.v) tied by correspondence. *)
From Coq Require Import ZArith List Lia.
From PCB Require Import lib.Result lib.PyInt gen.Gen_arrays model.Arrays model.ArraySpec.
From PCB Require Import proofs.Arrays_index_proofs proofs.Arrays_list_proofs proofs.Arrays_proofs
  proofs.Arrays_rules_proofs proofs.Arrays_history_proofs proofs.ArraySpec_proofs.
Import ListNotations.
Open Scope Z_scope.

(* in_bounds b dims idx : same rank and b <= i_k <= d_k for every k (any rank, any bounds) *)

(* the regenerated Arrays.index is injective on in-bounds tuples *)
Theorem C12_index_injective : forall b dims i j, in_bounds b dims i -> in_bounds b dims j ->
  exists ki kj, arrays_index b i dims = Ok ki /\ arrays_index b j dims = Ok kj /\ (ki = kj -> i = j).
Proof. exact thm_index_injective. Qed.
Print Assumptions C12_index_injective.

(* ... and lands inside [0, flat_length) *)
Theorem C12_index_range : forall b dims idx, in_bounds b dims idx ->
  exists k n, arrays_index b idx dims = Ok k /\ arrays_flat_length b dims = Ok n /\ 0 <= k < n.
Proof. exact thm_index_range. Qed.
Print Assumptions C12_index_range.

(* hence the byte slices [k*size, (k+1)*size) of distinct tuples are disjoint and inside the buffer *)
Theorem C12_slices_disjoint : forall b dims i j sz, in_bounds b dims i -> in_bounds b dims j -> i <> j ->
  0 < sz ->
  exists ki kj n, arrays_index b i dims = Ok ki /\ arrays_index b j dims = Ok kj /\
    arrays_flat_length b dims = Ok n /\
    0 <= ki * sz /\ (ki + 1) * sz <= n * sz /\ 0 <= kj * sz /\ (kj + 1) * sz <= n * sz /\
    ((ki + 1) * sz <= kj * sz \/ (kj + 1) * sz <= ki * sz).
Proof. exact thm_slices_disjoint. Qed.
Print Assumptions C12_slices_disjoint.

(* error classification of the regenerated subscript test of check_dim:
   wrong rank -> Subscript out of range; otherwise the FIRST offending subscript decides (negative ->
   Illegal function call, else below base / above bound -> Subscript out of range); Ok iff in bounds *)
Theorem C12_errors : forall b idx dims, 0 <= b ->
  (length idx <> length dims -> arrays_check_subscripts b idx dims = Err err_SUBSCRIPT_OUT_OF_RANGE) /\
  (length idx = length dims -> scan b idx dims (arrays_check_subscripts b idx dims)) /\
  (arrays_check_subscripts b idx dims = Ok tt <-> in_bounds b dims idx).
Proof. exact thm_errors. Qed.
Print Assumptions C12_errors.

(* on a declared array a failing access changes nothing; on an undeclared one the only state change is
   the auto-dimensioning the property prescribes (C12_autodim) *)
Theorem C12_errors_state : forall st free n idx a, lookup (a_list st) n = Some a ->
  fst (check_dim st free n idx) = st /\ fst (elem_get st free n idx) = st /\
  (forall v, snd (elem_set st free n idx v) <> Ok tt -> fst (elem_set st free n idx v) = st).
Proof. exact thm_errors_state. Qed.
Print Assumptions C12_errors_state.

(* every way DIM can end, in the order the code tests (alloc_result lists the exact conditions) *)
Theorem C12_allocate_cases : forall st free n dims,
  alloc_result st free n dims (allocate st free n dims).
Proof. exact allocate_result. Qed.
Print Assumptions C12_allocate_cases.

(* first use of an undeclared array dimensions it 0/1..10 in every dimension - even when that very
   access is out of range - and its elements read as zero *)
Theorem C12_autodim : forall st free n idx, AInv st -> sigil_ok n -> base_of st <= 10 ->
  lookup (a_list st) n = None -> idx <> [] ->
  msize (base_of st) (new_arr (defaulted st) n (repeat 10 (length idx))) < free - a_cur st ->
  let st1 := push (defaulted st) (new_arr (defaulted st) n (repeat 10 (length idx))) in
  fst (check_dim st free n idx) = st1 /\
  lookup (a_list st1) n = Some (new_arr (defaulted st) n (repeat 10 (length idx))) /\
  (in_bounds (base_of st) (repeat 10 (length idx)) idx ->
   elem_get st free n idx = (st1, Ok (zeros (size_bytes n)))).
Proof. exact autodim. Qed.
Print Assumptions C12_autodim.

Theorem C12_redim : forall st free n dims a, dims <> [] -> lookup (a_list st) n = Some a ->
  allocate st free n dims = (st, Err err_DUPLICATE_DEFINITION).
Proof. exact redim. Qed.
Print Assumptions C12_redim.

(* ERASE removes the array, so that DIM no longer answers Duplicate definition but takes the
   ar_neg / ar_below / ar_oom / ar_ok branches of C12_allocate_cases *)
Theorem C12_erase_redim : forall st n a, AInv st -> lookup (a_list st) n = Some a ->
  snd (erase_ st [n]) = Ok tt /\ lookup (a_list (fst (erase_ st [n]))) n = None /\
  AInv (fst (erase_ st [n])).
Proof. exact erase_removes. Qed.
Print Assumptions C12_erase_redim.

(* OPTION BASE: accepted when unset or equal, Duplicate definition otherwise; DIM sets base 0
   implicitly iff unset; erasing the last array unsets an implicit base and keeps an explicit one *)
Theorem C12_option_base : forall st b,
  (a_base st = None -> option_base_ st b = (mkA (a_list st) (Some b) (a_bydim st) (a_cur st), Ok tt)) /\
  (a_base st = Some b -> option_base_ st b = (mkA (a_list st) (Some b) (a_bydim st) (a_cur st), Ok tt)) /\
  (forall b0, a_base st = Some b0 -> b0 <> b -> option_base_ st b = (st, Err err_DUPLICATE_DEFINITION)).
Proof. exact option_base_cases. Qed.
Print Assumptions C12_option_base.

Theorem C12_implicit_base : forall st free n dims a,
  (snd (allocate st free n dims) = Ok tt -> dims <> [] ->
   a_base (fst (allocate st free n dims)) = Some (base_of st) /\
   a_bydim (fst (allocate st free n dims)) = match a_base st with None => true | Some _ => a_bydim st end) /\
  (AInv st -> a_list st = [a] -> a_name a = n ->
   a_base (fst (erase_ st [n])) = if a_bydim st then None else a_base st).
Proof. exact thm_implicit_base. Qed.
Print Assumptions C12_implicit_base.

(* the table invariant holds after every history (names unique, bounds >= base, buffer length =
   flat_length * size, contiguous records) *)
Theorem C12_invariant : forall ops, Forall aop_ok ops -> AInv (afinal a_init ops).
Proof. intros ops H. exact (afinal_inv ops a_init AInv_init H). Qed.
Print Assumptions C12_invariant.

(* read-after-write over arbitrary histories: the run on flat byte buffers (arun) produces exactly the
   outputs of the reference run (rrun) in which element values live in a finite map keyed by
   (name, subscript tuple): a read returns the last value written to that tuple since the array was
   dimensioned, zero bytes if none; writes never change any other element *)
Theorem C12_read_after_write : forall ops, Forall aop_ok ops -> arun a_init ops = rrun a_init [] ops.
Proof. intros ops H. exact (run_refines ops a_init [] AInv_init agrees_init H). Qed.
Print Assumptions C12_read_after_write.

(* ... and against an INDEPENDENT specification (model/ArraySpec.v: shapes, OPTION BASE state, error rules,
   memory need by plain arithmetic, values in the finite map; it shares no definition with the model or
   the regenerated code): on every history the implementation model produces exactly the spec's outputs,
   errors included.  aop_ok2 = aop_ok + assigned values have the size of the element type. *)
Theorem C12_meets_spec : forall ops, Forall aop_ok2 ops -> arun a_init ops = srun sp_init [] ops.
Proof. exact impl_meets_spec. Qed.
Print Assumptions C12_meets_spec.

(* statements that perform several operations in order and stop at the first error (DIM a(..), b(..): every
   array is allocated before the bounds of the next one - which may read elements of the earlier ones -
   are evaluated; an evaluation error ends the statement and the arrays before it stay dimensioned):
   the implementation model follows the specification on every history of such statements *)
Theorem C12_statements_meet_spec : forall xs, Forall xop_ok xs ->
  xrun a_init xs = sxrun sp_init [] xs /\ AInv (xfinal a_init xs).
Proof. intros xs F. exact (statements_meet_spec xs a_init [] sp_init AInv_init agrees_init Sim_init F). Qed.
Print Assumptions C12_statements_meet_spec.

(* non-vacuity: a concrete history (DIM two arrays, write, read, out of range, ERASE, re-DIM) *)
Example C12_nonvacuous :
  let A := [65; 37] in let B := [66; 33] in
  let ops := [ODim 60000 [(A, [2; 3]); (B, [4])]; OSet 60000 A [1; 2] [7; 1]; OSet 60000 A [2; 1] [9; 9];
              OGet 60000 A [1; 2]; OGet 60000 A [2; 1]; OGet 60000 A [3; 0]; OGet 60000 A [0; -1];
              OErase [A]; ODim 60000 [(A, [1])]; OGet 60000 A [1]] in
  Forall aop_ok ops /\
  arun a_init ops = [Ok []; Ok []; Ok []; Ok [7; 1]; Ok [9; 9]; Err 9; Err 5; Ok []; Ok []; Ok [0; 0]] /\
  in_bounds 0 [2; 3] [1; 2] /\ in_bounds 0 [2; 3] [2; 1].
Proof.
  cbv zeta.
  assert (SA : sigil_ok [65; 37]) by (unfold sigil_ok; simpl; tauto).
  assert (SB : sigil_ok [66; 33]) by (unfold sigil_ok; simpl; tauto).
  assert (BY : forall a b, 0 <= a < 256 -> 0 <= b < 256 -> bytes_ok [a; b])
    by (intros; repeat apply Forall_cons; try apply Forall_nil; assumption).
  split.
  - repeat apply Forall_cons; try apply Forall_nil; simpl; auto;
      try (repeat apply Forall_cons; try apply Forall_nil; assumption);
      try (split; [assumption | apply BY; lia]).
  - split; [vm_compute; reflexivity|]. unfold in_bounds. split; repeat apply Forall2_cons; try apply Forall2_nil; lia.
Qed.
