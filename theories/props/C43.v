(* C43 - Session API values round-trip.
   Only statements, `exact` (or a 1-2 line assembly), Print Assumptions and non-vacuity examples here.

   Model: model/Api.v (hand model of api.py / implementation.py / values / numbers / arrays.from_list, to_list, tied to
   /repo by correspondence on real Sessions; flat array positions by the REGENERATED gen.Gen_arrays.arrays_index;
   codepage tables REGENERATED, model/Codepage.v of C41).  E : env carries the codepage conversions and
   Float.from_value; st is ANY session state; names are any byte strings with the stated shape
   (scalar_name: no parenthesis, explicit sigil; array_name: "base(" ++ anything).

   PARTIAL (float clause): C43_float_partial is the clause derived from a nearest-or-adjacent contract on
   Float.from_value (a hypothesis); C43_float_model discharges the contract for the executable model of the
   fixed from_value (fixes/D43a.patch), whose Python float primitives (frexp, ldexp, floor) are modelled as exact
   rational operations - modelled, not verified; tied by correspondence only. *)
From Coq Require Import String ZArith List Bool Lia.
From PCB Require Import lib.Result lib.PyInt lib.Harness gen.Gen_arrays gen.Gen_codepages gen.Gen_codepages_dbcs.
From PCB Require Import model.Codepage model.Api model.Api_env.
From PCB Require Import proofs.Arrays_index_proofs proofs.Codepage_tables_proofs.
From PCB Require Import proofs.Api_proofs proofs.Api_float_proofs proofs.Api_list_proofs proofs.Api_str_proofs.
Import ListNotations.
Open Scope Z_scope.

(* ------------------------------------------------------------------ integers *)

(* every n in -32768..32767: set_variable succeeds, get_variable and evaluate return n *)
Theorem C43_int : forall E st name n, scalar_name name sg_int -> in16 n ->
  let st' := fst (set_variable E st name (PInt n)) in
  snd (set_variable E st name (PInt n)) = Ok tt /\
  get_variable E st' name 0 = Ok (PInt n) /\
  evaluate st' name [] = (st', Ok (PInt n)).
Proof. exact int_roundtrip. Qed.
Print Assumptions C43_int.

(* outside the range: BASICError Overflow escapes from set_variable, nothing is stored *)
Theorem C43_int_overflow : forall E st name n, scalar_name name sg_int -> ~ in16 n ->
  set_variable E st name (PInt n) = (st, Err err_OVERFLOW).
Proof. exact int_overflow. Qed.
Print Assumptions C43_int_overflow.

(* booleans are stored the BASIC way: True -> -1, False -> 0 *)
Theorem C43_bool : forall E st name b, scalar_name name sg_int ->
  let st' := fst (set_variable E st name (PBool b)) in
  snd (set_variable E st name (PBool b)) = Ok tt /\
  get_variable E st' name 0 = Ok (PInt (if b then -1 else 0)) /\
  evaluate st' name [] = (st', Ok (PInt (if b then -1 else 0))).
Proof. exact bool_int_roundtrip. Qed.
Print Assumptions C43_bool.

(* ------------------------------------------------------------------ strings *)

(* byte strings (what get_variable returns for strings): every string of at most 255 bytes comes back *)
Theorem C43_str_bytes : forall E st name s, scalar_name name sg_str -> zlen s <= 255 ->
  let st' := fst (set_variable E st name (PBytes s)) in
  snd (set_variable E st name (PBytes s)) = Ok tt /\
  get_variable E st' name 0 = Ok (PBytes s) /\
  evaluate st' name [] = (st', Ok (PBytes s)).
Proof. exact bytes_roundtrip. Qed.
Print Assumptions C43_str_bytes.

Theorem C43_str_too_long : forall E st name s, scalar_name name sg_str -> 255 < zlen s ->
  set_variable E st name (PBytes s) = (st, Err err_STRING_TOO_LONG).
Proof. exact bytes_too_long. Qed.
Print Assumptions C43_str_too_long.

(* unicode: every character (cluster) of the repertoire of every shipped codepage is stored as codepage
   bytes b, get_variable / evaluate return b, and the page's converter turns b back into the character (C41) *)
Theorem C43_str_char : forall t st name u, In t all_codepages -> In u (repertoire t) -> scalar_name name sg_str ->
  exists b,
    let E := env_of_tables t in
    let st' := fst (set_variable E st name (PUni u)) in
    snd (set_variable E st name (PUni u)) = Ok tt /\
    get_variable E st' name 0 = Ok (PBytes b) /\
    evaluate st' name [] = (st', Ok (PBytes b)) /\
    bytes_to_unicode t b = u.
Proof. exact char_roundtrip. Qed.
Print Assumptions C43_str_char.

(* whole strings (up to 255 characters) over the repertoire of a single-byte page without multi-code-point clusters *)
Theorem C43_str_string : forall t st name s, In t all_codepages -> simple_page t -> Forall (rep_char t) s ->
  (List.length s <= 255)%nat -> scalar_name name sg_str ->
  exists b,
    let E := env_of_tables t in
    let st' := fst (set_variable E st name (PUni s)) in
    snd (set_variable E st name (PUni s)) = Ok tt /\
    get_variable E st' name 0 = Ok (PBytes b) /\
    evaluate st' name [] = (st', Ok (PBytes b)) /\
    bytes_to_unicode t b = s /\ List.length b = List.length s.
Proof. exact string_roundtrip. Qed.
Print Assumptions C43_str_string.

(* ------------------------------------------------------------------ arrays <-> nested lists *)

(* nested list of constant shape sh (any rank >= 1, all sizes >= 1) into an array dimensioned to that shape
   (bounds n_k - 1 + base), any OPTION BASE b >= 0 (BASIC has 0 and 1): set_variable succeeds and get_variable
   returns the same nested list with every leaf x replaced by to_value (from_value x) *)
Theorem C43_list : forall E st name base sg b sh v v' elems,
  array_name name base sg -> 0 <= b -> s_base st = Some b ->
  alookup (s_arrays st) base = Some (mkArr (dims_of b sh) elems) ->
  Z.of_nat (length elems) = radix_prod b (dims_of b sh) ->
  sh <> [] -> to_basic E v = Ok v' -> shaped E base sh v' ->
  snd (set_variable E st name v) = Ok tt /\
  get_variable E (fst (set_variable E st name v)) name 0 = Ok (rt E base sh v').
Proof. exact list_roundtrip. Qed.
Print Assumptions C43_list.

(* integer arrays: to_list (from_list l) = l for every nested list of integers -32768..32767 *)
Theorem C43_list_int : forall E st name base b sh v elems,
  array_name name base sg_int -> 0 <= b -> s_base st = Some b ->
  alookup (s_arrays st) base = Some (mkArr (dims_of b sh) elems) ->
  Z.of_nat (length elems) = radix_prod b (dims_of b sh) ->
  sh <> [] -> nested int_leaf sh v ->
  snd (set_variable E st name v) = Ok tt /\
  get_variable E (fst (set_variable E st name v)) name 0 = Ok v.
Proof.
  intros E st name base b sh v elems Hn. apply (list_roundtrip_faithful E st name base sg_int b sh v elems int_leaf);
    [apply int_leaf_faithful; apply Hn | exact Hn].
Qed.
Print Assumptions C43_list_int.

(* string arrays: the same for byte strings of at most 255 bytes *)
Theorem C43_list_bytes : forall E st name base b sh v elems,
  array_name name base sg_str -> 0 <= b -> s_base st = Some b ->
  alookup (s_arrays st) base = Some (mkArr (dims_of b sh) elems) ->
  Z.of_nat (length elems) = radix_prod b (dims_of b sh) ->
  sh <> [] -> nested bytes_leaf sh v ->
  snd (set_variable E st name v) = Ok tt /\
  get_variable E (fst (set_variable E st name v)) name 0 = Ok v.
Proof.
  intros E st name base b sh v elems Hn. apply (list_roundtrip_faithful E st name base sg_str b sh v elems bytes_leaf);
    [apply bytes_leaf_faithful; apply Hn | exact Hn].
Qed.
Print Assumptions C43_list_bytes.

(* DIM on a session that does not know the array establishes the hypotheses of C43_list *)
Theorem C43_dim : forall st base b dims, 0 <= b -> dims <> [] -> dims_ok b dims ->
  (s_base st = Some b \/ (s_base st = None /\ b = 0)) -> alookup (s_arrays st) base = None ->
  exists st', allocate st base dims = (st', Ok tt) /\ s_base st' = Some b /\
    exists elems, alookup (s_arrays st') base = Some (mkArr dims elems) /\
                  Z.of_nat (length elems) = radix_prod b dims /\ s_scalars st' = s_scalars st.
Proof. exact dim_establishes. Qed.
Print Assumptions C43_dim.

(* ------------------------------------------------------------------ evaluate *)

(* evaluate(name) returns what get_variable(name) returns, in every state *)
Theorem C43_evaluate_agrees : forall E st name sg, scalar_name name sg ->
  exists v, get_variable E st name 0 = Ok v /\ evaluate st name [] = (st, Ok v).
Proof. exact evaluate_agrees. Qed.
Print Assumptions C43_evaluate_agrees.

(* ------------------------------------------------------------------ floats *)

(* the float clause (for one environment): a non-zero Python float m * 2^e (|m| < 2^53) whose exponent is in the
   range of the format is stored as a value of the same sign whose mantissa is within one unit in the last
   place of the variable's type, and get_variable / evaluate return exactly that stored value *)
Definition C43_float_statement : env -> Prop := float_statement.

(* PARTIAL: from a nearest-or-adjacent contract on Float.from_value *)
Theorem C43_float_partial : forall E, float_contract E -> C43_float_statement E.
Proof. exact float_partial_thm. Qed.
Print Assumptions C43_float_partial.

(* the executable model of the fixed Float.from_value satisfies the contract *)
Theorem C43_float_model : forall E, e_fv E = mbf_from_value -> C43_float_statement E.
Proof. exact float_model_thm. Qed.
Print Assumptions C43_float_model.

(* ... and more: double variables return every Python float in range exactly ... *)
Theorem C43_float_double_exact : forall E st name m e, e_fv E = mbf_from_value -> scalar_name name sg_dbl ->
  m <> 0 -> Z.abs m < 2 ^ 53 -> 1 <= e + bitlen (Z.abs m) + 128 <= 255 ->
  let st' := fst (set_variable E st name (PFloat m e)) in
  snd (set_variable E st name (PFloat m e)) = Ok tt /\
  get_variable E st' name 0 = Ok (mkfloat m e) /\ evaluate st' name [] = (st', Ok (mkfloat m e)).
Proof.
  intros E st name m e HE Hn Hm Hb Hr.
  pose proof (float_model_set_get E st name sg_dbl m e HE Hn (or_intror eq_refl) Hm) as H. cbv zeta in H.
  change (fmt_of sg_dbl) with Fdbl in H. rewrite double_roundtrip_exact in H by assumption. exact H.
Qed.
Print Assumptions C43_float_double_exact.

(* ... single variables return every single-precision number (24 significant bits) exactly ... *)
Theorem C43_float_single_exact : forall E st name m e, e_fv E = mbf_from_value -> scalar_name name sg_sng ->
  m <> 0 -> Z.abs m < 2 ^ 24 -> 1 <= e + bitlen (Z.abs m) + 128 <= 255 ->
  let st' := fst (set_variable E st name (PFloat m e)) in
  snd (set_variable E st name (PFloat m e)) = Ok tt /\
  get_variable E st' name 0 = Ok (mkfloat m e) /\ evaluate st' name [] = (st', Ok (mkfloat m e)).
Proof.
  intros E st name m e HE Hn Hm Hb Hr.
  pose proof (float_model_set_get E st name sg_sng m e HE Hn (or_introl eq_refl) Hm) as H. cbv zeta in H.
  change (fmt_of sg_sng) with Fsng in H. rewrite single_roundtrip_exact in H by assumption. exact H.
Qed.
Print Assumptions C43_float_single_exact.

(* ... and any other float in range comes back as the NEAREST single: sign * man * 2^(e + L - 24) with
   2 * |man * 2^(L-24) - |m|| <= 2^(L-24), L = number of bits of |m| *)
Theorem C43_float_single_nearest : forall E st name m e, e_fv E = mbf_from_value -> scalar_name name sg_sng ->
  m <> 0 -> in_range Fsng m e ->
  let L := bitlen (Z.abs m) in
  let man := mbf_round_man Fsng (Z.abs m) in
  let r := mkfloat ((if m <? 0 then -1 else 1) * man) (e + L - 24) in
  let st' := fst (set_variable E st name (PFloat m e)) in
  (snd (set_variable E st name (PFloat m e)) = Ok tt /\
   get_variable E st' name 0 = Ok r /\ evaluate st' name [] = (st', Ok r)) /\
  (24 < L -> 2 * Z.abs (man * 2 ^ (L - 24) - Z.abs m) <= 2 ^ (L - 24)).
Proof.
  intros E st name m e HE Hn Hm Hr. cbv zeta. split.
  - pose proof (float_model_set_get E st name sg_sng m e HE Hn (or_introl eq_refl) Hm) as H. cbv zeta in H.
    change (fmt_of sg_sng) with Fsng in H. rewrite single_roundtrip_value in H by assumption. exact H.
  - exact (proj2 (model_near_single m e Hm Hr)).
Qed.
Print Assumptions C43_float_single_nearest.

(* ------------------------------------------------------------------ Python ints into float variables *)

(* an int of at most 24 bits (single) / 53 bits (double) - in particular True -> -1 - comes back as exactly that
   number from a float variable, for every int and every state *)
Theorem C43_int_into_float_exact : forall E st name sg n, e_fv E = mbf_from_value -> scalar_name name sg ->
  (sg = sg_sng /\ Z.abs n < 2 ^ 24) \/ (sg = sg_dbl /\ Z.abs n < 2 ^ 53) ->
  let st' := fst (set_variable E st name (PInt n)) in
  snd (set_variable E st name (PInt n)) = Ok tt /\
  get_variable E st' name 0 = Ok (mkfloat n 0) /\ evaluate st' name [] = (st', Ok (mkfloat n 0)).
Proof.
  intros E st name sg n HE Hn Hc.
  assert (Hs : sg_fmt_name sg) by (destruct Hc as [[-> _]|[-> _]]; [left | right]; reflexivity).
  destruct (Z.eq_dec n 0) as [->|Hz]; [exact (int_float_zero E st name sg HE Hn Hs)|].
  assert (Hb : Z.abs n < 2 ^ 53) by (destruct Hc as [[_ H]|[_ H]]; [assert (2 ^ 24 < 2 ^ 53) by (apply Z.pow_lt_mono_r; lia) |]; lia).
  assert (Ha : 0 < Z.abs n) by lia.
  pose proof (int_float_set_get E st name sg n HE Hn Hs Hz Hb) as H. cbv zeta in H |- *.
  destruct Hc as [[-> Hc]|[-> Hc]].
  - change (fmt_of sg_sng) with Fsng in H. rewrite single_roundtrip_exact in H; [exact H | exact Hz | exact Hc|].
    pose proof (bitlen_le _ 24 Ha ltac:(lia) Hc). destruct (bitlen_spec _ Ha) as (B1 & _). lia.
  - change (fmt_of sg_dbl) with Fdbl in H. rewrite double_roundtrip_exact in H; [exact H | exact Hz | exact Hc|].
    pose proof (bitlen_le _ 53 Ha ltac:(lia) Hc). destruct (bitlen_spec _ Ha) as (B1 & _). lia.
Qed.
Print Assumptions C43_int_into_float_exact.

(* an int WIDER than the single mantissa (up to 53 bits) is not truncated but rounded to the nearest single:
   sign * man * 2^(L - 24) with 2 * |man * 2^(L-24) - |n|| <= 2^(L-24), L = number of bits of |n| *)
Theorem C43_int_into_single_nearest : forall E st name n, e_fv E = mbf_from_value -> scalar_name name sg_sng ->
  n <> 0 -> Z.abs n < 2 ^ 53 ->
  let L := bitlen (Z.abs n) in
  let man := mbf_round_man Fsng (Z.abs n) in
  let r := mkfloat ((if n <? 0 then -1 else 1) * man) (0 + L - 24) in
  let st' := fst (set_variable E st name (PInt n)) in
  (snd (set_variable E st name (PInt n)) = Ok tt /\
   get_variable E st' name 0 = Ok r /\ evaluate st' name [] = (st', Ok r)) /\
  (24 < L -> 2 * Z.abs (man * 2 ^ (L - 24) - Z.abs n) <= 2 ^ (L - 24)).
Proof.
  intros E st name n HE Hn Hz Hb. cbv zeta. pose proof (int_in_range_single n Hz Hb) as Hr. split.
  - pose proof (int_float_set_get E st name sg_sng n HE Hn (or_introl eq_refl) Hz Hb) as H. cbv zeta in H.
    change (fmt_of sg_sng) with Fsng in H. rewrite single_roundtrip_value in H by assumption. exact H.
  - exact (proj2 (model_near_single n 0 Hz Hr)).
Qed.
Print Assumptions C43_int_into_single_nearest.

(* ------------------------------------------------------------------ histories *)

(* the round trips hold after ANY history of API calls and BASIC-side changes (LET, CLEAR / NEW / RUN / storing a
   program line, DIM, OPTION BASE, ...), in particular when the same value is assigned again after BASIC changed
   or cleared the variable: the theorems above are for every state, here spelled out for the reachable ones *)
Theorem C43_after_history : forall E ops name,
  let st := final E st_init ops in
  (forall n, scalar_name name sg_int -> in16 n ->
     let st' := fst (set_variable E st name (PInt n)) in
     snd (set_variable E st name (PInt n)) = Ok tt /\ get_variable E st' name 0 = Ok (PInt n) /\
     evaluate st' name [] = (st', Ok (PInt n))) /\
  (forall s, scalar_name name sg_str -> zlen s <= 255 ->
     let st' := fst (set_variable E st name (PBytes s)) in
     snd (set_variable E st name (PBytes s)) = Ok tt /\ get_variable E st' name 0 = Ok (PBytes s) /\
     evaluate st' name [] = (st', Ok (PBytes s))) /\
  (e_fv E = mbf_from_value -> float_statement E).
Proof.
  intros E ops name st. split; [intros n; apply int_roundtrip|]. split; [intros s; apply bytes_roundtrip|].
  apply float_model_thm.
Qed.
Print Assumptions C43_after_history.

(* ------------------------------------------------------------------ non-vacuity *)

(* names, pages, and a concrete session: OPTION BASE 1, DIM A%(2,3), a 2x3 list, read back, one element evaluated,
   a bool list (True -> -1), 0.7 into a single (nearest single 0xB33333 * 2^-24) and a double (exact), a string
   with a non-repertoire character (dropped) *)
Example C43_nonvacuous :
  scalar_name [97; 37] sg_int /\ array_name [97; 37; 40; 41] [65; 37] sg_int /\
  In (get_codepage "437") all_codepages /\ simple_page (get_codepage "437") /\
  rep_char (get_codepage "437") 233 /\
  in_range Fsng 3152519739159347 (-52) /\ float_contract (env_of "437") /\
  nested int_leaf [2; 3]%nat (PList [PList [PInt 1; PInt 2; PInt 3]; PList [PInt 4; PInt 5; PInt (-32768)]]) /\
  run (env_of "437") st_init
    [OBase 1; ODim [65; 37] [2; 3];
     OSet [65; 37; 40; 41] (PList [PList [PInt 1; PInt 2; PInt 3]; PList [PInt 4; PInt 5; PInt (-32768)]]);
     OGet [65; 37; 40; 41] 0; OEval [65; 37] [2; 1];
     OSet [66; 37; 40; 41] (PList [PBool true; PBool false]); OEval [66; 37] [1];
     OSet [88; 33] (PFloat 3152519739159347 (-52)); OGet [88; 33] 0;
     OSet [88; 35] (PFloat 3152519739159347 (-52)); OGet [88; 35] 0;
     OSet [83; 36] (PUni [97; 233; 8364]); OGet [83; 36] 0; OGet [83; 36] 5]
  = [1; 0; 1; 0; 1; 0;
     19; 0; 3; 2; 3; 3; 0; 1; 0; 2; 0; 3; 3; 3; 0; 4; 0; 5; 0; -32768;
     3; 0; 0; 4;
     1; 0; 3; 0; 0; -1;
     1; 0; 4; 0; 1; 11744051; -24;
     1; 0; 4; 0; 1; 3152519739159347; -52;
     1; 0; 5; 0; 2; 2; 97; 130; 5; 0; 4; 2; 97; 233].
Proof.
  split; [repeat split; reflexivity|].
  split; [split; [exists [41]; reflexivity | repeat split; reflexivity]|].
  split; [apply get_codepage_in; vm_compute; reflexivity|].
  split; [apply simple_pageb_ok; vm_compute; reflexivity|].
  split; [split; [discriminate | apply (in_map snd (t_entries (get_codepage "437")) ([130], [233])); apply entry_in_In; vm_compute; reflexivity]|].
  split; [vm_compute; split; discriminate|].
  split; [intros F m e HF Hm Hb Hr; apply model_meets_contract; assumption|].
  split.
  - assert (L : forall a b c, in16 a -> in16 b -> in16 c -> nested int_leaf [3%nat] (PList [PInt a; PInt b; PInt c])).
    { intros a b c Ha Hb Hc. exists [PInt a; PInt b; PInt c].
      split; [reflexivity|]. split; [reflexivity|]. split; [lia|].
      repeat constructor; eexists; (split; [reflexivity | assumption]). }
    exists [PList [PInt 1; PInt 2; PInt 3]; PList [PInt 4; PInt 5; PInt (-32768)]].
    split; [reflexivity|]. split; [reflexivity|]. split; [lia|].
    constructor; [apply L; unfold in16; lia|]. constructor; [apply L; unfold in16; lia | constructor].
  - vm_compute. reflexivity.
Qed.
