(* C43 placeholder while the model is validated *)
From Coq Require Import ZArith List.
From PCB Require Import lib.PyInt gen.Gen_arrays model.Api model.Api_env.
