(* C39 - RND is a deterministic full-period sequence in [0, 1).
   Only statements, `exact`, Print Assumptions and non-vacuity examples here.
   Model: model/Rnd.v over the regenerated gen/Gen_rnd.v (constants, clear, _cycle, reseed arithmetic). *)
From Coq Require Import ZArith NArith List QArith.
From PCB Require Import lib.Result lib.PyInt gen.Gen_rnd model.Rnd proofs.Rnd_proofs.
Import ListNotations.
Open Scope Z_scope.

(* the seed stays a 24-bit number whatever is done to the generator (any history of RND, RND(x),
   RANDOMIZE x, CLEAR/RUN with arbitrary - even malformed - argument values) *)
Theorem C39_range : forall ops, 0 <= exec seed0 ops < 2 ^ 24.
Proof. intros ops. exact (exec_range ops seed0 seed0_range). Qed.
Print Assumptions C39_range.

(* FULL PERIOD: from every one of the 2^24 states the generator comes back after exactly 2^24 steps
   and not before.  Proved from 25 computed facts about the regenerated multiplier/increment/modulus
   (2^j-fold step = x + 2^j mod 2^(j+1)), not by walking the states. *)
Theorem C39_full_period : forall s, 0 <= s < 2 ^ 24 ->
  (forall k : N, (0 < k < 2 ^ 24)%N -> iter_cycle k s <> s) /\ iter_cycle (2 ^ 24) s = s.
Proof. exact full_period. Qed.
Print Assumptions C39_full_period.

(* hence the first 2^24 states of the sequence from any state are pairwise different *)
Theorem C39_orbit_distinct : forall s (i k : N), 0 <= s < 2 ^ 24 ->
  (i < k < 2 ^ 24)%N -> iter_cycle i s <> iter_cycle k s.
Proof. exact orbit_distinct. Qed.
Print Assumptions C39_orbit_distinct.

(* EXACT SCALING: the four bytes returned for seed s denote s / 2^24 exactly:
   mantissa * 2^(exponent - 152) = s / 2^24, written without division; zero is four zero bytes *)
Theorem C39_exact_scale : forall s, 0 <= s < 2 ^ 24 ->
  let b := rnd_bytes s in
  length b = 4%nat /\ bytes_ok b /\
  (s = 0 -> b = [0; 0; 0; 0]) /\
  (0 < s -> 0 < sng_exp b <= 128 /\ sng_is_zero b = false /\ sng_is_neg b = false /\
            sng_mant b * 2 ^ 24 = s * 2 ^ (152 - sng_exp b)).
Proof. exact rnd_bytes_scale. Qed.
Print Assumptions C39_exact_scale.

(* the same in rationals: value = seed / 2^24 and 0 <= value < 1 *)
Theorem C39_value_in_unit_interval : forall s, 0 <= s < 2 ^ 24 ->
  (sng_valQ (rnd_bytes s) == s # 16777216)%Q /\
  (0 <= sng_valQ (rnd_bytes s))%Q /\ (sng_valQ (rnd_bytes s) < 1)%Q.
Proof. exact rnd_bytes_valQ. Qed.
Print Assumptions C39_value_in_unit_interval.

(* every successful RND / RND(x) call in every history returns exactly the scaled seed it leaves behind *)
Theorem C39_rnd_returns_scaled_seed : forall ops arg s' b,
  rnd_fn (exec seed0 ops) arg = Ok (s', b) ->
  0 <= s' < 2 ^ 24 /\ b = rnd_bytes s' /\ (sng_valQ b == s' # 16777216)%Q /\ (0 <= sng_valQ b < 1)%Q.
Proof.
  intros ops arg s' b H.
  pose proof (rnd_fn_range _ _ _ _ (exec_range ops seed0 seed0_range) H) as R.
  pose proof (rnd_fn_value _ _ _ _ H) as V. subst b.
  destruct (rnd_bytes_valQ s' R) as (E & L & U). destruct R as [R1 R2].
  repeat split; assumption.
Qed.
Print Assumptions C39_rnd_returns_scaled_seed.

(* plain RND advances the seed by one generator step, whatever the history *)
Theorem C39_rnd_steps : forall s, rnd_fn s None = Ok (cycle s, rnd_bytes (cycle s)).
Proof. reflexivity. Qed.
Print Assumptions C39_rnd_steps.

(* the sequence depends only on the seed: histories that end in the same seed continue identically *)
Theorem C39_depends_only_on_seed : forall h1 h2 ops,
  exec seed0 h1 = exec seed0 h2 -> trace (exec seed0 h1) ops = trace (exec seed0 h2) ops.
Proof. intros h1 h2 ops H. rewrite H. reflexivity. Qed.
Print Assumptions C39_depends_only_on_seed.

(* RND(0) (any argument that converts to a zero Single) repeats the last value and keeps the seed *)
Theorem C39_rnd0_repeats : forall s arg s' b v f,
  rnd_fn s arg = Ok (s', b) -> to_single v = Ok f -> sng_is_zero f = true ->
  rnd_fn s' (Some v) = Ok (s', b).
Proof. exact rnd_zero_repeats_last. Qed.
Print Assumptions C39_rnd0_repeats.

(* RND(x), x < 0: the new seed is one step after the 24-bit mantissa of x - independent of the history *)
Theorem C39_negative_reseeds : forall s1 s2 v f,
  to_single v = Ok f -> sng_is_zero f = false -> sng_is_neg f = true ->
  rnd_fn s1 (Some v) = rnd_fn s2 (Some v) /\
  rnd_fn s1 (Some v) = Ok (cycle (sng_mant f), rnd_bytes (cycle (sng_mant f))).
Proof.
  intros s1 s2 v f Hf Hz Hn.
  rewrite (rnd_negative_reseeds s1 v f Hf Hz Hn), (rnd_negative_reseeds s2 v f Hf Hz Hn).
  split; reflexivity.
Qed.
Print Assumptions C39_negative_reseeds.

(* CLEAR / RUN: the seed afterwards does not depend on the history, so the sequence restarts identically *)
Theorem C39_clear_resets : forall s1 s2 ops,
  fst (step s1 OClear) = fst (step s2 OClear) /\
  trace (fst (step s1 OClear)) ops = trace seed0 ops.
Proof. intros s1 s2 ops. split; reflexivity. Qed.
Print Assumptions C39_clear_resets.

(* RANDOMIZE: the number used is the signed 16-bit value of an Integer argument, and the new seed
   depends only on the argument and the LOW BYTE of the previous seed *)
Theorem C39_randomize_integer_argument : forall n, -32768 <= n < 32768 ->
  reseed_n (value_bytes (VInt n)) = n.
Proof. exact reseed_n_int. Qed.
Print Assumptions C39_randomize_integer_argument.

Theorem C39_randomize_same_low_byte : forall s1 s2 v,
  s1 mod 256 = s2 mod 256 -> randomize_fn s1 v = randomize_fn s2 v.
Proof. exact randomize_low_byte. Qed.
Print Assumptions C39_randomize_same_low_byte.

(* KNOWN FINDING K1 (GW-BASIC fidelity, not fixed): the property text's unconditional claim
   "RANDOMIZE with the same argument reseeds identically" is false on the code across histories *)
Definition C39_randomize_statement : Prop :=
  forall h1 h2 v, randomize_fn (exec seed0 h1) v = randomize_fn (exec seed0 h2) v.

Theorem C39_randomize_history_refuted : ~ C39_randomize_statement.
Proof. exact randomize_history_refuted. Qed.
Print Assumptions C39_randomize_history_refuted.

(* the recorded witness: RANDOMIZE 1 at start-up vs after one RND *)
Theorem C39_randomize_history_witness :
  exists s1 s2 v, 0 <= s1 < 2 ^ 24 /\ 0 <= s2 < 2 ^ 24 /\
    s1 = exec seed0 [] /\ s2 = exec seed0 [ORnd None] /\ v = VInt 1 /\
    randomize_fn s1 v <> randomize_fn s2 v.
Proof.
  exists (exec seed0 []), (exec seed0 [ORnd None]), (VInt 1).
  repeat split; try reflexivity; try (vm_compute; congruence).
Qed.
Print Assumptions C39_randomize_history_witness.

(* ARGUMENTS IN VARIABLES: no generator operation assigns to the variable (or array element) it is given,
   whatever the history; hence RND(X) with the same negative X reseeds identically every time, also when X
   has been used as an argument before *)
Theorem C39_arguments_untouched : forall ops s st, snd (vexec s st ops) = st.
Proof. exact vexec_store. Qed.
Print Assumptions C39_arguments_untouched.

Theorem C39_same_variable_reseeds_identically : forall st i f h s1 s2,
  to_single (var_get st i) = Ok f -> sng_is_zero f = false -> sng_is_neg f = true ->
  let '(s', st') := vexec s1 st h in
  st' = st /\
  vstep s' st' (VRnd i) = ((cycle (sng_mant f), st), Ok (rnd_bytes (cycle (sng_mant f)))) /\
  snd (vstep s' st' (VRnd i)) = snd (vstep s2 st (VRnd i)).
Proof. exact same_variable_reseeds. Qed.
Print Assumptions C39_same_variable_reseeds_identically.

(* SEVERAL DRAWS IN ONE EXPRESSION: each draw hands out a value of its own.  Two plain draws combined in one
   expression are the two successive sequence values: RND = RND is false from every state, RND - RND is
   the Single that denotes (first - second) / 2^24 exactly *)
Theorem C39_two_draws_in_one_expression : forall s,
  step s (OExpr (XCmp 0) [None; None]) = (cycle (cycle s), Ok [0]) /\
  step s (OExpr XSub [None; None]) = (cycle (cycle s), Ok (diff_bytes (cycle s) (cycle (cycle s)))).
Proof. intros s. split; [exact (two_draws_differ s) | exact (two_draws_sub s)]. Qed.
Print Assumptions C39_two_draws_in_one_expression.

Theorem C39_difference_exact : forall a b, 0 <= a < 2 ^ 24 -> 0 <= b < 2 ^ 24 ->
  (sng_valQ (diff_bytes a b) == (a - b) # 16777216)%Q.
Proof. exact diff_bytes_valQ. Qed.
Print Assumptions C39_difference_exact.

(* NESTED DRAWS: an argument expression that itself draws is evaluated first; the outer call works on the
   seed the inner draws leave behind.  RND(RND) is two steps (unless the inner value is 0, when it is RND(0)),
   RND(0*RND) is the inner draw's value again, and in general RND(e) = RND(value of e) from the seed after e *)
Theorem C39_nested_draws : forall s, 0 <= s < 2 ^ 24 ->
  (cycle s <> 0 ->
   step s (ONest (NArg NPlain)) = (cycle (cycle s), Ok (rnd_bytes (cycle (cycle s))))) /\
  step s (ONest (NArg (NZero NPlain))) = (cycle s, Ok (rnd_bytes (cycle s))) /\
  (forall e s1 b, neval s e = (s1, Ok b) ->
   neval s (NArg e) = split_res s1 (rnd_fn s1 (Some (VSng b)))).
Proof.
  intros s Hs. split; [exact (nested_positive s Hs)|]. split; [exact (nested_zero s)|].
  intros e s1 b. exact (nested_order s e s1 b).
Qed.
Print Assumptions C39_nested_draws.

(* RND(0) AFTER ANY OPERATION, in particular straight after RANDOMIZE: for every history and every last
   operation o (RND, RND(x), RANDOMIZE with any Integer / Single / Double argument - well-formed bytes or not -,
   CLEAR/RUN, expressions with several or nested draws) the stored seed s is a reduced 24-bit number, RND(0)
   returns exactly s/2^24, that value lies in [0,1), RND(0) can be repeated, and the next RND is exactly one
   generator step further *)
Theorem C39_rnd0_after_any_operation : forall ops o v f,
  to_single v = Ok f -> sng_is_zero f = true ->
  let s := exec seed0 (ops ++ [o]) in
  0 <= s < 2 ^ 24 /\
  rnd_fn s (Some v) = Ok (s, rnd_bytes s) /\
  (sng_valQ (rnd_bytes s) == s # 16777216)%Q /\
  (0 <= sng_valQ (rnd_bytes s))%Q /\ (sng_valQ (rnd_bytes s) < 1)%Q /\
  rnd_fn s None = Ok (cycle s, rnd_bytes (cycle s)).
Proof. intros ops o v f. exact (rnd0_after_history (ops ++ [o]) v f). Qed.
Print Assumptions C39_rnd0_after_any_operation.

(* RANDOMIZE with a numeric argument never fails, and what it stores after any history is the reduced value
   (cycle (old seed mod 256) + n * step) mod 2^24, n the signed 16-bit number read from the argument bytes *)
Theorem C39_randomize_stores_reduced_seed : forall ops v, v <> VStr ->
  let s := exec seed0 ops in
  randomize_fn s v = Ok (reseed s (value_bytes v)) /\
  exec seed0 (ops ++ [ORandomize v]) = reseed s (value_bytes v) /\
  reseed s (value_bytes v) =
    (cycle (s mod 256) + reseed_n (value_bytes v) * rnd_step) mod 2 ^ 24 /\
  0 <= reseed s (value_bytes v) < 2 ^ 24.
Proof.
  intros ops v Hv s. destruct (randomize_numeric s v Hv) as [E R].
  split; [exact E|]. split; [exact (exec_randomize ops v Hv)|]. split; [|exact R].
  unfold reseed, rnd_reseed_tail, cycle. rewrite land255. reflexivity.
Qed.
Print Assumptions C39_randomize_stores_reduced_seed.

(* non-vacuity: the hypotheses of the theorems above are satisfiable (stated without pinning the
   generator's constants, which the property text does not fix) *)
Example C39_nonvacuous :
  let h := [ORnd None; ORnd (Some (VInt 0)); ORnd (Some (VSng [0; 0; 192; 129])); ORandomize (VInt 1)] in
  (exists s' b, rnd_fn (exec seed0 h) None = Ok (s', b) /\ length b = 4%nat)
  /\ length (trace seed0 h) = 20%nat
  /\ to_single (VInt 0) = Ok [0; 0; 0; 0] /\ sng_is_zero [0; 0; 0; 0] = true
  /\ to_single (VSng [0; 0; 192; 129]) = Ok [0; 0; 192; 129]
  /\ sng_is_zero [0; 0; 192; 129] = false /\ sng_is_neg [0; 0; 192; 129] = true
  /\ sng_mant [0; 0; 192; 129] = 12582912
  /\ (0 < 3 < 2 ^ 24)%N /\ 0 <= seed0 < 2 ^ 24
  /\ 5228370 mod 256 = (5228370 + 256) mod 256 /\ -32768 <= -1 < 32768.
Proof.
  split; [eexists; eexists; split; [vm_compute; reflexivity | reflexivity]|].
  vm_compute. repeat split; congruence.
Qed.
