(* C44 - TIME$, DATE$ and ENVIRON read back what was set.
   Host clock = integer microseconds (abstract), host environment = association list, codepage
   conversion = Section variables with the stated contract.  Only statements / exact / Print Assumptions. *)
From Coq Require Import ZArith List Bool.
From PCB Require Import lib.Result lib.PyInt lib.Harness model.Clock model.Environ proofs.Clock_proofs proofs.Environ_proofs.
Import ListNotations.
Open Scope Z_scope.

(* TIME$ = s accepted with components (h, m, sec): at host time + delta microseconds TIME$ shows the set
   time advanced by exactly the elapsed whole seconds (counting the sub-second part kept from "now") *)
Theorem C44_time_set_get : forall host offset s o h m sec delta,
  time_set host offset s = Ok o -> time_parse s = Ok (h, m, sec) -> 0 <= delta ->
  time_fn (host + delta) o =
    fmt_time ((h * 3600 + m * 60 + sec + ((host + offset) mod US + delta) / US) mod 86400).
Proof. exact time_set_get. Qed.
Print Assumptions C44_time_set_get.

Theorem C44_time_accepts_only_valid : forall s h m sec, time_parse s = Ok (h, m, sec) ->
  0 <= h <= 23 /\ 0 <= m <= 59 /\ 0 <= sec <= 59.
Proof. exact time_parse_range. Qed.
Print Assumptions C44_time_accepts_only_valid.

(* every byte string: either accepted or Illegal function call - never a host exception; on rejection no
   new offset exists (the result type carries none), i.e. nothing changes *)
Theorem C44_time_outcomes : forall host offset s, valid_now (host + offset) ->
  (exists o, time_set host offset s = Ok o) \/ time_set host offset s = Err 5.
Proof. exact time_set_outcomes. Qed.
Print Assumptions C44_time_outcomes.

Theorem C44_date_set_get : forall host offset s o y m d,
  date_set host offset s = Ok o -> date_parse s = Ok (y, m, d) ->
  date_fn host o = fmt_date y m d /\ time_fn host o = time_fn host offset.
Proof. exact date_set_get. Qed.
Print Assumptions C44_date_set_get.

Theorem C44_date_no_host : forall host offset s x, date_set host offset s <> Host x.
Proof. exact date_set_no_host. Qed.
Print Assumptions C44_date_no_host.

Theorem C44_date_invalid : forall host offset s e, date_set host offset s = Err e -> e = 5.
Proof. exact date_invalid_unchanged. Qed.
Print Assumptions C44_date_invalid.

Theorem C44_environ_set_get : forall (U : Type) (dec : list Z -> U) (enc : U -> list Z) (nul : U -> bool)
  (e e' : env U) name value name',
  has_byte 61 name = false ->
  environ_stmt U dec nul e (name ++ [61] ++ value) = Ok e' ->
  upper name' = upper name -> name' <> [] -> is_ascii name' = true ->
  environ_fn_str U enc e' name' = Ok (enc (dec value)).
Proof. exact environ_set_get. Qed.
Print Assumptions C44_environ_set_get.

Theorem C44_environ_no_host : forall (U : Type) (dec : list Z -> U) (nul : U -> bool),
  (forall v, has_byte 0 v = false -> nul (dec v) = false) ->
  forall (e : env U) s x, environ_stmt U dec nul e s <> Host x.
Proof. exact environ_stmt_no_host. Qed.
Print Assumptions C44_environ_no_host.

Theorem C44_environ_invalid : forall (U : Type) (dec : list Z -> U) (nul : U -> bool) (e : env U) s n,
  environ_stmt U dec nul e s = Err n -> n = 5.
Proof. exact environ_stmt_err. Qed.
Print Assumptions C44_environ_invalid.

Theorem C44_environ_frame : forall (U : Type) (dec : list Z -> U) (nul : U -> bool) (e e' : env U) s other,
  environ_stmt U dec nul e s = Ok e' ->
  upper other <> upper (firstn (Z.to_nat (find_eq 0 s)) s) ->
  lookup U (upper other) e' = lookup U (upper other) e.
Proof. exact environ_frame. Qed.
Print Assumptions C44_environ_frame.

(* non-vacuity: "12:34:56" and "02-29-2000" are accepted; "a=b" sets A *)
Example C44_nonvacuous :
  (match time_set 63000000000000000 0 [49;50;58;51;52;58;53;54] with
   | Ok o => list_Z_eqb (time_fn 63000000000000000 o) [49;50;58;51;52;58;53;54] | _ => false end = true) /\
  (match date_set 63000000000000000 0 [48;50;45;50;57;45;50;48;48;48] with
   | Ok o => list_Z_eqb (date_fn 63000000000000000 o) [48;50;45;50;57;45;50;48;48;48] | _ => false end = true) /\
  environ_fn_str (list Z) (fun u => u)
    (match environ_stmt (list Z) (fun v => v) (has_byte 0) [] [97;61;98] with Ok e => e | _ => [] end) [65]
  = Ok [98].
Proof. repeat split; vm_compute; reflexivity. Qed.
