(* C25 - Random-access files behave as arrays of fixed-length records.
   Only statements, `exact`, Print Assumptions and non-vacuity examples here.
   Model: model/RandomFile.v - RandomFile.get/put/_set_record_pos/eof/lof/loc on an explicit host stream
   (seek/read/write/tell, zero fill past the end), FIELD buffer with LSET/RSET, statement glue - over the
   pointer arithmetic regenerated into gen/Gen_locks.v; reference: record map + high-water mark (sstep). *)
From Coq Require Import ZArith List Bool Lia.
From PCB Require Import lib.Result lib.PyInt gen.Gen_locks model.Locks model.RandomFile proofs.RandomFile_proofs.
From PCB Require Import model.SharedFile model.FieldVars proofs.Locks_proofs proofs.SharedFrame_proofs proofs.SharedFile_proofs proofs.FieldVars_proofs.
Import ListNotations.
Open Scope Z_scope.

(* ---- refinement.  For every record length 1..128 and EVERY history of LSET/RSET, PUT and GET with explicit
   or implicit record numbers, LOF/LOC/EOF queries and close/reopen on a fresh file, the implementation
   model (byte stream) and the reference (finite map record number -> bytes, highest record written, last
   record accessed) give the same observations: GET k returns the bytes last PUT to k and zero bytes if k
   was never written (below or beyond the end), LOF = L * highest record written, LOC = last record accessed *)
Theorem C25_refinement : forall L buf ops,
  1 <= L <= 128 -> zlen buf = 128 -> ops_ok ops ->
  fst (irun (i_init L buf) ops) = fst (srun L (s_init buf) ops).
Proof. intros L buf ops HL Hb Hok. exact (proj1 (refinement L buf ops HL Hb Hok)). Qed.
Print Assumptions C25_refinement.

(* the state after every history: file length, record pointer, every record, the FIELD buffer *)
Theorem C25_lof_loc_records : forall L buf ops,
  1 <= L <= 128 -> zlen buf = 128 -> ops_ok ops ->
  let s := snd (irun (i_init L buf) ops) in
  let sp := snd (srun L (s_init buf) ops) in
  rf_lof (i_file s) = L * sp_hw sp /\
  rf_loc (i_file s) = sp_loc sp /\
  (forall k, 1 <= k -> view (s_bytes (rf_stream (i_file s))) L k = sp_rec L (sp_map sp) k) /\
  i_buf s = sp_buf sp.
Proof.
  intros L buf ops HL Hb Hok s sp.
  destruct (proj2 (refinement L buf ops HL Hb Hok)) as [_ [Hbuf [Hrp [_ [_ [Hlen [Hview _]]]]]]].
  repeat split; assumption.
Qed.
Print Assumptions C25_lof_loc_records.

(* what the reference does, spelled out: a PUT stores the buffer under the target record and raises the
   high-water mark; a GET returns the stored bytes or L zero bytes *)
Theorem C25_reference_meaning : forall L s pos,
  let k := target pos (sp_loc s) in
  (let s' := fst (sstep L s (RPut pos)) in
     sp_rec L (sp_map s') k = ztake L (sp_buf s) /\ sp_hw s' = Z.max (sp_hw s) k /\ sp_loc s' = k /\
     forall j, j <> k -> sp_rec L (sp_map s') j = sp_rec L (sp_map s) j) /\
  (snd (sstep L s (RGet pos)) = sp_rec L (sp_map s) k /\ sp_loc (fst (sstep L s (RGet pos))) = k) /\
  (forall j, lookup j (sp_map s) = None -> sp_rec L (sp_map s) j = zeros L).
Proof.
  intros L s pos k. repeat split.
  - simpl. rewrite sp_rec_cons. fold k. rewrite Z.eqb_refl. reflexivity.
  - intros j Hj. simpl. rewrite sp_rec_cons. fold k. replace (k =? j) with false by lia. reflexivity.
  - intros j Hj. unfold sp_rec. rewrite Hj. reflexivity.
Qed.
Print Assumptions C25_reference_meaning.

(* ---- the same for ANY bytes already in the file (written with another record length, foreign file):
   PUT makes record k equal to the buffer, leaves the view of every other record alone, and the file length
   becomes max(old length, k * L) *)
Theorem C25_put_any_file : forall pos f buf,
  let L := rf_reclen f in let k := target pos (rf_recpos f) in
  1 <= L -> 1 <= k -> L <= zlen buf ->
  let b := s_bytes (rf_stream f) in
  let b' := s_bytes (rf_stream (rf_put pos f buf)) in
  view b' L k = ztake L buf /\ (forall j, 1 <= j -> j <> k -> view b' L j = view b L j) /\
  zlen b' = Z.max (zlen b) (k * L) /\ rf_recpos (rf_put pos f buf) = k.
Proof. exact put_get_any_file. Qed.
Print Assumptions C25_put_any_file.

Theorem C25_get_any_file : forall pos f buf,
  let L := rf_reclen f in let k := target pos (rf_recpos f) in
  0 <= L -> 1 <= k -> L <= zlen buf ->
  let '(f', buf') := rf_get pos f buf in
  s_bytes (rf_stream f') = s_bytes (rf_stream f) /\ rf_recpos f' = k /\ rf_reclen f' = L /\ pos_ok f' /\
  buf' = view (s_bytes (rf_stream f)) L k ++ zdrop L buf.
Proof. exact get_spec. Qed.
Print Assumptions C25_get_any_file.

(* ---- a record number outside 1..2^25 (after rounding to single precision) raises Bad record number and
   changes nothing; inside the range GET and PUT are accepted *)
Theorem C25_badrecord : forall w n v (put : bool),
  ~ (1 <= single_round v <= 2 ^ 25) ->
  forall x f, wget n w = Some x -> fs_open x = Some f ->
  wstep w (if put then WPut n (Some v) else WGet n (Some v)) = (w, Err locks_err_BAD_RECORD_NUMBER).
Proof. exact bad_record_number. Qed.
Print Assumptions C25_badrecord.

Theorem C25_goodrecord : forall w n v x f,
  1 <= single_round v <= 2 ^ 25 -> wget n w = Some x -> fs_open x = Some f ->
  snd (wstep w (WPut n (Some v))) = Ok [] /\ exists l, snd (wstep w (WGet n (Some v))) = Ok l.
Proof. exact good_record_number. Qed.
Print Assumptions C25_goodrecord.

(* ---- the statement-level model that is run against the real interpreter executes exactly the
   single-file operations the refinement theorem speaks about *)
Theorem C25_statement_glue : forall w n x f,
  wget n w = Some x -> fs_open x = Some f ->
  (forall pos p, check_pos pos = Ok p ->
     wstep w (WPut n pos) =
       (wset n (mkFS (fs_disk x) (Some (i_file (fst (istep (mkI f (fs_buf x)) (RPut p))))) (fs_buf x)) w, Ok [])) /\
  (forall pos p, check_pos pos = Ok p ->
     let r := istep (mkI f (fs_buf x)) (RGet p) in
     wstep w (WGet n pos) = (wset n (mkFS (fs_disk x) (Some (i_file (fst r))) (i_buf (fst r))) w, Ok (snd r))) /\
  wstep w (WQuery n) = (w, Ok (as_singles (snd (istep (mkI f (fs_buf x)) RQuery)))) /\
  (forall off wd rj d, 0 <= off -> 0 <= wd -> off + wd <= field_size ->
     wstep w (WField n off wd rj d) =
       (wset n (mkFS (fs_disk x) (Some f) (i_buf (fst (istep (mkI f (fs_buf x)) (RSet off wd rj d))))) w, Ok [])).
Proof. exact wstep_runs_istep. Qed.
Print Assumptions C25_statement_glue.

(* LOF() and LOC() are returned as BASIC single-precision numbers: the exact value below 2^24 (16 MB, record
   16777216); above that the value is cut to 24 significant bits (fixes/K25a.json) *)
Theorem C25_lof_loc_functions_exact : forall x, Z.abs x < 2 ^ 24 -> single_trunc x = x.
Proof. exact single_trunc_small. Qed.
Print Assumptions C25_lof_loc_functions_exact.

Theorem C25_loc_function_rounds_above_2_24 : single_trunc 16777217 = 16777216.
Proof. reflexivity. Qed.
Print Assumptions C25_loc_function_rounds_above_2_24.

(* ================= several file numbers on ONE random file (model/SharedFile.v) =================
   The bytes belong to the file name; every number has its own stream position, record pointer, record length
   and FIELD buffer.  Host premise (defect D25a, fixes/D25a.patch): put flushes, get seeks to its record. *)
Theorem C25_host_premises : rf_put_flushes = true /\ forall r L fpos, rf_get_seek r L fpos = r * L.
Proof. split; [exact gen_put_flushes | exact gen_get_seek]. Qed.
Print Assumptions C25_host_premises.

(* an accepted PUT through number n (its own LEN L, its own pointer) is one write of L bytes at (k-1)*L into
   the shared file; no other file changes *)
Theorem C25_shared_put : forall cs n pos st' this h p,
  getput_stmt true (c_st cs) n pos = (st', Ok tt) ->
  find n (st_files (c_st cs)) = Some this -> aget n (c_h cs) = Some h -> check_pos pos = Ok p ->
  let L := h_reclen h in let k := target p (lp_recpos this) in let nm := lp_name this in
  1 <= L -> 1 <= k -> L <= zlen (buf_of n cs) ->
  let cs' := fst (cstep cs (CPut n pos)) in
  bytes_of nm cs' = s_bytes (s_write (ztake L (buf_of n cs)) (mkStream (bytes_of nm cs) ((k - 1) * L))) /\
  (forall nm', nm' <> nm -> bytes_of nm' cs' = bytes_of nm' cs) /\
  c_bufs cs' = c_bufs cs /\ c_st cs' = st' /\ snd (cstep cs (CPut n pos)) = Ok [].
Proof. exact shared_put. Qed.
Print Assumptions C25_shared_put.

(* an accepted GET through ANY number returns the record view of the shared bytes in that number's own LEN *)
Theorem C25_shared_get : forall cs n pos st' this h p,
  getput_stmt false (c_st cs) n pos = (st', Ok tt) ->
  find n (st_files (c_st cs)) = Some this -> aget n (c_h cs) = Some h -> check_pos pos = Ok p ->
  let L := h_reclen h in let k := target p (lp_recpos this) in let nm := lp_name this in
  0 <= L -> 1 <= k -> L <= zlen (buf_of n cs) ->
  snd (cstep cs (CGet n pos)) = Ok (view (bytes_of nm cs) L k) /\
  c_bytes (fst (cstep cs (CGet n pos))) = c_bytes cs.
Proof. exact shared_get. Qed.
Print Assumptions C25_shared_get.

(* what a GET through #2 sees after a PUT through #1 (same LEN, same record): the record just written *)
Theorem C25_put_visible_through_other_number : forall cs n1 pos1 st1 this1 h1 k n2 pos2 st2 this2 h2,
  getput_stmt true (c_st cs) n1 pos1 = (st1, Ok tt) ->
  find n1 (st_files (c_st cs)) = Some this1 -> aget n1 (c_h cs) = Some h1 -> check_pos pos1 = Ok (Some k) ->
  1 <= h_reclen h1 <= zlen (buf_of n1 cs) -> 1 <= k ->
  let cs1 := fst (cstep cs (CPut n1 pos1)) in
  getput_stmt false (c_st cs1) n2 pos2 = (st2, Ok tt) ->
  find n2 (st_files (c_st cs1)) = Some this2 -> aget n2 (c_h cs1) = Some h2 -> check_pos pos2 = Ok (Some k) ->
  lp_name this2 = lp_name this1 -> h_reclen h2 = h_reclen h1 -> h_reclen h2 <= zlen (buf_of n2 cs1) ->
  snd (cstep cs1 (CGet n2 pos2)) = Ok (ztake (h_reclen h1) (buf_of n1 cs)).
Proof. exact put_visible_through_other_number. Qed.
Print Assumptions C25_put_visible_through_other_number.

(* ================= FIELD semantics (model/FieldVars.v) =================
   invariant over ALL histories of FIELD (several statements, overlapping definitions, errors), LSET, RSET,
   MID$=, LET, PUT, GET: the buffer keeps its 128 bytes and every attached variable lies inside it; the value
   of an attached variable IS the slice of the buffer (value_in), so the relation buffer <-> variables holds
   by construction of `value` and is tied to the interpreter by correspondence *)
Theorem C25_field_invariant : forall L ops, 1 <= L <= 128 -> Forall fop_ok ops ->
  let st := frun (fv_init L) ops in
  zlen (i_buf (fv_i st)) = 128 /\ rf_reclen (i_file (fv_i st)) = L /\
  forall v off w, aget v (fv_vars st) = Some (VField off w) ->
    0 <= off /\ 0 <= w /\ off + w <= 128 /\ value v st = ztake w (zdrop off (i_buf (fv_i st))) /\ zlen (value v st) = w.
Proof.
  intros L ops HL Hok st. destruct (wf_all_histories L ops HL Hok) as [Hb [Hr Hv]]. fold st in Hb, Hr, Hv.
  unfold field_size in *. split; [exact Hb|]. split; [exact Hr|]. intros v off w Hg.
  destruct (Hv v off w Hg) as [A [B C]]. split; [exact A|]. split; [exact B|]. split; [exact C|].
  assert (Hval : value v st = ztake w (zdrop off (i_buf (fv_i st)))) by (unfold value, var_of; rewrite Hg; reflexivity).
  split; [exact Hval|]. rewrite Hval. apply (value_len (i_buf (fv_i st)) off w); lia.
Qed.
Print Assumptions C25_field_invariant.

(* "records are what the fields hold": an accepted FIELD statement with distinct variables attaches them one
   after the other, and the values of fields laid out one after the other concatenate to the slice of the
   buffer they cover - with widths adding up to LEN that is exactly what PUT writes and what GET delivers *)
Theorem C25_field_layout : forall defs off vars vars', attach off defs vars = (vars', Ok tt) ->
  NoDup (map snd defs) -> forall i, (i < length defs)%nat ->
  aget (snd (nth i defs (0, 0))) vars' =
    Some (VField (fst (nth i (layout off (map fst defs)) (0, 0))) (fst (nth i defs (0, 0)))).
Proof. exact attach_layout. Qed.
Print Assumptions C25_field_layout.

Theorem C25_record_is_concatenation_of_fields : forall buf ws off, 0 <= off -> Forall (fun w => 0 <= w) ws ->
  concat (map (fun ow => value_in buf (VField (fst ow) (snd ow))) (layout off ws))
  = ztake (fold_right Z.add 0 ws) (zdrop off buf).
Proof. intros buf ws off. exact (fields_concat buf ws off). Qed.
Print Assumptions C25_record_is_concatenation_of_fields.

(* LSET / RSET through an attached variable: it then reads the justified string; the buffer changes exactly on
   [off, off+w) - so an overlapping variable changes exactly on the overlap, a disjoint one not at all *)
Theorem C25_lset_attached : forall st v off w rj d,
  var_of v st = VField off w -> 0 <= off -> 0 <= w -> off + w <= zlen (i_buf (fv_i st)) ->
  let st' := fst (fstep st (FLset v rj d)) in
  i_buf (fv_i st') = buf_set off w rj d (i_buf (fv_i st)) /\
  value v st' = justify rj w d /\
  zlen (i_buf (fv_i st')) = zlen (i_buf (fv_i st)) /\
  fv_vars st' = fv_vars st /\
  (forall i, 0 <= i -> znth i (i_buf (fv_i st')) =
     if (off <=? i) && (i <? off + w) then znth (i - off) (justify rj w d) else znth i (i_buf (fv_i st))).
Proof. exact lset_attached. Qed.
Print Assumptions C25_lset_attached.

(* LET detaches: the variable holds its own string; LSET / RSET / MID$= on it never reach the buffer again *)
Theorem C25_let_detaches : forall st v d,
  let st' := fst (fstep st (FLet v d)) in
  value v st' = d /\ fv_i st' = fv_i st /\
  (forall rj d', fv_i (fst (fstep st' (FLset v rj d'))) = fv_i st) /\
  (forall start num d', fv_i (fst (fstep st' (FMid v start num d'))) = fv_i st).
Proof. exact let_detaches. Qed.
Print Assumptions C25_let_detaches.

(* ---- the regenerated pointer arithmetic is the byte arithmetic the proofs need (false before fixes/D7.patch:
   there the gap test was `recpos > lof` and the padding `(recpos - lof) * reclen`) *)
Theorem C25_pointer_arithmetic : forall r L lof fpos p,
  rf_setpos_seek L p = (p - 1) * L /\ rf_setpos_recpos p = p - 1 /\
  rf_eof r L lof = (lof <? r * L) /\ rf_get_next r = r + 1 /\ rf_put_next r = r + 1 /\
  rf_put_gap r L lof = (lof <? r * L) /\ rf_put_pad r L lof = r * L - lof /\ rf_put_seek r L fpos = r * L.
Proof.
  intros r L lof fpos p.
  destruct (gen_setpos L p) as [A B]. destruct (gen_next r) as [C D].
  split; [exact A|]. split; [exact B|]. split; [apply gen_eof|]. split; [exact C|]. split; [exact D|].
  split; [apply gen_put_gap|]. split; [apply gen_put_pad | apply gen_put_seek].
Qed.
Print Assumptions C25_pointer_arithmetic.

(* defect D7, arithmetic of the unfixed code on the witness LEN=2, file "ab", PUT 1,5: record index 4 is
   compared with the byte length 2, 4 bytes are padded, the record lands at offset 6 instead of 8 *)
Definition old_put_gap (recpos reclen lof : Z) : bool := recpos >? lof.
Definition old_put_pad (recpos reclen lof : Z) : Z := (recpos - lof) * reclen.
Theorem C25_old_put_refuted :
  old_put_gap 4 2 2 = true /\ 2 + old_put_pad 4 2 2 = 6 /\ 6 <> (5 - 1) * 2.
Proof. repeat split. intro H. discriminate H. Qed.
Print Assumptions C25_old_put_refuted.

(* ---- non-vacuity: the D7 witness on the model of the fixed code *)
Example C25_nonvacuous :
  let ab := [97; 98] in let cd := [99; 100] in
  let ops := [RSet 0 2 false ab; RPut (Some 1); RSet 0 2 false cd; RPut (Some 5); RGet (Some 5); RQuery;
              RGet (Some 3); RGet None; RQuery] in
  ops_ok ops /\
  fst (irun (i_init 2 (zeros 128)) ops) = [[]; []; []; []; cd; [10; 5; 0]; [0; 0]; [0; 0]; [10; 4; 0]] /\
  s_bytes (rf_stream (i_file (snd (irun (i_init 2 (zeros 128)) ops)))) = [97; 98; 0; 0; 0; 0; 0; 0; 99; 100].
Proof.
  split; [|vm_compute; split; reflexivity].
  repeat constructor; simpl; unfold field_size; lia.
Qed.
