(* C28 - DOS file names map to host files consistently.
   Only statements, `exact`, Print Assumptions and non-vacuity examples here.

   Model: model/DosNames.v (name algebra, tables regenerated into gen/Gen_dosnames.v) and model/Paths.v
   (_get_native_name lookup order, shared with C27).  `ist h p x d` is the host's answer to "x is a regular file
   (d = false) / directory (d = true) in directory p"; hosts are arbitrary records of oracles, the clauses
   that need it state the FS contract (the listing shows the files; creation adds exactly the new name). *)
From Coq Require Import ZArith List Bool.
From PCB Require Import lib.Result lib.PyInt gen.Gen_dosnames model.DosNames model.Paths model.PathsNt
  model.PathsLocks proofs.DosNames_proofs proofs.Paths_proofs proofs.Paths_lookup_proofs proofs.PathsLocks_proofs.
Import ListNotations.
Open Scope Z_scope.

(* normalisation to upper-case 8.3 is idempotent and ignores letter case, for every byte string *)
Theorem C28_normalise_idempotent : forall s, dos_normalise_name (dos_normalise_name s) = dos_normalise_name s.
Proof. exact normalise_idempotent. Qed.
Print Assumptions C28_normalise_idempotent.

Theorem C28_case_insensitive : forall a b, upper a = upper b -> dos_normalise_name a = dos_normalise_name b.
Proof. exact normalise_case. Qed.
Print Assumptions C28_case_insensitive.

(* a file created under a legal DOS name n (resolution with create=true returned the not yet existing host
   name c) is found again - the same host name c - under every legal name n' that differs from n only in
   letter case, on every host where the listing shows the files and creation added exactly c *)
Theorem C28_found_again : forall (h h' : host) p l n n' c,
  n <> [] -> is_special n = false -> dos_is_legal_name n = true -> dos_is_legal_name n' = true ->
  upper n' = upper n ->
  snd (get_native_name h p n [] false true) = Ok c -> h_isfile h (pjoin p c) = false ->
  h_listdir h p = Ok l -> (forall x, h_isfile h (pjoin p x) = true -> In x l) ->
  (forall x, h_isfile h' (pjoin p x) = h_isfile h (pjoin p x) || seqb x c) ->
  snd (get_native_name h' p n' [] false false) = Ok c.
Proof. exact found_again. Qed.
Print Assumptions C28_found_again.

(* a name that resolution returns and that does not exist yet is the upper-case 8.3 form of the DOS name
   (after the default extension and without a trailing single dot): legal, all upper case *)
Theorem C28_created_upper : forall (h : host) p n defext d create c,
  snd (get_native_name h p n defext d create) = Ok c -> ist h p c d = false ->
  c = dos_normalise_name (base_name (defext_name n defext)) /\
  dos_is_legal_name c = true /\ upper c = c /\ create = true.
Proof. exact created_upper. Qed.
Print Assumptions C28_created_upper.

(* program files (default extension BAS) get ".BAS" exactly when the name, trailing blanks stripped, has no dot *)
Theorem C28_bas_extension : forall n,
  (mem c_dot (rstrip n) = false -> defext_name n s_BAS = rstrip n ++ [46; 66; 65; 83]) /\
  (mem c_dot (rstrip n) = true -> defext_name n s_BAS = rstrip n) /\
  defext_name n [] = rstrip n.
Proof.
  intro n. split; [intro H; exact (defext_nodot n s_BAS ltac:(discriminate) H)|].
  split; [exact (defext_dot n s_BAS) | exact (defext_none n)].
Qed.
Print Assumptions C28_bas_extension.

(* illegal names: if the 8.3 form of the name is not legal and the name does not exist exactly as given, the
   result is an error: Bad file name, or the not-found error for names rejected outright (leading blank, "",
   ".", "..", separators); conversely every successful resolution is an exact match or has a legal 8.3 form *)
Theorem C28_illegal : forall (h : host) p n defext d create,
  let m := defext_name n defext in
  dos_is_legal_name (dos_normalise_name (base_name m)) = false ->
  ist h p (to_uni m) d = false -> ist h p (to_uni (base_name m)) d = false ->
  snd (get_native_name h p n defext d create) = Err dn_E_BAD_FILE_NAME
  \/ snd (get_native_name h p n defext d create) = Err (name_err d).
Proof. exact illegal_name. Qed.
Print Assumptions C28_illegal.

Theorem C28_ok_exact_or_legal : forall (h : host) p n defext d create c,
  snd (get_native_name h p n defext d create) = Ok c ->
  let m := defext_name n defext in
  (ist h p c d = true /\ (c = to_uni m \/ c = to_uni (base_name m)))
  \/ dos_is_legal_name (dos_normalise_name (base_name m)) = true.
Proof. exact ok_is_exact_or_legal. Qed.
Print Assumptions C28_ok_exact_or_legal.

(* the wildcard matcher: `?` is exactly one character, `*` any run (neither matches a newline), every other
   character itself; masks and names are compared in upper case *)
Theorem C28_wildcard : forall m n, wmatch m n = true <-> Wild m n.
Proof. exact wmatch_Wild. Qed.
Print Assumptions C28_wildcard.

Theorem C28_wildcard_case : forall name name' mask mask',
  upper name = upper name' -> upper mask = upper mask' ->
  dos_name_matches name mask = dos_name_matches name' mask'.
Proof. exact name_matches_case. Qed.
Print Assumptions C28_wildcard_case.

(* the regular expression the code builds from the mask (\A, `.` for ?, `.*` for *, re.escape(c) otherwise, \Z;
   abstract syntax regex_of_mask, pattern text mask_pattern - the text is compared with what the code passes to
   re.compile by the correspondence) denotes, under the standard semantics of regular expressions, exactly the
   language of the ?/* matcher: for ALL masks and names *)
Theorem C28_regex_equiv : forall name mask,
  rmatch (regex_of_mask mask) (upper name) <-> dos_name_matches name mask = true.
Proof. exact regex_matches. Qed.
Print Assumptions C28_regex_equiv.

(* found again, program files: LOAD / SAVE / RUN / CHAIN / MERGE / BLOAD / BSAVE resolve with the default
   extension BAS.  r is the name given to SAVE, r' the name given later, equal up to letter case; what has to
   be a legal DOS name is the name with the extension applied (PROG -> PROG.BAS; PROG. and prog.bas stay) *)
Theorem C28_found_again_bas : forall (h h' : host) p l r r' c,
  seqb r (lstrip r) = true -> upper r' = upper r ->
  defext_name r s_BAS <> [] -> is_special (defext_name r s_BAS) = false ->
  dos_is_legal_name (defext_name r s_BAS) = true -> dos_is_legal_name (defext_name r' s_BAS) = true ->
  snd (get_native_name h p r s_BAS false true) = Ok c -> h_isfile h (pjoin p c) = false ->
  h_listdir h p = Ok l -> (forall x, h_isfile h (pjoin p x) = true -> In x l) ->
  (forall x, h_isfile h' (pjoin p x) = h_isfile h (pjoin p x) || seqb x c) ->
  snd (get_native_name h' p r' s_BAS false false) = Ok c.
Proof. exact found_again_bas. Qed.
Print Assumptions C28_found_again_bas.

(* FILES, no uniqueness assumption: a legal entry always opens a file of the directory that is listed under
   that very entry.  Hence the only way the entry of f can open something other than f is a COLLISION: another
   file g <> f with display_name g = display_name f (names differing only in letter case) *)
Theorem C28_files_entry_opens_some : forall (h : host) p l f,
  h_listdir h p = Ok l -> In f l -> h_isfile h (pjoin p f) = true ->
  f <> [] -> is_special f = false -> is_ascii f = true -> dos_is_legal_name f = true ->
  exists g, snd (get_native_name h p (display_name f) [] false false) = Ok g /\
            h_isfile h (pjoin p g) = true /\ display_name g = display_name f.
Proof. exact files_entry_opens_some. Qed.
Print Assumptions C28_files_entry_opens_some.

(* the entry is a legal DOS name exactly when the host name is one; overlong parts of other names carry the
   mark +.  (Not every non-legal name is overlong: "A,B" or a short non-ASCII name is listed without +.)
   cp_clean excludes the two code points of the default code page whose image is an allowable character
   although they are not ASCII: U+1FEF -> ` and U+212A KELVIN SIGN -> K; for those the equivalence fails
   (C28_kelvin_entry): such a file is listed under a legal entry that does not open it *)
Theorem C28_entry_legal_iff : forall f, cp_clean f ->
  (dos_is_legal_name (display_name f) = true <-> (is_ascii f = true /\ dos_is_legal_name f = true)).
Proof. exact entry_legal_iff. Qed.
Print Assumptions C28_entry_legal_iff.

Theorem C28_cp_clean_default : forall f, ~ In 8175 f -> ~ In 8490 f -> cp_clean f.
Proof. exact cp_clean_default. Qed.
Print Assumptions C28_cp_clean_default.

Theorem C28_overlong_marked : forall f, is_ascii f && dos_is_legal_name f = false ->
  (8 < length (fst (dos_splitext (to_cp f))) \/ 3 < length (snd (dos_splitext (to_cp f))))%nat ->
  In 43 (display_name f).
Proof. exact overlong_marked. Qed.
Print Assumptions C28_overlong_marked.

Example C28_kelvin_entry : display_name [8490] = [75] /\ dos_is_legal_name [75] = true /\ is_ascii [8490] = false.
Proof. exact kelvin_entry. Qed.

(* FILES: an entry that is a legal DOS name opens the file it stands for - when no other file of the
   directory is listed under the same entry (two host files differing only in case share one entry) *)
Theorem C28_files_lists_openable : forall (h : host) p l f,
  h_listdir h p = Ok l -> In f l -> h_isfile h (pjoin p f) = true ->
  (forall x, h_isfile h (pjoin p x) = true -> In x l) ->
  f <> [] -> is_special f = false -> is_ascii f = true -> dos_is_legal_name f = true ->
  (forall g, In g l -> h_isfile h (pjoin p g) = true -> display_name g = display_name f -> g = f) ->
  snd (get_native_name h p (display_name f) [] false false) = Ok f.
Proof. exact files_entry_opens. Qed.
Print Assumptions C28_files_lists_openable.

(* entries carrying the truncation mark `+` are not legal names: lookups and KILL refuse them *)
Theorem C28_plus_not_legal : forall s, In 43 s -> is_special s = false -> dos_is_legal_name s = false.
Proof. exact plus_not_legal. Qed.
Print Assumptions C28_plus_not_legal.

(* ---- the lock table of a drive (model/PathsLocks.v: Locks.open_file / close_file / list_open and their use by
   DiskDevice.open, NAME and KILL); `basename` (ntpath.basename) is universally quantified ---- *)

(* a failed OPEN - name resolution, lock acquisition or opening the host file fails - leaves the table exactly
   as it was, for a file number that is not in use (Files.open refuses numbers in use beforehand) *)
Theorem C28_failed_open_unchanged : forall basename t resolved name number mode lock access stream,
  ~ In number (map fst t) ->
  is_ok (snd (dev_open basename t resolved name number mode lock access stream)) = false ->
  fst (dev_open basename t resolved name number mode lock access stream) = t.
Proof. exact failed_open_unchanged. Qed.
Print Assumptions C28_failed_open_unchanged.

(* after CLOSE of every file number the table is empty: no name has an entry *)
Theorem C28_close_all_empty : forall basename t name,
  close_all t = [] /\ list_open basename (close_all t) name = [].
Proof. intros b t name. split; [apply close_all_empty | apply close_all_no_entries]. Qed.
Print Assumptions C28_close_all_empty.

(* a name without an entry gets its lock in every mode (OUTPUT and APPEND create), and NAME / KILL are not
   refused with File already open *)
Theorem C28_open_free_name : forall basename t name number mode lock access,
  list_open basename t name = [] ->
  snd (dev_open basename t (Ok tt) name number mode lock access (Ok tt)) = Ok tt
  /\ require_not_open basename t name = Ok tt.
Proof. intros b t name n m l a H. split; [apply dev_open_free_name; exact H | apply name_kill_free_name; exact H]. Qed.
Print Assumptions C28_open_free_name.

(* together: a failed numbered OPEN leaves no trace - the name can be created / renamed / killed afterwards *)
Theorem C28_failed_open_then_create :
  forall basename t resolved name name' number mode lock access stream mode' number' lock' access',
  ~ In number (map fst t) -> list_open basename t name' = [] ->
  is_ok (snd (dev_open basename t resolved name number mode lock access stream)) = false ->
  let t1 := fst (dev_open basename t resolved name number mode lock access stream) in
  snd (dev_open basename t1 (Ok tt) name' number' mode' lock' access' (Ok tt)) = Ok tt
  /\ require_not_open basename t1 name' = Ok tt.
Proof. exact failed_open_then_create. Qed.
Print Assumptions C28_failed_open_then_create.

(* non-vacuity of the lock theorems: a second OPEN FOR OUTPUT of an open name is refused (55), a failed OPEN of
   a missing file registers nothing, the name is then free *)
Example C28_locks_nonvacuous :
  let t1 := fst (dev_open nt_basename [] (Ok tt) [65; 46; 84] 1 79 [] [] (Ok tt)) in
  t1 <> [] /\ snd (dev_open nt_basename t1 (Ok tt) [97; 46; 116] 2 79 [] [] (Ok tt)) = Err dn_E_FILE_ALREADY_OPEN /\
  fst (dev_open nt_basename [] (Err dn_E_FILE_NOT_FOUND) [65; 46; 84] 1 73 [] [] (Ok tt)) = [] /\
  close_all t1 = [].
Proof. vm_compute. repeat split. discriminate. Qed.

(* non-vacuity: "abc.txt" is created as ABC.TXT in an empty directory and "Abc.Txt" then finds ABC.TXT;
   the hypotheses of C28_found_again are satisfiable (the conclusion is obtained THROUGH the theorem) *)
Definition nv_h : host :=
  {| h_isdir := fun _ => false; h_isfile := fun _ => false; h_exists := fun _ => false;
     h_listdir := fun _ => Ok []; h_try := fun _ => None |}.
Definition nv_c : str := [65; 66; 67; 46; 84; 88; 84].
Definition nv_h' : host :=
  {| h_isdir := fun _ => false;
     h_isfile := fun q => match snd q with [x] => seqb x nv_c | _ => false end;
     h_exists := fun _ => false; h_listdir := fun _ => Ok [nv_c]; h_try := fun _ => None |}.
Example C28_nonvacuous :
  snd (get_native_name nv_h (67, []) [97; 98; 99; 46; 116; 120; 116] [] false true) = Ok nv_c /\
  snd (get_native_name nv_h' (67, []) [65; 98; 99; 46; 84; 120; 116] [] false false) = Ok nv_c.
Proof.
  split; [vm_compute; reflexivity|].
  apply (C28_found_again nv_h nv_h' (67, []) [] [97; 98; 99; 46; 116; 120; 116]); try (vm_compute; reflexivity);
    try discriminate; try (intros x H; discriminate H); try (intro x; reflexivity).
Qed.

Example C28_nonvacuous_wild :
  dos_name_matches [112; 114; 111; 103] [80; 63; 42; 71] = true /\ Wild [80; 63; 42; 71] [80; 82; 79; 71]
  /\ dos_name_matches [112; 114; 111; 103] [80; 63; 63; 63; 63] = false.
Proof.
  split; [vm_compute; reflexivity|]. split; [apply wmatch_Wild; vm_compute; reflexivity | vm_compute; reflexivity].
Qed.
