(* C23 - RUN, CLEAR and NEW reset state; CHAIN keeps exactly the COMMON variables.
   Only statements, `exact`, Print Assumptions and non-vacuity examples here.

   cmd_clear / cmd_new / cmd_run / cmd_chain execute the REGENERATED tables (gen/Gen_clear.v) of
   Implementation.clear_ / new_ / run_ / chain_ and of everything they call; a reset call dropped from
   the code drops out of the table and the theorems below stop being provable. *)
From Coq Require Import ZArith List Bool String.
From PCB Require Import lib.Result lib.PyInt lib.ClearTable gen.Gen_clear model.ClearChain proofs.ClearChain_reset proofs.ClearChain_closed proofs.ClearChain_proofs
  proofs.ClearChain_ext.
Import ListNotations.
Open Scope Z_scope.

(* is_reset s: variables, arrays, string space, DEFtype, OPTION BASE, DEF FN, GOSUB / FOR / WHILE stacks,
   error trap and ERR / ERL, math-error mode (soft), STOP / DATA pointers, RND seed and event traps of s equal those of the freshly
   constructed session (init_state) with the same memory size and program. *)

(* CLEAR [n][,[memory][,stack]], whenever it does not raise (Illegal function call / Out of memory on its
   arguments), from every state - in particular inside subroutines and loops (D14) *)
Theorem C23_reset_clear : forall s intexp mem stack s',
  cmd_clear intexp mem stack s = Done s' -> is_reset s'.
Proof. exact clear_reset. Qed.
Print Assumptions C23_reset_clear.

(* plain CLEAR never fails; it keeps memory size, program, open files and the program pointer *)
Theorem C23_reset_clear_plain : forall s, exists s',
  cmd_clear None None None s = Done s' /\ is_reset s'
  /\ m_total s' = m_total s /\ m_stack s' = m_stack s /\ m_prog_size s' = m_prog_size s
  /\ files s' = files s /\ functions s' = [] /\ run_mode s' = run_mode s.
Proof. exact clear_plain_total. Qed.
Print Assumptions C23_reset_clear_plain.

Theorem C23_reset_new : forall s, exists s',
  cmd_new s = Done s' /\ is_reset s' /\ m_prog_size s' = 3 /\ run_mode s' = false /\ tron s' = false.
Proof. exact new_reset. Qed.
Print Assumptions C23_reset_new.

(* RUN, RUN line, RUN "file"[,R]; files are closed except with ,R *)
Theorem C23_reset_run : forall s jumpnum jump_missing file s',
  cmd_run jumpnum jump_missing file s = Done s' ->
  is_reset s' /\ run_mode s' = true
  /\ files s' = (match file with Some (_, true, _) => files s | _ => [] end).
Proof. exact run_reset. Qed.
Print Assumptions C23_reset_run.

(* RUN to a line that does not exist: Undefined line number, after everything was cleared *)
Theorem C23_reset_run_missing_line : forall s j file e s',
  cmd_run (Some j) true file s = Raised e s' -> e = err_UNDEFINED_LINE_NUMBER /\ is_reset s'.
Proof. exact run_missing_line. Qed.
Print Assumptions C23_reset_run_missing_line.

(* the set CHAIN keeps: the completed names of the COMMON declarations, plain ones for scalars (kind 0),
   bracketed ones for arrays (kind 1); declarations with square brackets (kind 2) are ignored *)
Theorem C23_gather_commons : forall dt kind decls r, gather dt kind decls [] = Ok r ->
  NoDup r /\ forall n, In n r <-> exists m, In (m, kind) decls /\ complete_name dt m = Ok n.
Proof. exact gather_commons_spec. Qed.
Print Assumptions C23_gather_commons.

(* wf s: the invariant of the two variable dictionaries of a session - distinct names, no array dimension that
   is negative or below the OPTION BASE.  It holds initially and is kept by Scalars.set and Arrays.allocate
   (the bottom of LET / DIM) and by the four commands, so it is no restriction on reachable states. *)
Theorem C23_wf_invariant :
  (forall t k c p, wf (init_state t k c p))
  /\ (forall n v s s', wf s -> scalars_set n v s = Done s' -> wf s')
  /\ (forall n d b s s', wf s -> arrays_restore n d b s = Done s' -> wf s')
  /\ (forall s', is_reset s' -> wf s')
  /\ (forall a s s', cmd_chain a s = Done s' -> wf s').
Proof.
  split; [exact wf_init|]. split; [exact wf_scalars_set|]. split; [exact wf_arrays_restore|].
  split; [exact is_reset_wf | exact wf_chain].
Qed.
Print Assumptions C23_wf_invariant.

(* After a successful CHAIN [MERGE] file[,line][,ALL][,DELETE range] exactly the COMMON scalars (all with ALL)
   exist, with identical values: numbers byte for byte, strings by content (read through the rebuilt
   string space) - wherever the string lived: string space, program literal, FIELD buffer. *)
Theorem C23_chain_exact_scalars : forall a s s', cmd_chain a s = Done s' -> wf s ->
  exists commons, gather (deftype s) 0 (c_decls a) [] = Ok commons /\
    forall n, scalar_value s' n = if c_all a || nmem n commons then scalar_value s n else None.
Proof. intros a s s' H (W1 & W2 & _ & W4). exact (chain_scalars_exact a s s' H W1 W2 W4). Qed.
Print Assumptions C23_chain_exact_scalars.

(* ... and exactly the COMMON arrays, with their dimensions and contents (string elements by content) *)
Theorem C23_chain_exact_arrays : forall a s s', cmd_chain a s = Done s' -> wf s ->
  exists commons, gather (deftype s) 1 (c_decls a) [] = Ok commons /\
    forall n, array_value s' n = if c_all a || nmem n commons then array_value s n else None.
Proof. intros a s s' H (W1 & W2 & _ & W4). exact (chain_arrays_exact a s s' H W1 W2 W4). Qed.
Print Assumptions C23_chain_exact_arrays.

(* explicit case: a COMMON string variable attached to a FIELD buffer (or still a literal in program code) -
   a pointer below the variable area - arrives detached, with the content it had at the CHAIN *)
Theorem C23_chain_field_string : forall a s s' n l lo hi b commons, cmd_chain a s = Done s' -> wf s ->
  gather (deftype s) 0 (c_decls a) [] = Ok commons -> c_all a || nmem n commons = true ->
  is_str_scalar n = true -> alookup n (sc_vars s) = Some [l; lo; hi] ->
  l <> 0 -> lo + 256 * hi < var_start s -> plookup (lo + 256 * hi) l (foreign s) = Some b ->
  scalar_value s' n = Some (Ok b).
Proof. exact chain_field_string. Qed.
Print Assumptions C23_chain_field_string.

(* OPTION BASE over CHAIN (GW-BASIC: passed on with the COMMON variables): it is kept when a COMMON
   declaration exists or ALL is given, cleared otherwise *)
Theorem C23_chain_option_base : forall a s s', cmd_chain a s = Done s' ->
  let kept := c_all a || (nonempty (c_cs_order a) || nonempty (c_ca_order a)) in
  (kept = false -> ar_base s' = None /\ ar_base_by_dim s' = false)
  /\ (kept = true -> forall b, ar_base s = Some b -> ar_base s' = Some b /\ ar_base_by_dim s' = ar_base_by_dim s).
Proof. exact chain_base. Qed.
Print Assumptions C23_chain_option_base.

(* CHAIN MERGE ...,DELETE a-b whose last line does not exist: Illegal function call before anything is touched;
   CHAIN ...,line to a line missing from the resulting program never succeeds (Illegal function call after
   the program was replaced and everything cleared).  For every other combination of MERGE / line / DELETE /
   ALL the theorems above and below apply as they are: the arguments are universally quantified, the
   resulting program (its size) is an input from the real loader. *)
Theorem C23_chain_bad_delete_range : forall a s, c_delete a = true -> c_to_line_missing a = true ->
  cmd_chain a s = Raised err_IFC s.
Proof. exact chain_bad_delete_range. Qed.
Print Assumptions C23_chain_bad_delete_range.

Theorem C23_chain_missing_line : forall a s j, c_jumpnum a = Some j -> c_jump_missing a = true ->
  match cmd_chain a s with
  | Done _ => False
  | Raised e s' => e <> err_IFC \/ s' = s \/ s' = RecordSet.set m_allow_collect (fun _ => true) s \/
       (sc_vars s' = [] /\ ar_dims s' = [] /\ m_prog_size s' = c_new_prog_size a /\ m_allow_collect s' = true)
  | _ => True
  end.
Proof. exact chain_missing_line. Qed.
Print Assumptions C23_chain_missing_line.

(* ... and everything else is cleared: stacks, error trap, ERR / ERL, DATA pointer, RND seed, event traps;
   DEFtype survives only with MERGE, DEF FN only with ALL (GW-BASIC's documented exceptions); the new
   program is in place and running *)
Theorem C23_chain_rest_cleared : forall a s s', cmd_chain a s = Done s' ->
  (gosub_stack s', for_stack s', while_stack s') = ([], [], [])
  /\ (on_error s', err_handle s', err_resume s', err_num s', err_pos s') = (None, false, false, 0, 0)
  /\ (stop_pos s', data_pos s', seed s', math_raise s') = (None, 0, 5228370, false)
  /\ (ev_enabled s', ev_gosub s', ev_stopped s', ev_suspend s') = ([], [], [], false)
  /\ deftype s' = (if c_merge a then deftype s else repeat 33 26)
  /\ functions s' = (if c_all a then functions s else [])
  /\ m_prog_size s' = c_new_prog_size a /\ run_mode s' = true /\ m_allow_collect s' = true
  /\ (m_total s', m_stack s', m_code_start s', files s', def_seg s')
     = (m_total s, m_stack s, m_code_start s, files s, def_seg s).
Proof. exact chain_rest. Qed.
Print Assumptions C23_chain_rest_cleared.

(* Out of memory in CHAIN as the code has it: either while the COMMON strings are copied (nothing touched),
   or after the program was replaced and everything cleared (the COMMON variables are then lost as well) *)
Theorem C23_chain_oom : forall a s s', cmd_chain a s = Raised err_OUT_OF_MEMORY s' ->
  s' = RecordSet.set m_allow_collect (fun _ => true) s
  \/ (m_prog_size s' = c_new_prog_size a /\ run_mode s' = true /\ m_allow_collect s' = true
      /\ (gosub_stack s', for_stack s', while_stack s', on_error s', seed s', data_pos s')
         = ([], [], [], None, 5228370, 0)).
Proof. exact chain_oom. Qed.
Print Assumptions C23_chain_oom.

(* whatever CHAIN ends with - done, BASIC error, host exception - string garbage collection is on again
   (D23a: hold_garbage must restore the switch in a `finally:`) *)
Theorem C23_chain_gc_on : forall a s s', out_state (cmd_chain a s) = Some s' ->
  m_allow_collect s = true -> m_allow_collect s' = true.
Proof. exact chain_gc_on. Qed.
Print Assumptions C23_chain_gc_on.

(* ... exactly: once the memory check of preserve_commons has passed the restore loop cannot run out of memory
   (Scalars.set / Arrays.allocate take exactly the sizes that were added up), so CHAIN never ends half-restored *)
Theorem C23_chain_oom_exact : forall a s s', cmd_chain a s = Raised err_OUT_OF_MEMORY s' -> wf s ->
  s' = RecordSet.set m_allow_collect (fun _ => true) s
  \/ (sc_vars s' = [] /\ ar_dims s' = [] /\ ar_bufs s' = [] /\ ss_strs s' = []
      /\ m_prog_size s' = c_new_prog_size a /\ run_mode s' = true /\ m_allow_collect s' = true).
Proof. exact chain_oom_exact. Qed.
Print Assumptions C23_chain_oom_exact.

(* DEF SEG is kept by CLEAR, NEW and RUN (and by CHAIN: C23_chain_rest_cleared), as the code has it *)
Theorem C23_def_seg_kept : forall s,
  (forall i m k s', cmd_clear i m k s = Done s' -> def_seg s' = def_seg s)
  /\ (forall s', cmd_new s = Done s' -> def_seg s' = def_seg s)
  /\ (forall j jm f s', cmd_run j jm f s = Done s' -> def_seg s' = def_seg s).
Proof. exact reset_keeps_def_seg. Qed.
Print Assumptions C23_def_seg_kept.

(* non-vacuity: a state with a subroutine / loop nest, an error trap, variables of every kind; CLEAR resets it,
   CHAIN with COMMON B$, N%() keeps exactly these two *)
Definition ex_state : state :=
  mkState 65534 512 4717 200 true
    [([65; 33], [0; 0; 0; 129]); ([66; 36], [3; 250; 253]); ([67; 36], [2; 253; 253])] [[65; 33]; [66; 36]; [67; 36]] 22
    [([78; 37], [1])] [([78; 37], [7; 0; 9; 0])] [[78; 37]] 13 (Some 0) true
    [(65018, [97; 98; 99]); (65021, [120; 121])] 65017 [] (repeat 33 26) [[70; 33]]
    [1] [2; 3] [4] (Some 100) false false 5 17 None 40 true false 77
    [1] [1] [] false [1] false 64 true.
Definition ex_chain : chain_args :=
  mkChain false false None false false false false false 50
          [([66; 36], 0); ([78; 37], 1)] [[66; 36]] [[78; 37]].

Example C23_nonvacuous :
  (exists s', cmd_clear None None None ex_state = Done s' /\ gosub_stack ex_state <> [] /\ gosub_stack s' = [])
  /\ (exists s', cmd_chain ex_chain ex_state = Done s'
        /\ scalar_value s' [66; 36] = Some (Ok [97; 98; 99]) /\ scalar_value s' [67; 36] = None
        /\ scalar_value s' [65; 33] = None /\ array_value s' [78; 37] = Some ([1], Ok [[7; 0; 9; 0]]))
  /\ wf ex_state.
Proof.
  split; [eexists; split; [vm_compute; reflexivity | split; [discriminate | reflexivity]]|].
  split; [eexists; split; [vm_compute; reflexivity | repeat split; vm_compute; reflexivity]|].
  split; [repeat constructor; cbn; intuition discriminate|].
  split; [repeat constructor; cbn; intuition discriminate|].
  split.
  - intros n d [H|[]]. injection H as <- <-. repeat constructor. vm_compute. discriminate.
  - intros n d b [H|[]] Hb. injection H as <- <-. injection Hb as <-. repeat constructor. vm_compute. discriminate.
Qed.

(* non-vacuity of the FIELD case: F$ (COMMON) is attached to a FIELD buffer at address 3951, 5 bytes *)
Definition ex_field_state : state :=
  mkState 65534 512 4717 200 true
    [([70; 36], [5; 111; 15])] [[70; 36]] 7 [] [] [] 0 None false
    [] 65020 [((3951, 5), [104; 101; 108; 108; 111])] (repeat 33 26) []
    [] [] [] None false false 0 0 None 0 true false 5228370 [] [] [] false [1] false 5037 false.
Example C23_field_nonvacuous :
  wf ex_field_state /\ scalar_value ex_field_state [70; 36] = Some (Ok [104; 101; 108; 108; 111])
  /\ exists s', cmd_chain (mkChain false false None false false false false false 50 [([70; 36], 0)] [[70; 36]] [])
                  ex_field_state = Done s'
       /\ scalar_value s' [70; 36] = Some (Ok [104; 101; 108; 108; 111])
       /\ alookup [70; 36] (sc_vars s') = Some [5; 248; 253].
Proof.
  split.
  { split; [repeat constructor; cbn; intuition discriminate|].
    split; [constructor|]. split; [intros n d []|]. intros n d b []. }
  split; [vm_compute; reflexivity|].
  eexists. split; [vm_compute; reflexivity|]. split; vm_compute; reflexivity.
Qed.

(* CHAIN can fail only through: a bad DELETE range, MERGE into a protected program, a missing file or line,
   an error while the COMMON strings are copied, or the memory check of preserve_commons.  Once that check has
   passed, the restore loop (Scalars.set / Arrays.allocate for every COMMON variable) cannot fail in any way -
   no Out of memory, no Duplicate Definition, no Subscript out of range, no host exception - and CHAIN completes.
   wf and bufs_ok (every array has dimensions and a buffer of the size they determine) are invariants of
   Arrays.allocate; the harness checks them on every real pre-state. *)
Theorem C23_chain_succeeds : forall a s gs ga sv sz, wf s -> bufs_ok s ->
  c_delete a && c_to_line_missing a = false -> c_merge a && c_protected a = false ->
  c_file_missing a = false -> (match c_jumpnum a with Some _ => c_jump_missing a | None => false end) = false ->
  gather (deftype s) 0 (c_decls a) [] = Ok gs -> gather (deftype s) 1 (c_decls a) [] = Ok ga ->
  same_set gs (c_cs_order a) && nodupb (c_cs_order a) && (same_set ga (c_ca_order a) && nodupb (c_ca_order a)) = true ->
  let kb := c_all a || (nonempty (c_cs_order a) || nonempty (c_ca_order a)) in
  let cs' := if c_all a then map fst (sc_vars s) else c_cs_order a in
  let ca' := if c_all a then map fst (ar_dims s) else c_ca_order a in
  let s1 := RecordSet.set m_allow_collect (fun _ => false) s in
  let s4 := RecordSet.set run_mode (fun _ => true) (chain_loaded a kb s1) in
  migrate_commons cs' ca' s1 = Ok sv -> sizes_of sv s4 = Ok sz ->
  var_start s4 + sz < st_cur (sv_store sv) ->
  exists s', cmd_chain a s = Done s'.
Proof. exact chain_succeeds. Qed.
Print Assumptions C23_chain_succeeds.

From PCB Require Import lib.Harness.
Example C23_succeeds_nonvacuous : bufs_ok ex_state.
Proof.
  intros n d b Hd Hb. cbn in Hd, Hb. destruct (list_Z_eqb n [78; 37]) eqn:E; [|discriminate].
  injection Hd as <-. injection Hb as <-. apply list_Z_eqb_eq in E. subst n.
  split; [discriminate|]. intros bb Hbb. injection Hbb as <-. vm_compute. reflexivity.
Qed.
