(* C10 - String variables keep their values through any memory history.
   Only statements, `exact`, Print Assumptions and non-vacuity examples here.
   Model: model/StrSpace.v (string space, collector, variables) + model/UserFn.v (expressions, statements), following
   the code with the fixes D10a-D10d, D15, D16, D20a, D20b.  Good c st is the invariant (chain of stored strings
   above `current`, every pointer of every variable / stack entry / temporary bound to a string of its length,
   permanent strings above _temp, memory accounting). *)
From Coq Require Import ZArith List Bool Lia.
From PCB Require Import lib.Result lib.PyInt model.StrSpace model.UserFn
     proofs.StrSpace_base proofs.StrSpace_gc proofs.StrSpace_inv proofs.StrSpace_ops
     proofs.UserFn_proofs proofs.UserFn_stmt proofs.UserFn_values proofs.UserFn_inplace proofs.UserFn_mid.
Import ListNotations.
Open Scope Z_scope.

(* the two forms of the invariant agree: Good (per variable / stack entry / temporary) and Inv (per collector root) *)
Theorem C10_inv_forms : forall c st, Good c st -> Inv c st.
Proof. exact Good_Inv. Qed.
Print Assumptions C10_inv_forms.

(* garbage collection: never fails on a good state, keeps the invariant, keeps the bytes of every scalar, array
   element, expression-stack entry and temporary (Rel relates them pointwise after relocation) *)
Theorem C10_gc_preserves : forall c st, Good c st ->
  exists st', collect c st = Ok st' /\ Good c st' /\ Rel c st st' /\
              (forall n, sval_of c st' n = sval_of c st n) /\ (forall n i, aval_of c st' n i = aval_of c st n i).
Proof.
  intros c st G. destruct (collect_good c st G) as (st' & Hc & G' & _ & R & _). exists st'.
  split; [exact Hc|]. split; [exact G'|]. split; [exact R|]. split; [apply Rel_sval, R|apply Rel_aval, R].
Qed.
Print Assumptions C10_gc_preserves.

(* ... and compacts: `current` ends at top - (bytes of the live strings, each distinct address counted once:
   `stored` adds one length per run of equal addresses of the address-sorted root entries) *)
Theorem C10_gc_compact : forall c st, Inv c st ->
  exists es st', gather c st (roots st) = Ok es /\ collect c st = Ok st' /\
                 cur st' = top st - stored (sort_desc es) None /\ cur st <= cur st' /\ top st' = top st.
Proof.
  intros c st HI. destruct (collect_spec c st HI) as (es & st' & m & Hg & Hc & _ & _ & _ & _ & _ & _ & Hcur & Hle & Htop & _).
  exists es, st'. auto.
Qed.
Print Assumptions C10_gc_compact.

(* FRE after a collection = memory size - program - variables - arrays - live string bytes *)
Theorem C10_fre : forall c st, Good c st ->
  exists es st', gather c st (roots st) = Ok es /\ collect c st = Ok st' /\
                 free c st' = top st - var_start c - scur st - acur st - stored (sort_desc es) None.
Proof.
  intros c st G. destruct (collect_spec c st (Good_Inv _ _ G)) as (es & st' & m & Hg & Hc & _ & Hsh & _ & _ & _ & _ & Hcur & _).
  exists es, st'. split; [exact Hg|]. split; [exact Hc|]. unfold free. rewrite Hcur.
  unfold shape in Hsh. injection Hsh as _ _ _ _ _ _ _ _ Hs Ha. rewrite Hs, Ha. lia.
Qed.
Print Assumptions C10_fre.

(* Out of string space only when a collection cannot free more than the requested length
   (the code compares free <= size: one byte of slack is part of the statement) ... *)
Theorem C10_oss_only_when_full : forall c st bs st', Good c st -> store c st bs = (st', Err 14) ->
  zlen bs <= 255 /\ exists st1, collect c st = Ok st1 /\ st' = st1 /\ free c st1 <= zlen bs /\ free c st <= zlen bs.
Proof. exact store_oss_only_when_full. Qed.
Print Assumptions C10_oss_only_when_full.

(* ... and a string of at most 255 bytes is always stored when there is room, possibly after a collection *)
Theorem C10_store_when_room : forall c st bs, Good c st -> zlen bs <= 255 ->
  (zlen bs < free c st \/ exists st1, collect c st = Ok st1 /\ zlen bs < free c st1) ->
  exists st' p, store c st bs = (st', Ok p).
Proof. exact store_succeeds_when_room. Qed.
Print Assumptions C10_store_when_room.

(* storing a string (with or without a collection, failing or not) keeps the invariant and every value;
   the new pointer reads back the stored bytes *)
Theorem C10_store_preserves : forall c st bs, Good c st -> Jt st ->
  let '(st', r) := store c st bs in
  Good c st' /\ Rel c st st' /\ (forall p, r = Ok p -> fst p = zlen bs /\ deref c st' p = Ok bs).
Proof.
  intros c st bs G J. pose proof (store_good c st bs G J) as H. destruct (store c st bs) as [st' r].
  destruct H as (G' & _ & R & _ & Hp & _). split; [exact G'|]. split; [exact R|]. intros p E. destruct (Hp p E) as (_ & A & B & _). auto.
Qed.
Print Assumptions C10_store_preserves.

(* evaluating any expression (string functions, concatenation, FRE with its collection, DEF FN calls, ... for
   every fuel, whatever the result: value, BASIC error, host error, out of fuel) keeps the invariant and leaves
   every scalar, array element, stack entry and temporary with its value *)
Theorem C10_expression_preserves : forall c fuel e st, Good c st -> Jt st ->
  let '(st', r) := parse c fuel e st in
  Good c st' /\ Rel c st st' /\ active st' = active st /\
  (forall n, sval_of c st' n = sval_of c st n) /\ (forall n i, aval_of c st' n i = aval_of c st n i).
Proof.
  intros c fuel e st G J. pose proof (parse_EV c fuel e st G J) as H. unfold EV in H. destruct (parse c fuel e st) as [st' r].
  destruct H as (G' & _ & R & A & _). split; [exact G'|]. split; [exact R|]. split; [exact A|].
  split; [apply Rel_sval, R|apply Rel_aval, R].
Qed.
Print Assumptions C10_expression_preserves.

(* the start of a statement (reset_temporaries, which deletes the last temporary string) keeps all values *)
Theorem C10_reset_preserves : forall c st, Good c st -> idle st ->
  Good c (reset_temporaries st) /\ idle (reset_temporaries st) /\
  (forall n, sval_of c (reset_temporaries st) n = sval_of c st n) /\
  (forall n i, aval_of c (reset_temporaries st) n i = aval_of c st n i).
Proof.
  intros c st G Hi. destruct (reset_temporaries_good c st G Hi) as (a1 & _ & a3 & a4 & a5 & _). auto.
Qed.
Print Assumptions C10_reset_preserves.

(* the invariant is preserved by every statement, including failing ones, for all histories.
   Full statement: *)
Definition C10_inv_preserved_statement : Prop :=
  forall c fuel d s st, SInv c st -> SInv c (fst (exec c fuel d s st)).
(* proved for every statement of the language except console INPUT: LET (all expression forms), MID$=, LSET, RSET,
   SWAP, ERASE, DIM, CLEAR [,n], DEF FN, DEFtype.  Console INPUT is covered by the correspondence tests and the
   oracle only (see design_notes/C10.md; defect D10e sat in this step) *)
Definition covered (s : stmt) : Prop := match s with SInput _ _ => False | _ => True end.

Theorem C10_inv_preserved_partial : forall c fuel d s st, covered s -> SInv c st -> SInv c (fst (exec c fuel d s st)).
Proof.
  intros c fuel d s st Hs HI.
  destruct s; try (apply exec_simple_inv; [exact I|exact HI]);
    [apply exec_mid_inv; exact HI|apply exec_lset_inv; exact HI|contradiction].
Qed.
Print Assumptions C10_inv_preserved_partial.

Fixpoint run_hist (c : cfg) (fuel : nat) (steps : list (bool * stmt)) (st : state) : state :=
  match steps with
  | [] => st
  | (d, s) :: r => run_hist c fuel r (fst (exec c fuel d s st))
  end.

Theorem C10_history_partial : forall c fuel steps st,
  Forall (fun ds => covered (snd ds)) steps -> SInv c st -> SInv c (run_hist c fuel steps st).
Proof.
  intros c fuel steps. induction steps as [|[d s] r IH]; intros st Hs HI; [exact HI|].
  inversion Hs; subst. simpl. apply IH; [assumption|]. apply C10_inv_preserved_partial; assumption.
Qed.
Print Assumptions C10_history_partial.

(* refinement: every variable reads back as in the abstract map var -> bytes.  Full statement kept visible;
   what is proved is the storage half of it: between the points where a statement assigns, no value ever
   changes (C10_gc_preserves, C10_store_preserves, C10_expression_preserves, C10_reset_preserves), and the
   assigned pointer reads back the assigned bytes (C10_store_preserves).  The per-statement update of the
   abstract map (LET / MID$ / LSET / SWAP) is checked by correspondence + the dict oracle only. *)
Definition C10_refinement_statement : Prop :=
  forall c fuel steps st (spec : list (bool * stmt) -> Z -> res (list Z) * Z),
    SInv c st -> forall n, sval_of c (run_hist c fuel steps st) n = spec steps n.

(* non-vacuity: the initial state of a session is good and idle, and a collection on it succeeds *)
Example C10_nonvacuous :
  let c := mk_cfg 4717 4720 [] in
  SInv c (init_state 65534 512) /\ exists st', collect c (init_state 65534 512) = Ok st'.
Proof.
  assert (G : Good (mk_cfg 4717 4720 []) (init_state 65534 512)).
  { constructor; simpl.
    - unfold top. simpl. reflexivity.
    - split; [lia|]. split; [lia|]. left; reflexivity.
    - exact I.
    - constructor.
    - constructor.
    - intros n v H; discriminate.
    - intros n v H; discriminate.
    - intros n d els H; discriminate.
    - intros n d els H; discriminate.
    - reflexivity.
    - intros fr o [].
    - intros o [].
    - simpl. lia. }
  split; [split; [exact G|unfold idle; simpl; auto]|].
  destruct (collect_good _ _ G) as (st' & H & _). eauto.
Qed.
