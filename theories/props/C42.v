(* C42 - PLAY emits the notes its music string specifies.
   Only statements, `exact`, Print Assumptions and non-vacuity examples here.

   Model: model/Play.v (scanner `lex`, interpreter `step`/`run`, durations exact in Q, in the order of the Python
   arithmetic); specification: model/PlaySpec.v (`spec_step`/`spec_run`: index 12*octave+semitone or n-1,
   seconds = (240/T)*(1/L)*(3/2)^dots, tone = seconds*fill, gap = seconds*(1-fill), fill 7/8 | 1 | 3/4).
   `represents st a`: the concrete play state st (floats as rationals) stands for octave/L/T/mode a.
   Reading of the property's index convention (0-based table index, N n -> n-1): DESIGN.md, section C42. *)
From Coq Require Import ZArith QArith List Bool Reals.
From PCB Require Import lib.Result lib.PyInt gen.Gen_play model.Play model.PlaySpec
                        proofs.Play_proofs proofs.Play_fuel_proofs proofs.Play_multi_proofs proofs.Play_freq_proofs.
Import ListNotations.
Open Scope Z_scope.

(* ---- the whole statement: for ALL command lists, from any reachable state, the emitted tone signals (note
   index, duration up to == on Q, volume), the final state and the error status are those of the specification *)
Theorem C42_play_refines_spec : forall cs st a,
  represents st a -> run_rel (run st cs) (spec_run a cs).
Proof. exact run_refines. Qed.
Print Assumptions C42_play_refines_spec.

Theorem C42_initial_state : represents init_state init_astate.
Proof. exact init_represents. Qed.
Print Assumptions C42_initial_state.

(* ... and for every byte string (scanner included; fuel only matters for recursive X substrings) *)
Theorem C42_play_string : forall fuel e st a s,
  represents st a -> s <> [] -> run_rel (play fuel e st s) (spec_run a (lex fuel e s)).
Proof. exact play_refines. Qed.
Print Assumptions C42_play_string.

(* ---- note numbers: index = octave*12 + semitone (N n -> n-1), 0 <= index < 84, one sounding tone per note *)
Theorem C42_note_index : forall st a c st' evs,
  represents st a -> step st c = Ok (st', evs) ->
  Forall ev_in_table evs /\
  sounding evs = match spec_note_index a c with Some i => [i] | None => [] end.
Proof. exact note_index. Qed.
Print Assumptions C42_note_index.

Theorem C42_table_lookup_cannot_fail : forall st a c,
  represents st a -> (forall k, c <> CHost k) -> forall k, step st c <> Host k.
Proof. exact lookup_cannot_fail. Qed.
Print Assumptions C42_table_lookup_cannot_fail.

(* ---- octave changes are clamped to 0..6 *)
Theorem C42_octave_clamped : forall st,
  (exists st', step st CUp = Ok (st', []) /\ st_octave st' = Z.min 6 (st_octave st + 1)) /\
  (exists st', step st CDown = Ok (st', []) /\ st_octave st' = Z.max 0 (st_octave st - 1)).
Proof. exact octave_steps. Qed.
Print Assumptions C42_octave_clamped.

Theorem C42_octave_range : forall cs st a,
  represents st a -> let '(_, st', _) := run st cs in 0 <= st_octave st' <= 6.
Proof. exact octave_invariant. Qed.
Print Assumptions C42_octave_range.

(* ---- durations: (240/T)*(1/L)*(3/2)^dots, L from the suffix or the current L; gap 1/8, 0, 1/4 of it *)
Theorem C42_duration : forall st a letter acc len d st' evs,
  represents st a -> step st (CNote letter acc len d) = Ok (st', evs) ->
  exists sem, semitone_spec letter acc = Some sem /\
    let L := match len with Some l => if 0 <? l then l else a_L a | None => a_L a end in
    let secs := ((240 / inject_Z (a_T a)) * (1 / inject_Z L) * (3 # 2) ^ Z.of_nat d)%Q in
    evs_eq evs (mkev (Some (12 * a_octave a + sem)) (secs * fill_of (a_mode a))%Q 15 ::
                match a_mode a with FillL => [] | m => [mkev None (secs * gap_fraction m)%Q 0] end).
Proof. exact note_duration. Qed.
Print Assumptions C42_duration.

Theorem C42_gap_fractions :
  (gap_fraction FillN == 1 # 8)%Q /\ (gap_fraction FillL == 0)%Q /\ (gap_fraction FillS == 1 # 4)%Q /\
  forall m, (gap_fraction m == 1 - fill_of m)%Q /\
            (fill_of m = (7 # 8)%Q \/ fill_of m = 1%Q \/ fill_of m = (3 # 4)%Q).
Proof. exact gap_fractions. Qed.
Print Assumptions C42_gap_fractions.

Theorem C42_pause : forall st a l d st' evs,
  represents st a -> l <> 0 -> step st (CPause AccNone (Some l) d) = Ok (st', evs) ->
  evs_eq evs [mkev None ((240 / inject_Z (a_T a)) * (1 / inject_Z l) * (3 # 2) ^ Z.of_nat d)%Q 15].
Proof. exact pause_duration. Qed.
Print Assumptions C42_pause.

(* ---- one tone per note command, in order, for ALL command lists *)
Theorem C42_one_tone_per_note : forall cs st a,
  represents st a ->
  sounding (fst (fst (run st cs))) = spec_notes a cs /\ Forall ev_in_table (fst (fst (run st cs))).
Proof. exact tones_in_order. Qed.
Print Assumptions C42_one_tone_per_note.

(* ---- malformed commands raise Illegal function call (and only they do, among scanned commands) *)
Theorem C42_malformed : forall st a c,
  represents st a -> malformed c = true -> step st c = Err ifc.
Proof. exact malformed_rejected. Qed.
Print Assumptions C42_malformed.

Theorem C42_malformed_stops : forall st a pre c post evs st',
  represents st a -> run st pre = (evs, st', Ok tt) -> malformed c = true ->
  run st (pre ++ c :: post) = (evs, st', Err ifc).
Proof. exact malformed_stops. Qed.
Print Assumptions C42_malformed_stops.

Theorem C42_wellformed_accepted : forall st a c,
  represents st a -> malformed c = false -> (forall e, c <> CBad e) -> (forall k, c <> CHost k) -> c <> CFuel ->
  exists st' evs, step st c = Ok (st', evs).
Proof. exact wellformed_accepted. Qed.
Print Assumptions C42_wellformed_accepted.

Theorem C42_unknown_command : forall fuel e c r,
  c <> 32 -> c <> 59 -> is_command_char (upper c) = false -> lex (S fuel) e (c :: r) = [CBad ifc].
Proof. exact lex_unknown_command. Qed.
Print Assumptions C42_unknown_command.

(* the scanner is total on strings without X substrings: one fuel unit per byte is enough *)
Theorem C42_scanner_total_without_x : forall e st s,
  no_x s -> snd (play (S (length s)) e st s) <> OutOfFuel.
Proof. exact play_total_without_x. Qed.
Print Assumptions C42_scanner_total_without_x.

(* ---- multi-string PLAY (Tandy/PCjr): three voices with their own play states; `play_multi` takes the turns in
   the order of the loop in Sound.play_.  For ALL strings: the tone signals of voice w (`proj w`) and the final
   state of voice w are those of the one-voice interpreter run on string w from state w alone *)
Theorem C42_multi_voice_independent : forall fuel e sts ss evs sts',
  play_multi fuel e sts ss = (evs, sts', Ok tt) ->
  forall w, run (get3 w sts) (lex fuel e (get3 w ss)) = (proj w evs, get3 w sts', Ok tt).
Proof. exact play_multi_independent. Qed.
Print Assumptions C42_multi_voice_independent.

(* also when the statement is cut short by an error in some voice: each voice ran a prefix of its own string *)
Theorem C42_multi_voice_prefix : forall fuel e sts ss evs sts' status,
  play_multi fuel e sts ss = (evs, sts', status) ->
  forall w, exists pre rest,
    lex fuel e (get3 w ss) = pre ++ rest /\ run (get3 w sts) pre = (proj w evs, get3 w sts', Ok tt).
Proof. exact play_multi_prefix. Qed.
Print Assumptions C42_multi_voice_prefix.

(* the same for every order of turns whatsoever (not only the one of Sound.play_) *)
Theorem C42_multi_voice_frame : forall turns sts css evs sts' css' status,
  run_sched turns sts css = (evs, sts', css', status) ->
  forall w, exists pre,
    get3 w css = pre ++ get3 w css' /\ run (get3 w sts) pre = (proj w evs, get3 w sts', Ok tt).
Proof. exact run_sched_frame. Qed.
Print Assumptions C42_multi_voice_frame.

(* an omitted, empty or blank string: nothing is emitted on that voice and its state is unchanged *)
Theorem C42_multi_voice_empty_string : forall fuel e sts ss evs sts' status w,
  play_multi (S fuel) e sts ss = (evs, sts', status) -> skip_blank (get3 w ss) = [] ->
  proj w evs = [] /\ get3 w sts' = get3 w sts.
Proof. exact play_multi_empty_voice. Qed.
Print Assumptions C42_multi_voice_empty_string.

(* the turn order of Sound.play_ (incl. its remove-during-iteration skip) gives every voice exactly as many turns
   as it has commands - finite sweep, bound in the statement; the independence theorems do not depend on it *)
Theorem C42_turn_order_complete_bounded : forall a b c, (a < 25)%nat -> (b < 25)%nat -> (c < 25)%nat ->
  count_turns V0 (sched (a, b, c)) = a /\ count_turns V1 (sched (a, b, c)) = b
  /\ count_turns V2 (sched (a, b, c)) = c.
Proof. exact sched_complete_bounded. Qed.
Print Assumptions C42_turn_order_complete_bounded.

(* non-vacuity: PLAY "O1L64C","","O6L32C" finishes; voice 0 sounds index 12, voice 2 index 72, voice 1 keeps O4 *)
Example C42_multi_nonvacuous :
  let i := (init_state, init_state, init_state) in
  let r := play_multi 100 [] i ([79;49;76;54;52;67], [], [79;54;76;51;50;67]) in
  snd r = Ok tt /\ sounding (proj V0 (fst (fst r))) = [12] /\ sounding (proj V1 (fst (fst r))) = []
  /\ sounding (proj V2 (fst (fst r))) = [72]
  /\ map (fun v => st_octave (get3 v (snd (fst r)))) [V0; V1; V2] = [1; 4; 6]
  /\ map (fun p => voice_code (fst p)) (fst (fst r)) = [0; 0; 2; 2].
Proof. vm_compute. repeat split; reflexivity. Qed.

(* ---- the frequency table (the only theorems with real-number axioms) *)
Theorem C42_freq_table : forall i : nat, (i < 84)%nat ->
  (Rabs (note_freq i - 440 * Rpower 2 ((IZR (Z.of_nat i) - 33) / 12)) <= / 2 ^ 40 * note_freq i)%R.
Proof. exact freq_table. Qed.
Print Assumptions C42_freq_table.

Theorem C42_freq_A440 : note_freq 33 = 440%R.
Proof. exact freq_A440. Qed.
Print Assumptions C42_freq_A440.

(* ---- non-vacuity: "MB O2 A N34 T240 L8 MS C#4. P2 ML >B-" from the initial state *)
Example C42_nonvacuous :
  let s := [77;66;32;79;50;32;65;32;78;51;52;32;84;50;52;48;32;76;56;32;77;83;32;67;35;52;46;32;80;50;32;
            77;76;32;62;66;45] in
  lex 100 [] s = [CFg false; COct 2; CNote 65 AccNone None 0; CNum 34 0; CTempo 240; CLen 8; CFill FillS;
                  CNote 67 AccSharp (Some 4) 1; CPause AccNone (Some 2) 0; CFill FillL; CUp;
                  CNote 66 AccFlat None 0]
  /\ sounding (fst (fst (play 100 [] init_state s))) = [33; 33; 25; 46]
  /\ map (fun ev => Qred (ev_dur ev)) (fst (fst (play 100 [] init_state s)))
     = [7 # 16; 1 # 16; 7 # 16; 1 # 16; 9 # 32; 3 # 32; 1 # 2; 1 # 8]%Q
  /\ snd (play 100 [] init_state s) = Ok tt
  /\ snd (play 100 [] init_state [77;66;32;69;35]) = Err ifc.
Proof. vm_compute. repeat split; reflexivity. Qed.
