(* C04 - Floating-point arithmetic stays within a fixed error of the exact result.
   Only statements, `exact`/short assembly, Print Assumptions and non-vacuity examples here.

   value_scaled v = (exact mathematical value of v) * 2^184 for an Integer, Single or Double v (model/MBF.v).
   v_add / v_sub / v_mul / v_div model values.add / sub / mul / div (model/MBFArith.v): promotion of both
   operands to the widest type (`widest x y`: tag 4 single, 8 double; integers count as single; promotion is
   exact, C06) and the FloatErrorHandler in its two modes (first argument true: the BASIC error is raised;
   false: the message is printed and the operation yields the payload), around the REGENERATED Float.iadd /
   isub / imul / idiv (_add_den, _div_den, _bring_to_range, _normalise, _check_limits; gen/Gen_mbf.v).

   val_post t strict w den N D rh rs  (model/MBFArith.v) is the statement of the property for one operation
   whose exact result is the rational N / D (on the value_scaled scale), with rh / rs the results in the two
   handler modes:
     * Overflow (error 6) is raised only if |N/D| > MAX(t) = max_scaled t, the soft result is then the largest
       number of type t with the sign of the exact result, and it IS raised whenever |N/D| >= 2^127
       (between MAX and 2^127 = MAX + 1 ulp the result may instead round to MAX itself: READING of "a result
       whose magnitude exceeds the largest representable number" as the rounded result; C04_band_* prove that
       MAX itself is then the ONLY alternative to Overflow, for all four operations);
     * otherwise both modes return the same float r of type t;
     * r is a zero only if |N/D| < MIN = 2^-128 (min_scaled): a non-zero result is replaced by zero only below
       the smallest positive number (an exact zero trivially satisfies this);
     * for non-zero r:  den * |r - N/D|  <  (strict)  /  <=  w * ulp(r),  ulp(r) = ulp_scaled r the unit in the
       last binary place of r.
   The multiplication clauses hold for Double only with fixes/D5.patch (per-type underflow exit in imul). *)
From Coq Require Import ZArith List Bool Lia.
From PCB Require Import lib.Result lib.PyInt lib.MBFPrims gen.Gen_mbf model.MBF model.MBFArith
  proofs.MBF_base proofs.MBF_compare proofs.MBF_values proofs.MBFArith_norm proofs.MBFArith_mul proofs.MBFArith_add
  proofs.MBFArith_div proofs.MBFArith_addbound proofs.MBFArith_values.
Import ListNotations.
Open Scope Z_scope.

(* the regenerated class constants (incl. _shift, the per-type underflow threshold of imul) *)
Theorem C04_formats : fmt_ok2 Single_consts /\ fmt_ok2 Double_consts.
Proof. exact (conj Single_ok2 Double_ok2). Qed.
Print Assumptions C04_formats.

(* + and - : at most 2 units in the last place of the result *)
Theorem C04_add_err : forall x y, value_ok x -> value_ok y -> is_num x = true -> is_num y = true ->
  val_post (widest x y) false 2 1 (value_scaled x + value_scaled y) 1 (v_add true x y) (v_add false x y).
Proof. exact v_add_post. Qed.
Print Assumptions C04_add_err.

Theorem C04_sub_err : forall x y, value_ok x -> value_ok y -> is_num x = true -> is_num y = true ->
  val_post (widest x y) false 2 1 (value_scaled x - value_scaled y) 1 (v_sub true x y) (v_sub false x y).
Proof. exact v_sub_post. Qed.
Print Assumptions C04_sub_err.

(* * and / : less than 1 unit in the last place of the result.  exact product = vx * vy / 2^184 on the scale
   of value_scaled; exact quotient = vx * 2^184 / vy, written with a positive denominator *)
Theorem C04_mul_err : forall x y, value_ok x -> value_ok y -> is_num x = true -> is_num y = true ->
  val_post (widest x y) true 1 1 (value_scaled x * value_scaled y) (2 ^ 184) (v_mul true x y) (v_mul false x y).
Proof. exact v_mul_post. Qed.
Print Assumptions C04_mul_err.

Theorem C04_div_err : forall x y, value_ok x -> value_ok y -> is_num x = true -> is_num y = true ->
  value_scaled y <> 0 ->
  val_post (widest x y) true 1 1 (value_scaled x * 2 ^ 184 * Z.sgn (value_scaled y)) (Z.abs (value_scaled y))
           (v_div true x y) (v_div false x y).
Proof. exact v_div_post. Qed.
Print Assumptions C04_div_err.

(* division by zero (any zero encoding of any type): Division by zero (error 11) is raised; soft-handled it
   yields the largest number of the result type with the sign of the dividend *)
Theorem C04_divzero : forall x y, value_ok x -> value_ok y -> is_num x = true -> is_num y = true ->
  value_scaled y = 0 ->
  let t := widest x y in
  v_div true x y = Err err_div_zero /\
  exists neg, v_div false x y = Ok (mkf t (f_max (cls t) neg)) /\
    (value_scaled x < 0 -> neg = true) /\ (0 < value_scaled x -> neg = false).
Proof. exact v_div_by_zero. Qed.
Print Assumptions C04_divzero.

(* the payload f_max is the signed maximum: value +-MAX, of the result type *)
Theorem C04_max_value : forall t neg, t = 4 \/ t = 8 ->
  value_scaled (mkf t (f_max (cls t) neg)) = (if neg then -1 else 1) * max_scaled t /\
  v_tag (mkf t (f_max (cls t) neg)) = t /\ value_ok (mkf t (f_max (cls t) neg)).
Proof. exact max_value. Qed.
Print Assumptions C04_max_value.

(* the clause "a non-zero result is replaced by zero only when its magnitude is below the smallest positive
   number", spelled out for multiplication (the clause that defect D5 violated for doubles) *)
Theorem C04_mul_underflow_only_below_min : forall x y r, value_ok x -> value_ok y -> is_num x = true -> is_num y = true ->
  v_mul true x y = Ok r -> is_zero_value r = true ->
  Z.abs (value_scaled x * value_scaled y) < min_scaled * 2 ^ 184.
Proof.
  intros x y r Hx Hy Nx Ny E Hz. destruct (v_mul_post x y Hx Hy Nx Ny) as [H _].
  rewrite E in H. destruct H as (_ & _ & _ & H). rewrite Hz in H. exact H.
Qed.
Print Assumptions C04_mul_underflow_only_below_min.

(* the rounding band above MAX, made precise for * and / (error < 1 ulp): if the exact result exceeds the
   largest number and Overflow is NOT raised, the result is exactly the signed maximum, in both handler modes
   (so between MAX and 2^127 the only two outcomes are Overflow and +-MAX itself) *)
Theorem C04_band_mul : forall x y r, value_ok x -> value_ok y -> is_num x = true -> is_num y = true ->
  v_mul true x y = Ok r -> max_scaled (widest x y) * 2 ^ 184 < Z.abs (value_scaled x * value_scaled y) ->
  value_scaled r = (if value_scaled x * value_scaled y <? 0 then -1 else 1) * max_scaled (widest x y) /\
  v_mul false x y = Ok r.
Proof.
  intros x y r Hx Hy Nx Ny E Hbig. pose proof (v_mul_post x y Hx Hy Nx Ny) as H. rewrite E in H.
  assert (HD : 0 < 2 ^ 184) by reflexivity.
  exact (band_value (widest x y) _ (2 ^ 184) r _ (widest_cases x y) HD H Hbig).
Qed.
Print Assumptions C04_band_mul.

Theorem C04_band_div : forall x y r, value_ok x -> value_ok y -> is_num x = true -> is_num y = true ->
  value_scaled y <> 0 -> v_div true x y = Ok r ->
  let N := value_scaled x * 2 ^ 184 * Z.sgn (value_scaled y) in
  max_scaled (widest x y) * Z.abs (value_scaled y) < Z.abs N ->
  value_scaled r = (if N <? 0 then -1 else 1) * max_scaled (widest x y) /\ v_div false x y = Ok r.
Proof.
  intros x y r Hx Hy Nx Ny Hy0 E N Hbig. pose proof (v_div_post x y Hx Hy Nx Ny Hy0) as H. rewrite E in H.
  assert (HD : 0 < Z.abs (value_scaled y)) by lia.
  exact (band_value (widest x y) N (Z.abs (value_scaled y)) r _ (widest_cases x y) HD H Hbig).
Qed.
Print Assumptions C04_band_div.

(* the same for + and - : a true addition is in fact accurate to less than one unit in the last place
   (add_core_same_strict), and a difference of opposite signs never exceeds MAX *)
Theorem C04_band_add : forall x y r, value_ok x -> value_ok y -> is_num x = true -> is_num y = true ->
  v_add true x y = Ok r -> max_scaled (widest x y) < Z.abs (value_scaled x + value_scaled y) ->
  value_scaled r = (if value_scaled x + value_scaled y <? 0 then -1 else 1) * max_scaled (widest x y).
Proof. exact (v_addsub_band false). Qed.
Print Assumptions C04_band_add.

Theorem C04_band_sub : forall x y r, value_ok x -> value_ok y -> is_num x = true -> is_num y = true ->
  v_sub true x y = Ok r -> max_scaled (widest x y) < Z.abs (value_scaled x - value_scaled y) ->
  value_scaled r = (if value_scaled x - value_scaled y <? 0 then -1 else 1) * max_scaled (widest x y).
Proof. exact (v_addsub_band true). Qed.
Print Assumptions C04_band_sub.

(* the same statements at the byte level, for the regenerated in-place operations on two buffers of one class
   (sval_post: exact result N / Dn on the scale f_sval = value * 2^bias) *)
Theorem C04_bytes : forall C a b, fmt_ok2 C -> mbits C <= 56 -> buf_ok C a -> buf_ok C b ->
  sval_post C false 2 1 (f_sval C a + f_sval C b) 1 (mbf_iadd C a b) /\
  sval_post C false 2 1 (f_sval C a - f_sval C b) 1 (mbf_isub C a b) /\
  sval_post C true 1 1 (f_sval C a * f_sval C b) (2 ^ c_bias C) (mbf_imul C a b) /\
  (f_zero b = false ->
   sval_post C true 1 1 (f_sval C a * 2 ^ c_bias C * Z.sgn (f_sval C b)) (f_mag C b) (mbf_idiv C a b)) /\
  (f_zero b = true -> mbf_idiv C a b = Host 6).
Proof.
  intros C a b HC Hm Ha Hb. pose proof HC as [HC1 _].
  split; [exact (proj1 (iadd_sval C a b HC1 Ha Hb))|]. split; [exact (proj1 (isub_sval C a b HC1 Ha Hb))|].
  split; [apply imul_sval; assumption|]. split; [intros Hz; apply idiv_sval; assumption|].
  intros Hz. apply idiv_by_zero. exact Hz.
Qed.
Print Assumptions C04_bytes.

(* non-vacuity: 1D-31 * 1 = 1D-31 (the D5 witness, 0 before the fix); 2^-64 * 2^-65 underflows to 0 (below MIN);
   MAX * 2 raises Overflow and soft-yields +MAX; -1 / 0 raises Division by zero and soft-yields -MAX;
   1 / 3 and 0.1 + 0.2 are inexact non-zero results; MAX + MAX overflows *)
Example C04_nonvacuous :
  v_mul true (VDbl [252; 67; 75; 44; 179; 206; 1; 26]) (VInt [1; 0]) = Ok (VDbl [252; 67; 75; 44; 179; 206; 1; 26]) /\
  v_mul true (VDbl [0; 0; 0; 0; 0; 0; 0; 65]) (VDbl [0; 0; 0; 0; 0; 0; 0; 64]) = Ok (VDbl [0; 0; 0; 0; 0; 0; 0; 0]) /\
  v_mul true (VSng [255; 255; 127; 255]) (VInt [2; 0]) = Err 6 /\
  v_mul false (VSng [255; 255; 127; 255]) (VInt [2; 0]) = Ok (VSng [255; 255; 127; 255]) /\
  v_div true (VInt [255; 255]) (VSng [7; 7; 7; 0]) = Err 11 /\
  v_div false (VInt [255; 255]) (VSng [7; 7; 7; 0]) = Ok (VSng [255; 255; 255; 255]) /\
  v_div true (VInt [1; 0]) (VInt [3; 0]) = Ok (VSng [171; 170; 42; 127]) /\
  v_add true (VSng [205; 204; 76; 125]) (VSng [205; 204; 76; 126]) = Ok (VSng [154; 153; 25; 127]) /\
  v_add true (VDbl [255; 255; 255; 255; 255; 255; 127; 255]) (VDbl [255; 255; 255; 255; 255; 255; 127; 255]) = Err 6.
Proof. vm_compute. repeat split. Qed.
