(* C04 - placeholder while the error-bound proofs are being built (replaced below) *)
From Coq Require Import ZArith List Bool Lia.
From PCB Require Import lib.Result lib.PyInt lib.MBFPrims gen.Gen_mbf model.MBF model.MBFArith
  proofs.MBF_base proofs.MBF_values proofs.MBFArith_norm proofs.MBFArith_mul proofs.MBFArith_add
  proofs.MBFArith_div proofs.MBFArith_values.
Import ListNotations.
Open Scope Z_scope.
Theorem C04_mul : forall x y, value_ok x -> value_ok y -> is_num x = true -> is_num y = true ->
  val_post (widest x y) true 1 1 (value_scaled x * value_scaled y) (2 ^ 184) (v_mul true x y) (v_mul false x y).
Proof. exact v_mul_post. Qed.
Print Assumptions C04_mul.
