(* C27 - BASIC file access stays inside the mounted drives.
   Only statements, `exact`, Print Assumptions and non-vacuity examples here.

   Model: model/Paths.v (DiskDevice name/path resolution and the file statements of devices/files.py, as
   repaired by fixes/D9.patch and fixes/D27a.patch).  A native path is (drive, components below that drive's
   mount root); `safe c` := c is not "", ".", "..", and contains neither "/" nor NUL.
   ntpath.normpath, ntpath.split and the host (isdir/isfile/exists/listdir answers, outcome of every
   operation) are universally quantified; the only assumption is `host_ok`: os.listdir returns safe names. *)
From Coq Require Import ZArith List Bool.
From PCB Require Import lib.Result lib.PyInt gen.Gen_dosnames model.DosNames model.Paths model.PathsNt
  proofs.DosNames_proofs proofs.Paths_proofs proofs.PathsNt_proofs.
Import ListNotations.
Open Scope Z_scope.

(* every native name returned by _get_native_name is a safe path component - whatever DOS name, default
   extension, directory, isdir/create flags and host answers *)
Theorem C27_native_name_safe : forall (h : host) p dos_name defext isdir create c,
  host_ok h ->
  snd (get_native_name h p dos_name defext isdir create) = Ok c -> safe c.
Proof. exact native_name_safe. Qed.
Print Assumptions C27_native_name_safe.

(* the working directory of every drive consists of safe components after ANY history of file statements
   (CHDIR and all others), the host changing arbitrarily between statements *)
Theorem C27_cwd_invariant : forall normpath ntsplit (steps : list (host * stmt)) s,
  state_ok s -> Forall (fun hs => host_ok (fst hs)) steps ->
  state_ok (snd (run normpath ntsplit s steps)).
Proof. intros np sp steps s Hs Hh. exact (proj2 (run_safe np sp steps s Hs Hh)). Qed.
Print Assumptions C27_cwd_invariant.

(* every host operation issued by every statement of every history is on a path root ++ cs with all cs safe *)
Theorem C27_confined : forall normpath ntsplit (steps : list (host * stmt)) s,
  state_ok s -> Forall (fun hs => host_ok (fst hs)) steps ->
  forall t o p, In t (fst (run normpath ntsplit s steps)) -> In o t -> In p (op_paths o) ->
  Forall safe (snd p).
Proof.
  intros np sp steps s Hs Hh t o p It Io Ip.
  exact (ops_inside npath (fun p => p) (fun _ p => Forall safe (snd p)) (fun p H => H) np sp steps s Hs Hh t o p It Io Ip).
Qed.
Print Assumptions C27_confined.

(* corollary under the FS contract (a path of safe components below a mount root denotes an object inside that
   root's tree: no symbolic link leaves it): nothing outside the mounted trees is read, listed, created,
   modified, renamed or deleted *)
Theorem C27_confined_contract : forall (obj : Type) (denote : npath -> obj) (inside : Z -> obj -> Prop),
  (forall p, path_safe p -> inside (fst p) (denote p)) ->
  forall normpath ntsplit (steps : list (host * stmt)) s,
  state_ok s -> Forall (fun hs => host_ok (fst hs)) steps ->
  forall t o p, In t (fst (run normpath ntsplit s steps)) -> In o t -> In p (op_paths o) ->
  inside (fst p) (denote p).
Proof. exact ops_inside. Qed.
Print Assumptions C27_confined_contract.

(* one statement, for the record: trace confined and the new state again satisfies the invariant *)
Theorem C27_statement : forall normpath ntsplit (h : host) s st,
  host_ok h -> state_ok s ->
  trace_safe (fst (exec normpath ntsplit h s st)) /\
  forall s' out, snd (exec normpath ntsplit h s st) = Ok (s', out) -> state_ok s'.
Proof.
  intros np sp h s st Hok Hs. destruct (exec_spec np sp h Hok s st Hs) as [T Q].
  split; [exact T | intros s' out E; exact (Q (s', out) E)].
Qed.
Print Assumptions C27_statement.

(* devices that are not mounted disk drives.  OPEN-like statements on SCRN: KYBD: LPTn: COMn: CAS1:, on the DOS
   device files CON AUX PRN NUL and on unknown devices never enter DiskDevice: no host path is touched. *)
Theorem C27_nondisk_no_host_access : forall normpath ntsplit (h : host) s name mode program e,
  open_device (st_cur s) name = Err e ->
  fst (exec normpath ntsplit h s (SOpen name mode program)) = [].
Proof. exact exec_open_nondisk. Qed.
Print Assumptions C27_nondisk_no_host_access.

(* ... nor does an OPEN-like statement addressed to a drive that is not mounted (E:, the internal drive @:) *)
Theorem C27_open_unmounted_no_host_access : forall normpath ntsplit (h : host) s name mode program l spec,
  open_device (st_cur s) name = Ok (l, spec) -> ds_mounted (get_drive s l) = false ->
  fst (exec normpath ntsplit h s (SOpen name mode program)) = [].
Proof. exact exec_open_unmounted. Qed.
Print Assumptions C27_open_unmounted_no_host_access.

(* with no drive mounted (only the internal drive @: and the devices exist) NO statement reaches the host:
   FILES "@:" lists . and .. and reports 0 bytes free without a host call *)
Theorem C27_unmounted_no_host_access : forall normpath ntsplit (h : host) s st,
  (forall l, ds_mounted (get_drive s l) = false) ->
  fst (exec normpath ntsplit h s st) = [].
Proof. exact exec_unmounted. Qed.
Print Assumptions C27_unmounted_no_host_access.

(* D9: the defect that fixes/D9.patch repairs.  Without the test added by the patch, the name ".. " in a
   directory (where ".." always exists as a directory) resolves to "..": not a safe component. *)
Definition D9_host : host :=
  {| h_isdir := fun _ => true; h_isfile := fun _ => false; h_exists := fun _ => true;
     h_listdir := fun _ => Ok []; h_try := fun _ => None |}.
Example C27_D9_unrepaired_refuted :
  host_ok D9_host /\
  snd (get_native_name_unrepaired D9_host (67, []) [46; 46; 32] [] true false) = Ok [46; 46] /\
  ~ safe [46; 46] /\
  snd (get_native_name D9_host (67, []) [46; 46; 32] [] true false) = Err dn_E_PATH_NOT_FOUND.
Proof.
  split; [intros p l E; inversion E; constructor|].
  split; [vm_compute; reflexivity|].
  split; [intros (_ & _ & H & _); apply H; reflexivity | vm_compute; reflexivity].
Qed.

(* non-vacuity: a concrete host (snapshot of a mount with SUB\IN.TXT and PROG.BAS) honours the contract, the
   initial state satisfies the invariant, and a history CHDIR "sub" / OPEN "in.txt" FOR INPUT / KILL "..\*.BAS"
   issues host operations - on C:\SUB, C:\SUB\IN.TXT and C:\PROG.BAS *)
Definition nv_snap : snapshot :=
  [(67, [], true, [[83;85;66]; [80;82;79;71;46;66;65;83]]);
   (67, [[83;85;66]], true, [[73;78;46;84;88;84]]);
   (67, [[83;85;66]; [73;78;46;84;88;84]], false, []);
   (67, [[80;82;79;71;46;66;65;83]], false, [])].
Definition nv_state : state :=
  {| st_cur := 67; st_drives := [(67, {| ds_mounted := true; ds_cwd := [] |})] |}.
Definition nv_steps : list (host * stmt) :=
  [(sn_host nv_snap, SChdir [115;117;98]);
   (sn_host nv_snap, SOpen [105;110;46;116;120;116] 73 false);
   (sn_host nv_snap, SKill [46;46;92;42;46;66;65;83])].
Example C27_nonvacuous :
  (exists t, In t (fst (run nt_normpath nt_split nv_state nv_steps)) /\
             In (HRemove (67, [[80;82;79;71;46;66;65;83]])) t) /\
  ds_cwd (get_drive (snd (run nt_normpath nt_split nv_state nv_steps)) 67) = [[83;85;66]].
Proof.
  split.
  - eexists. split; [right; right; left; reflexivity|]. vm_compute. tauto.
  - vm_compute. reflexivity.
Qed.

Example C27_nonvacuous_hyps :
  state_ok nv_state /\ Forall (fun hs => host_ok (fst hs)) nv_steps.
Proof.
  split; [repeat constructor | repeat constructor; apply sn_host_ok; vm_compute; reflexivity].
Qed.
