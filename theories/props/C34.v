(* C34 - Video memory reflects and controls the screen content.
   Only statements, `exact`/short assembly, Print Assumptions and non-vacuity examples here.

   m : vmode is a memory mapper object (its attributes; gen/Gen_vmem.v holds the regenerated table of all modes),
   st : vstate the page buffers (pixels: page -> y -> x, text: page -> row -> col) and the EGA plane registers.
   vmem_get_coords / vmem_coord_ok / vmem_walk_memory / vmem_text_* are regenerated from framebuffer.py on
   every run; peek/poke/get_memory/set_memory/get_block/set_block are model/VideoMem.v.
   All theorems hold for EVERY address and every block length (no bound on the address space is needed). *)
From Coq Require Import ZArith List Bool Lia.
From PCB Require Import lib.Result lib.PyInt gen.Gen_vmem model.VideoMem
  proofs.VideoMem_arith proofs.VideoMem_bits proofs.VideoMem_walk proofs.VideoMem_get proofs.VideoMem_set
  proofs.VideoMem_block proofs.VideoMem_proofs.
Import ListNotations.
Open Scope Z_scope.

(* every mode of the regenerated table of display/modes.py satisfies the side conditions of the theorems
   (page = interleave x bank, bytes per row x pixels per byte = width, ...), whatever the video memory size *)
Theorem C34_table_wf : forall f mem, In f vmem_mode_table -> wf_mode (f mem) = true.
Proof.
  intros f mem H.
  assert (S : forallb (fun g => wf_mode (g mem)) vmem_mode_table = true) by (vm_compute; reflexivity).
  rewrite forallb_forall in S. exact (S f H).
Qed.
Print Assumptions C34_table_wf.

(* EGA-type modes: the colour planes that can be written through video memory (master plane mask) are exactly
   the planes the mode uses (and reads) - in every entry of the regenerated table *)
Definition planes_ok (m : vmode) : bool :=
  if vm_kind m =? 1
  then forallb (fun p => Bool.eqb (Z.testbit (vm_master_mask m) p) (memZ p (vm_planes_used m))) (zseq 0 8)
  else true.
Theorem C34_table_planes : forall f mem, In f vmem_mode_table -> planes_ok (f mem) = true.
Proof.
  intros f mem H.
  assert (S : forallb (fun g => planes_ok (g mem)) vmem_mode_table = true) by (vm_compute; reflexivity).
  rewrite forallb_forall in S. exact (S f H).
Qed.
Print Assumptions C34_table_planes.

(* so a used plane is writable exactly when its bit is set in the plane mask register *)
Theorem C34_plane_writable : forall m reg p, planes_ok m = true -> vm_kind m = 1 -> 0 <= p < 8 ->
  memZ p (vm_planes_used m) = true -> Z.testbit (ega_mask m reg) p = Z.testbit reg p.
Proof.
  intros m reg p Hok K Hp Hu. unfold planes_ok in Hok. rewrite K in Hok. cbn [Z.eqb Pos.eqb] in Hok.
  rewrite forallb_forall in Hok. specialize (Hok p). rewrite Hu in Hok.
  assert (Hin : In p (zseq 0 8)) by (apply in_zseq; Lia.lia).
  specialize (Hok Hin). apply Bool.eqb_prop in Hok.
  unfold ega_mask. rewrite Z.land_spec, Hok. apply andb_true_r.
Qed.
Print Assumptions C34_plane_writable.

(* ---- PEEK: the packing of the pixels the address covers (graphics) *)
Theorem C34_peek : forall m st a, wf_gmode m = true ->
  let '(p, x, y) := vmem_get_coords m a in
  peek m st a =
    if vmem_coord_ok m p x y then
      if vm_kind m =? 0 then                       (* CGA-type: bits per pixel consecutive, interlaced banks *)
        pack_byte (vm_ppb m) (fun k => vs_px st p y (x + k))
      else if vm_kind m =? 1 then                  (* EGA: the colour plane selected for reading *)
        let plane := ega_plane m (vs_plane st) in
        if memZ plane (vm_planes_used m)
        then pack_byte 8 (fun k => Z.shiftr (vs_px st p y (x + k)) plane) else 0
      else                                         (* Tandy mode 6: plane 0 in even, plane 1 in odd addresses *)
        pack_byte 8 (fun k => Z.shiftr (vs_px st p y (x + k)) (a mod 2))
    else 0.
Proof.
  intros m st a W.
  assert (Wm : wf_mode m = true).
  { unfold wf_mode. destruct (wf_kind m W) as [K | [K | K]]; rewrite K; exact W. }
  rewrite peek_spec; [|exact Wm | destruct (wf_kind m W) as [K | [K | K]]; rewrite K; discriminate].
  unfold byte_spec, reader. destruct (wf_kind m W) as [K | [K | K]]; rewrite K; cbn [Z.eqb Pos.eqb];
    destruct (vmem_get_coords m a) as [[p x] y]; destruct (vmem_coord_ok m p x y); try reflexivity.
  cbv zeta. destruct (memZ _ _); reflexivity.
Qed.
Print Assumptions C34_peek.

(* ---- PEEK in text modes: the character (even address) or attribute (odd address) of the cell *)
Theorem C34_peek_text : forall m st a, vm_kind m = 3 -> cells_nonneg st ->
  peek m st a =
  let '(page, row, col, par) := text_cell m a in
  if text_in_range m a then (if par =? 0 then vs_ch st page row col else vs_at st page row col) else 0.
Proof. exact text_peek. Qed.
Print Assumptions C34_peek_text.

(* ---- POKE changes only the pixels the address covers ... *)
Theorem C34_poke_only_covered : forall m st a b p y x, wf_gmode m = true -> ~ covers m a p y x ->
  vs_px (poke m st a b) p y x = vs_px st p y x.
Proof. exact poke_outside. Qed.
Print Assumptions C34_poke_only_covered.

(* ... and in those, only the bits of the writable colour planes (CGA: the whole pixel) *)
Theorem C34_poke_pixels : forall m st a b p0 x0 y0 k, wf_gmode m = true ->
  vmem_get_coords m a = (p0, x0, y0) -> vmem_coord_ok m p0 x0 y0 = true -> 0 <= k < peff m ->
  vs_px (poke m st a b) p0 y0 (x0 + k) =
    let old := vs_px st p0 y0 (x0 + k) in
    if vm_kind m =? 0 then unpack_byte (vm_ppb m) b k
    else if vm_kind m =? 1 then
      let mask := ega_mask m (vs_mask st) in
      Z.lor (Z.land (if z2b (unpack_byte 8 b k) then mask else 0) mask) (Z.land old (Z.lnot mask))
    else
      let mask := 2 ^ (a mod 2) in
      Z.lor (Z.land (Z.shiftl (unpack_byte 8 b k) (a mod 2)) mask) (Z.land old (Z.lnot mask)).
Proof.
  intros m st a b p0 x0 y0 k W Hc Hok Hk. rewrite (poke_inside m st a b p0 x0 y0 k W Hc Hok Hk).
  unfold writer. destruct (vm_kind m =? 0); [reflexivity|]. destruct (vm_kind m =? 1); reflexivity.
Qed.
Print Assumptions C34_poke_pixels.

(* POKE then PEEK returns the byte on writable planes (EGA: the plane read is enabled in the write mask) *)
Theorem C34_poke_peek : forall m st a b, wf_gmode m = true -> 0 <= b < 256 ->
  (let '(p, x, y) := vmem_get_coords m a in vmem_coord_ok m p x y = true) ->
  writable m st = true ->
  peek m (poke m st a b) a = b.
Proof. exact poke_peek. Qed.
Print Assumptions C34_poke_peek.

(* text: POKE replaces the character or the attribute of exactly one cell (nothing when out of range) *)
Theorem C34_poke_text : forall m st a b, vm_kind m = 3 ->
  let '(page, row, col, par) := text_cell m a in
  poke m st a b =
  if text_in_range m a
  then (if par =? 0
        then mk_vstate (vs_px st) (upd (vs_ch st) page row col b) (vs_at st) (vs_plane st) (vs_mask st)
        else mk_vstate (vs_px st) (vs_ch st) (upd (vs_at st) page row col b) (vs_plane st) (vs_mask st))
  else mk_vstate (vs_px st) (vs_ch st) (vs_at st) (vs_plane st) (vs_mask st).
Proof. exact text_poke. Qed.
Print Assumptions C34_poke_text.

Theorem C34_poke_text_only_cell : forall m st a b p r c, vm_kind m = 3 ->
  (let '(page, row, col, par) := text_cell m a in (p, r, c) <> (page, row, col)) ->
  vs_ch (poke m st a b) p r c = vs_ch st p r c /\ vs_at (poke m st a b) p r c = vs_at st p r c.
Proof. exact text_poke_other. Qed.
Print Assumptions C34_poke_text_only_cell.

Theorem C34_poke_peek_text : forall m st a b, vm_kind m = 3 -> cells_nonneg st -> 0 <= b ->
  text_in_range m a = true -> peek m (poke m st a b) a = b.
Proof. exact text_poke_peek. Qed.
Print Assumptions C34_poke_peek_text.

(* ---- distinct addresses cover disjoint content (stride arithmetic of banks and pages) *)
Theorem C34_coords_injective : forall m a1 a2, wf_gmode m = true ->
  vmem_get_coords m a1 = vmem_get_coords m a2 -> plane_class m a1 = plane_class m a2 -> a1 = a2.
Proof. exact cell_injective. Qed.
Print Assumptions C34_coords_injective.

Theorem C34_covers_disjoint : forall m a1 a2 p y x, wf_gmode m = true -> a1 <> a2 ->
  plane_class m a1 = plane_class m a2 -> covers m a1 p y x -> covers m a2 p y x -> False.
Proof. exact covers_disjoint. Qed.
Print Assumptions C34_covers_disjoint.

Theorem C34_text_cell_injective : forall m a1 a2, wf_text m = true -> text_cell m a1 = text_cell m a2 -> a1 = a2.
Proof. exact text_cell_injective. Qed.
Print Assumptions C34_text_cell_injective.

(* ---- block = bytewise, for every start address and length (start mid-row, mid-bank, odd, below the
   segment, crossing banks and pages): the repaired _walk_memory (fixes/D34a) *)
Theorem C34_block_read : forall m st addr n, wf_mode m = true -> (vm_kind m = 3 -> cells_nonneg st) ->
  get_memory m st addr n = peeks m st addr n.
Proof. exact get_memory_peeks. Qed.
Print Assumptions C34_block_read.

Theorem C34_block_write : forall m st addr bs, wf_mode m = true ->
  state_eq (set_memory m st addr bs) (pokes m st addr bs).
Proof. exact set_memory_pokes. Qed.
Print Assumptions C34_block_write.

(* BSAVE / BLOAD (machine.Memory block functions, video part) *)
Theorem C34_bsave_bload : forall m st addr len bs, wf_mode m = true -> (vm_kind m = 3 -> cells_nonneg st) ->
  get_block m st addr len = peeks m st addr (Z.min len (vmem_get_video_len addr)) /\
  state_eq (set_block m st addr bs) (pokes m st addr (firstn (Z.to_nat (vmem_set_video_len addr)) bs)).
Proof.
  intros m st addr len bs W Hc. split.
  - unfold get_block. apply get_memory_peeks; assumption.
  - unfold set_block. apply set_memory_pokes. exact W.
Qed.
Print Assumptions C34_bsave_bload.

(* the BLOAD statement: an explicitly given offset - including 0 - is the offset used (in the segment recorded in
   the file); only an omitted offset falls back to the recorded one; the load then is the POKE sequence there *)
Theorem C34_bload_target : forall hseg hoff off,
  bload_target hseg hoff (Some off) = hseg * 16 + off /\ bload_target hseg hoff None = hseg * 16 + hoff.
Proof. intros. split; reflexivity. Qed.
Print Assumptions C34_bload_target.

Theorem C34_bload_stmt : forall m st f o, wf_mode m = true ->
  let a := match o with Some off => mf_seg f * 16 + off | None => mf_seg f * 16 + mf_off f end in
  state_eq (bload_stmt m st f o) (pokes m st a (firstn (Z.to_nat (vmem_set_video_len a)) (mf_data f))).
Proof.
  intros m st f o W. unfold bload_stmt.
  replace (bload_target (mf_seg f) (mf_off f) o)
    with (match o with Some off => mf_seg f * 16 + off | None => mf_seg f * 16 + mf_off f end)
    by (destruct o; reflexivity).
  cbv zeta. unfold set_block. apply set_memory_pokes. exact W.
Qed.
Print Assumptions C34_bload_stmt.

(* what BSAVE wrote, loaded back with BLOAD "f",0 lands at offset 0 of the segment, not where it came from *)
Example C34_bload_offset_zero :
  let m := vmode_320x200x4 262144 in let st := init_state 3 4 in
  let f := bsave_stmt m st 47104 8292 24 in
  let st' := bload_stmt m st f (Some 0) in
  peeks m st' 753664 24 = mf_data f /\ peeks m st' (753664 + 8292) 24 = mf_data f /\
  peeks m st 753664 24 <> mf_data f.
Proof. vm_compute. repeat split; try reflexivity. discriminate. Qed.

(* ---- the graphics statements and PCOPY work on the page buffers the memory mappers address: what is drawn
   is what PEEK packs (with C34_peek), drawing elsewhere does not disturb a byte, and after PCOPY the memory of
   the destination page reads like the memory of the source page did (page stride = vm_page_size) *)
Theorem C34_draw_pixels : forall st page y x w c k, 0 <= k < w ->
  vs_px (draw_run st page y x w c) page y (x + k) = c.
Proof. exact draw_pixels. Qed.
Print Assumptions C34_draw_pixels.

Theorem C34_draw_peek_outside : forall m st a page y x w c, wf_gmode m = true ->
  (forall k, 0 <= k < w -> ~ covers m a page y (x + k)) ->
  peek m (draw_run st page y x w c) a = peek m st a.
Proof. exact draw_peek_outside. Qed.
Print Assumptions C34_draw_peek_outside.

Theorem C34_pcopy_peek : forall m st src dst a x y, wf_gmode m = true ->
  vmem_get_coords m a = (dst, x, y) ->
  0 <= src < vmem_num_pages m -> 0 <= dst < vmem_num_pages m ->
  peek m (pcopy st src dst) a = peek m st (a + (src - dst) * vm_page_size m).
Proof. exact pcopy_peek. Qed.
Print Assumptions C34_pcopy_peek.

Theorem C34_pcopy_peek_other : forall m st src dst a, wf_gmode m = true ->
  (let '(p, x, y) := vmem_get_coords m a in p <> dst) ->
  peek m (pcopy st src dst) a = peek m st a.
Proof. exact pcopy_peek_other. Qed.
Print Assumptions C34_pcopy_peek_other.

(* ---- non-vacuity *)
Example C34_nonvacuous :
  let m := vmode_320x200x4 262144 in
  let a := 753664 + 8192 + 79 in            (* &hB800:0, second interlace bank, last byte of its first row *)
  wf_gmode m = true /\ vmem_get_coords m a = (0, 316, 1) /\ vmem_coord_ok m 0 316 1 = true /\
  writable m (init_state 1 4) = true /\
  peek m (poke m (init_state 1 4) a 228) a = 228.
Proof. vm_compute. repeat split; reflexivity. Qed.

(* the former K2 witness class (block starting mid-bank and crossing the bank boundary), on the model of the
   repaired code: 200 bytes from offset 8092 of SCREEN 1 *)
Example C34_mid_bank_block :
  let m := vmode_320x200x4 262144 in let st := init_state 3 4 in
  get_memory m st (753664 + 8092) 200 = peeks m st (753664 + 8092) 200 /\
  nth 150 (get_memory m st (753664 + 8092) 200) 0 = peek m st (753664 + 8192 + 50).
Proof. vm_compute. split; reflexivity. Qed.

Example C34_text_nonvacuous :
  let m := vmode_cgatext80 262144 in let st := init_state 9 256 in
  wf_text m = true /\ text_in_range m (753664 + 4096 + 163) = true /\
  text_cell m (753664 + 4096 + 163) = (1, 1, 1, 1) /\
  peek m (poke m st (753664 + 4096 + 163) 33) (753664 + 4096 + 163) = 33 /\
  text_in_range m (753664 - 4096) = false.
Proof. vm_compute. repeat split; reflexivity. Qed.

Example C34_tandy_odd_block :
  let m := vmode_640x200x4 262144 in let st := init_state 8 4 in
  wf_gmode m = true /\ get_memory m st (753664 + 1) 7 = peeks m st (753664 + 1) 7.
Proof. vm_compute. split; reflexivity. Qed.
