(* C37 - The keyboard buffer is a 15-key FIFO mirrored in BIOS memory.
   Model: model/KeyBuf.v (KeyboardBuffer as repaired by fix D12 + the 1050..1085 branches of
   Memory._get/_set_low_memory) over the regenerated arithmetic gen/Gen_keybuf.v.
   Only statements, `exact`, Print Assumptions and non-vacuity examples here. *)
From Coq Require Import ZArith List Bool.
From PCB Require Import lib.Result lib.PyInt gen.Gen_keybuf model.KeyBuf proofs.KeyBuf_proofs.
Import ListNotations.
Open Scope Z_scope.

(* ---- FIFO ------------------------------------------------------------------------------------- *)

(* For ALL histories of key presses (limit checked), injected keys (press_keys, limit ignored) and reads,
   from any state satisfying the invariant (in particular after any pokes), the buffer returns exactly
   what the bounded FIFO `fifo_run` (capacity 15, presses dropped when 15 wait) returns, never raises, and
   ends with the same keys waiting. *)
Theorem C37_fifo : forall ops s, inv s ->
  exists sf, impl_run ops s = Ok (fst (fifo_run ops (waiting s)), sf)
             /\ waiting sf = snd (fifo_run ops (waiting s)) /\ inv sf.
Proof. exact fifo_refines. Qed.
Print Assumptions C37_fifo.

Theorem C37_fifo_from_start : forall ops,
  exists sf, impl_run ops init = Ok (fst (fifo_run ops []), sf)
             /\ waiting sf = snd (fifo_run ops []) /\ inv sf.
Proof. exact fifo_from_init. Qed.
Print Assumptions C37_fifo_from_start.

(* nothing lost, nothing repeated, order kept: keys delivered so far followed by the keys still waiting are
   the keys that waited at the beginning followed by the keys accepted, in order *)
Theorem C37_none_lost_or_repeated : forall ops q,
  fifo_delivered ops q ++ snd (fifo_run ops q) = q ++ fifo_accepted ops q.
Proof. exact fifo_conservation. Qed.
Print Assumptions C37_none_lost_or_repeated.

(* a key press is dropped exactly when 15 keys wait *)
Theorem C37_dropped_when_full : forall c scan q, capacity <= zlen q ->
  fifo_step (FPress c scan) q = (None, q).
Proof. exact fifo_press_full. Qed.
Theorem C37_accepted_when_room : forall c scan q, zlen q < capacity -> zlen c <> 0 ->
  fifo_step (FPress c scan) q = (None, q ++ [(c, scan)]).
Proof. exact fifo_press_room. Qed.
Theorem C37_never_more_than_15 : forall ops q, forallb no_finject ops = true -> zlen q <= capacity ->
  zlen (snd (fifo_run ops q)) <= capacity.
Proof. exact fifo_capacity. Qed.
Print Assumptions C37_never_more_than_15.

(* ---- all session operations: no host exception, at most 15 waiting ----------------------------- *)

Theorem C37_no_exception : forall ops, exists sf, run_state ops init = Ok sf /\ inv sf.
Proof. exact reachable_no_exception. Qed.
Print Assumptions C37_no_exception.

(* every history of key events, INKEY$, INPUT$, PEEKs and POKEs (no press_keys) keeps `ring_ok`:
   the hypothesis of the BIOS-view theorems below holds in every reachable state *)
Theorem C37_reachable_ring_ok : forall ops, forallb (fun o => negb (is_inject o)) ops = true ->
  exists sf, run_state ops init = Ok sf /\ ring_ok sf.
Proof. exact reachable_ring_ok. Qed.
Print Assumptions C37_reachable_ring_ok.

(* ---- BIOS view --------------------------------------------------------------------------------- *)

(* head pointer at 1050/1051, tail pointer at 1052/1053; the slots from head up to tail (mod 16) are exactly
   the waiting keys in order; their number is the pointer distance *)
Theorem C37_bios_view : forall s, ring_ok s ->
  let n := zlen (waiting s) in
  let head := 30 + 2 * (start s mod 16) in
  let tail := 30 + 2 * ((start s + n) mod 16) in
  peek_mem s 1050 = Ok head /\ peek_mem s 1051 = Ok 0 /\
  peek_mem s 1052 = Ok tail /\ peek_mem s 1053 = Ok 0 /\
  n <= 15 /\ n = ((tail - head) / 2) mod 16 /\
  mapM (ring_read s) (slots_from ((head - 30) / 2) n) = Ok (waiting s).
Proof. exact bios_view. Qed.
Print Assumptions C37_bios_view.

(* the two bytes PEEK shows for the j-th waiting key: first char byte (0 for an empty char) and scancode *)
Theorem C37_bios_slot_bytes : forall s j, ring_ok s -> 0 <= j < zlen (waiting s) ->
  let i := (start s + j) mod 16 in
  let k := nth (Z.to_nat j) (waiting s) blank in
  peek_mem s (1054 + 2 * i) = Ok (hd 0 (fst k)) /\ peek_mem s (1055 + 2 * i) = Ok (snd k).
Proof. exact bios_slot_bytes. Qed.
Print Assumptions C37_bios_slot_bytes.

(* ring_set_boundaries a b: pointers become a, b (mod 16); no slot changes; the waiting keys become the
   (b - a) mod 16 slots from a *)
Theorem C37_set_boundaries : forall s a b, inv s -> buflen s - start s <= 16 ->
  exists s', set_boundaries a b s = Ok s' /\ ring_ok s'
    /\ start_ s' = a mod 16 /\ stop_ s' = b mod 16
    /\ zlen (waiting s') = (b - a) mod 16
    /\ (forall i, 0 <= i < 16 -> ring_read s' i = ring_read s i)
    /\ mapM (ring_read s) (slots_from (a mod 16) ((b - a) mod 16)) = Ok (waiting s').
Proof. exact set_boundaries_thm. Qed.
Print Assumptions C37_set_boundaries.

Theorem C37_poke_head : forall s v, ring_ok s ->
  let tail := (start s + zlen (waiting s)) mod 16 in
  let a := ((v - 30) / 2) mod 16 in
  exists s', poke_mem 1050 v s = Ok s' /\ ring_ok s'
    /\ peek_mem s' 1050 = Ok (30 + 2 * a) /\ peek_mem s' 1052 = peek_mem s 1052
    /\ (forall i, 0 <= i < 16 -> ring_read s' i = ring_read s i)
    /\ mapM (ring_read s) (slots_from a ((tail - a) mod 16)) = Ok (waiting s').
Proof. exact poke_head_thm. Qed.
Print Assumptions C37_poke_head.

(* DEF SEG=0: POKE 1050, PEEK(1052) empties the buffer (false on the code before fix D12) *)
Theorem C37_clear_poke : forall s, ring_ok s ->
  exists v s', peek_mem s 1052 = Ok v /\ 0 <= v <= 255
    /\ poke_mem 1050 v s = Ok s' /\ step (PokeFrom 1050 1052) s = Ok ([], s')
    /\ waiting s' = [] /\ getc s' = ([], s') /\ ring_ok s'
    /\ (forall i, 0 <= i < 16 -> ring_read s' i = ring_read s i).
Proof. exact clear_poke_thm. Qed.
Print Assumptions C37_clear_poke.

Theorem C37_clear_poke_tail : forall s, ring_ok s ->
  exists v s', peek_mem s 1050 = Ok v /\ poke_mem 1052 v s = Ok s'
    /\ waiting s' = [] /\ getc s' = ([], s') /\ ring_ok s'
    /\ (forall i, 0 <= i < 16 -> ring_read s' i = ring_read s i).
Proof. exact clear_poke_tail_thm. Qed.
Print Assumptions C37_clear_poke_tail.

(* ---- what each operation writes into the mirrored ring (extension round) ------------------------ *)

(* a limit-checked key press writes exactly one slot, the one at tail, wherever head is: the key when there
   is room, the uncounted CR (b"\r", scancode RETURN) when 15 keys wait; pointers and all other slots stay *)
Theorem C37_press_writes_tail_slot : forall s c scan, ring_ok s -> zlen c <> 0 ->
  let n := zlen (waiting s) in
  let t := (start s + n) mod 16 in
  exists s', append true c scan s = Ok s' /\ ring_ok s' /\ start s' = start s
    /\ waiting s' = (if capacity <=? n then waiting s else waiting s ++ [(c, scan)])
    /\ ring_read s' t = Ok (if capacity <=? n then cr_key else (c, scan))
    /\ (forall i, 0 <= i < 16 -> i <> t -> ring_read s' i = ring_read s i).
Proof. exact press_ring_thm. Qed.
Print Assumptions C37_press_writes_tail_slot.

Theorem C37_read_writes_no_slot : forall s, inv s -> forall i, ring_read (snd (getc s)) i = ring_read s i.
Proof. exact read_ring_thm. Qed.
Print Assumptions C37_read_writes_no_slot.

(* the mirror is exactly the 16 slots at 1054..1085 (slot 15 at 1084/1085 included) *)
Theorem C37_mirror_read : forall s i, inv s -> 0 <= i < 16 ->
  exists k, ring_read s i = Ok k
    /\ peek_mem s (1054 + 2 * i) = Ok (hd 0 (fst k)) /\ peek_mem s (1055 + 2 * i) = Ok (snd k).
Proof. exact mirror_read_thm. Qed.
Print Assumptions C37_mirror_read.

Theorem C37_mirror_poke : forall s i odd v, inv s -> 0 <= i < 16 -> 0 <= odd <= 1 ->
  exists s' k, ring_read s i = Ok k /\ poke_mem (1054 + 2 * i + odd) v s = Ok s' /\ inv s'
    /\ start s' = start s /\ buflen s' = buflen s
    /\ ring_read s' i = Ok (if odd =? 1 then (fst k, v)
                            else if keybuf_poke_slot_blank v then ([], snd k) else ([v], snd k))
    /\ (forall j, 0 <= j < 16 -> j <> i -> ring_read s' j = ring_read s j).
Proof. exact mirror_poke_thm. Qed.
Print Assumptions C37_mirror_poke.

Theorem C37_mirror_extent : forall s a v, a <> 1050 -> a <> 1052 -> (a < 1054 \/ 1086 <= a) ->
  poke_mem a v s = Ok s.
Proof. exact mirror_extent_thm. Qed.
Print Assumptions C37_mirror_extent.

(* ---- non-vacuity ------------------------------------------------------------------------------- *)

Example C37_nonvacuous_start : ring_ok init /\ inv init.
Proof. split; [exact inv_init | exact (proj1 inv_init)]. Qed.

(* the D12 witness on the model: type abc, POKE 1050,PEEK(1052), two INKEY$ -> both empty;
   and a state with keys waiting across the wrap-around satisfies ring_ok with the view as stated *)
Example C37_nonvacuous_witness :
  run_out [Inject [97]; Inject [98]; Inject [99]; PokeFrom 1050 1052; Inkey; Inkey] = [0; 0]
  /\ run_out [Down [97] 30; Down [98] 48; Down [99] 46; Poke 1050 34; Inkey; Inkey] = [1; 99; 0]
  /\ run_out (repeat (Down [65] 30) 20 ++ [Peek 1050; Peek 1052] ++ repeat Inkey 16)
     = [30; 60] ++ concat (repeat [1; 65] 15) ++ [0].
Proof. vm_compute. repeat split; reflexivity. Qed.

(* overflow with the head at slot 5: the CR lands in slot 4 (address 1062/1063), nothing else moves *)
Example C37_nonvacuous_cr_slot :
  run_out (repeat (Down [65] 30) 5 ++ repeat Inkey 5 ++ repeat (Down [66] 48) 16
           ++ [Peek 1050; Peek 1052; Peek 1062; Peek 1063; Peek 1064; Peek 1060])
  = concat (repeat [1; 65] 5) ++ [40; 38; 13; 28; 66; 66].
Proof. vm_compute. reflexivity. Qed.
