(* C11 - placeholder while the correspondence is being brought up *)
From Coq Require Import ZArith List.
From PCB Require Import lib.PyInt gen.Gen_arrays model.Arrays model.VarMem.
