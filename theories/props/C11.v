(* C11 - Variable storage is faithfully exposed and never aliased.
   Only statements, `exact`, Print Assumptions and a non-vacuity example here.
   Model: model/VarMem.v (Scalars, DataSegment glue, PEEK over the variable area) on model/Arrays.v and the
   regenerated arithmetic gen/Gen_arrays.v.  Arrays.get_memory is modelled AS FIXED by fixes/D6.patch: on the
   unfixed code C11_peek_array is false for every array but the first (the check reports the witness).
   String values are their 3-byte descriptors; the characters live in the string space (property C10). *)
From Coq Require Import ZArith List Lia.
From PCB Require Import lib.Result lib.PyInt gen.Gen_arrays model.Arrays model.VarMem.
From PCB Require Import proofs.Arrays_index_proofs proofs.Arrays_proofs proofs.VarMem_proofs
  proofs.VarMem_peek_proofs proofs.VarMem_disjoint_proofs proofs.VarMem_history_proofs
  proofs.VarMem_area_proofs proofs.VarMem_bound_proofs.
Import ListNotations.
Open Scope Z_scope.

(* VInv: scalar names unique, every buffer has the size of its type, scalar records contiguous from
   var_start, scalars.current = their total size, and the array-table invariant AInv of C12 (records
   contiguous from var_current, buffer length = flat_length * size).  It holds after every history of
   LET (scalars and elements), DIM, ERASE, OPTION BASE, CLEAR, SWAP, VARPTR, VARPTR$ (these may
   auto-dimension), PEEK. *)
Theorem C11_invariant : forall start ops, 0 <= start -> Forall vop_ok ops ->
  VInv (vfinal (v_init start) ops).
Proof. intros start ops H F. exact (vfinal_inv ops (v_init start) (VInv_init start H) F). Qed.
Print Assumptions C11_invariant.

(* cell_at st n idx p z: scalar n (idx = []) or in-bounds element idx of array n lives at the address p
   that VARPTR computes, with z bytes *)
Theorem C11_disjoint : forall st n1 i1 p1 z1 n2 i2 p2 z2, VInv st ->
  cell_at st n1 i1 p1 z1 -> cell_at st n2 i2 p2 z2 -> (n1, i1) <> (n2, i2) ->
  p1 + z1 <= p2 \/ p2 + z2 <= p1.
Proof. exact cells_disjoint. Qed.
Print Assumptions C11_disjoint.

Theorem C11_inside : forall st n idx p z, VInv st -> cell_at st n idx p z ->
  0 < z /\ v_start st <= p /\ p + z <= var_current st + a_cur (v_arr st).
Proof. exact cells_inside. Qed.
Print Assumptions C11_inside.

(* PEEK at VARPTR(v)+i is byte i of v *)
Theorem C11_peek_scalar : forall st limit n s i, VInv st -> slookup (v_svars st) n = Some s ->
  0 <= i < size_bytes n ->
  varptr st n [] = Ok (s_vptr s) /\
  peek st limit (s_vptr s + i) = Some (Ok (nth (Z.to_nat i) (s_buf s) 0)).
Proof.
  intros st limit n s i V L H. split; [unfold varptr; rewrite L; reflexivity | exact (peek_scalar st limit n s i V L H)].
Qed.
Print Assumptions C11_peek_scalar.

(* the record in front of a scalar: type size and name bytes as get_name_in_memory (regenerated) lays them out *)
Theorem C11_peek_scalar_record : forall st limit n s j, VInv st -> slookup (v_svars st) n = Some s ->
  0 <= j < scalars_record_size n ->
  s_vptr s = s_nptr s + scalars_record_size n /\
  peek st limit (s_nptr s + j) = Some (Ok (Z.max 0 (get_name_in_memory n j))).
Proof.
  intros st limit n s j V L H. split; [|exact (peek_scalar_record st limit n s j V L H)].
  destruct (slookup_some _ _ _ L) as [Hin Hn]. pose proof (vi_ok st V) as F. rewrite Forall_forall in F.
  rewrite <- Hn. apply (F s Hin).
Qed.
Print Assumptions C11_peek_scalar_record.

(* ... and the same for every element of every array (first, second, any) *)
Theorem C11_peek_array : forall st limit n a idx i, VInv st -> lookup (a_list (v_arr st)) n = Some a ->
  in_bounds (base_of (v_arr st)) (a_dims a) idx -> 0 <= i < size_bytes n ->
  exists p, varptr st n idx = Ok p /\
    peek st limit (p + i) = Some (Ok (nth (Z.to_nat i) (elem_of (base_of (v_arr st)) a idx) 0)).
Proof. exact peek_array. Qed.
Print Assumptions C11_peek_array.

(* EVERY byte of the variable area is characterised: area_image st lays out, record after record, the
   scalar records (type size, name bytes as get_name_in_memory gives them, value bytes) and then the array
   records (type size and name bytes, size word = bytes that follow it, rank byte, one word per dimension with
   the number of elements, element bytes); PEEK of any address in [var_start, var_current + arrays.current)
   returns the byte the layout assigns to it *)
Theorem C11_peek_area : forall st limit i, VInv st -> 0 <= i < v_scur st + a_cur (v_arr st) ->
  length (area_image st) = Z.to_nat (v_scur st + a_cur (v_arr st)) /\
  peek st limit (v_start st + i) = Some (Ok (nth (Z.to_nat i) (area_image st) 0)).
Proof. intros st limit i V H. split; [exact (area_image_length st V) | exact (peek_area st limit i V H)]. Qed.
Print Assumptions C11_peek_area.

(* VARPTR$ = type size, then the address little-endian *)
Theorem C11_varptr_str : forall st limit n idx st1 p, varptr_ st limit n idx = (st1, Ok p) ->
  varptr_str_ st limit n idx = (st1, Ok [size_bytes n; p mod 256; (p / 256) mod 256]) /\
  (0 <= p < 65536 -> le_decode [p mod 256; (p / 256) mod 256] = p).
Proof. exact varptr_str_layout. Qed.
Print Assumptions C11_varptr_str.

(* assigning one variable or element never changes another *)
Theorem C11_frame_scalar : forall st limit n v n', n' <> n ->
  (forall s, slookup (v_svars st) n' = Some s -> slookup (v_svars (fst (let_scalar st limit n v))) n' = Some s) /\
  v_arr (fst (let_scalar st limit n v)) = v_arr st.
Proof. exact let_scalar_frame. Qed.
Print Assumptions C11_frame_scalar.

Theorem C11_frame_elem : forall st limit n idx v, VInv st -> sigil_ok n ->
  v_svars (fst (let_elem st limit n idx v)) = v_svars st /\
  (snd (let_elem st limit n idx v) = Ok tt ->
   forall n' a' idx', lookup (a_list (v_arr st)) n' = Some a' ->
     in_bounds (base_of (v_arr st)) (a_dims a') idx' -> (n', idx') <> (n, idx) ->
     exists a'', lookup (a_list (v_arr (fst (let_elem st limit n idx v)))) n' = Some a'' /\
       a_dims a'' = a_dims a' /\
       elem_of (base_of (v_arr (fst (let_elem st limit n idx v)))) a'' idx' =
       elem_of (base_of (v_arr st)) a' idx').
Proof. exact let_elem_frame. Qed.
Print Assumptions C11_frame_elem.

(* the address bound and the order of the areas, for every history: if every operation is given a string
   space bottom `limit` <= L (L = top of memory, at most 64K; limit_ok) then the variable area ends below L,
   every address VARPTR hands out satisfies var_start <= p and p + size < L, scalars lie below var_current
   and array elements at or above it, and two distinct variables / elements never overlap *)
Theorem C11_address_bound : forall L start ops, 0 <= start < L -> Forall vop_ok ops -> Forall (limit_ok L) ops ->
  let st := vfinal (v_init start) ops in
  VInv st /\ v_start st = start /\ vend st < L /\
  (forall n idx p z, cell_at st n idx p z ->
     start <= p /\ p + z < L /\ (idx = [] -> p + z <= var_current st) /\ (idx <> [] -> var_current st <= p)) /\
  (forall n1 i1 p1 z1 n2 i2 p2 z2, cell_at st n1 i1 p1 z1 -> cell_at st n2 i2 p2 z2 ->
     (n1, i1) <> (n2, i2) -> p1 + z1 <= p2 \/ p2 + z2 <= p1).
Proof. exact address_bound. Qed.
Print Assumptions C11_address_bound.

(* SWAP a, b: b receives the bytes a holds AFTER both operands have been located.  Locating b may dimension
   an array (and, in the implementation, run the string collector, which rewrites string descriptors in
   place), so the bytes of a must be read afterwards - a copy taken before would be stale (seed C11e) *)
Theorem C11_swap_right : forall st limit n1 i1 n2 i2 st', VInv st -> sigil_ok n1 -> sigil_ok n2 ->
  swap_ st limit n1 i1 n2 i2 = (st', Ok tt) ->
  exists st1 st2 left right lb,
    view_place st limit n1 i1 false = (st1, Ok left) /\ view_place st1 limit n2 i2 true = (st2, Ok right) /\
    read_place st2 left = Ok lb /\ read_place st' right = Ok lb.
Proof. exact swap_right_gets_left. Qed.
Print Assumptions C11_swap_right.

(* non-vacuity: the D6 witness in the model of the fixed code: DIM A%(3):DIM B%(3):B%(0)=&H4321 *)
Example C11_nonvacuous :
  let A := [65; 37] in let B := [66; 37] in
  let ops := [VDim 65020 [(A, [3])]; VDim 65020 [(B, [3])]; VLetE 65020 B [0] [33; 67]; VLetS 65020 [88; 33] [1; 2; 3; 4]] in
  let st := vfinal (v_init 4720) ops in
  Forall vop_ok ops /\ VInv st /\
  varptr st B [0] = Ok 4754 /\ peek st 65020 4754 = Some (Ok 33) /\ peek st 65020 4755 = Some (Ok 67) /\
  varptr st [88; 33] [] = Ok 4724 /\ peek st 65020 4727 = Some (Ok 4).
Proof.
  cbv zeta.
  assert (F : Forall vop_ok [VDim 65020 [([65; 37], [3])]; VDim 65020 [([66; 37], [3])];
                             VLetE 65020 [66; 37] [0] [33; 67]; VLetS 65020 [88; 33] [1; 2; 3; 4]]).
  { assert (SA : sigil_ok [65; 37]) by (unfold sigil_ok; simpl; tauto).
    assert (SB : sigil_ok [66; 37]) by (unfold sigil_ok; simpl; tauto).
    assert (SX : sigil_ok [88; 33]) by (unfold sigil_ok; simpl; tauto).
    assert (BY : forall l, Forall (fun b => 0 <= b < 256) l -> bytes_ok l) by (intros l H; exact H).
    repeat apply Forall_cons; try apply Forall_nil; simpl; auto.
    - split; [assumption|]. apply BY. repeat apply Forall_cons; try apply Forall_nil; lia.
    - split; [assumption|]. split; [reflexivity|]. apply BY. repeat apply Forall_cons; try apply Forall_nil; lia. }
  split; [exact F|]. split; [apply C11_invariant; [lia | exact F]|].
  vm_compute. repeat split; reflexivity.
Qed.
