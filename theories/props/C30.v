(* C30 - Graphics never draws outside the viewport or the active page.
   Only statements, `exact`, Print Assumptions and non-vacuity / refuting examples here.
   The clip arithmetic (gen/Gen_viewport.v) and the request generators of PSET, LINE, LINE B, LINE BF, the text-mode
   guards and the table of store sites (gen/Gen_raster.v) are regenerated from graphics.py on every run. *)
From Coq Require Import ZArith List Bool Lia.
From PCB Require Import lib.Result lib.PyInt lib.GfxPrims gen.Gen_viewport gen.Gen_raster
  model.Matrix model.Viewport model.Raster
  model.Flood proofs.Matrix_proofs proofs.Viewport_proofs proofs.Raster_safe proofs.Raster_proofs proofs.Paint_import proofs.History_proofs.
Import ListNotations.
Open Scope Z_scope.

(* ---- 1. the write funnel: GraphicsViewPort.__setitem__ -> ByteMatrix.__setitem__ with Python slice semantics.
   For EVERY well-formed viewport, page matrix and request (any ints, any slices incl. None bounds, int or block
   data) whose converted slice bounds are non-negative and whose block rows have the width of the clipped target:
   the cells that change lie inside the viewport rectangle, and the matrix keeps its shape. *)
Theorem C30_funnel : forall vp rq m m',
  wf_vp vp -> width_is (vp_maxw vp) m ->
  nonneg_after_convert vp rq -> data_fits vp rq ->
  vp_setitem vp m rq = Ok m' ->
  (forall y x, cellZ m' y x <> cellZ m y x -> in_rect vp x y)
  /\ length m' = length m /\ width_is (vp_maxw vp) m'.
Proof.
  intros vp rq m m' Hwf Hw Hnn Hfit Hset.
  destruct (funnel_step vp rq m m' Hwf Hw (conj Hnn Hfit) Hset) as [[Hl Hw'] Hch].
  split; [exact Hch | split; assumption].
Qed.
Print Assumptions C30_funnel.

(* the write never raises on a page of the screen's size, and a whole request list keeps all changes inside *)
Theorem C30_funnel_run : forall vp rqs m,
  wf_vp vp -> same_dims vp m -> Forall (req_ok vp) rqs ->
  exists m', vp_run vp m rqs = Ok m' /\ same_dims vp m' /\
             forall y x, cellZ m' y x <> cellZ m y x -> in_rect vp x y.
Proof. exact funnel_run. Qed.
Print Assumptions C30_funnel_run.

(* the non-negativity hypothesis cannot be dropped: Python wraps a negative stop to the far edge.
   VIEW (2,2)-(5,5) on a 10x8 page, graph_view[1:2, 1:-4] = 7 changes columns 6 and 7 (right of the viewport). *)
Example C30_nonneg_needed :
  let vp := VP false 2 2 5 5 10 8 in
  let rq := WReq (ISlice (Some 1) (Some 2)) (ISlice (Some 1) (Some (-4))) (Fill 7) in
  let m := blank 8 10 0 in
  wf_vp vp /\ data_fits vp rq /\ ~ nonneg_after_convert vp rq /\
  exists m', vp_setitem vp m rq = Ok m' /\ cellZ m' 3 7 <> cellZ m 3 7 /\ ~ in_rect vp 7 3.
Proof.
  cbv zeta. split; [unfold wf_vp; cbn; lia|]. split; [exact I|].
  split.
  - unfold nonneg_after_convert. vm_compute. intros [_ [_ H]]. specialize (H _ eq_refl). apply H. reflexivity.
  - eexists. split; [vm_compute; reflexivity|]. split; [vm_compute; discriminate|].
    unfold in_rect. cbn. lia.
Qed.

(* neither can the width hypothesis for block data: bytearray slice assignment resizes the row *)
Example C30_fits_needed :
  let vp := VP false 2 2 5 5 10 8 in
  let rq := WReq (ISlice (Some 0) (Some 1)) (ISlice (Some 0) (Some 2)) (Block [[1; 2; 3; 4; 5]]) in
  let m := repeat [0; 1; 2; 3; 4; 5; 6; 7; 8; 9] 8 in
  wf_vp vp /\ nonneg_after_convert vp rq /\ ~ data_fits vp rq /\
  exists m', vp_setitem vp m rq = Ok m' /\ cellZ m' 2 8 <> cellZ m 2 8 /\ ~ in_rect vp 8 2.
Proof.
  cbv zeta. split; [unfold wf_vp; cbn; lia|].
  split; [unfold nonneg_after_convert; vm_compute; repeat split; intros ? E; injection E as E; subst; discriminate|].
  split.
  - unfold data_fits. vm_compute. intros H. inversion H as [|? ? H1 H2]. discriminate.
  - eexists. split; [vm_compute; reflexivity|]. split; [vm_compute; discriminate|].
    unfold in_rect. cbn. lia.
Qed.

(* ---- 2. every request issued by the REGENERATED generators satisfies those hypotheses, for ALL integer
   coordinates, attributes and line styles (cutoff_coord's clamp is what makes the filled box safe); proved by
   invariants of the generated loops that do not depend on the geometry of the line *)
Theorem C30_requests_ok : forall vp, wf_vp vp ->
  (forall x y a, Forall (req_ok vp) (gen_pset vp x y a)) /\
  (forall x0 y0 x1 y1 a p, exists l, gen_line vp x0 y0 x1 y1 a p = Ok l /\ Forall (req_ok vp) l) /\
  (forall x0 y0 x1 y1 a p, exists l, gen_box vp x0 y0 x1 y1 a p = Ok l /\ Forall (req_ok vp) l) /\
  (forall x0 y0 x1 y1 a, Forall (req_ok vp) (gen_boxfill vp x0 y0 x1 y1 a)).
Proof.
  intros vp Hwf. split; [|split; [|split]].
  - intros x y a. apply pixel_reqs_ok; [exact Hwf | apply gen_pset_safe].
  - intros. destruct (gen_line_safe vp x0 y0 x1 y1 a p) as [l [E F]]. exists l.
    split; [exact E | apply pixel_reqs_ok; assumption].
  - intros. destruct (gen_box_safe vp x0 y0 x1 y1 a p) as [l [E F]]. exists l.
    split; [exact E | apply pixel_reqs_ok; assumption].
  - intros. apply gen_boxfill_safe; exact Hwf.
Qed.
Print Assumptions C30_requests_ok.

(* PUT: the two `contains` tests make the block request safe (any sprite, any operation, any position) *)
Theorem C30_put_requests_ok : forall vp bpp page x y sprite op rqs,
  wf_vp vp -> width_is (vp_maxw vp) page -> rect_sprite sprite ->
  put_reqs vp bpp page x y sprite op = Ok rqs -> Forall (req_ok vp) rqs.
Proof. exact put_reqs_ok. Qed.
Print Assumptions C30_put_requests_ok.

(* CIRCLE / ellipse (octant and quadrant plotting, the tip of flat ellipses, pie-slice lines) and DRAW (segments,
   any angle and scale) reach pixels only through `graph_view[y, x] = attr` with integer y, x and through
   _draw_line: regenerated table raster_store_sites (their stores are (int, int)) and the writer-call check
   (raster_writer_calls_checked: inside _draw_circle / _draw_ellipse / _draw / _draw_step the only writing calls
   are _draw_line and, for DRAW "P", _flood_fill; no viewport method is called).  Whatever integers the float
   arithmetic of radius, aspect and angles produces, such requests are safe: *)
Definition C30_generator_safe_statement (gen : viewport -> matrix -> list wreq) : Prop :=
  forall vp page, wf_vp vp -> same_dims vp page -> Forall (req_ok vp) (gen vp page).

Theorem C30_pixel_requests_safe : forall gen,
  (forall vp page, Forall pixel_req (gen vp page)) -> C30_generator_safe_statement gen.
Proof. intros gen H vp page Hwf _. apply pixel_reqs_ok; [exact Hwf | apply H]. Qed.
Print Assumptions C30_pixel_requests_safe.

(* VIEW: the regenerated range checks of view_ leave only corners on the screen *)
Theorem C30_view_checks : forall w h x0 y0 x1 y1,
  raster_view_checks w h x0 y0 x1 y1 = Ok tt -> 0 <= x0 < w /\ 0 <= x1 < w /\ 0 <= y0 < h /\ 0 <= y1 < h.
Proof. exact view_checks_ok. Qed.
Print Assumptions C30_view_checks.

(* PAINT with a solid colour (also DRAW "P"): C32's model of _flood_fill and its soundness / termination theorems,
   instantiated with the active page and the viewport of C30: for every page content, seed, fill and border
   attribute the fill terminates and every cell it changes lies inside the viewport bounds, i.e. (absolute
   coordinates) inside the viewport rectangle *)
Theorem C30_paint_solid : forall vp m x y fill border,
  wf_vp vp -> same_dims vp m ->
  exists bm', flood_fill (paint_fuel (vp_bounds vp)) (vp_bounds vp) (page_bitmap vp m) x y fill border = Ok bm'
    /\ forall cx cy, pix bm' cx cy <> pix (page_bitmap vp m) cx cy ->
         let '(ax, ay) := vp_convert_coords vp cx cy in in_rect vp ax ay.
Proof.
  intros vp m x y fill border Hwf Hd.
  destruct (paint_in_viewport vp m x y fill border Hwf Hd) as [bm' [Hrun Hch]].
  exists bm'. split; [exact Hrun|]. intros cx cy Hne. apply in_view_in_rect. exact (proj1 (Hch cx cy Hne)).
Qed.
Print Assumptions C30_paint_solid.

(* PAINT with a tile pattern is not modelled by C32 either.  Proved: an interval request graph_view[y, xl:xr+1]
   inside the bounds with a tile row of the interval's width is safe; that _flood_fill only issues such intervals
   for tiled fills is not derived (it is replayed and checked by the correspondence and the oracle) *)
Theorem C30_paint_tiled_partial : forall vp xl xr y d,
  wf_vp vp -> vp_contains vp xl y = true -> vp_contains vp xr y = true -> xl <= xr + 1 ->
  (match d with Fill _ => True | Block src => Forall (fun s => zlen s = xr - xl + 1) src end) ->
  req_ok vp (WReq (IInt y) (ISlice (Some xl) (Some (xr + 1))) d).
Proof. exact interval_req_ok. Qed.
Print Assumptions C30_paint_tiled_partial.

(* ---- 3. statements: PSET / LINE / LINE B / LINE BF / VIEW (regenerated corner checks; fill and border drawn with
   the viewport unset, i.e. clipped to the screen) / PUT (bounds tests, one block write, any action verb) / the
   pixel lists of CIRCLE and DRAW - all unconditional (stmt_ok = True) - and the generic replay of a request list
   (tiled PAINT), which needs its requests to be safe.  In graphics mode a statement never raises a host exception, changes only cells
   of the ACTIVE page that lie inside the viewport in force (hence inside the screen), and leaves a good state. *)
Theorem C30_viewport : forall st s,
  good_state st -> g_text st = false -> stmt_ok st s ->
  exists r st', exec st s = (r, st')
    /\ (r = Ok tt \/ exists e, r = Err e)
    /\ (forall y x, cellZ (the_page st') y x <> cellZ (the_page st) y x ->
          in_rect (draw_vp st s) x y /\ 0 <= x < vp_maxw (g_vp st) /\ 0 <= y < vp_maxh (g_vp st))
    /\ good_state st' /\ g_apage st' = g_apage st /\ g_text st' = g_text st.
Proof.
  intros st s Hg Ht Hok.
  destruct (exec_in_viewport st s Hg Ht Hok) as [r [st' [He [Hr [Hch [Hg' [Hap Htx]]]]]]].
  exists r, st'. split; [exact He|]. split; [exact Hr|]. split; [|split; [exact Hg' | split; assumption]].
  intros y x Hc. specialize (Hch y x Hc). split; [exact Hch|].
  assert (Hwf : wf_vp (draw_vp st s) /\ vp_maxw (draw_vp st s) = vp_maxw (g_vp st)
                /\ vp_maxh (draw_vp st s) = vp_maxh (g_vp st)).
  { destruct Hg as [Hwf _]. destruct s; cbn [draw_vp]; try (split; [exact Hwf | split; reflexivity]).
    split; [apply vp_unset_wf; unfold wf_vp in Hwf; lia | split; reflexivity]. }
  destruct Hwf as [Hwf [Ew Eh]]. rewrite <- Ew, <- Eh. apply rect_in_screen; assumption.
Qed.
Print Assumptions C30_viewport.

(* a VIEW that is rejected - by the corner checks or by the range check of its fill / border attribute (0..255),
   both regenerated from view_, which the generator also checks to run before _set_view, which cannot raise - draws
   nothing and leaves the viewport that was in force *)
Theorem C30_view_rejected : forall st x0 y0 x1 y1 ab fill border,
  g_text st = false ->
  raster_view_checks (vp_maxw (g_vp st)) (vp_maxh (g_vp st)) x0 y0 x1 y1 <> Ok tt \/
  raster_view_attr_checks (option_map fst fill) (option_map fst border) <> Ok tt ->
  exec st (SView x0 y0 x1 y1 ab fill border) = (Err 5, st).
Proof.
  intros st x0 y0 x1 y1 ab fill border Ht H. unfold exec. rewrite Ht. cbn [stmt_guard raster_guard_view stmt_reqs].
  destruct (view_checks_res (vp_maxw (g_vp st)) (vp_maxh (g_vp st)) x0 y0 x1 y1) as [Ec|Ec]; rewrite Ec; cbn [bind];
    [|reflexivity].
  destruct (view_attr_checks_res (option_map fst fill) (option_map fst border)) as [Ea|Ea]; rewrite Ea; cbn [bind];
    [|reflexivity].
  destruct H as [H|H]; congruence.
Qed.
Print Assumptions C30_view_rejected.

(* the same without any side condition for every statement kind except the generic replay *)
Theorem C30_viewport_all_kinds : forall st s,
  good_state st -> g_text st = false -> (forall g r e, s <> SReqs g r e) ->
  exists r st', exec st s = (r, st')
    /\ (r = Ok tt \/ exists e, r = Err e)
    /\ (forall y x, cellZ (the_page st') y x <> cellZ (the_page st) y x ->
          in_rect (draw_vp st s) x y /\ 0 <= x < vp_maxw (g_vp st) /\ 0 <= y < vp_maxh (g_vp st))
    /\ good_state st' /\ g_apage st' = g_apage st /\ g_text st' = g_text st.
Proof.
  intros st s Hg Ht Hk. apply C30_viewport; [exact Hg | exact Ht|].
  destruct s; try exact I. exfalso. eapply Hk. reflexivity.
Qed.
Print Assumptions C30_viewport_all_kinds.

(* pages other than the active page are never changed (no hypothesis), also along any history of statements *)
Theorem C30_active_page : forall st s r st' p,
  exec st s = (r, st') -> p <> g_apage st -> nth_error (g_pages st') p = nth_error (g_pages st) p.
Proof. exact exec_other_pages. Qed.
Print Assumptions C30_active_page.

Theorem C30_active_page_history : forall l st p,
  p <> g_apage st -> good_state st -> g_text st = false -> stmts_ok st l ->
  nth_error (g_pages (exec_all st l)) p = nth_error (g_pages st) p.
Proof. exact history_other_pages. Qed.
Print Assumptions C30_active_page_history.

(* histories of graphics statements AND page selections (SCREEN ,,apage,vpage; the selection re-points the one
   viewport object to the page, it is not a per-page setting, and copies or changes no pixel): whatever pixel of
   whatever page differs after the history, some statement of the history was executed while THAT page was the
   active page and the pixel lay inside the viewport in force while that statement drew; the state invariant
   holds at the end *)
Theorem C30_history_pages : forall l st,
  good_state st -> g_text st = false -> hsteps_ok st l ->
  good_state (hrun st l) /\ g_text (hrun st l) = false /\
  forall p y x, cellZ (nth p (g_pages (hrun st l)) []) y x <> cellZ (nth p (g_pages st) []) y x ->
                touched st l p x y.
Proof. exact history_cells. Qed.
Print Assumptions C30_history_pages.

Theorem C30_select_keeps : forall st a,
  g_pages (hexec st (HSelect a)) = g_pages st /\ g_vp (hexec st (HSelect a)) = g_vp st /\
  g_text (hexec st (HSelect a)) = g_text st /\ (good_state st -> good_state (hexec st (HSelect a))).
Proof. exact select_keeps. Qed.
Print Assumptions C30_select_keeps.

(* text mode: every graphics statement raises Illegal function call (5) and the state is unchanged; the guard is
   the regenerated first statement of each statement method *)
Theorem C30_text_mode : forall st s, g_text st = true -> exec st s = (Err 5, st).
Proof. exact exec_text_mode. Qed.
Print Assumptions C30_text_mode.

(* the structural facts the translator checked on this run, as data *)
Example C30_sites_regenerated :
  (0 < length raster_store_sites)%nat /\ raster_pixels_refs = 2 /\ raster_guarded_statements = 9 /\
  raster_writer_calls_checked = 4.
Proof. repeat split. vm_compute. lia. Qed.

(* non-vacuity: a good state; a box-fill far outside on all sides with a viewport set changes exactly the viewport *)
Example C30_nonvacuous :
  let vp := VP false 3 2 8 5 12 8 in
  let st := GS false 2 [blank 8 12 0; blank 8 12 0] 1 vp in
  good_state st /\ stmt_ok st (SBoxF (-1000) (-1000) 1000 1000 3) /\
  (let st' := snd (exec st (SBoxF (-1000) (-1000) 1000 1000 3)) in
   fst (exec st (SBoxF (-1000) (-1000) 1000 1000 3)) = Ok tt /\
   cellZ (the_page st') 2 3 = Some 3 /\ cellZ (the_page st') 5 8 = Some 3 /\
   cellZ (the_page st') 1 3 = Some 0 /\ cellZ (the_page st') 5 9 = Some 0 /\
   nth_error (g_pages st') 0 = Some (blank 8 12 0)).
Proof.
  cbv zeta. split.
  - unfold good_state. cbn [g_vp g_apage g_pages]. split; [unfold wf_vp; cbn; lia|]. split; [cbn; lia|].
    repeat constructor; vm_compute; reflexivity.
  - split; [exact I|]. vm_compute. repeat split; reflexivity.
Qed.
