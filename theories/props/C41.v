(* C41 - Codepage conversion round-trips.
   Only statements, `exact`, Print Assumptions and non-vacuity examples here.

   Tables: gen/Gen_codepages.v + gen/Gen_codepages_dbcs.v are dumped on every run from the real Codepage
   objects of /repo (one per shipped codepage + the built-in default), as they are after Codepage.__init__.
   `all_codepages` is that list; `t_entries t` is _cp_to_unicode of codepage t as a list of
   (codepage point = 1 or 2 bytes, Unicode cluster = list of code points); `repertoire t` its values.
   The table theorems are finite sweeps (vm_compute over every entry, lifted by forallb_forall); the
   domain is exactly the tables: n_codepages pages, 256 * n_codepages + n_dbcs_entries entries
   (C41_domain_size).  unicodedata.normalize('NFC') is outside the model (table values are checked to be
   NFC-normal by the dumper).
   Converter: theorems hold for ALL parameter sets p (any lead / trail / connects / preserve predicates,
   box protection on or off), all well-formed states and all byte strings, by induction. *)
From Coq Require Import String ZArith List Bool.
From PCB Require Import lib.Result lib.PyInt gen.Gen_codepages gen.Gen_codepages_dbcs model.Codepage
  proofs.Codepage_proofs proofs.Codepage_tables_proofs.
Import ListNotations.
Open Scope Z_scope.

(* ---------------------------------------------------------------- tables *)

(* every character of the repertoire: unicode_to_bytes then bytes_to_unicode gives it back
   (whatever the `errors` mode; the encoding never fails on the repertoire) *)
Theorem C41_chars_roundtrip : forall t, In t all_codepages -> forall u, In u (repertoire t) ->
  forall mode, exists b, unicode_to_bytes t mode u = Ok b /\ bytes_to_unicode t b = u.
Proof. intros t Ht u Hu mode. exact (chars_roundtrip t u mode Ht Hu). Qed.
Print Assumptions C41_chars_roundtrip.

(* every byte / lead-trail pair b of the table whose Unicode mapping u is unique (no other point of the
   table maps to u): bytes_to_unicode then unicode_to_bytes gives b back *)
Theorem C41_bytes_roundtrip : forall t, In t all_codepages -> forall b u, In (b, u) (t_entries t) ->
  (forall b', In (b', u) (t_entries t) -> b' = b) ->
  forall mode, bytes_to_unicode t b = u /\ unicode_to_bytes t mode u = Ok b.
Proof. intros t Ht b u Hin Hu mode. exact (bytes_roundtrip t b u mode Ht Hin Hu). Qed.
Print Assumptions C41_bytes_roundtrip.

(* the full converter (state machine with box protection + flush) decodes every table point to its entry,
   and where the mapping is not unique the encoder picks another point of the table with the same Unicode *)
Theorem C41_decode_table : forall t, In t all_codepages -> forall b u, In (b, u) (t_entries t) ->
  bytes_to_unicode t b = u /\
  forall mode, exists r, unicode_to_bytes t mode u = Ok r /\ bytes_to_unicode t r = u /\
                         (r = b \/ In (r, u) (t_entries t)).
Proof.
  intros t Ht b u Hin. split; [exact (decode_entry t b u Ht Hin) | intro mode; exact (encode_entry t b u mode Ht Hin)].
Qed.
Print Assumptions C41_decode_table.

(* glyph substitutes of printable ASCII (e.g. YEN SIGN for 0x5C in 932): with use_substitutes the point shows
   as the glyph, and the glyph encodes back to the point *)
Theorem C41_substitutes_roundtrip : forall t, In t all_codepages -> forall b g, In (b, g) (t_subst t) ->
  (forall b', In (b', g) (t_subst t) -> b' = b) ->
  forall mode, bytes_to_unicode_subst t b = g /\ unicode_to_bytes t mode g = Ok b.
Proof. intros t Ht b g Hin Hu mode. exact (subst_roundtrip t b g mode Ht Hin Hu). Qed.
Print Assumptions C41_substitutes_roundtrip.

(* the bound of the sweeps *)
Theorem C41_domain_size :
  Z.of_nat (List.length all_codepages) = n_codepages /\
  n_entries all_codepages = 256 * n_codepages + n_dbcs_entries.
Proof. exact domain_size. Qed.
Print Assumptions C41_domain_size.

(* ---------------------------------------------------------------- unicode -> bytes, whole strings *)

(* Codepage._split_unicode, for EVERY (NFC-normal) string and every shipped page: the `while ucs` loop ends
   (never OutOfFuel), the clusters concatenate back to the string, none is empty *)
Theorem C41_split_unicode_concat : forall t, In t all_codepages -> forall ucs,
  exists cls, split_unicode t ucs = Ok cls /\ concat cls = ucs /\ Forall (fun c => c <> []) cls.
Proof. intros t Ht ucs. exact (split_unicode_ok t ucs (proj1 (clusters_ok t Ht))). Qed.
Print Assumptions C41_split_unicode_concat.

(* greedy clustering: whenever a multi-code-point cluster cl of the page is a prefix of the string (not led
   by the e-ASCII NUL), the first piece is a cluster of the page that is a prefix as well and at least as long
   as cl: no cluster of the table is shadowed by a sibling with the same base letter or by its base letter *)
Theorem C41_split_unicode_greedy : forall t, In t all_codepages -> forall c0 rest cl,
  c0 <> 0 -> In cl (t_clusters t) -> starts_with cl (c0 :: rest) = true ->
  exists cl' tail, split_unicode t (c0 :: rest) = Ok (cl' :: tail)
                   /\ In cl' (t_clusters t) /\ starts_with cl' (c0 :: rest) = true
                   /\ (List.length cl <= List.length cl')%nat
                   /\ concat (cl' :: tail) = c0 :: rest.
Proof.
  intros t Ht c0 rest cl Hc Hin Hs. destruct (clusters_ok t Ht) as [H1 H2].
  exact (split_unicode_greedy t c0 rest cl H1 H2 Hc Hin Hs).
Qed.
Print Assumptions C41_split_unicode_greedy.

(* non-vacuity: russup3 has the siblings a+grave (0430 0300) and a+acute (0430 0301) *)
Example C41_clusters_nonvacuous :
  let t := get_codepage "russup3" in
  In t all_codepages /\ In [1072; 768] (t_clusters t) /\ In [1072; 769] (t_clusters t)
  /\ split_unicode t [1072; 768; 1072; 769; 1072] = Ok [[1072; 768]; [1072; 769]; [1072]]
  /\ unicode_to_bytes t Strict [1072; 768; 1072; 769; 1072] = Ok [133; 159; 221].
Proof.
  cbv zeta. split; [apply get_codepage_in; vm_compute; reflexivity|].
  split; [apply mem_seq_In; vm_compute; reflexivity|].
  split; [apply mem_seq_In; vm_compute; reflexivity|].
  split; vm_compute; reflexivity.
Qed.

(* ---------------------------------------------------------------- streaming converter *)

(* nothing lost, duplicated or reordered: emitted sequences ++ pending buffer = old buffer ++ consumed;
   the state stays well-formed; every emitted sequence is one byte or a pair *)
Theorem C41_split_concat : forall p dbcs st s, wf_mark p dbcs st ->
  concat (fst (mark p dbcs st s false)) ++ s_buf (snd (mark p dbcs st s false)) = s_buf st ++ s
  /\ wf_mark p dbcs (snd (mark p dbcs st s false))
  /\ Forall seq_ok (fst (mark p dbcs st s false)).
Proof. exact mark_noflush. Qed.
Print Assumptions C41_split_concat.

(* with flush: the sequences concatenate back to the input and the buffer is empty *)
Theorem C41_flush : forall p dbcs st s, wf_mark p dbcs st ->
  concat (fst (mark p dbcs st s true)) = s_buf st ++ s
  /\ s_buf (snd (mark p dbcs st s true)) = []
  /\ wf_mark p dbcs (snd (mark p dbcs st s true))
  /\ Forall seq_ok (fst (mark p dbcs st s true)).
Proof. exact mark_flush. Qed.
Print Assumptions C41_flush.

Theorem C41_fresh_converter : forall p dbcs s,
  concat (fst (mark p dbcs init_state s true)) = s /\ s_buf (snd (mark p dbcs init_state s true)) = [].
Proof.
  intros p dbcs s. destruct (mark_flush p dbcs init_state s (init_wf p dbcs)) as (H1 & H2 & _).
  split; [exact H1 | exact H2].
Qed.
Print Assumptions C41_fresh_converter.

(* the converter is a fold: any state, any split point *)
Theorem C41_chunking : forall p dbcs st s1 s2 fl,
  mark p dbcs st (s1 ++ s2) fl =
  (fst (mark p dbcs st s1 false) ++ fst (mark p dbcs (snd (mark p dbcs st s1 false)) s2 fl),
   snd (mark p dbcs (snd (mark p dbcs st s1 false)) s2 fl)).
Proof. exact mark_app. Qed.
Print Assumptions C41_chunking.

(* arbitrary pieces: same sequences and same final state as the whole string at once *)
Theorem C41_pieces : forall p dbcs st pieces,
  mark_pieces p dbcs st pieces = mark p dbcs st (concat pieces) false.
Proof. intros. apply mark_pieces_concat. Qed.
Print Assumptions C41_pieces.

Theorem C41_pieces_flush : forall p dbcs st pieces,
  mark p dbcs st (concat pieces) true =
  (fst (mark_pieces p dbcs st pieces) ++ fst (mark p dbcs (snd (mark_pieces p dbcs st pieces)) [] true),
   snd (mark p dbcs (snd (mark_pieces p dbcs st pieces)) [] true)).
Proof. exact mark_pieces_flush. Qed.
Print Assumptions C41_pieces_flush.

(* the same at the level of the emitted Unicode (Converter.to_unicode_list), for any codepage tables,
   preserve set, box setting and substitute setting *)
Theorem C41_unicode_pieces : forall cv st pieces,
  unicode_pieces cv st pieces = to_unicode_list cv st (concat pieces) false
  /\ to_unicode_list cv st (concat pieces) true =
     (fst (unicode_pieces cv st pieces)
        ++ fst (to_unicode_list cv (snd (unicode_pieces cv st pieces)) [] true),
      snd (to_unicode_list cv (snd (unicode_pieces cv st pieces)) [] true)).
Proof. intros. split; [apply unicode_pieces_concat | apply convert_pieces]. Qed.
Print Assumptions C41_unicode_pieces.

(* ---------------------------------------------------------------- non-vacuity *)

(* a fresh converter is well-formed in every configuration *)
Example C41_init_wellformed : forall p dbcs, wf_mark p dbcs init_state.
Proof. exact init_wf. Qed.

(* a DBCS page with a uniquely mapped pair, a non-unique mapping (byte 9 and pair A1 F0), and box protection at work *)
Example C41_nonvacuous :
  let t := get_codepage "936" in
  In t all_codepages /\ t_dbcs t = true
  /\ In ([129; 64], [19970]) (t_entries t)
  /\ (forall b', In (b', [19970]) (t_entries t) -> b' = [129; 64])
  /\ In ([9], [9675]) (t_entries t) /\ In ([161; 240], [9675]) (t_entries t)
  /\ unicode_to_bytes t Ignore [9675] = Ok [161; 240]
  /\ fst (mark (params_of (default_converter t)) true init_state [65; 196; 196; 196; 129; 64] true)
     = [[65]; [196]; [196]; [196]; [129; 64]]
  /\ fst (mark (params_of (mk_conv "936" false [] false false)) true init_state [65; 196; 196; 196; 129; 64] true)
     = [[65]; [196; 196]; [196; 129]; [64]].
Proof.
  cbv zeta. split; [apply get_codepage_in; vm_compute; reflexivity|].
  split; [vm_compute; reflexivity|].
  split; [apply entry_in_In; vm_compute; reflexivity|].
  split; [apply unique_check_ok; vm_compute; reflexivity|].
  split; [apply entry_in_In; vm_compute; reflexivity|].
  split; [apply entry_in_In; vm_compute; reflexivity|].
  split; [vm_compute; reflexivity|].
  split; vm_compute; reflexivity.
Qed.

(* A flushed converter is NOT a fresh one: _flush empties the buffer but keeps _bset/_last, so feeding a
   flushed converter again differs from a fresh converter.  `bytes_to_unicode` (conversion at once) is
   therefore modelled - and must be implemented - with a fresh converter per call: it is a function of its
   arguments only, whatever was converted before through the same Codepage (the harness runs call
   histories on one real Codepage object against this stateless model). *)
Example C41_flush_keeps_box_state :
  let p := params_of (mk_conv_light "936" true [] false false) in
  let st := snd (mark p true init_state [196; 196; 196] true) in
  s_buf st = [] /\ s_bset st = 0 /\ s_last st = Some 196
  /\ fst (mark p true st [196; 196] true) = [[196]; [196]]
  /\ fst (mark p true init_state [196; 196] true) = [[196; 196]].
Proof. cbv zeta. repeat split; vm_compute; reflexivity. Qed.

Example C41_nonvacuous_sbcs :
  let t := get_codepage "437" in
  In t all_codepages /\ t_dbcs t = false /\ In ([225], [223]) (t_entries t)
  /\ (forall b', In (b', [223]) (t_entries t) -> b' = [225])
  /\ unicode_to_bytes t Strict [223] = Ok [225].
Proof.
  cbv zeta. split; [apply get_codepage_in; vm_compute; reflexivity|].
  split; [vm_compute; reflexivity|].
  split; [apply entry_in_In; vm_compute; reflexivity|].
  split; [apply unique_check_ok; vm_compute; reflexivity|].
  vm_compute; reflexivity.
Qed.
