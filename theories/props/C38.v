(* C38 - Event traps fire only when enabled and never re-enter.
   Only statements, `exact`, Print Assumptions and non-vacuity examples here.

   Vocabulary (model/Events.v): a schedule is ANY list of actions - environment actions `Occur e`,
   `Consume e`, program actions `On/Off/Stop e`, `OnGosub e line`, `Install` + `Boundary order` (what
   Interpreter.parse does before every statement: install the handlers of the enabled events, then
   handle_basic_events), `Gosub`, `Return`, `ReturnTo`, `OnError b`, `ErrorTrap`, `Resume`, `ResumeTo`,
   `EndProgram`, `Idle`, `Start`, `RunClear`.  `entries st a` = events whose handler is entered by doing
   `a` in state `st`; `run st s` = state after schedule `s`; all theorems quantify over all schedules of
   every length.  "e is ON or STOPped" is `enabled (ev st e)`; `accept st e` adds that a statement loop
   is polling the input queue (`listening`).  COM events are level triggered (`trig` is the device's
   char_waiting) and COM(n) OFF does not switch off: the theorems about occurrences carry
   `is_com e = false`, the COM behaviour is stated separately. *)
From Coq Require Import ZArith List Bool.
From PCB Require Import model.Events proofs.Events_proofs.
Import ListNotations.

(* a handler is entered only by handle_basic_events, only in run mode, only when not suspended, only
   for an event that is enabled (ON), not stopped, triggered, and has a handler line *)
Theorem C38_only_running : forall st a e, In e (entries st a) ->
  (exists o, a = Boundary o) /\ run_mode st = true /\ suspend_all st = false /\
  enabled (ev st e) = true /\ trig (ev st e) = true /\ stopped (ev st e) = false /\
  gosub (ev st e) <> None.
Proof.
  intros st a e H. destruct (entries_boundary st a e H) as (o & E & S & R & F).
  destruct (fires_true st e F) as (F1 & F2 & F3 & F4).
  split; [exists o; exact E | repeat split; assumption].
Qed.
Print Assumptions C38_only_running.

(* and the program is still running afterwards (the handler body runs in run mode) *)
Theorem C38_running_after_entry : forall st o e, In e (entries st (Boundary o)) ->
  run_mode (next st (Boundary o)) = true.
Proof.
  intros st o e H. destruct (entries_boundary st _ e H) as (o' & _ & S & R & _).
  destruct (boundary_next st o S R) as [E _]. rewrite E. apply handle_run_mode. exact R.
Qed.
Print Assumptions C38_running_after_entry.

(* never while an error handler is active: in every reachable state error_handle_mode implies
   suspend_all, and nothing is entered *)
Theorem C38_not_in_error_handler : forall s a,
  error_handle_mode (run init s) = true ->
  suspend_all (run init s) = true /\ entries (run init s) a = [].
Proof.
  intros s a H. split; [exact (eh_inv_run s H) | exact (no_entry_in_error_handler s a H)].
Qed.
Print Assumptions C38_not_in_error_handler.

(* each entry of e is preceded by an occurrence of e, made while e was ON or STOPped, with no entry of e
   between that occurrence and this entry *)
Theorem C38_needs_occurrence : forall e s a, is_com e = false ->
  In e (entries (run init s) a) ->
  exists s1 s2, s = s1 ++ Occur e :: s2 /\
    enabled (ev (run init s1) e) = true /\ listening (run init s1) = true /\
    count_entries e (run init (s1 ++ [Occur e])) s2 = 0.
Proof.
  intros e s a C I.
  destruct (entry_has_cause e C init eq_refl s a I) as (s1 & s2 & E & A & Z).
  exists s1, s2. unfold accept in A. apply andb_true_iff in A. destruct A as [A1 A2].
  repeat split; assumption.
Qed.
Print Assumptions C38_needs_occurrence.

(* counting form: along every schedule, the number of entries of e never exceeds the number of
   occurrences of e that were made while e was ON or STOPped *)
Theorem C38_one_entry_per_occurrence : forall e s, is_com e = false ->
  count_entries e init s <= count_accepted e init s.
Proof.
  intros e s C. pose proof (entries_le_accepted e C s init) as H. simpl in H. rewrite Nat.add_0_r in H. exact H.
Qed.
Print Assumptions C38_one_entry_per_occurrence.

(* an occurrence while e is ON or STOPped (here: while its handler cannot be entered, e.g. STOPped) is
   remembered across every continuation without RUN in which it is not handled, and once ON e is executed
   the next statement boundary of a running, unsuspended program enters the handler exactly once; after
   that, nothing more is entered without a new occurrence *)
Theorem C38_stop_remembered : forall e st mid o, is_com e = false ->
  enabled (ev st e) = true -> listening st = true ->
  no_reset mid ->
  count_entries e (next st (Occur e)) mid = 0 ->
  let st1 := run (next st (Occur e)) mid in
  let st2 := next st1 (On e) in
  run_mode st2 = true -> suspend_all st2 = false -> gosub (ev st2 e) <> None -> In e o ->
  countb e (entries st2 (Boundary o)) = 1 /\
  forall rest, (forall a, In a rest -> a <> Occur e) -> count_entries e (next st2 (Boundary o)) rest = 0.
Proof.
  intros e st mid o C E L. apply stop_remembered; [exact C|]. unfold accept. rewrite E, L. reflexivity.
Qed.
Print Assumptions C38_stop_remembered.

(* ... and while e is stopped (STOP executed, or its handler active) nothing is entered *)
Theorem C38_stopped_not_entered : forall st a e, stopped (ev st e) = true -> ~ In e (entries st a).
Proof. exact stopped_no_entry. Qed.
Print Assumptions C38_stopped_not_entered.

(* an occurrence while e is OFF (or while the interpreter is idle) is lost: the state is unchanged, so
   the whole future is the one of the schedule without that occurrence *)
Theorem C38_off_lost : forall st e s, is_com e = false ->
  enabled (ev st e) = false \/ listening st = false ->
  step st (Occur e) = (st, []) /\
  run st (Occur e :: s) = run st s /\ trace st (Occur e :: s) = [] :: trace st s.
Proof.
  intros st e s C H.
  assert (A : accept st e = false).
  { unfold accept. destruct H as [H | H]; rewrite H; [apply andb_false_r | reflexivity]. }
  split; [exact (off_lost_step st e C A) | exact (off_lost st e s C A)].
Qed.
Print Assumptions C38_off_lost.

(* one statement boundary enters a handler at most once *)
Theorem C38_once_per_boundary : forall st a e, countb e (entries st a) <= 1.
Proof. exact entries_count_le1. Qed.
Print Assumptions C38_once_per_boundary.

(* entering e pushes a GOSUB frame tagged e; it is the topmost frame with that tag *)
Theorem C38_entry_pushes_frame : forall st o e, In e (entries st (Boundary o)) ->
  exists rm below above,
    gosub_stack (next st (Boundary o)) = above ++ (rm, Some e) :: below /\
    ~ In (Some e) (map snd above) /\
    exists k, below = k ++ gosub_stack st.
Proof. exact entry_pushes_frame. Qed.
Print Assumptions C38_entry_pushes_frame.

(* between the entry of e and the RETURN that pops this frame (i.e. as long as the frame stays on the
   GOSUB stack) e is not entered again unless ON e is executed in between; holds from every state *)
Theorem C38_no_reentry : forall st o1 e rm below above mid o2,
  In e (entries st (Boundary o1)) ->
  let st1 := next st (Boundary o1) in
  gosub_stack st1 = above ++ (rm, Some e) :: below ->
  ~ In (Some e) (map snd above) ->
  (forall p q, mid = p ++ q -> exists ab, gosub_stack (run st1 p) = ab ++ (rm, Some e) :: below) ->
  In e (entries (run st1 mid) (Boundary o2)) ->
  In (On e) mid.
Proof. exact no_reentry. Qed.
Print Assumptions C38_no_reentry.

(* ------------------------------------------------------------------------------------------------ *)
(* non-vacuity and the stated exceptions, by computation *)

Definition k1 := Key 1.
Definition k2 := Key 2.
Definition setup := [OnGosub k1 (Some 1000%Z); OnGosub k2 (Some 2000%Z); OnError true; On k1; On k2; Start].

(* a handler IS entered; a second occurrence during the handler waits for RETURN *)
Example C38_nonvacuous_entry :
  trace init (setup ++ [Install; Occur k1; Boundary [k1; k2]; Install; Occur k1; Boundary [k1; k2];
                        Return; Install; Boundary [k2; k1]])
  = [[]; []; []; []; []; []; []; []; [k1]; []; []; []; []; []; [k1]].
Proof. vm_compute. reflexivity. Qed.

(* hypotheses of C38_stop_remembered are satisfiable: STOP, occurrence, ON, boundary -> exactly one entry *)
Example C38_nonvacuous_stop :
  let st := run init (setup ++ [Install; Stop k1]) in
  enabled (ev st k1) = true /\ listening st = true /\ stopped (ev st k1) = true /\
  count_entries k1 (next st (Occur k1)) [Install; Boundary [k1]; Occur k1; Boundary [k1]] = 0 /\
  trace st [Occur k1; Install; Boundary [k1]; Occur k1; Boundary [k1]; On k1; Install; Boundary [k1];
            Install; Boundary [k1]]
  = [[]; []; []; []; []; []; []; [k1]; []; []].
Proof. vm_compute. repeat split. Qed.

(* OFF: lost.  After OFF the occurrence changes nothing and ON does not bring it back *)
Example C38_nonvacuous_off :
  let st := run init (setup ++ [Install; Off k1]) in
  enabled (ev st k1) = false /\
  trace st [Occur k1; On k1; Install; Boundary [k1]] = [[]; []; []; []].
Proof. vm_compute. repeat split. Qed.

(* hypotheses of C38_no_reentry are satisfiable, and ON inside the handler does allow re-entry *)
Example C38_nonvacuous_reentry :
  let st := run init (setup ++ [Install; Occur k1]) in
  entries st (Boundary [k1]) = [k1] /\
  gosub_stack (next st (Boundary [k1])) = [] ++ (true, Some k1) :: [] /\
  trace (next st (Boundary [k1])) [Occur k1; Boundary [k1]; On k1; Boundary [k1]] = [[]; []; []; [k1]] /\
  gosub_stack (run (next st (Boundary [k1])) [Occur k1; Boundary [k1]; On k1; Boundary [k1]])
  = [(true, Some k1); (true, Some k1)].
Proof. vm_compute. repeat split. Qed.

(* suspended while the error handler is active, delivered after RESUME *)
Example C38_nonvacuous_error_handler :
  trace init (setup ++ [ErrorTrap; Install; Occur k1; Boundary [k1]; Resume; Install; Boundary [k1]])
  = [[]; []; []; []; []; []; []; []; []; []; []; []; [k1]] /\
  error_handle_mode (run init (setup ++ [ErrorTrap])) = true.
Proof. vm_compute. split; reflexivity. Qed.

(* not in direct mode: an occurrence while ON in direct mode is remembered until a program runs *)
Example C38_nonvacuous_direct_mode :
  trace init [OnGosub k1 (Some 1000%Z); On k1; Install; Occur k1; Boundary [k1]; Idle; Start; Install;
              Boundary [k1]]
  = [[]; []; []; []; []; []; []; []; [k1]].
Proof. vm_compute. reflexivity. Qed.

(* the exceptions for COM, stated exactly: (1) COM(n) OFF leaves the trap enabled, (2) the trigger is
   the level "character waiting": the handler is entered again after RETURN without a new arrival, until
   the input is consumed; (3) a character that arrived while the trap was OFF is seen after ON *)
Example C38_com_exceptions :
  let c := Com 1 in
  trace init [OnGosub c (Some 4800%Z); On c; Start; Off c; Install; Occur c; Boundary [c]; Return;
              Install; Boundary [c]; Return; Consume c; Install; Boundary [c]]
  = [[]; []; []; []; []; []; [c]; []; []; [c]; []; []; []; []] /\
  trace init [OnGosub c (Some 4800%Z); Start; Install; Occur c; Boundary [c]; On c; Install; Boundary [c]]
  = [[]; []; []; []; []; []; []; [c]].
Proof. vm_compute. split; reflexivity. Qed.

(* RETURN from the handler re-enables a trap that was STOPped inside the handler (return_: "if STOP is run
   inside the trap, no effect"), but not one that was switched OFF there *)
Example C38_return_unstops :
  trace init (setup ++ [Install; Occur k1; Boundary [k1]; Stop k1; Occur k1; Return; Install; Boundary [k1]])
  = [[]; []; []; []; []; []; []; []; [k1]; []; []; []; []; [k1]] /\
  trace init (setup ++ [Install; Occur k1; Boundary [k1]; Off k1; Occur k1; Return; Install; Boundary [k1]])
  = [[]; []; []; []; []; []; []; []; [k1]; []; []; []; []; []].
Proof. vm_compute. split; reflexivity. Qed.

(* ------------------------------------------------------------------------------------------------ *)
(* TIMER: where `Occur Timer` comes from.  A timed schedule (core actions + `Elapse` = the period runs
   out, `Poll` = the pass over the installed handlers at every statement) is the core schedule `texpand`
   with the same entries, so all theorems above apply with "occurrence of TIMER" = a Poll that finds the
   period elapsed - which only happens while TIMER is ON or STOPped. *)
Theorem C38_timer_refines : forall s x,
  core (trun x s) = run (core x) (texpand x s) /\
  concat (ttrace x s) = concat (trace (core x) (texpand x s)).
Proof. exact texpand_run. Qed.
Print Assumptions C38_timer_refines.

(* D38a (fixed defect): an interval that runs out while TIMER is OFF is lost: TIMER ON coming from OFF
   restarts the interval, so the next poll finds nothing; and nothing is found before ON TIMER(n) GOSUB
   has defined the interval.  (Before the fix the first poll after TIMER ON triggered.) *)
Theorem C38_timer_off_lost : forall x, enabled (ev (core x) Timer) = false ->
  poll_hits (tnext x (Core (On Timer))) = false.
Proof. exact timer_on_from_off. Qed.
Print Assumptions C38_timer_off_lost.

Theorem C38_timer_needs_period : forall x, period_set x = false -> poll_hits x = false.
Proof. exact timer_needs_period. Qed.
Print Assumptions C38_timer_needs_period.

(* the same for PLAY: a drop of the music queue below n that happened while PLAY was OFF is lost *)
Theorem C38_play_off_lost : forall x, enabled (ev (core x) Play) = false ->
  play_hits (tnext x (Core (On Play))) = false.
Proof. exact play_on_from_off. Qed.
Print Assumptions C38_play_off_lost.

Example C38_timer_elapse_while_off_lost :
  let pt := [Core Install; Poll; Core (Boundary [Timer])] in
  concat (ttrace tinit ([Core (OnGosub Timer (Some 3000%Z)); Core Start] ++ pt ++
                [Elapse] ++ pt ++ [Core (On Timer)] ++ pt ++ pt)) = [] /\
  concat (ttrace tinit ([Core Start; Core (On Timer)] ++ pt ++ [Core (OnGosub Timer (Some 3000%Z))] ++ pt))
  = [].
Proof. vm_compute. split; reflexivity. Qed.

(* the positive counterpart: a period that runs out while TIMER is ON or STOPped is handled, once *)
Example C38_timer_nonvacuous :
  let pt := [Core Install; Poll; Core (Boundary [Timer])] in
  ttrace tinit ([Core (OnGosub Timer (Some 3000%Z)); Core (On Timer); Core Start] ++ pt ++
                [Elapse] ++ pt ++ [Core Return] ++ pt ++ [Core (Stop Timer); Elapse] ++ pt ++
                [Core (On Timer)] ++ pt ++ pt)
  = [[]; []; []; []; []; []; []; []; []; [Timer]; []; []; []; []; []; []; []; []; []; []; []; []; [Timer];
     []; []; []].
Proof. vm_compute. reflexivity. Qed.

(* ------------------------------------------------------------------------------------------------ *)
(* CLEAR / NEW / RENUM / RUN (= CHAIN) while handler frames are live: all theorems above already quantify
   over these actions (is_reset = RUN, CLEAR, NEW: new handler objects).  What they do, by computation: *)

(* RENUM inside a handler drops the GOSUB stack and stops the program; the trap stays stopped (no RETURN
   can un-stop it any more) until ON; a pending occurrence is kept and handled after ON *)
Example C38_renum_in_handler :
  let st := run init (setup ++ [Install; Occur k1; Boundary [k1]; Occur k1; Renum]) in
  gosub_stack st = [] /\ run_mode st = false /\ stopped (ev st k1) = true /\ trig (ev st k1) = true /\
  trace st [Start; Install; Boundary [k1]; Install; Boundary [k1]; On k1; Install; Boundary [k1]]
  = [[]; []; []; []; []; []; []; [k1]].
Proof. vm_compute. repeat split. Qed.

(* CLEAR inside a handler: traps, handler lines, error trapping and the GOSUB stack are gone, the program
   keeps running; a later RETURN is an error; the trap has to be defined and switched on again *)
Example C38_clear_in_handler :
  let st := run init (setup ++ [Install; Occur k1; Boundary [k1]; Occur k2; Clear]) in
  gosub_stack st = [] /\ run_mode st = true /\ enabled (ev st k1) = false /\ trig (ev st k2) = false /\
  on_error st = false /\
  trace st [Install; Occur k1; Boundary [k1; k2]; On k1; Install; Occur k1; Boundary [k1];
            OnGosub k1 (Some 1000%Z); Install; Boundary [k1]]
  = [[]; []; []; []; []; []; []; []; []; [k1]] /\
  run_mode (run st [Return]) = false.
Proof. vm_compute. repeat split. Qed.

(* NEW and RUN/CHAIN: nothing survives; END keeps frames and flags (RETURN from direct mode resumes) *)
Example C38_new_run_end :
  let st := run init (setup ++ [Install; Occur k1; Boundary [k1]; Occur k1]) in
  enc_state (next st New) = enc_state init /\
  gosub_stack (next st RunClear) = [] /\ trig (ev (next st RunClear) k1) = false /\
  trace st [EndProgram; Install; Boundary [k1]; Idle; Return; Install; Boundary [k1]]
  = [[]; []; []; []; []; []; [k1]].
Proof. vm_compute. repeat split. Qed.

(* PLAY: the event is "the number of notes waiting drops below n"; PlayHandler.last is refreshed only by
   polls made while PLAY is ON/STOPped.  Positive: a drop while ON is handled once. *)
Example C38_play_nonvacuous :
  let pt := [Core Install; Poll; Core (Boundary [Play])] in
  ttrace tinit ([PlayTrig 2; Core (OnGosub Play (Some 5000%Z)); Core (On Play); Core Start; PlayQ 3] ++ pt ++
                [PlayQ 1] ++ pt ++ [Core Return] ++ pt ++ [PlayQ 0] ++ pt)
  = [[]; []; []; []; []; []; []; []; []; []; []; [Play]; []; []; []; []; []; []; []; []].
Proof. vm_compute. reflexivity. Qed.

(* D38a: a drop that happens while PLAY is OFF is lost *)
Example C38_play_drop_while_off_lost :
  let pt := [Core Install; Poll; Core (Boundary [Play])] in
  concat (ttrace tinit ([PlayTrig 2; Core (OnGosub Play (Some 5000%Z)); Core (On Play); Core Start; PlayQ 3]
                ++ pt ++ [Core (Off Play); PlayQ 0] ++ pt ++ [Core (On Play)] ++ pt ++ pt)) = [].
Proof. vm_compute. reflexivity. Qed.

(* user-defined keys: a press of an undefined KEY 15..20 is no occurrence; RUN forgets the definition *)
Example C38_user_key :
  let k := Key 15 in
  let pt := [Core Install; Poll; Core (Boundary [k])] in
  ttrace tinit ([Core (OnGosub k (Some 1500%Z)); Core (On k); Core Start; Core Install; KeyPress k;
                 Core (Boundary [k]); DefKey k; Core Install; KeyPress k; Core (Boundary [k]); Core Return;
                 Core RunClear; Core (OnGosub k (Some 1500%Z)); Core (On k); Core Install; KeyPress k;
                 Core (Boundary [k])])
  = [[]; []; []; []; []; []; []; []; []; [k]; []; []; []; []; []; []; []].
Proof. vm_compute. reflexivity. Qed.

(* STOP (or Ctrl-Break) inside an error handler is `Idle`, CONT is `Start`: error_handle_mode and
   suspend_all are kept, so by C38_not_in_error_handler nothing is entered until RESUME (seed C38c) *)
Example C38_stop_cont_in_error_handler :
  let s := setup ++ [ErrorTrap; Idle; Start; Install; Occur k1; Boundary [k1]] in
  error_handle_mode (run init s) = true /\ suspend_all (run init s) = true /\ run_mode (run init s) = true /\
  trace init (s ++ [Resume; Install; Boundary [k1]])
  = [[]; []; []; []; []; []; []; []; []; []; []; []; []; []; [k1]].
Proof. vm_compute. repeat split. Qed.
