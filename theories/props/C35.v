(* C35 - The displayed picture always equals the emulator's screen state.
   Only statements, `exact`, Print Assumptions and non-vacuity examples here.
   Model: model/Signals.v (display/buffers.py + display/display.py WITH fixes/D11.patch, and the reference
   consumer = handlers of interface/video_sdl2.py); rectangle arithmetic and the mode table are regenerated
   (gen/Gen_signals.v).  Pixel layer AND character-cell layer proved.  Character cells = the unicode cells of
   VideoBuffer._dbcs_text (what get_chars(as_type=unicode) returns; the trail cell of a fullwidth DBCS character
   is u''), which is exactly what VIDEO_UPDATE carries; attributes of blank cells are NOT carried by
   VIDEO_CLEAR_ROWS / VIDEO_SCROLL (only the background), so attribute equality is not a property of the signals.
   The cursor (VIDEO_MOVE_CURSOR / SHOW_CURSOR / SET_CURSOR_SHAPE) is not part of get_pixels()/get_chars() and
   hence not of "the pixels and characters the interpreter reports": outside this property. *)
From Coq Require Import ZArith List Bool.
From PCB Require Import lib.PyInt gen.Gen_signals model.Signals proofs.Signals_proofs.
Import ListNotations.
Open Scope Z_scope.

(* every video mode of display/modes.py has the geometry the theorems assume (PW = TW*fw, fh = ceil(PH/TH),
   last text row starts inside the matrix), and the consumer derives the same font size from SET_MODE *)
Theorem C35_modes : forall t, In t mode_table ->
  cfg_ok (cfg_of_tuple t) /\
  forall a b, let c := cfg_of_tuple t in sdl_font_size a b (PH c) (PW c) (TH c) (TW c) = (fh c, fw c).
Proof.
  intros t Hin. split; [exact (mode_table_cfg_ok t Hin)|].
  intros a b. exact (sdl_font_size_ok _ a b (mode_table_cfg_ok t Hin)).
Qed.
Print Assumptions C35_modes.

(* the rectangle _update_pixels submits (text area of the modified pixels, back to pixels as _submit does)
   covers the modified rectangle, for every font size, and is a valid text rectangle *)
Theorem C35_cover : forall c y0 y1 x0 x1, cfg_ok c ->
  0 <= y0 <= y1 -> y1 < PH c -> 0 <= x0 <= x1 -> x1 < PW c ->
  let '(row0, col0, row1, col1) := text_area c x0 y0 x1 y1 in
  let '(px0, py0) := pos c row0 col0 in
  let '(px1, py1) := pos c (row1 + 1) (col1 + 1) in
  py0 <= y0 /\ y1 < py1 /\ px0 <= x0 /\ x1 < px1
  /\ 1 <= row0 <= row1 /\ row1 <= TH c /\ 1 <= col0 <= col1 /\ col1 <= TW c.
Proof. exact cover. Qed.
Print Assumptions C35_cover.

(* one operation (any of: pixel write, text update, lock/unlock, clear_rows, scroll up/down, PCOPY, page
   switch, mode switch, rebuild) inside the envelope preserves Inv: consumer geometry = mode geometry,
   canvas = pixels of the visible page, consumer text = unicode cells of the visible page, page flags
   consistent, and no page has pending dirty rows unless it is locked by collect_updates() *)
Theorem C35_step : forall s k o, Inv s k -> op_okb s o = true ->
  Inv (fst (step s o)) (consume k (sigs (snd (step s o)))).
Proof. exact step_inv. Qed.
Print Assumptions C35_step.

(* INVARIANT over all operation sequences *)
Theorem C35_invariant : forall ops s k, Inv s k -> ops_okb s ops = true ->
  Inv (fst (run s ops)) (consume k (sigs (snd (run s ops)))).
Proof. exact run_inv. Qed.
Print Assumptions C35_invariant.

(* resume: from ANY consumer state (a display attached later) the rebuild signals reproduce the state *)
Theorem C35_resume : forall s k, wf s ->
  Inv (fst (step s ORebuild)) (consume k (sigs (snd (step s ORebuild)))).
Proof. exact rebuild_any_consumer. Qed.
Print Assumptions C35_resume.

(* the property as worded: attach a display in any state, run any history; the picture shown is exactly the
   pixel matrix the interpreter reports for the visible page *)
Theorem C35_picture_equals_state : forall s k0 ops, wf s ->
  ops_okb (fst (step s ORebuild)) ops = true ->
  let r := run s (ORebuild :: ops) in
  let k := consume k0 (sigs (snd r)) in
  forall v, vis (fst r) = Some v ->
  forall y x, 0 <= y < PH (scfg (fst r)) -> 0 <= x < PW (scfg (fst r)) ->
  canvas k y x = px (get_page (fst r) v) y x.
Proof. exact session_picture. Qed.
Print Assumptions C35_picture_equals_state.

(* ... and exactly the character cells *)
Theorem C35_text_equals_state : forall s k0 ops, wf s ->
  ops_okb (fst (step s ORebuild)) ops = true ->
  let r := run s (ORebuild :: ops) in
  let k := consume k0 (sigs (snd r)) in
  forall v, vis (fst r) = Some v ->
  forall row col, 1 <= row <= TH (scfg (fst r)) -> 1 <= col <= TW (scfg (fst r)) ->
  ctext k row col = txt (get_page (fst r) v) row col.
Proof. exact session_text. Qed.
Print Assumptions C35_text_equals_state.

(* envelope, scroll range: inside the text screen the condition `to*fh <= PH` of op_okb excludes exactly a
   scroll through the last text row of a mode whose last row is cut off; the only such mode is 720x348
   (Hercules SCREEN 3, 25 rows of 14 lines = 350 > 348); every mode has 25 rows; the Tandy/PCjr modes (the
   adapters where VIEW PRINT may reach row 25) have no cut-off row *)
Theorem C35_scroll_exclusion_exact : forall c a b, cfg_ok c -> 1 <= a -> a <= b -> b <= TH c ->
  (b * fh c <= PH c <-> ~ (b = TH c /\ PH c < TH c * fh c)).
Proof. exact scroll_range_exact. Qed.
Print Assumptions C35_scroll_exclusion_exact.

Theorem C35_cut_off_modes :
  filter (fun t => let c := cfg_of_tuple t in PH c <? TH c * fh c) mode_table = [(348, 720, 25, 80, 14, 9)]
  /\ forallb (fun t => TH (cfg_of_tuple t) =? 25) mode_table = true
  /\ forallb (fun t => let c := cfg_of_tuple t in (PH c =? TH c * fh c) && cfg_okb c) tandy_mode_table = true.
Proof. exact cut_off_modes. Qed.
Print Assumptions C35_cut_off_modes.

(* envelope, callers (textscreen.py; shapes AST-checked by gen_signals): the scroll area stays inside the
   screen for all VIEW PRINT / mode-switch histories, never reaches row 25 except on Tandy/PCjr, so the calls
   clear_view, clear, redraw_bar and scroll() (from_row=None) are inside the envelope in every mode *)
Theorem C35_scroll_area_invariant : forall tandy ops a, sa_ok tandy a -> Forall (sa_op_ok tandy) ops ->
  sa_ok tandy (fold_left sa_step ops a).
Proof. exact sa_inv. Qed.
Print Assumptions C35_scroll_area_invariant.

Theorem C35_scroll_area_calls_in_envelope : forall tandy a c, sa_ok tandy a -> cfg_ok c -> TH c = 25 ->
  (tandy = true -> PH c = TH c * fh c) ->
  in_rows c (sa_top a) (sa_bottom a) = true /\ in_rows c 1 (sa_height a) = true
  /\ in_rows c (sa_height a) (sa_height a) = true /\ (sa_bottom a * fh c <=? PH c) = true.
Proof. exact scroll_area_calls_in_envelope. Qed.
Print Assumptions C35_scroll_area_calls_in_envelope.

(* D11: without the fill added by fixes/D11.patch the scroll breaks the invariant for a non-zero background
   (COLOR ,1: CLS: scroll): display shows 1, emulator reports 0; with the fix both are 1 *)
Theorem C35_scroll_refuted_unfixed :
  (cfg_ok d11_cfg /\ geom_ok d11_cfg d11_cons /\ agree d11_cfg d11_page d11_cons) /\
  (let r := scroll_up_unfixed d11_cfg 0 d11_page 1 2 1 [] zimg in
   canvas (consume d11_cons (sigs (snd r))) 1 0 = 1 /\ px (fst r) 1 0 = 0) /\
  (let r := scroll_up d11_cfg 0 d11_page 1 2 1 [] tblank zimg in
   canvas (consume d11_cons (sigs (snd r))) 1 0 = 1 /\ px (fst r) 1 0 = 1).
Proof. exact (conj d11_start_agrees (conj scroll_unfixed_refuted scroll_fixed_same_witness)). Qed.
Print Assumptions C35_scroll_refuted_unfixed.

(* _refresh_dbcs (the DBCS re-conversion of a text row inside force_submit): for every old and new unicode row of
   equal length and every dirty range given, the range it returns (model refresh_range = the Python computation via
   updated.index(True) / reversed index, then min/max with the given range) contains the given range and EVERY
   cell that changed - so the update signal sent for that range carries all changed cells; and replacing the
   whole row, as the code does, is the model's refresh_row on that range (the assumption of the text theorems) *)
Theorem C35_refresh_range_covers : forall o n os oe s e d, length o = length n ->
  refresh_range o n os oe = (s, e) ->
  s <= os /\ oe <= e /\
  forall k, (k < length n)%nat -> ~ (s <= Z.of_nat k + 1 <= e) -> nth k n d = nth k o d.
Proof. exact refresh_range_covers. Qed.
Print Assumptions C35_refresh_range_covers.

Theorem C35_refresh_row_is_whole_row : forall pg r o n os oe s e, length o = length n ->
  refresh_range o n os oe = (s, e) ->
  (forall col, 1 <= col <= zlen n -> txt pg r col = row_fn o col) ->
  forall col, 1 <= col <= zlen n ->
  txt (refresh_row pg r s e (fun _ c => row_fn n c)) r col = row_fn n col.
Proof. exact refresh_row_is_whole_row. Qed.
Print Assumptions C35_refresh_row_is_whole_row.

Example C35_refresh_nonvacuous :
  refresh_range [65; 65; 65; 65] [65; 7; 0; 65] 2 2 = (2, 3) /\ refresh_range [1; 2] [1; 2] 2 0 = (2, 0).
Proof. vm_compute. split; reflexivity. Qed.

(* non-vacuity: a well-formed two-page 4x6-pixel display (2x3 cells of a 2x2 font), a history that uses every
   operation kind, is inside the envelope, and ends with a non-trivial picture that the consumer reproduces *)
Definition ex_cfg : cfg := mkCfg 4 6 2 3 2 2.
Definition ex_img : mat := fun y x => 10 + 3 * y + x.
Definition ex_timg : tmat := fun r col => 100 + 10 * r + col.
Definition ex_ops : list op :=
  [ OClearRows 0 1 2 7 [] tblank zimg; OUpdate 0 1 1 2 [(1, 1, 3)] ex_timg ex_img; OLock 0;
    OUpdate 0 2 2 2 [] ex_timg ex_img; OUpdate 0 1 3 3 [] ex_timg ex_img;
    OUnlock 0 [(1, 3, 3); (2, 2, 3)] (fun r col => 200 + r + col) (fun y x => 40 + y + x);
    OPixSet 0 1 3 2 5 (-1) (fun y x => 60 + y * x); OPixSet 0 4 4 0 0 5 zimg;
    OScrollUp 0 1 2 9 [] tblank zimg; OScrollDown 0 1 2 8 [] tblank zimg; OScrollUp 0 2 2 6 [] tblank zimg;
    OScrollDown 0 2 1 4 [] tblank zimg;
    OUpdate 1 1 1 1 [] ex_timg ex_img; OCopyFrom 1 0; OPixSet 1 0 1 0 6 3 (fun _ _ => 3); OSetPage 1;
    OSetMode (mkCfg 4 4 2 2 2 2) 1; OClearRows 0 1 2 5 [] tblank zimg; OSetPage 0;
    OUpdate 0 2 1 2 [] ex_timg ex_img; ORebuild ].

Example C35_nonvacuous :
  wf (init_st ex_cfg 2 0) /\
  ops_okb (fst (step (init_st ex_cfg 2 0) ORebuild)) ex_ops = true /\
  let r := run (init_st ex_cfg 2 0) (ORebuild :: ex_ops) in
  let k := consume cons0 (sigs (snd r)) in
  vis (fst r) = Some 0%nat /\
  sample (canvas k) 4 4 = sample (px (get_page (fst r) 0)) 4 4 /\
  sample (canvas k) 4 4 = [[5; 5; 5; 5]; [5; 5; 5; 5]; [16; 17; 18; 19]; [19; 20; 21; 22]] /\
  tsample (ctext k) 2 2 = tsample (txt (get_page (fst r) 0)) 2 2 /\
  tsample (ctext k) 2 2 = [[32; 32]; [121; 122]].
Proof.
  split; [apply init_st_wf; [apply cfg_okb_ok; reflexivity | repeat constructor]|].
  split; [vm_compute; reflexivity|].
  vm_compute. repeat split; reflexivity.
Qed.
