(* C05 - Arithmetic identities hold for every value.
   Only statements, `exact`/short assembly, Print Assumptions and non-vacuity examples here.

   value_scaled v = (exact mathematical value of v) * 2^184 for an Integer, Single or Double v (model/MBF.v).
   v_add / v_sub / v_mul / v_div / v_neg / v_abs / v_sgn model values.add ... sgn_ (model/MBFArith.v): the
   type dispatch and the FloatErrorHandler (`hard` = raise BASIC errors) around the REGENERATED Float.iadd /
   isub / imul / idiv / ineg / iabs / sign (gen/Gen_mbf.v).  `widest x y` is the result type tag (4 single,
   8 double; integers count as single).  `canonical x` : a float is canonical unless its exponent byte is 0
   while other bytes are not (a non-canonical zero).
   READING (DESIGN.md): commutativity is bit for bit; x+0, x*1, x/1, -(-x) return x bit for bit when x is a
   canonical float of the result type, and in every case a value equal to x (a non-canonical zero comes back as
   the canonical zero, an Integer as the Single of the same value - BASIC's `=` holds by C06). *)
From Coq Require Import ZArith List Bool Lia.
From PCB Require Import lib.Result lib.PyInt lib.MBFPrims gen.Gen_mbf model.MBF model.MBFArith
  proofs.MBF_base proofs.MBF_values proofs.MBFArith_norm proofs.MBFArith_mul proofs.MBFArith_add
  proofs.MBFArith_div proofs.MBFArith_values.
Import ListNotations.
Open Scope Z_scope.

(* the regenerated class constants (incl. _shift, used by the underflow exit of imul) have the assumed layout *)
Theorem C05_formats : fmt_ok2 Single_consts /\ fmt_ok2 Double_consts.
Proof. exact (conj Single_ok2 Double_ok2). Qed.
Print Assumptions C05_formats.

(* x + y = y + x and x * y = y * x, bit for bit: the same result bytes, the same raised error, the same
   soft-handled result, for all values of all types (strings included: Type mismatch both ways) *)
Theorem C05_add_comm : forall hard x y, value_ok x -> value_ok y -> v_add hard x y = v_add hard y x.
Proof. exact v_add_comm. Qed.
Print Assumptions C05_add_comm.

Theorem C05_mul_comm : forall hard x y, value_ok x -> value_ok y -> v_mul hard x y = v_mul hard y x.
Proof. exact v_mul_comm. Qed.
Print Assumptions C05_mul_comm.

(* the same at the byte level, for the regenerated in-place operations of either class *)
Theorem C05_iadd_imul_comm : forall C a b, fmt_ok C -> buf_ok C a -> buf_ok C b ->
  mbf_iadd C a b = mbf_iadd C b a /\ mbf_imul C a b = mbf_imul C b a.
Proof. intros C a b HC Ha Hb. split; [apply iadd_comm | apply imul_comm]; assumption. Qed.
Print Assumptions C05_iadd_imul_comm.

(* x + 0 = 0 + x = x for every zero z of any numeric type *)
Theorem C05_add_zero : forall hard x z, value_ok x -> value_ok z -> is_num x = true -> is_num z = true ->
  value_scaled z = 0 ->
  exists r, v_add hard x z = Ok r /\ v_add hard z x = Ok r /\
    value_scaled r = value_scaled x /\ v_tag r = widest x z /\
    (v_tag z <= v_tag x -> v_tag x <> 2 -> canonical x = true -> r = x).
Proof. exact v_add_zero. Qed.
Print Assumptions C05_add_zero.

(* x * 1 = 1 * x = x for every encoding of one in any numeric type
   [FALSE for doubles below 2^-96 before fixes/D5.patch: 1D-31 * 1 = 0] *)
Theorem C05_mul_one : forall hard x o, value_ok x -> value_ok o -> is_num x = true -> is_num o = true ->
  value_scaled o = 2 ^ 184 ->
  exists r, v_mul hard x o = Ok r /\ v_mul hard o x = Ok r /\
    value_scaled r = value_scaled x /\ v_tag r = widest x o /\
    (v_tag o <= v_tag x -> v_tag x <> 2 -> canonical x = true -> r = x).
Proof. exact v_mul_one. Qed.
Print Assumptions C05_mul_one.

(* x / 1 = x (through the restoring division with strict comparison and the round-up of _normalise);
   bit for bit for every float x of the result type, zero encodings included *)
Theorem C05_div_one : forall hard x o, value_ok x -> value_ok o -> is_num x = true -> is_num o = true ->
  value_scaled o = 2 ^ 184 ->
  exists r, v_div hard x o = Ok r /\ value_scaled r = value_scaled x /\ v_tag r = widest x o /\
    (v_tag o <= v_tag x -> v_tag x <> 2 -> r = x).
Proof. exact v_div_one. Qed.
Print Assumptions C05_div_one.

(* x - x = 0 *)
Theorem C05_sub_self : forall hard x, value_ok x -> is_num x = true ->
  exists r, v_sub hard x x = Ok r /\ value_scaled r = 0 /\ v_tag r = widest x x.
Proof. exact v_sub_self. Qed.
Print Assumptions C05_sub_self.

(* -x has the value -x, and -(-x) = x: bit for bit for floats, the Single of the same value for an Integer *)
Theorem C05_neg_neg : forall x, value_ok x -> is_num x = true ->
  exists r, v_neg x = Ok r /\ value_scaled r = - value_scaled x /\ v_tag r = Z.max 4 (v_tag x) /\
    exists r2, v_neg r = Ok r2 /\ value_scaled r2 = value_scaled x /\ v_tag r2 = v_tag r /\ (v_tag x <> 2 -> r2 = x).
Proof. exact v_neg_spec. Qed.
Print Assumptions C05_neg_neg.

(* ABS(x) >= 0, ABS(x) = |x|, and ABS(x) is x or -x (bit for bit for floats) *)
Theorem C05_abs : forall x, value_ok x -> is_num x = true ->
  exists r, v_abs x = Ok r /\ 0 <= value_scaled r /\ value_scaled r = Z.abs (value_scaled x) /\
    (value_scaled r = value_scaled x \/ value_scaled r = - value_scaled x) /\
    (v_tag x <> 2 -> r = x \/ v_neg x = Ok r).
Proof.
  intros x Hx Nx. destruct (v_abs_spec x Hx Nx) as (r & E & V & _ & Hc).
  exists r. split; [exact E|]. split; [lia|]. split; [exact V|]. split; [lia|exact Hc].
Qed.
Print Assumptions C05_abs.

(* SGN(x) is the Integer -1, 0 or 1 according to the sign of the exact value of x *)
Theorem C05_sgn : forall x, value_ok x -> is_num x = true ->
  v_sgn x = Ok (VInt (i_encode (Z.sgn (value_scaled x)))).
Proof. exact v_sgn_spec. Qed.
Print Assumptions C05_sgn.

(* mixed-type operations promote to the wider operand type before computing: both operands are converted
   EXACTLY to the class of `widest x y` and the in-place operation of that class is applied; the result has
   that type *)
Theorem C05_promote : forall x y, value_ok x -> value_ok y -> is_num x = true -> is_num y = true ->
  let t := widest x y in
  exists xa ya, buf_ok (cls t) xa /\ buf_ok (cls t) ya /\
    value_scaled (mkf t xa) = value_scaled x /\ value_scaled (mkf t ya) = value_scaled y /\
    (v_tag x = t -> mkf t xa = x) /\ (v_tag y = t -> mkf t ya = y) /\
    forall hard,
      v_add hard x y = rmap (mkf t) (f_add hard (cls t) xa ya) /\
      v_sub hard x y = rmap (mkf t) (f_sub hard (cls t) xa ya) /\
      v_mul hard x y = rmap (mkf t) (f_mul hard (cls t) xa ya) /\
      v_div hard x y = rmap (mkf t) (f_div hard (cls t) xa ya).
Proof.
  intros x y Hx Hy Nx Ny t. destruct (promote_spec x y Hx Hy Nx Ny) as (xa & ya & Hxa & Hya & Vx & Vy & Sx & Sy & Har).
  cbv zeta in *. fold t in Hxa, Hya, Vx, Vy, Sx, Sy, Har. pose proof (widest_cases x y) as Ht. fold t in Ht.
  exists xa, ya. split; [exact Hxa|]. split; [exact Hya|].
  destruct (mkf_scaled t xa Ht) as [M1 _]. destruct (mkf_scaled t ya Ht) as [M2 _].
  split; [rewrite M1; exact Vx|]. split; [rewrite M2; exact Vy|].
  split; [intros E; rewrite (Sx E); apply mkf_bytes; assumption|].
  split; [intros E; rewrite (Sy E); apply mkf_bytes; assumption|].
  intros hard. unfold v_sub, v_mul, v_div. rewrite v_add_arith, !v_num2_arith by assumption.
  rewrite !Har. repeat split.
Qed.
Print Assumptions C05_promote.

Theorem C05_result_type : forall (which : Z) hard x y r, value_ok x -> value_ok y -> is_num x = true -> is_num y = true ->
  (if which =? 0 then v_add hard x y else if which =? 1 then v_sub hard x y
   else if which =? 2 then v_mul hard x y else v_div hard x y) = Ok r ->
  v_tag r = widest x y.
Proof. exact v_result_type. Qed.
Print Assumptions C05_result_type.

(* non-vacuity: 2.5 + 0 = 2.5, 1D-31 * 1 = 1D-31 (the D5 witness), a non-canonical zero + 0 is the canonical
   zero, -(-(-32768%)) is the single -32768, 3% / 1# is the double 3, MAX + MAX raises Overflow *)
Example C05_nonvacuous :
  v_add true (VSng [0; 0; 32; 130]) (VInt [0; 0]) = Ok (VSng [0; 0; 32; 130]) /\
  v_mul true (VDbl [252; 67; 75; 44; 179; 206; 1; 26]) (VInt [1; 0]) = Ok (VDbl [252; 67; 75; 44; 179; 206; 1; 26]) /\
  v_add true (VSng [1; 2; 131; 0]) (VInt [0; 0]) = Ok (VSng [0; 0; 0; 0]) /\
  (do r <- v_neg (VInt [0; 128]); v_neg r) = Ok (VSng [0; 0; 128; 144]) /\
  v_div true (VInt [3; 0]) (VDbl [0; 0; 0; 0; 0; 0; 0; 129]) = Ok (VDbl [0; 0; 0; 0; 0; 0; 64; 130]) /\
  v_add true (VSng [255; 255; 127; 255]) (VSng [255; 255; 127; 255]) = Err 6 /\
  v_sgn (VDbl [0; 0; 0; 0; 0; 0; 128; 1]) = Ok (VInt [255; 255]).
Proof. vm_compute. repeat split. Qed.
