(* C21 - Error trapping reports and resumes at the right place.
   Only statements, `exact`, Print Assumptions and non-vacuity examples here.
   Machine: model/Flow.v (pstep = one statement: Ok | Raise n; step = pstep + trap_error; run);
   reference semantics: model/FlowTrap.v (ref_run: main mode / handler mode). *)
From Coq Require Import ZArith List Bool.
From PCB Require Import gen.Gen_flow model.Flow model.FlowTrap proofs.Flow_proofs proofs.FlowTrap_proofs.
Import ListNotations.
Open Scope Z_scope.

(* ---- refinement -------------------------------------------------------------------------------------
   For every program of the modelled language (whatever its statements raise: ERROR n with any expression,
   overflow, division by zero, undefined lines, NEXT/WEND/RETURN/RESUME out of place ...), every start (RUN
   or a direct line) and every fuel, the machine with its error_handle_mode / error_resume registers produces
   the trace and outcome of the reference semantics, in which the mode of the run alone decides what a raised
   error, RESUME, ON ERROR GOTO 0 and the end of the program do. *)
Theorem C21_refines : forall code fuel start,
  run code fuel (init_at start) = ref_run code fuel MMain (init_at start).
Proof. exact trap_refines. Qed.
Print Assumptions C21_refines.

(* one step of the machine is one step of the reference, from any state whose registers agree with a mode *)
Theorem C21_step_refines : forall code m st, mode_ok m st -> step_matches code st (ref_step code m st).
Proof. exact ref_step_matches. Qed.
Print Assumptions C21_step_refines.

(* ---- trap -------------------------------------------------------------------------------------------
   A statement (the one at pc st) raises error c with the stream at epos; a handler line is set and no error
   is being handled: the next state is at the handler line, ERR = c, ERL = line of the error position, the
   failing statement is remembered for RESUME, everything else (variables, stacks) as the raise left it. *)
Theorem C21_trap : forall code st st' c epos h,
  pstep code st = PRaise st' c epos ->
  onerr (ds st') <> 0 -> handling (ds st') = false -> find_line code (onerr (ds st')) = Some h ->
  step code st = Go (handler_state st' (pc st) c (line_of code epos) h) [] /\
  let sh := handler_state st' (pc st) c (line_of code epos) h in
  pc sh = h /\ eval (ds sh) EErr = EV c /\ eval (ds sh) EErl = EV (line_of code epos) /\
  resume_at (ds sh) = Some (pc st) /\ handling (ds sh) = true /\
  env (ds sh) = env (ds st') /\ fors sh = fors st' /\ whiles sh = whiles st' /\ gosubs sh = gosubs st'.
Proof.
  intros code st st' c epos h H1 H2 H3 H4. split; [exact (raise_traps code st st' c epos h H1 H2 H3 H4)|].
  repeat split.
Qed.
Print Assumptions C21_trap.

(* ERROR c (1..255) and an overflowing assignment raise at their own position: ERL is their own line *)
Theorem C21_error_statement : forall code st e c,
  nth_error code (pc st) = Some (SError e) -> eval (ds st) e = EV c -> 1 <= c <= 255 ->
  pstep code st = PRaise st c (pc st).
Proof. exact error_stmt_raises. Qed.
Print Assumptions C21_error_statement.

Theorem C21_real_fault_overflow : forall code st v e z,
  nth_error code (pc st) = Some (SLet v e) -> eval (ds st) e = EV z -> in16 z = false ->
  pstep code st = PRaise st flow_E_OVERFLOW (pc st).
Proof. exact let_overflow_raises. Qed.
Print Assumptions C21_real_fault_overflow.

(* ---- RESUME ----------------------------------------------------------------------------------------- *)
Theorem C21_resume : forall code st p,
  resume_at (ds st) = Some p ->
  (* RESUME: the failing statement is executed again *)
  (nth_error code (pc st) = Some (SResume RSame) -> step code st = Go (set_pc (resumed st) p) []) /\
  (* RESUME NEXT: the next statement that starts after a colon or on a new line *)
  (nth_error code (pc st) = Some (SResume RNext) ->
     step code st = Go (set_pc (resumed st) (next_colon code p)) []) /\
  (* RESUME n: line n *)
  (forall n j, nth_error code (pc st) = Some (SResume (RLine n)) -> find_line code n = Some j ->
     step code st = Go (set_pc (resumed st) j) []) /\
  (* and the error registers are cleared: ERR = 0, not handling, nothing to resume *)
  err (ds (resumed st)) = 0 /\ handling (ds (resumed st)) = false /\ resume_at (ds (resumed st)) = None.
Proof.
  intros code st p Hr. repeat split.
  - intros H. exact (resume_same code st p H Hr).
  - intros H. exact (resume_next code st p H Hr).
  - intros n j H Hj. exact (resume_line code st p n j H Hr Hj).
Qed.
Print Assumptions C21_resume.

(* "the statement after it": the following slot (possibly the header of the next line) for an ordinary
   statement; for an error in the condition of IF c THEN a : b, the statement b after the colon *)
Theorem C21_resume_next_position : forall code p,
  (forall s, nth_error code p = Some s -> then_joined s = false -> next_colon code p = S p) /\
  (forall c a s', nth_error code p = Some (SIf c None) -> nth_error code (S p) = Some a ->
     then_joined a = false -> (forall n, a <> SLine n) -> a <> SEndProg -> (forall j, a <> SElse j) ->
     nth_error code (S (S p)) = Some s' -> next_colon code p = S (S p)) /\
  (* ELSE is stored as `:ELSE`: it is itself the next statement (and skips the rest of the line) *)
  (forall s j, nth_error code p = Some s -> nth_error code (S p) = Some (SElse j) -> next_colon code p = S p).
Proof.
  intros code p. split; [|split].
  - exact (next_colon_plain code p).
  - exact (next_colon_if code p).
  - exact (next_colon_else code p).
Qed.
Print Assumptions C21_resume_next_position.

(* ---- the stops -------------------------------------------------------------------------------------- *)
(* an error inside the handler stops the program with that error's message *)
Theorem C21_nested_error_stops : forall code st st' c epos,
  pstep code st = PRaise st' c epos -> handling (ds st') = true ->
  step code st = Halt (Stopped c (line_of code epos)).
Proof.
  intros code st st' c epos H Hh. rewrite step_resolve, H. simpl. apply trap_untrapped. right. exact Hh.
Qed.
Print Assumptions C21_nested_error_stops.

(* without a handler the program stops with the message naming the line *)
Theorem C21_untrapped_message : forall code st st' c epos,
  pstep code st = PRaise st' c epos -> onerr (ds st') = 0 ->
  step code st = Halt (Stopped c (line_of code epos)).
Proof.
  intros code st st' c epos H Ho. rewrite step_resolve, H. simpl. apply trap_untrapped. left. exact Ho.
Qed.
Print Assumptions C21_untrapped_message.

(* RESUME outside a handler: RESUME without error, whether or not a handler line is set *)
Theorem C21_resume_without_error : forall code st r,
  nth_error code (pc st) = Some (SResume r) -> resume_at (ds st) = None ->
  step code st = Halt (Stopped flow_E_RESUME_WITHOUT_ERROR (line_of code (pc st))).
Proof. exact resume_without_error. Qed.
Print Assumptions C21_resume_without_error.

(* ON ERROR GOTO 0 inside a handler raises the handled error again, which now stops the program *)
Theorem C21_on_error_goto_0_in_handler : forall code st,
  nth_error code (pc st) = Some (SOnErrorGoto 0) -> handling (ds st) = true ->
  step code st = Halt (Stopped (err (ds st)) (erl (ds st))).
Proof. exact on_error_goto_0_in_handler. Qed.
Print Assumptions C21_on_error_goto_0_in_handler.

(* the program ends inside a handler: No RESUME, reported on the last line *)
Theorem C21_no_resume : forall code st p,
  nth_error code (pc st) = Some SEndProg -> resume_at (ds st) = Some p ->
  step code st = Halt (Stopped flow_E_NO_RESUME (line_of code (Nat.pred (pc st)))).
Proof. exact no_resume. Qed.
Print Assumptions C21_no_resume.

(* an error position in the direct line gives ERL = 65535 *)
Theorem C21_direct_mode_erl : forall prog direct epos,
  ~ In SEndProg prog -> (length prog <= epos)%nat ->
  line_of (prog ++ SEndProg :: direct) epos = 65535.
Proof. exact line_of_direct. Qed.
Print Assumptions C21_direct_mode_erl.

(* ---- READ: the error belongs to the READ line ----------------------------------------------------------
   READ fetches its items from DATA statements elsewhere in the program; whatever it raises - Out of DATA,
   Overflow when the item does not fit the variable, for the first or a later variable - is raised at the READ
   statement: ERL and the message name the line of the READ, not the line of the DATA (C21_trap / C21_untrapped
   _message with epos = pc st). *)
Theorem C21_read_error_position : forall code st vs st' c epos,
  nth_error code (pc st) = Some (SRead vs) -> pstep code st = PRaise st' c epos -> epos = pc st.
Proof. exact read_raises_at_read. Qed.
Print Assumptions C21_read_error_position.

Theorem C21_read_overflow : forall code st v vs z dp',
  nth_error code (pc st) = Some (SRead (v :: vs)) -> read_item code (dptr st) = Some (z, dp') ->
  exact24 z = true -> in16 z = false -> pstep code st = PRaise st flow_E_OVERFLOW (pc st).
Proof. exact read_overflow_raises. Qed.
Print Assumptions C21_read_overflow.

Theorem C21_read_out_of_data : forall code st v vs,
  nth_error code (pc st) = Some (SRead (v :: vs)) -> read_item code (dptr st) = None ->
  pstep code st = PRaise st flow_E_OUT_OF_DATA (pc st).
Proof. exact read_out_of_data. Qed.
Print Assumptions C21_read_out_of_data.

(* 10 ON ERROR GOTO 100 / 20 READ A%,B% / 30 PRINT A%:END / 50 DATA 7,99999 / 100 PRINT ERR:PRINT ERL:RESUME NEXT
   the second item does not fit B%: ERR 6, ERL 20 (the READ), not 50 (the DATA) *)
Example C21_read_nonvacuous :
  run_program [SLine 10; SOnErrorGoto 100; SLine 20; SRead [0%nat; 1%nat]; SLine 30; SPrint (EVar 0%nat); SEnd;
               SLine 50; SData [7; 99999]; SLine 100; SPrint EErr; SPrint EErl; SResume RNext; SEndProg] 100
  = ([6; 20; 7], Finished).
Proof. vm_compute. reflexivity. Qed.

(* ---- several commands: what a stop leaves behind ------------------------------------------------------
   The interpreter lives on between commands (run_session / after_halt in model/Flow.v).  Whatever message ended
   the program - error without handler, error inside the handler, No RESUME, ON ERROR GOTO 0 inside the handler,
   RESUME without error - it is no longer "handling an error" afterwards, so the next error raised with a handler
   line set (after GOTO 10 from the prompt, or from a direct statement) jumps to the handler again. *)
Theorem C21_stop_leaves_handler_mode : forall code st c l,
  step code st = Halt (Stopped c l) -> handling (ds (after_halt code st)) = false.
Proof. exact stop_leaves_handler_mode. Qed.
Print Assumptions C21_stop_leaves_handler_mode.

Theorem C21_trapped_again_after_stop : forall code st c l st2 st2' c2 epos2 h,
  step code st = Halt (Stopped c l) ->
  handling (ds st2') = handling (ds (after_halt code st)) ->
  pstep code st2 = PRaise st2' c2 epos2 -> onerr (ds st2') <> 0 -> find_line code (onerr (ds st2')) = Some h ->
  step code st2 = Go (handler_state st2' (pc st2) c2 (line_of code epos2) h) [].
Proof. exact trapped_again. Qed.
Print Assumptions C21_trapped_again_after_stop.

Theorem C21_untrapped_error_state : forall code st st' c epos,
  pstep code st = PRaise st' c epos -> after_halt code st = stopped_state st' c (line_of code epos).
Proof. exact untrapped_error_state. Qed.
Print Assumptions C21_untrapped_error_state.

Theorem C21_end_forgets_error : forall code st, nth_error code (pc st) = Some SEnd ->
  handling (ds (after_halt code st)) = false /\ resume_at (ds (after_halt code st)) = None.
Proof. exact end_leaves_handler_mode. Qed.
Print Assumptions C21_end_forgets_error.

Theorem C21_run_st_is_run : forall code fuel st,
  (let '(t, o, _) := run_st code fuel st in (t, o)) = run code fuel st.
Proof. exact run_st_run. Qed.
Print Assumptions C21_run_st_is_run.

(* 10 ON ERROR GOTO 100 / 20 PRINT 1:ERROR 5:PRINT 2 / 30 PRINT 3:END / 100 IF N%=0 THEN N%=1:ERROR 6 /
   110 PRINT ERR:PRINT ERL:RESUME NEXT  -  RUN stops with Overflow in 100 (error inside the handler);
   GOTO 10 typed next: error 5 is trapped again *)
Example C21_session_nonvacuous :
  run_session
    [SLine 10; SOnErrorGoto 100; SLine 20; SPrint (EConst 1); SError (EConst 5); SPrint (EConst 2);
     SLine 30; SPrint (EConst 3); SEnd;
     SLine 100; SIf (ECmp CEq (EVar 7%nat) (EConst 0)) None; SLet 7%nat (EConst 1); SError (EConst 6);
     SLine 110; SPrint EErr; SPrint EErl; SResume RNext]
    [CRun; CDirect [SGoto 10]] 200 (init_at 0)
  = [1; 6; 100; 1; 55555; 0; 1; 5; 20; 2; 3; 55555].
Proof. vm_compute. reflexivity. Qed.

(* RUN starts from the state of a fresh session (nothing survives, in particular not the switch that ON ERROR
   GOTO n sets to make Division by zero / Overflow trappable: without a trap they are soft again, D23e);
   a direct line keeps everything but the position *)
Theorem C21_run_resets : forall prog st, start_command prog st CRun = (prog ++ [SEndProg], init_at 0).
Proof. exact run_command_resets. Qed.
Print Assumptions C21_run_resets.

Theorem C21_direct_line_keeps_state : forall prog st line,
  start_command prog st (CDirect line) = (prog ++ SEndProg :: line, set_pc st (S (length prog))).
Proof. exact direct_command_keeps. Qed.
Print Assumptions C21_direct_line_keeps_state.

(* 10 PRINT 1\A%:ON ERROR GOTO 900:END / 900 RESUME NEXT, RUN twice: both times the division by zero is soft
   (message 77711, machine infinity 88888), although the first run left ON ERROR GOTO 900 in force; typed at the
   prompt afterwards the division is trapped by that handler (RESUME NEXT, then 5) *)
Example C21_run_resets_nonvacuous :
  run_session [SLine 10; SPrint (EIDiv (EConst 1) (EVar 0%nat)); SOnErrorGoto 900; SEnd; SLine 900; SResume RNext]
    [CRun; CRun; CDirect [SPrint (EIDiv (EConst (-1)) (EConst 0)); SPrint (EConst 5)]] 100 (init_at 0)
  = [0; 77711; 88888; 55555; 0; 77711; 88888; 55555; 0; 5; 55555].
Proof. vm_compute. reflexivity. Qed.

(* RUN forgets the history: for EVERY program and EVERY sequence of commands typed before it that came to an end
   (whatever they left behind: handler line, error registers, handler mode, stacks, variables, DATA pointer, the
   hard/soft switch of math errors), RUN and the commands after it give the output of a fresh session *)
Theorem C21_run_forgets_history : forall prog cmds1 cmds2 fuel st,
  session_completes prog cmds1 fuel st = true ->
  run_session prog (cmds1 ++ CRun :: cmds2) fuel st =
  run_session prog cmds1 fuel st ++ run_session prog (CRun :: cmds2) fuel (init_at 0).
Proof. intros prog cmds1 cmds2 fuel st. exact (run_forgets_history prog cmds2 fuel cmds1 st). Qed.
Print Assumptions C21_run_forgets_history.

(* a session is the composition of its parts: for every history that came to an end, the later commands behave
   as if started in exactly the state that history left behind (session_state) *)
Theorem C21_session_composes : forall prog cmds1 cmds2 fuel st,
  session_completes prog cmds1 fuel st = true ->
  run_session prog (cmds1 ++ cmds2) fuel st =
  run_session prog cmds1 fuel st ++ run_session prog cmds2 fuel (session_state prog cmds1 fuel st).
Proof. intros prog cmds1 cmds2 fuel st. exact (session_app prog cmds2 fuel cmds1 st). Qed.
Print Assumptions C21_session_composes.

(* ---- non-vacuity ------------------------------------------------------------------------------------ *)
(* 10 ON ERROR GOTO 100
   20 A%=1:ERROR 5:PRINT 2
   30 A%=32767+A%:PRINT 3
   40 END
   100 PRINT ERR:PRINT ERL:RESUME NEXT *)
Definition C21_example : list stmt :=
  [SLine 10; SOnErrorGoto 100;
   SLine 20; SLet 0%nat (EConst 1); SError (EConst 5); SPrint (EConst 2);
   SLine 30; SLet 0%nat (EAdd (EConst 32767) (EVar 0%nat)); SPrint (EConst 3);
   SLine 40; SEnd;
   SLine 100; SPrint EErr; SPrint EErl; SResume RNext; SEndProg].

Example C21_nonvacuous :
  run_program C21_example 100 = ([5; 20; 2; 6; 30; 3], Finished) /\
  ref_run C21_example 100 MMain (init_at 0) = ([5; 20; 2; 6; 30; 3], Finished) /\
  (* the trap of ERROR 5 in statement 4 (line 20): the hypotheses of C21_trap hold there *)
  (exists st, steps C21_example 4 (init_at 0) = Some ([], st) /\ pc st = 4%nat /\
     pstep C21_example st = PRaise st 5 4 /\ onerr (ds st) <> 0 /\ handling (ds st) = false /\
     find_line C21_example (onerr (ds st)) = Some 11%nat /\ line_of C21_example 4 = 20) /\
  (* direct mode: ON ERROR GOTO 100:ERROR 5 typed in gives ERL = 65535 *)
  run_direct (firstn 15 C21_example ++ [SEndProg; SOnErrorGoto 100; SError (EConst 5); SPrint (EConst 7)]) 100
    = ([5; 65535; 7], Finished).
Proof.
  split; [vm_compute; reflexivity|]. split; [vm_compute; reflexivity|]. split.
  - eexists. split; [vm_compute; reflexivity|]. repeat split; try (vm_compute; reflexivity).
    vm_compute. discriminate.
  - vm_compute. reflexivity.
Qed.
