(* C20 - User-defined functions never disturb the caller's variables.
   Only statements, `exact`, Print Assumptions and non-vacuity examples here.
   Model: UserFunction.evaluate (model/UserFn.v, with fixes D15, D20a, D20b) on top of the string-space model of C10:
   string scalars are (length, address) pointers, the saved values of the shadowed variables and the converted
   arguments live in temp_values, the body may allocate strings and trigger the collector.
   EV c Q st x  :=  x = (st', r)  with  Good c st' /\ Jt st' /\ Rel c st st' /\ active st' = active st /\ (r = Ok a -> Q st' a). *)
From Coq Require Import ZArith List Bool Lia.
From PCB Require Import lib.Result lib.PyInt model.StrSpace model.UserFn
     proofs.StrSpace_base proofs.StrSpace_gc proofs.StrSpace_inv proofs.StrSpace_ops
     proofs.UserFn_proofs proofs.UserFn_stmt proofs.UserFn_values proofs.UserFn_binding proofs.UserFn_call.
Import ListNotations.
Open Scope Z_scope.

(* the frame theorem, for ANY body evaluator `ev` that does what an expression can do: keep the invariant, keep
   (possibly relocate) every variable, stack entry and temporary, leave the recursion flags as they were - it may
   read variables, allocate strings, trigger the collector, call other functions.  Then for all functions,
   argument lists and states, after the call - whether it returns a value, a BASIC error (conversion error,
   Out of memory on recursion or on creating a parameter, an error in the body) or anything else - the invariant
   holds, the recursion flags are reset and every variable of the caller has its old value (Rel), including
   parameters that shadow globals and parameters that did not exist before (they read zero / "" afterwards) *)
Theorem C20_frame : forall c (ev : expr -> state -> R obj),
  (forall e st, Good c st -> Jt st -> EV c (obj_ok c) st (ev e st)) ->
  forall f args st, Good c st -> Jt st -> EV c (obj_ok c) st (evaluate c ev f args st).
Proof. exact evaluate_EV. Qed.
Print Assumptions C20_frame.

(* spelled out on values, for the evaluator of the model (any fuel) *)
Theorem C20_frame_values : forall c fuel f args st, Good c st -> Jt st ->
  let '(st', r) := evaluate c (parse c fuel) f args st in
  Good c st' /\ active st' = active st /\
  (forall n, sval_of c st' n = sval_of c st n) /\ (forall n i, aval_of c st' n i = aval_of c st n i) /\
  length (tvals st') = length (tvals st) /\ length (stack st') = length (stack st).
Proof.
  intros c fuel f args st G J.
  pose proof (evaluate_EV c (parse c fuel) (parse_EV c fuel) f args st G J) as H. unfold EV in H.
  destruct (evaluate c (parse c fuel) f args st) as [st' r]. destruct H as (G' & _ & R & A & _).
  split; [exact G'|]. split; [exact A|]. split; [apply Rel_sval, R|]. split; [apply Rel_aval, R|].
  split; symmetry; eapply Forall2_length; [exact (r_tvals _ _ _ _ R)|exact (r_stack _ _ _ _ R)].
Qed.
Print Assumptions C20_frame_values.

(* the parameter names are completed with the default types in force when the call is made (DataSegment.complete_name
   at evaluation time): the frame property holds whatever DEFINT/DEFSNG/DEFDBL/DEFSTR statements were executed
   between the definition and the call, or between two calls (d is any table of default types) *)
Theorem C20_frame_any_deftype : forall c fuel f args st d, Good c st -> Jt st ->
  let st0 := set_deft st d in
  let '(st', r) := evaluate c (parse c fuel) f args st0 in
  Good c st' /\ active st' = active st0 /\
  (forall n, sval_of c st' n = sval_of c st0 n) /\ (forall n i, aval_of c st' n i = aval_of c st0 n i).
Proof.
  intros c fuel f args st d G J.
  assert (G0 : Good c (set_deft st d)).
  { apply (Good_containers c st _ G); [unfold same_mem; simpl; repeat split; reflexivity| |]; simpl; [exact (g_stack _ _ G)|exact (g_tvals _ _ G)]. }
  pose proof (C20_frame_values c fuel f args (set_deft st d) G0 J) as H. cbv zeta.
  destruct (evaluate c (parse c fuel) f args (set_deft st d)) as [st' r]. tauto.
Qed.
Print Assumptions C20_frame_any_deftype.

(* a function that is already being evaluated raises Out of memory (after its arguments have been evaluated
   and converted), and touches nothing *)
Theorem C20_recursion : forall c ev f args st ps body st1,
  lookup f (fns st) = Some (ps, body) ->
  eval_args ev (map (resolve st) ps) args st = (st1, Ok tt) -> mem_z f (active st1) = true ->
  snd (evaluate c ev f args st) = Err 7.
Proof.
  intros c ev f args st ps body st1 Hf Ha Hm. unfold evaluate, evaluate_call. rewrite Hf. unfold finallyR, bindR. rewrite Ha, Hm. reflexivity.
Qed.
Print Assumptions C20_recursion.

(* the flag of f is set exactly while its body is evaluated: the body evaluator is started with f active *)
Theorem C20_flag_set_and_reset : forall c (ev : expr -> state -> R obj),
  (forall e st, Good c st -> Jt st -> EV c (obj_ok c) st (ev e st)) ->
  forall f args st, Good c st -> Jt st -> active (fst (evaluate c ev f args st)) = active st.
Proof.
  intros c ev Hev f args st G J. pose proof (evaluate_EV c ev Hev f args st G J) as H. unfold EV in H.
  destruct (evaluate c ev f args st) as [st' r]. simpl. tauto.
Qed.
Print Assumptions C20_flag_set_and_reset.

(* an undefined function is an error before anything is evaluated *)
Theorem C20_undefined : forall c ev f args st, lookup f (fns st) = None -> evaluate c ev f args st = (st, Err 18).
Proof. intros c ev f args st H. unfold evaluate. rewrite H. reflexivity. Qed.
Print Assumptions C20_undefined.

(* binding: when the body is started, every parameter holds its converted argument - for repeated names the last
   occurrence wins, exactly as the assignment loop of the code; the names ps are the ones completed with the
   default types of the moment of the call (C20 model: map (resolve st) ps0).  `typed_for p o` is what the argument
   loop produces (conv_arg_typed): a string pointer of its own for a string parameter, a number that fits the
   parameter's type otherwise. *)
Theorem C20_binding : forall c ps j k m s s',
  Good c s -> (j + length ps <= k)%nat ->
  (forall i n, nth_error ps i = Some n -> typed_for n (nth (m + (k - 1 - (j + i))) (tvals s) (ONum 0 0))) ->
  bind_params c ps j k m s = (s', Ok tt) ->
  forall i n, nth_error ps i = Some n -> ~ In n (skipn (S i) ps) ->
    sval_of c s' n = arg_val c s' (nth (m + (k - 1 - (j + i))) (tvals s') (ONum 0 0)).
Proof. exact bind_params_values. Qed.
Print Assumptions C20_binding.

Theorem C20_argument_typed : forall p s v o, conv_arg p s v = Ok o -> typed_for p o.
Proof. exact conv_arg_typed. Qed.
Print Assumptions C20_argument_typed.

(* converted arguments are collector roots from the moment they are converted: the evaluation of a later argument of
   the same call (any expression, any fuel: allocation, FRE's collection, nested calls) leaves the converted value in
   temp_values at its place, typed for its parameter and standing for the same value *)
Theorem C20_argument_rooted : forall c fuel p e s v o,
  Good c s -> Jt s -> obj_ok c s v -> conv_arg p s v = Ok o ->
  let '(s', _) := parse c fuel e (tv_push s o) in
  Good c s' /\ length (tvals s') = S (length (tvals s)) /\
  typed_for p (nth 0 (tvals s') (ONum 0 0)) /\ arg_val c s' (nth 0 (tvals s') (ONum 0 0)) = arg_val c s o.
Proof. exact converted_argument_rooted. Qed.
Print Assumptions C20_argument_rooted.

(* THE WHOLE CALL, hypotheses discharged from the invariant: for every function, argument list, fuel and caller state
   satisfying the invariant, with ps the parameter names completed by the default types of the moment of the call,
   (1) after the call - value, error raised by the conversion of an argument, by the body, Out of memory, anything - every
       scalar and array element of the caller (shadowed or not) has its value from before the call and the recursion
       flags are as before;
   (2) a function that is already being evaluated is refused with Out of memory once its arguments have been evaluated;
   (3) when the argument loop, the saving of the shadowed variables and the binding loop have succeeded, then at the
       start of the body (recursion flag of f set) and still after the body has been evaluated, every parameter p
       (for a repeated name: its last occurrence) reads the value that its argument a - evaluated in some good state
       s_a to v - was converted to by conv_arg; that value went through temp_values as a collector root. *)
Theorem C20_call : forall c fuel f ps0 body args st,
  Good c st -> Jt st -> lookup f (fns st) = Some (ps0, body) ->
  (let '(st', r) := evaluate c (parse c fuel) f args st in
   Good c st' /\ active st' = active st /\
   (forall n, sval_of c st' n = sval_of c st n) /\ (forall n i, aval_of c st' n i = aval_of c st n i)) /\
  (forall st1, eval_args (parse c fuel) (map (resolve st) ps0) args st = (st1, Ok tt) -> mem_z f (active st1) = true ->
     snd (evaluate c (parse c fuel) f args st) = Err 7) /\
  (forall st1 st2 st3, let ps := map (resolve st) ps0 in
     (length ps <= length args)%nat ->
     eval_args (parse c fuel) ps args st = (st1, Ok tt) ->
     save_params c ps [] st1 = (st2, Ok tt) ->
     bind_params c ps 0 (Nat.min (length ps) (length args)) (length (tvals st2) - length (tvals st1)) st2 = (st3, Ok tt) ->
     let st4 := set_active st3 (f :: active st3) in
     let '(st5, _) := parse c fuel body st4 in
     forall i p, nth_error ps i = Some p -> ~ In p (skipn (S i) ps) ->
       exists a s_a s_b v o, nth_error args i = Some a /\ parse c fuel a s_a = (s_b, Ok v) /\ Good c s_a /\
                             conv_arg p s_b v = Ok o /\
                             sval_of c st4 p = arg_val c s_b o /\ sval_of c st5 p = arg_val c s_b o).
Proof.
  intros c fuel f ps0 body args st G J Hf. split; [|split].
  - pose proof (C20_frame_values c fuel f args st G J) as H.
    destruct (evaluate c (parse c fuel) f args st) as [st' r]. tauto.
  - intros st1 Ha Hm. eapply C20_recursion; eauto.
  - intros st1 st2 st3 ps Hlen E1 E2 E3.
    exact (call_binding_body c (parse c fuel) (parse_EV c fuel) f body ps args st st1 st2 st3 G J Hlen E1 E2 E3).
Qed.
Print Assumptions C20_call.

(* non-vacuity: with one function defined, a call on a good state satisfies the hypotheses and returns *)
Example C20_nonvacuous :
  let c := mk_cfg 4717 4800 [(4730, [97; 98])] in
  let st0 := init_state 65534 512 in
  let '(st1, _) := exec c 50 false (SDef 13 [243] (ECat (EVar 243) (EStr (EFre (ELit (Some 4730) [97; 98]))))) st0 in
  let '(st2, _) := exec c 50 false (SLet (LvS 243) (ECat (ELit (Some 4730) [97; 98]) (ELit (Some 4730) [97; 98]))) st1 in
  let '(st3, r) := parse c 50 (EFn 13 [ELit (Some 4730) [97; 98]]) (reset_temporaries st2) in
  is_ok r = true /\ sval_of c st3 243 = sval_of c st2 243 /\ sval_of c st2 243 = (Ok [97; 98; 97; 98], 0).
Proof. vm_compute. auto. Qed.
