(* C13 - The stored program matches the entered lines after any edit history.
   Only statements, `exact`, Print Assumptions and non-vacuity examples here.

   model/Program.v      executable model of program.py (with the repair fixes/D13b)
   model/ProgramSpec.v  the reference: a sorted finite map line number -> tokenised body, its memory image
                        (lay/image), its index, and the meaning of each command on it (spec_step)
   abs_ok c s ls tail = the invariant WF: state s stores exactly the lines ls.
   Bodies are arbitrary byte lists with [wf_body b = true] (what the tokeniser emits: bytes, no 00 at a token
   position, no token payload running over the end of the line) - this hypothesis (in [op_ok]) is where
   hand-poked code (allow_code_poke) and crafted tokenised files are excluded. *)
From Coq Require Import ZArith List Bool Lia Sorting.Sorted.
From PCB Require Import lib.Result lib.PyInt gen.Gen_program model.Program model.ProgramSpec proofs.Program_proofs.
From PCB Require Import model.Renum model.RenumSpec model.Edit proofs.Renum_proofs proofs.Edit_proofs.
Import ListNotations.
Open Scope Z_scope.

(* Refinement, for ALL edit histories (store / replace / delete by empty line / DELETE range / NEW / rescan):
   the real state after the history represents the reference map after the same history. *)
Theorem C13_refinement : forall c ops, cfg_ok c -> Forall op_ok ops ->
  abs_ok c (run c ops) (spec_run c ops) [].
Proof. exact refinement. Qed.
Print Assumptions C13_refinement.

(* one command from any WF state (also states with bytes behind the terminator, as after LOAD) *)
Theorem C13_step : forall c s ls tail o, cfg_ok c -> abs_ok c s ls tail -> op_ok o ->
  abs_ok c (step_keep c s o) (spec_step c tail ls o) (tail_step tail o).
Proof. exact step_ok. Qed.
Print Assumptions C13_step.

(* the reference commands are finite-map updates *)
Theorem C13_spec_store_is_map_update : forall n b ls k b',
  In (k, b') (spec_store n b ls) <-> (k = n /\ b' = b) \/ (k <> n /\ In (k, b') ls).
Proof. exact spec_store_In. Qed.
Print Assumptions C13_spec_store_is_map_update.
Theorem C13_spec_remove_is_map_restrict : forall a b ls k b',
  In (k, b') (spec_remove a b ls) <-> In (k, b') ls /\ ~ (a <= k <= b).
Proof. exact spec_remove_In. Qed.
Print Assumptions C13_spec_remove_is_map_restrict.

(* WF (1): the incrementally maintained index equals a fresh rescan of the code (rebuild_line_dict), which
   also leaves the code (all link fields) unchanged *)
Theorem C13_index_equals_rescan : forall c ops, cfg_ok c -> Forall op_ok ops ->
  exists s', rebuild_line_dict c (run c ops) = Ok s' /\ code s' = code (run c ops)
             /\ forall k, lookup k (lines s') = lookup k (lines (run c ops)).
Proof. intros c ops Hc Ho. exact (wf_rescan c _ _ [] Hc (refinement c ops Hc Ho)). Qed.
Print Assumptions C13_index_equals_rescan.

(* WF (2): offsets strictly increase with line numbers *)
Theorem C13_positions_increase : forall c ops k1 p1 k2 p2, cfg_ok c -> Forall op_ok ops ->
  lookup k1 (lines (run c ops)) = Some p1 -> lookup k2 (lines (run c ops)) = Some p2 -> k1 < k2 -> p1 < p2.
Proof. intros c ops k1 p1 k2 p2 Hc Ho. exact (wf_positions_increase c _ _ [] k1 p1 k2 p2 (refinement c ops Hc Ho)). Qed.
Print Assumptions C13_positions_increase.

(* LIST: the lines in order of position are exactly the reference lines in ascending line-number order *)
Theorem C13_list_sorted : forall c ops, cfg_ok c -> Forall op_ok ops ->
  list_lines (run c ops) None None = map Some (spec_run c ops)
  /\ StronglySorted Z.lt (nums (spec_run c ops)).
Proof.
  intros c ops Hc Ho. pose proof (refinement c ops Hc Ho) as H.
  split; [exact (proj2 (wf_list_all c _ _ [] Hc H)) | exact (a_sorted _ _ _ _ H)].
Qed.
Print Assumptions C13_list_sorted.

(* GOTO n: succeeds exactly for the lines of the reference map, and lands on the bytes of line n *)
Theorem C13_goto_lands : forall c ops n p, cfg_ok c -> Forall op_ok ops -> 0 <= n <= 65535 ->
  jump (run c ops) n = Ok p ->
  exists b, In (n, b) (spec_run c ops) /\ line_at (code (run c ops)) p = Some (n, b).
Proof. intros c ops n p Hc Ho. exact (wf_goto c _ _ [] n p Hc (refinement c ops Hc Ho)). Qed.
Print Assumptions C13_goto_lands.
Theorem C13_goto_finds : forall c ops n b, cfg_ok c -> Forall op_ok ops ->
  In (n, b) (spec_run c ops) -> exists p, jump (run c ops) n = Ok p.
Proof. intros c ops n b Hc Ho. exact (wf_goto_exists c _ _ [] n b (refinement c ops Hc Ho)). Qed.
Print Assumptions C13_goto_finds.

(* WF (3): following the link fields from the first line (what PEEK shows) visits (offset, number) of every
   line in ascending order and ends on a 00 00 link *)
Theorem C13_links_chain : forall c ops, cfg_ok c -> Forall op_ok ops ->
  chain c (S (length (spec_run c ops))) (code (run c ops)) 0
  = (map (fun kv : Z * Z => (snd kv, fst kv)) (idx 0 (spec_run c ops)), true).
Proof. intros c ops Hc Ho. exact (wf_chain c _ _ [] Hc (refinement c ops Hc Ho)). Qed.
Print Assumptions C13_links_chain.

(* WF (4): the sentinel 65536 maps to the program terminator 00 00 00, where the code ends *)
Theorem C13_sentinel : forall c ops, cfg_ok c -> Forall op_ok ops ->
  lookup 65536 (lines (run c ops)) = Some (size (spec_run c ops))
  /\ zdrop (size (spec_run c ops)) (code (run c ops)) = [0; 0; 0].
Proof. intros c ops Hc Ho. exact (wf_sentinel c _ _ [] (refinement c ops Hc Ho)). Qed.
Print Assumptions C13_sentinel.

(* the line scanner used by the rescan and by RENUM stops exactly at the end of a tokeniser-made body *)
Theorem C13_scanner_sound : forall b X, wf_body b = true -> skip_line (b ++ 0 :: X) = zlen b.
Proof. exact skip_line_body. Qed.
Print Assumptions C13_scanner_sound.

(* ---- extension: histories that also contain RENUM (accepted or rejected - a rejected one only moves
   last_stored), SAVE + LOAD of the tokenised image (with Program.load's Out of memory test), MERGE and LOAD of an ASCII
   file = erase + merge of every line of the file, however its last line is terminated (model/Edit.v).  [inv c s] = there are lines ls
   and a tail with abs_ok c s ls tail, all numbers < 65535, no 0E byte right behind the terminator.
   [xhist_ok] = every stored line has the tokeniser's shape with number <= 65534, RENUM arguments are two-byte
   jump numbers. *)
Theorem C13_ext_invariant : forall c ops, cfg_ok c -> xhist_ok c erase ops -> inv c (xrun c ops).
Proof. exact xrun_inv. Qed.
Print Assumptions C13_ext_invariant.

(* after ANY command of such a history, failed or not, the index equals a rescan of the code *)
Theorem C13_ext_index_equals_rescan : forall c ops, cfg_ok c -> xhist_ok c erase ops ->
  exists s', rebuild_line_dict c (xrun c ops) = Ok s' /\ code s' = code (xrun c ops)
             /\ forall k, lookup k (lines s') = lookup k (lines (xrun c ops)).
Proof.
  intros c ops Hc Ho. destruct (xrun_inv c ops Hc Ho) as [ls [tail [Ha _]]]. exact (wf_rescan c _ ls tail Hc Ha).
Qed.
Print Assumptions C13_ext_index_equals_rescan.

Theorem C13_ext_step : forall c s o, cfg_ok c -> inv c s -> xop_ok c s o -> inv c (fst (xstep c s o)).
Proof. exact xstep_inv. Qed.
Print Assumptions C13_ext_step.

(* SAVE then LOAD (tokenised) brings back exactly the same lines; the EOF byte 1A stays behind the terminator *)
Theorem C13_save_load : forall c s ls tail, cfg_ok c -> abs_ok c s ls tail ->
  cs c + zlen (code s) + 1 <= limit c -> abs_ok c (fst (xstep c s XSaveLoad)) ls (tail ++ [26]).
Proof. exact load_ok. Qed.
Print Assumptions C13_save_load.

(* non-vacuity: a history with insertion in the middle, replacement, deletions and a body containing a REM
   byte inside a string literal followed by a 00 inside a number token (the D13a witness) *)
Example C13_nonvacuous :
  let c := {| cs := 4717; limit := 65020 |} in
  let ops := [OStore (mk_linebuf 20 [145; 32; 34; 143; 34; 58; 88; 231; 12; 0; 0]);
              OStore (mk_linebuf 10 [137; 32; 14; 20; 0]);
              OStore (mk_linebuf 30 [129]);
              OStore (mk_linebuf 10 [143; 32; 104; 105]);
              OStore (mk_linebuf 15 [32]);
              ODelete (Some 25) None; ORebuild] in
  cfg_ok c /\ Forall op_ok ops
  /\ spec_run c ops = [(10, [143; 32; 104; 105]); (20, [145; 32; 34; 143; 34; 58; 88; 231; 12; 0; 0])]
  /\ lines (run c ops) = [(10, 0); (20, 9); (65536, 25)].
Proof.
  cbv zeta. split; [unfold cfg_ok; cbn; lia|]. split.
  - repeat (apply Forall_cons || apply Forall_nil);
      try (eexists; eexists; split; [reflexivity|]; split; [lia | vm_compute; reflexivity]);
      cbn; repeat split; lia.
  - split; vm_compute; reflexivity.
Qed.
