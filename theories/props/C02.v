(* C02 - Integer operators follow 16-bit two's-complement semantics.
   Only statements, `exact`/short assembly, Print Assumptions and non-vacuity examples here.

   Objects: a BASIC Integer is its 2-byte buffer `b : buf16 = (lo, hi)`; `enc z` is the little-endian
   two's-complement buffer of z, `dec b` / `decu b` the signed / unsigned reading, `bit b i` bit i of the pattern.
   The functions `int16_*` are regenerated from numbers.py / values.py on every run (gen/Gen_int16.v);
   `op_*` add the float_safe error handler, `for_step` is the counter update of NEXT (model/Int16.v).
   All theorems quantify over ALL operand values (2^32 ordered pairs); nothing is enumerated. *)
From Coq Require Import ZArith List Bool Lia.
From PCB Require Import lib.Result lib.PyInt lib.Int16Prims gen.Gen_int16 model.Int16 proofs.Int16_proofs.
Import ListNotations.
Open Scope Z_scope.

(* the 65536 buffers and the values -32768..32767 correspond one to one *)
Theorem C02_encoding :
  (forall b, buf_ok b -> in16 (dec b) /\ enc (dec b) = b) /\
  (forall z, in16 z -> buf_ok (enc z) /\ dec (enc z) = z).
Proof.
  split; [intros b Hb; split; [exact (dec_in16 b Hb) | exact (enc_dec b Hb)]
         | intros z Hz; split; [exact (enc_ok z) | exact (dec_enc z Hz)]].
Qed.
Print Assumptions C02_encoding.

(* ---- exact 16-bit addition / negation / subtraction (Integer.iadd, ineg, isub) ---- *)
Theorem C02_add : forall a b, in16 a -> in16 b ->
  int16_iadd (enc a) (enc b) = if in16b (a + b) then Ok (enc (a + b)) else Err 6.
Proof.
  intros a b Ha Hb. rewrite (iadd_spec _ _ (enc_ok a) (enc_ok b)), (dec_enc a Ha), (dec_enc b Hb). reflexivity.
Qed.
Print Assumptions C02_add.

Theorem C02_neg : forall a, in16 a ->
  int16_ineg (enc a) = if in16b (- a) then Ok (enc (- a)) else Err 6.
Proof. intros a Ha. rewrite (ineg_spec _ (enc_ok a)), (dec_enc a Ha). reflexivity. Qed.
Print Assumptions C02_neg.

(* Integer.isub negates the subtrahend first, so b = -32768 overflows even where a - b would fit; the method
   is not reachable from BASIC (values.sub computes A%-B% in floating point) *)
Theorem C02_sub : forall a b, in16 a -> in16 b ->
  int16_isub (enc a) (enc b) =
    if b =? -32768 then Err 6 else if in16b (a - b) then Ok (enc (a - b)) else Err 6.
Proof.
  intros a b Ha Hb. rewrite (isub_spec _ _ (enc_ok a) (enc_ok b)), (dec_enc a Ha), (dec_enc b Hb). reflexivity.
Qed.
Print Assumptions C02_sub.

(* ---- integer division and MOD (values.intdiv / values.mod_ on integer operands) ---- *)
(* a \ b truncates toward zero (Z.quot); Overflow exactly when the quotient leaves -32768..32767 *)
Theorem C02_idiv : forall hard a b, in16 a -> in16 b -> b <> 0 ->
  op_intdiv hard (OpInt (enc a)) (OpInt (enc b)) =
    if in16b (Z.quot a b) then OutInt (enc (Z.quot a b)) else OutErr 6.
Proof.
  intros h a b Ha Hb Hnz. rewrite (intdiv_int h _ _ (enc_ok a) (enc_ok b)), (dec_enc a Ha), (dec_enc b Hb).
  destruct (Z.eqb_spec b 0); [contradiction | reflexivity].
Qed.
Print Assumptions C02_idiv.

(* ... which happens for exactly one pair *)
Theorem C02_idiv_overflow_only : forall a b, in16 a -> in16 b -> b <> 0 ->
  (~ in16 (Z.quot a b)) <-> (a = -32768 /\ b = -1).
Proof. exact quot_overflow_only. Qed.
Print Assumptions C02_idiv_overflow_only.

(* a MOD b is the remainder of the truncating division (sign of the dividend); never overflows *)
Theorem C02_mod : forall hard a b, in16 a -> in16 b -> b <> 0 ->
  op_mod hard (OpInt (enc a)) (OpInt (enc b)) = OutInt (enc (Z.rem a b)) /\ in16 (Z.rem a b).
Proof.
  intros h a b Ha Hb Hnz. split; [|exact (rem_in16 a b Ha Hnz)].
  rewrite (mod_int h _ _ (enc_ok a) (enc_ok b)), (dec_enc a Ha), (dec_enc b Hb).
  destruct (Z.eqb_spec b 0); [contradiction | reflexivity].
Qed.
Print Assumptions C02_mod.

(* a = b*(a\b) + (a MOD b), |a MOD b| < |b|, a MOD b is zero or has the sign of a *)
Theorem C02_div_mod_identity : forall hard a b q r, in16 a -> in16 b ->
  op_intdiv hard (OpInt (enc a)) (OpInt (enc b)) = OutInt q ->
  op_mod hard (OpInt (enc a)) (OpInt (enc b)) = OutInt r ->
  b <> 0 /\ dec q = Z.quot a b /\ dec r = Z.rem a b /\
  a = b * dec q + dec r /\ Z.abs (dec r) < Z.abs b /\ (dec r = 0 \/ Z.sgn (dec r) = Z.sgn a).
Proof. exact div_mod_identity. Qed.
Print Assumptions C02_div_mod_identity.

(* zero divisor: Division by zero - error 11 when errors are trapped; otherwise the soft form of the same
   error (message printed, evaluation continues with the largest single carrying the sign of the dividend) *)
Theorem C02_div_by_zero : forall hard a, in16 a ->
  op_intdiv hard (OpInt (enc a)) (OpInt (enc 0)) = div_zero_outcome hard a /\
  op_mod hard (OpInt (enc a)) (OpInt (enc 0)) = div_zero_outcome hard a /\
  div_zero_outcome true a = OutErr 11 /\
  (exists payload, div_zero_outcome false a = OutSoft 11 payload).
Proof.
  intros h a Ha.
  rewrite (intdiv_int h _ _ (enc_ok a) (enc_ok 0)), (mod_int h _ _ (enc_ok a) (enc_ok 0)), (dec_enc a Ha).
  repeat split. unfold div_zero_outcome. eexists. reflexivity.
Qed.
Print Assumptions C02_div_by_zero.

(* ---- AND OR XOR EQV IMP NOT: bitwise on the 16-bit pattern, result always a valid Integer ---- *)
Definition bitwise_on_patterns (op : operand -> operand -> outcome) (f : bool -> bool -> bool) : Prop :=
  forall x y, buf_ok x -> buf_ok y ->
    exists r, op (OpInt x) (OpInt y) = OutInt r /\ buf_ok r /\ in16 (dec r) /\
              forall i, 0 <= i < 16 -> bit r i = f (bit x i) (bit y i).

Theorem C02_bitwise :
  bitwise_on_patterns op_and andb /\ bitwise_on_patterns op_or orb /\ bitwise_on_patterns op_xor xorb /\
  bitwise_on_patterns op_eqv eqvb /\ bitwise_on_patterns op_imp impb.
Proof.
  repeat split.
  - exact (bitop_bits Z.land andb op_and land_zspec and_int).
  - exact (bitop_bits Z.lor orb op_or lor_zspec or_int).
  - exact (bitop_bits Z.lxor xorb op_xor lxor_zspec xor_int).
  - exact (bitop_bits (fun a b => Z.lnot (Z.lxor a b)) eqvb op_eqv eqv_zspec eqv_int).
  - exact (bitop_bits (fun a b => Z.lor (Z.lnot a) b) impb op_imp imp_zspec imp_int).
Qed.
Print Assumptions C02_bitwise.

Theorem C02_not : forall x, buf_ok x ->
  exists r, op_not (OpInt x) = OutInt r /\ buf_ok r /\ dec r = - dec x - 1 /\
            forall i, 0 <= i < 16 -> bit r i = negb (bit x i).
Proof. exact not_bits. Qed.
Print Assumptions C02_not.

(* the same, read on values: whatever integers v, w carry the patterns (signed reading -32768..32767 or unsigned
   reading 0..65535, e.g. &HFFFF), the result is the pattern of the infinite-precision bit operation *)
Theorem C02_bitwise_values : forall v w,
  op_and (OpInt (enc v)) (OpInt (enc w)) = OutInt (enc (Z.land v w)) /\
  op_or (OpInt (enc v)) (OpInt (enc w)) = OutInt (enc (Z.lor v w)) /\
  op_xor (OpInt (enc v)) (OpInt (enc w)) = OutInt (enc (Z.lxor v w)) /\
  op_eqv (OpInt (enc v)) (OpInt (enc w)) = OutInt (enc (Z.lnot (Z.lxor v w))) /\
  op_imp (OpInt (enc v)) (OpInt (enc w)) = OutInt (enc (Z.lor (Z.lnot v) w)) /\
  op_not (OpInt (enc v)) = OutInt (enc (Z.lnot v)).
Proof.
  intros v w. repeat split.
  - exact (bitop_values Z.land andb op_and land_zspec and_int v w).
  - exact (bitop_values Z.lor orb op_or lor_zspec or_int v w).
  - exact (bitop_values Z.lxor xorb op_xor lxor_zspec xor_int v w).
  - exact (bitop_values (fun a b => Z.lnot (Z.lxor a b)) eqvb op_eqv eqv_zspec eqv_int v w).
  - exact (bitop_values (fun a b => Z.lor (Z.lnot a) b) impb op_imp imp_zspec imp_int v w).
  - exact (not_values v).
Qed.
Print Assumptions C02_bitwise_values.

(* ---- operands that are not Integers: converted first (left, then right) by values.to_integer:
        an Integer is taken as is, a float is rounded (CINT; c = Float.to_int(), C03) and must lie in
        -32768..32767 else Overflow, a string is a Type mismatch ---- *)
Theorem C02_conversion : forall o,
  match o with
  | OpInt b => conv o = Ok b
  | OpFlt c => conv o = if in16b c then Ok (enc c) else Err 6
  | OpStr => conv o = Err 13
  end.
Proof. exact conv_cases_all. Qed.
Print Assumptions C02_conversion.

Theorem C02_operands : forall hard l r,
  op_and l r = obind (conv l) (fun x => obind (conv r) (fun y => op_and (OpInt x) (OpInt y))) /\
  op_or l r = obind (conv l) (fun x => obind (conv r) (fun y => op_or (OpInt x) (OpInt y))) /\
  op_xor l r = obind (conv l) (fun x => obind (conv r) (fun y => op_xor (OpInt x) (OpInt y))) /\
  op_eqv l r = obind (conv l) (fun x => obind (conv r) (fun y => op_eqv (OpInt x) (OpInt y))) /\
  op_imp l r = obind (conv l) (fun x => obind (conv r) (fun y => op_imp (OpInt x) (OpInt y))) /\
  op_not l = obind (conv l) (fun x => op_not (OpInt x)) /\
  op_intdiv hard l r =
    obindf hard (conv l) (fun x => obindf hard (conv r) (fun y => op_intdiv hard (OpInt x) (OpInt y))) /\
  op_mod hard l r =
    obindf hard (conv l) (fun x => obindf hard (conv r) (fun y => op_mod hard (OpInt x) (OpInt y))).
Proof.
  intros h l r. repeat split;
    [apply and_conv | apply or_conv | apply xor_conv | apply eqv_conv | apply imp_conv | apply not_conv
    | apply intdiv_conv | apply mod_conv].
Qed.
Print Assumptions C02_operands.

(* a float operand outside -32768..32767 (e.g. 40000, 32767.5, -32768.5) gives Overflow in every operator,
   on the left whatever the right operand is, on the right whenever the left operand converts *)
Theorem C02_convert_overflow : forall hard c, ~ in16 c ->
  (forall r, op_and (OpFlt c) r = OutErr 6 /\ op_or (OpFlt c) r = OutErr 6 /\ op_xor (OpFlt c) r = OutErr 6 /\
             op_eqv (OpFlt c) r = OutErr 6 /\ op_imp (OpFlt c) r = OutErr 6 /\
             op_intdiv hard (OpFlt c) r = OutErr 6 /\ op_mod hard (OpFlt c) r = OutErr 6) /\
  op_not (OpFlt c) = OutErr 6 /\
  (forall l x, conv l = Ok x ->
             op_and l (OpFlt c) = OutErr 6 /\ op_or l (OpFlt c) = OutErr 6 /\ op_xor l (OpFlt c) = OutErr 6 /\
             op_eqv l (OpFlt c) = OutErr 6 /\ op_imp l (OpFlt c) = OutErr 6 /\
             op_intdiv hard l (OpFlt c) = OutErr 6 /\ op_mod hard l (OpFlt c) = OutErr 6).
Proof.
  intros h c Hc. assert (E : conv (OpFlt c) = Err 6) by (rewrite conv_flt; exact (fit16_err c Hc)).
  split; [|split].
  - intro r. rewrite and_conv, or_conv, xor_conv, eqv_conv, imp_conv, (intdiv_conv h), (mod_conv h), E.
    repeat split.
  - rewrite not_conv, E. reflexivity.
  - intros l x Hl. rewrite and_conv, or_conv, xor_conv, eqv_conv, imp_conv, (intdiv_conv h), (mod_conv h), Hl, E.
    repeat split.
Qed.
Print Assumptions C02_convert_overflow.

(* a string operand on either side is a Type mismatch (left operand first), never a host exception *)
Theorem C02_string_operand : forall hard o,
  op_and OpStr o = OutErr 13 /\ op_or OpStr o = OutErr 13 /\ op_xor OpStr o = OutErr 13 /\
  op_eqv OpStr o = OutErr 13 /\ op_imp OpStr o = OutErr 13 /\ op_not OpStr = OutErr 13 /\
  op_intdiv hard OpStr o = OutErr 13 /\ op_mod hard OpStr o = OutErr 13 /\
  (forall x, conv o = Ok x ->
     op_and o OpStr = OutErr 13 /\ op_or o OpStr = OutErr 13 /\ op_xor o OpStr = OutErr 13 /\
     op_eqv o OpStr = OutErr 13 /\ op_imp o OpStr = OutErr 13 /\
     op_intdiv hard o OpStr = OutErr 13 /\ op_mod hard o OpStr = OutErr 13).
Proof.
  intros h o.
  rewrite and_conv, or_conv, xor_conv, eqv_conv, imp_conv, not_conv, (intdiv_conv h), (mod_conv h), conv_str.
  do 8 (split; [reflexivity|]).
  intros x Hx.
  rewrite and_conv, or_conv, xor_conv, eqv_conv, imp_conv, (intdiv_conv h), (mod_conv h), Hx, conv_str.
  repeat split.
Qed.
Print Assumptions C02_string_operand.

(* ---- the FOR counter (NEXT): exact addition of the step, Overflow exactly when the sum leaves the range
        (the counter is then left unchanged); the loop ends when the new counter has passed the limit ---- *)
Theorem C02_for_step : forall c step stop sgn, in16 c -> in16 step -> in16 stop ->
  for_step (enc c) (enc step) (enc stop) sgn =
    if in16b (c + step)
    then Ok (enc (c + step), if sgn >=? 0 then c + step >? stop else stop >? c + step)
    else Err 6.
Proof.
  intros c s st sgn Hc Hs Hst.
  rewrite (for_step_spec _ _ _ sgn (enc_ok c) (enc_ok s) (enc_ok st)), (dec_enc c Hc), (dec_enc s Hs), (dec_enc st Hst).
  reflexivity.
Qed.
Print Assumptions C02_for_step.

(* NEXT iterates the loop that is running: of all records left on the FOR stack for this NEXT (a loop left with
   GOTO and entered again leaves stale ones below), the newest one supplies step, limit and direction; the
   counter advances by exactly that step, Overflow exactly when that sum leaves the range; stale records above
   are dropped, the record itself is popped when the loop ends *)
Theorem C02_for_running_loop : forall above r below pos get,
  (forall q, In q above -> f_nextpos q <> pos) -> f_nextpos r = pos ->
  buf_ok (get (f_var r)) -> buf_ok (f_step r) -> buf_ok (f_stop r) ->
  next_step (above ++ r :: below) pos None get =
    let z := dec (get (f_var r)) + dec (f_step r) in
    if in16b z
    then let e := if f_sgn r >=? 0 then z >? dec (f_stop r) else dec (f_stop r) >? z in
         Ok (if e then below else r :: below, (f_var r, enc z), e)
    else Err 6.
Proof. exact next_step_running. Qed.
Print Assumptions C02_for_running_loop.

Theorem C02_next_without_for : forall st pos vname get,
  (forall q, In q st -> f_nextpos q <> pos) -> next_step st pos vname get = Err 1.
Proof. exact next_step_none. Qed.
Print Assumptions C02_next_without_for.

(* a stale record (step 20000) below the running one (step 1): 20000 + 1, no Overflow *)
Example C02_for_reentered :
  let stale := mk_frec 0 (enc 20003) (enc 20000) 1 50 in
  let running := mk_frec 0 (enc 20003) (enc 1) 1 50 in
  next_step [running; stale] 50 None (fun _ => enc 20000) = Ok ([running; stale], (0, enc 20001), false).
Proof. vm_compute. reflexivity. Qed.

(* NEXT and the variable store, for every FOR stack, NEXT position, named variable and store: when NEXT succeeds
   exactly the counter of the loop it iterates changes (to the exact sum, C02_for_running_loop); when it raises
   (Overflow, NEXT without FOR) NO variable changes - in particular the counter is not left holding a wrapped sum.
   `next_exec` takes the counter after an error from the regenerated exit-buffer reading of Integer.iadd. *)
Theorem C02_for_error_keeps_counter : forall st pos vname store,
  (forall v, buf_ok (store v)) -> (forall q, In q st -> buf_ok (f_step q) /\ buf_ok (f_stop q)) ->
  match snd (next_exec st pos vname store) with
  | Ok (_, (v, c), _) => forall w, fst (next_exec st pos vname store) w = if w =? v then c else store w
  | _ => forall w, fst (next_exec st pos vname store) w = store w
  end.
Proof. exact next_exec_store. Qed.
Print Assumptions C02_for_error_keeps_counter.

(* ---- non-vacuity: the boundary cases ---- *)
Example C02_nonvacuous :
  in16 (-32768) /\ in16 (-1) /\ in16 32767 /\
  op_intdiv true (OpInt (enc (-32768))) (OpInt (enc (-1))) = OutErr 6 /\
  op_mod true (OpInt (enc (-32768))) (OpInt (enc (-1))) = OutInt (enc 0) /\
  int16_iadd (enc 32767) (enc 1) = Err 6 /\
  int16_iadd (enc (-32768)) (enc (-1)) = Err 6 /\
  int16_iadd (enc 32766) (enc 1) = Ok (enc 32767) /\
  op_intdiv true (OpInt (enc (-7))) (OpInt (enc 2)) = OutInt (enc (-3)) /\
  op_mod true (OpInt (enc (-7))) (OpInt (enc 2)) = OutInt (enc (-1)) /\
  op_intdiv false (OpInt (enc (-5))) (OpInt (enc 0)) = OutSoft 11 4294967295 /\
  op_and (OpInt (enc 65535)) (OpInt (enc 1)) = OutInt (enc 1) /\
  op_and (OpFlt 40000) (OpInt (enc 1)) = OutErr 6 /\
  op_imp (OpInt (enc 1)) OpStr = OutErr 13 /\
  for_step (enc (-32768)) (enc (-1)) (enc (-32768)) (-1) = Err 6.
Proof. unfold in16. repeat split; try (vm_compute; reflexivity); try lia; vm_compute; discriminate. Qed.
