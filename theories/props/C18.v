(* C18 - Expressions evaluate with GW-BASIC precedence, associativity and typing.
   Only statements, `exact`, Print Assumptions and non-vacuity examples here.

   Model: model/Shunting.v = the loop of ExpressionParser.parse / _drain over the operator tables regenerated
   from parser/operators.py (gen/Gen_prec.v); model/ShuntingValues.v = the type dispatch of values.py.
   V, unop, binop: any value domain and any operator semantics (the real one in particular) whose callbacks
   do not themselves raise IndexError (Python's handler around the final drain would catch that too). *)
From Coq Require Import ZArith List Bool.
From PCB Require Import lib.Result lib.PyInt gen.Gen_prec model.Shunting model.ShuntingValues
  proofs.Shunting_proofs proofs.Shunting_repo_proofs proofs.ShuntingValues_proofs.
Import ListNotations.
Open Scope Z_scope.

(* ---- the side condition on the tables, discharged by computation on the REGENERATED tables:
   every operator of the statement, in every spelling, is in OPERATORS and is mapped by UNARY / BINARY /
   PRECEDENCE to its values.py function and to the level
   ^ 13 > unary - + 12 > * / 11 > \ 10 > MOD 9 > + - 8 > relational 7 > NOT 6 > AND 5 > OR 4 > XOR 3 > EQV 2 > IMP 1 *)
Theorem C18_prec_table_ok : tables_ok gen_tables gen_utok gen_bspell.
Proof. exact gen_tables_ok. Qed.
Print Assumptions C18_prec_table_ok.

Section Generic.
Variable V : Type.
Variable unop : uop -> V -> res V.
Variable binop : bop -> V -> V -> res V.
Hypothesis unop_noidx : forall o a, unop o a <> Host host_IndexError.
Hypothesis binop_noidx : forall o a b, binop o a b <> Host host_IndexError.
Variable alt : bop -> bool.          (* which spelling of >= <= <> is printed *)

Notation sy_eval := (sy_eval V unop binop gen_tables).
Notation sy_parse := (sy_parse V unop binop gen_tables).
Notation eval := (eval V unop binop).
Notation pr := (pr V gen_utok gen_bspell alt).
Notation pr_full := (pr_full V gen_utok gen_bspell alt).
Notation btoks := (btoks V gen_bspell alt).

(* parsing the printed tree evaluates like the tree - value or first error, trees of any depth, minimal
   parentheses plus any explicit redundant ones (Par nodes); for ANY tables satisfying the side condition *)
Theorem C18_parse_eval_tables : forall T utok bspell, tables_ok T utok bspell ->
  forall e, Shunting.sy_eval V unop binop T (Shunting.pr V utok bspell alt e) = eval e.
Proof. intros T utok bspell OK e. exact (eval_pr V unop binop T utok bspell alt OK unop_noidx binop_noidx e). Qed.

Theorem C18_parse_eval : forall e, sy_eval (pr e) = eval e.
Proof. exact (C18_parse_eval_tables gen_tables gen_utok gen_bspell C18_prec_table_ok). Qed.

Theorem C18_parse_eval_full_parens : forall e, sy_eval (pr_full e) = eval e.
Proof. exact (eval_pr_full V unop binop gen_tables gen_utok gen_bspell alt C18_prec_table_ok unop_noidx binop_noidx). Qed.

(* explicit parentheses do not change the value *)
Theorem C18_parens_irrelevant : forall e, eval (strip V e) = eval e.
Proof. exact (eval_strip V unop binop). Qed.

(* ... and parse() stops exactly at the token that ends the expression (end of statement, `,` `;` `)`,
   a second unit, NOT after a unit, any non-operator token) *)
Theorem C18_parse_stops : forall e rest, ender V gen_tables rest ->
  sy_parse (pr e ++ rest) = do v <- eval e; Ok (v, rest).
Proof. exact (parse_pr V unop binop gen_tables gen_utok gen_bspell alt C18_prec_table_ok unop_noidx binop_noidx). Qed.

(* left-to-right grouping at equal (or lower) precedence of the second operator *)
Theorem C18_left_assoc : forall a o1 b o2 c, bprec o2 <= bprec o1 ->
  sy_eval (TUnit a :: btoks o1 ++ TUnit b :: btoks o2 ++ [TUnit c])
  = eval (Bin o2 (Bin o1 (Leaf a) (Leaf b)) (Leaf c)).
Proof. exact (left_assoc V unop binop gen_tables gen_utok gen_bspell alt C18_prec_table_ok unop_noidx binop_noidx). Qed.

Theorem C18_higher_precedence_binds_tighter : forall a o1 b o2 c, bprec o1 < bprec o2 ->
  sy_eval (TUnit a :: btoks o1 ++ TUnit b :: btoks o2 ++ [TUnit c])
  = eval (Bin o1 (Leaf a) (Bin o2 (Leaf b) (Leaf c))).
Proof. exact (tighter_right V unop binop gen_tables gen_utok gen_bspell alt C18_prec_table_ok unop_noidx binop_noidx). Qed.

(* a unary operator directly after a binary one: 2 ^ - 3,  a * NOT b + c  =  a * (NOT (b + c)) *)
Theorem C18_unary_after_binary : forall a o u x, need_operand V (uprec u) x = false ->
  sy_eval (TUnit a :: btoks o ++ TOp (gen_utok u) :: pr x) = eval (Bin o (Leaf a) (Un u x)).
Proof. exact (unary_after_binary V unop binop gen_tables gen_utok gen_bspell alt C18_prec_table_ok unop_noidx binop_noidx). Qed.

(* ---- ill-formed expressions *)
(* e o <end> : Missing operand at the end of a statement, Syntax error before , ; ) ]  - after e was evaluated *)
Theorem C18_missing_operand : forall e o rest final,
  redge_ge V (bprec o) e = true -> stops_final V rest = Some final ->
  sy_parse (pr e ++ btoks o ++ rest)
  = do _ <- eval e; Err (if final then prec_err_MISSING_OPERAND else prec_err_STX).
Proof. exact (parse_trailing_op V unop binop gen_tables gen_utok gen_bspell alt C18_prec_table_ok unop_noidx binop_noidx). Qed.

Theorem C18_missing_operand_in_parens : forall e o rest, redge_ge V (bprec o) e = true ->
  sy_parse (TLParen :: pr e ++ btoks o ++ TRParen :: rest) = do _ <- eval e; Err prec_err_STX.
Proof. exact (parse_trailing_op_paren V unop binop gen_tables gen_utok gen_bspell alt C18_prec_table_ok unop_noidx binop_noidx). Qed.

Theorem C18_empty_expression : forall rest final, stops_final V rest = Some final ->
  sy_parse rest = Err (if final then prec_err_MISSING_OPERAND else prec_err_STX).
Proof. exact (parse_empty V unop binop gen_tables). Qed.

Theorem C18_empty_parentheses : forall rest, sy_parse (TLParen :: TRParen :: rest) = Err prec_err_STX.
Proof. exact (parse_empty_parens V unop binop gen_tables). Qed.

Theorem C18_unclosed_parenthesis : forall e rest,
  ender V gen_tables rest -> is_rparen V rest = false ->
  sy_parse (TLParen :: pr e ++ rest) = do _ <- eval e; Err prec_err_STX.
Proof. exact (parse_unclosed V unop binop gen_tables gen_utok gen_bspell alt C18_prec_table_ok unop_noidx binop_noidx). Qed.

(* a binary-only operator where an operand is expected, and == << >> *)
Theorem C18_leading_binary_operator : forall o rest, o <> Add -> o <> Sub ->
  sy_parse (btoks o ++ rest) = Err prec_err_STX.
Proof. intros o rest. exact (leading_binary V unop binop o alt rest). Qed.

Theorem C18_illegal_combination : forall v k rest, In k [prec_tk_O_EQ; prec_tk_O_LT; prec_tk_O_GT] ->
  sy_parse (TUnit (Ok v) :: TOp k :: TOp k :: rest) = Err prec_err_STX.
Proof. exact (illegal_combination V unop binop). Qed.

(* for EVERY token stream the IndexError of the empty units stack never escapes: parse() returns a value,
   a BASIC error, or whatever a unit / an operator callback raised *)
Theorem C18_no_index_error : forall toks, Forall (unit_ok V) toks -> sy_parse toks <> Host host_IndexError.
Proof. exact (parse_no_index_error V unop binop gen_tables unop_noidx binop_noidx gen_ops_closed). Qed.

End Generic.

Print Assumptions C18_parse_eval_tables.
Print Assumptions C18_parse_eval.
Print Assumptions C18_parse_eval_full_parens.
Print Assumptions C18_parens_irrelevant.
Print Assumptions C18_parse_stops.
Print Assumptions C18_left_assoc.
Print Assumptions C18_higher_precedence_binds_tighter.
Print Assumptions C18_unary_after_binary.
Print Assumptions C18_missing_operand.
Print Assumptions C18_missing_operand_in_parens.
Print Assumptions C18_empty_expression.
Print Assumptions C18_empty_parentheses.
Print Assumptions C18_unclosed_parenthesis.
Print Assumptions C18_leading_binary_operator.
Print Assumptions C18_illegal_combination.
Print Assumptions C18_no_index_error.

(* ---- typing clause, over the dispatch table of the operator functions of values.py
   (dm = the double_math option).  Interpretation I1 (design_notes/C18.md): for + - * the result is the widest
   operand type with Single as the narrowest result - values.py promotes two integers to single, exactly. *)
Theorem C18_result_types : forall dm o a b,
  (* a string mixed with a number: Type mismatch, for every operator *)
  (is_str a <> is_str b -> rt_binop dm o a b = Err prec_err_TYPE_MISMATCH)
  (* two strings: + concatenates, relational compare, everything else is a Type mismatch *)
  /\ rt_binop dm o TStr TStr
     = (if relational o then Ok TInt else match o with Add => Ok TStr | _ => Err prec_err_TYPE_MISMATCH end)
  (* two numbers *)
  /\ (numeric a -> numeric b ->
      (arith o = true ->
         rt_binop dm o a b = Ok (widest (to_float a) b)
         /\ ty_rank (widest (to_float a) b) = Z.max 1 (Z.max (ty_rank a) (ty_rank b)))
      /\ (o = Pow -> rt_binop dm o a b = Ok (if dm && (is_dbl a || is_dbl b) then TDbl else TSng))
      /\ (relational o = true -> rt_binop dm o a b = Ok TInt)
      /\ (integer_op o = true -> rt_binop dm o a b = Ok TInt))
  (* / and ^ never integer *)
  /\ (forall t, o = Div \/ o = Pow -> rt_binop dm o a b = Ok t -> t <> TInt /\ t <> TStr).
Proof.
  intros dm o a b. split; [exact (rt_mismatch dm o a b)|]. split; [exact (rt_strings dm o)|].
  split; [| intros t; exact (rt_div_pow_not_int dm o a b t)].
  intros Ha Hb. split; [intros H; exact (rt_arith dm o a b H Ha Hb)|].
  split; [intros ->; exact (rt_pow dm a b Ha Hb)|].
  split; [intros H; apply (rt_relational dm o a b H); destruct a, b; try reflexivity; contradiction
         | intros H; exact (rt_integer_op dm o a b H Ha Hb)].
Qed.
Print Assumptions C18_result_types.

Theorem C18_unary_result_types : forall o a,
  rt_unop o a = match o with
                | Neg => Ok (to_float a)          (* integer -> single; a string passes unchanged *)
                | Pos => Ok a
                | Not => if is_str a then Err prec_err_TYPE_MISMATCH else Ok TInt
                end.
Proof. exact rt_unary. Qed.
Print Assumptions C18_unary_result_types.

(* relational operators yield the integer -1 or 0 (on the exact value model) *)
Theorem C18_relational_values : forall dm o a b v, relational o = true -> v_binop dm o a b = Ok v ->
  v = VNum TInt (-1) \/ v = VNum TInt 0.
Proof. exact v_relational. Qed.
Print Assumptions C18_relational_values.

(* mixed precision (exact value model): a comparison of two numbers of any types is the comparison of their
   exact values - neither operand is narrowed to the type of the other, whichever side it is on - and + / -
   with a double operand on either side give the exact double *)
Theorem C18_mixed_precision_compare : forall dm o ta x tb y, relational o = true -> numeric ta -> numeric tb ->
  v_binop dm o (VNum ta x) (VNum tb y) = Ok (VNum TInt (b2i (rel o (x =? y) (x >? y) (x <? y)))).
Proof. exact v_compare_exact. Qed.
Print Assumptions C18_mixed_precision_compare.

Theorem C18_mixed_precision_add_sub : forall dm o ta x tb y,
  o = Add \/ o = Sub -> numeric ta -> numeric tb ->
  let t := widest (to_float ta) tb in
  let r := match o with Add => x + y | _ => x - y end in
  in_dom t r = true -> sng_edge o t x y = false ->
  v_binop dm o (VNum ta x) (VNum tb y) = Ok (VNum t r) /\ (ta = TDbl \/ tb = TDbl -> t = TDbl).
Proof. exact v_addsub_widest. Qed.
Print Assumptions C18_mixed_precision_add_sub.

(* the type of the value of an expression is the type computed on its operator tree with the dispatch table *)
Theorem C18_expression_type : forall dm e v,
  Shunting.eval val v_unop (v_binop dm) e = Ok v ->
  Shunting.eval ty rt_unop (rt_binop dm) (ety e) = Ok (ty_of v).
Proof. exact eval_type. Qed.
Print Assumptions C18_expression_type.

(* the parser theorem at the typed value domain and at the type domain: no hypothesis left *)
Theorem C18_typed_parse_eval : forall dm alt e,
  sy_eval val v_unop (v_binop dm) gen_tables (pr val gen_utok gen_bspell alt e)
  = Shunting.eval val v_unop (v_binop dm) e
  /\ sy_eval ty rt_unop (rt_binop dm) gen_tables (pr ty gen_utok gen_bspell alt (ety e))
     = Shunting.eval ty rt_unop (rt_binop dm) (ety e).
Proof.
  intros dm alt e. split.
  - exact (C18_parse_eval val v_unop (v_binop dm) v_unop_no_idx (v_binop_no_idx dm) alt e).
  - exact (C18_parse_eval ty rt_unop (rt_binop dm) rt_unop_no_idx (rt_binop_no_idx dm) alt (ety e)).
Qed.
Print Assumptions C18_typed_parse_eval.

(* expressions over variables: every occurrence of a variable contributes the value the store has when the
   evaluation starts - the operator functions of the model are functions of operand VALUES, so an operand is
   never changed by evaluating the expression (tied to /repo by the `var` correspondence cases, which read
   every variable back after the evaluation and evaluate twice) *)
Theorem C18_variables : forall dm alt (s : store) (e : xexpr),
  sy_eval val v_unop (v_binop dm) gen_tables (pr val gen_utok gen_bspell alt (inst s e))
  = Shunting.eval val v_unop (v_binop dm) (inst s e).
Proof. intros dm alt s e. exact (proj1 (C18_typed_parse_eval dm alt (inst s e))). Qed.
Print Assumptions C18_variables.

(* ---- non-vacuity: the hypotheses are satisfiable and the statements say something on real shapes.
   Domain: operator trees in prefix encoding (tr_unop / tr_binop record the tree); 233 = +, 235 = *,
   237 = ^, 234 = -, 211 = NOT *)
Example C18_nonvacuous :
  let L := fun n => Leaf (Ok (tr_leaf n)) in
  let alt := fun _ : bop => false in
  (* 1+2*3 needs no parentheses, (1+2)*3 keeps them, 2^-3 and 2*NOT 3+4 need none, (2^NOT 3)*4 does *)
  tr_pr false false false (Bin Add (L 1) (Bin Mul (L 2) (L 3))) = [tU 1; tO 233; tU 2; tO 235; tU 3]
  /\ tr_pr false false false (Bin Mul (Bin Add (L 1) (L 2)) (L 3))
     = [TLParen; tU 1; tO 233; tU 2; TRParen; tO 235; tU 3]
  /\ tr_pr false false false (Bin Pow (L 2) (Un Neg (L 3))) = [tU 2; tO 237; tO 234; tU 3]
  /\ tr_pr false false false (Bin Mul (L 2) (Un Not (Bin Add (L 3) (L 4))))
     = [tU 2; tO 235; tO 211; tU 3; tO 233; tU 4]
  /\ tr_pr false false false (Bin Mul (Bin Pow (L 2) (Un Not (L 3))) (L 4))
     = [TLParen; tU 2; tO 237; tO 211; tU 3; TRParen; tO 235; tU 4]
  (* the parser on them *)
  /\ tr_enc (tr_parse [tU 1; tO 233; tU 2; tO 235; tU 3]) = [0; 0; 2; 6; 0; 1; 2; 2; 0; 2; 0; 3]
  /\ tr_enc (tr_parse [tU 2; tO 237; tO 211; tU 3; tO 235; tU 4]) = [0; 0; 2; 1; 0; 2; 1; 3; 2; 2; 0; 3; 0; 4]
  (* the recorders satisfy the hypotheses of the generic theorems, and errors do occur in this domain *)
  /\ (forall o a, tr_unop o a <> Host host_IndexError)
  /\ (forall o a b, tr_binop o a b <> Host host_IndexError)
  /\ tr_enc (tr_parse [tU 241; tO 235; tU 1; tO 233; tU 240; tO 235; tU 2]) = [1; 11]
  /\ tr_enc (tr_parse [tU 1; tO 233]) = [1; 22] /\ tr_enc (tr_parse [TLParen; tU 1; tO 233; TRParen]) = [1; 2]
  (* typed values: 1+1 is a single 2, 7\2 an integer 3, "a"+1 a Type mismatch *)
  /\ v_enc (v_parse [tN 0 1; tP 233; tN 0 1]) = [0; 0; 1; 2]
  /\ v_enc (v_parse [tN 0 7; tP 244; tN 0 2]) = [0; 0; 0; 3]
  /\ v_enc (v_parse [tS [97]; tP 233; tN 0 1]) = [1; 13]
  (* precision is observable: 16777216! = 16777217# is false, 3 > 40000# is false (no overflow),
     1 + 16777217# is the double 16777218, 40000# AND 1 overflows *)
  /\ v_enc (v_parse [tN 1 16777216; tP 231; tN 2 16777217]) = [0; 0; 0; 0]
  /\ v_enc (v_parse [tN 0 3; tP 230; tN 2 40000]) = [0; 0; 0; 0]
  /\ v_enc (v_parse [tN 0 1; tP 233; tN 2 16777217]) = [0; 0; 2; 16777218]
  /\ v_enc (v_parse [tN 2 40000; tP 238; tN 0 1]) = [1; 6]
  (* P# * 2 + P# with P# = 3 is the double 9 *)
  /\ v_enc (v_parse (v_pr false false false
        (inst (fun _ => VNum TDbl 3) (XBin Add (XBin Mul (XVar 0) (XLit (VNum TInt 2))) (XVar 0)))))
     = [0; 0; 2; 9].
Proof.
  cbv zeta. repeat split; try (vm_compute; reflexivity).
  - exact tr_unop_no_idx.
  - exact tr_binop_no_idx.

Qed.
