(* C40: where execution continues after a suspended session is unpickled.
   - skip_es       : TokenisedStream.skip_to(END_STATEMENT) on the tokenised byte stream
   - setstate_pos  : the code pointer after Interpreter.__setstate__ (with the D40a fix: the pointer is moved only
                     when the session was suspended while a statement was being executed)
   - setstate_pos_old : the unfixed repositioning (always from current_statement), kept for the refutation
   - a parse-loop machine over an arbitrary statement semantics, with suspend = identity pickling of
     (state, pointer, current_statement, in_statement, redo_on_break) and resume = setstate_pos
   - a segment view of program code (separator + tokens of every statement) to name statement boundaries.
   Token constants come from gen/Gen_state.v (dumped from base/tokens.py). *)
From Coq Require Import ZArith List Bool.
From PCB Require Import lib.Result lib.PyInt gen.Gen_state.
Import ListNotations.
Open Scope Z_scope.

Definition ch_quote : Z := 34.
Definition ch_colon : Z := 58.

Definition is_end (c : Z) : bool := (c =? 0) || (c =? ch_colon).

Fixpoint assoc_default (k : Z) (l : list (Z * Z)) (d : Z) : Z :=
  match l with
  | [] => d
  | (k', v) :: r => if k =? k' then v else assoc_default k r d
  end.
Definition plus_bytes (c : Z) : nat := Z.to_nat (assoc_default c state_tk_plus_bytes 0).

(* number of bytes consumed by skip_to(END_STATEMENT) on the remaining stream l;
   literal/rem are the loop's flags, skip counts bytes still to be read blindly after a PLUS_BYTES lead *)
Fixpoint skip_es (l : list Z) (literal rem : bool) (skip : nat) : nat :=
  match l with
  | [] => O
  | c :: r =>
      match skip with
      | S k => S (skip_es r literal rem k)
      | O =>
          let literal1 := if c =? ch_quote then negb literal else if c =? state_tk_REM then literal
                          else if c =? 0 then false else literal in
          let rem1 := if c =? ch_quote then rem else if (c =? state_tk_REM) && negb literal then true
                      else if c =? 0 then false else rem in
          if literal1 || rem1 then S (skip_es r literal1 rem1 O)
          else if is_end c then O
          else S (skip_es r literal1 rem1 (plus_bytes c))
      end
  end.

(* ins.seek(cur); if ins.read(1) in END_LINE: ins.read(4) *)
Definition after_marker (code : list Z) (cur : nat) : nat :=
  match nth_error code cur with
  | None => cur
  | Some c => if c =? 0 then Nat.min (cur + 5) (length code) else S cur
  end.

Definition reposition (code : list Z) (redo : bool) (cur : nat) : nat :=
  if redo then cur
  else let p1 := after_marker code cur in (p1 + skip_es (skipn p1 code) false false O)%nat.

(* fixed Interpreter.__setstate__ *)
Definition setstate_pos (code : list Z) (in_stmt redo : bool) (cur pos : nat) : nat :=
  if in_stmt then reposition code redo cur else pos.

(* Interpreter.__setstate__ before the fix *)
Definition setstate_pos_old (code : list Z) (redo : bool) (cur pos : nat) : nat :=
  reposition code redo cur.

(* Z interface for the harness: [position after resume] *)
Definition setstate_posZ (code : list Z) (in_stmt redo : Z) (cur pos : Z) : list Z :=
  [Z.of_nat (setstate_pos code (z2b in_stmt) (z2b redo) (Z.to_nat cur) (Z.to_nat pos))].

(* ---------- the parse loop over an arbitrary statement semantics ---------- *)
Section Machine.
  Variable S : Type.
  (* one loop iteration started at code pointer p: None = the program ended, otherwise new state and pointer
     (any jump allowed) *)
  Variable exec : S -> nat -> option (S * nat).

  Record istate := IS { st : S; ptr : nat; cur_stmt : nat; in_stmt : bool; redo_flag : bool }.

  (* run at most n statements from a statement boundary; the trace lists the pointers at which statements
     were started; the result is again at a boundary (parse() clears in_statement at the top of the loop) *)
  Fixpoint run (n : nat) (s : istate) : list nat * istate :=
    match n with
    | O => ([], s)
    | Datatypes.S n' =>
        let p := ptr s in
        match exec (st s) p with
        | None => ([], IS (st s) p p false false)
        | Some (s', p') =>
            let (t, f) := run n' (IS s' p' p false false) in (p :: t, f)
        end
    end.

  (* Session.suspend + Session.resume: pickling is the identity on the modelled state; unpickling repositions *)
  Definition resume (code : list Z) (s : istate) : istate :=
    IS (st s) (setstate_pos code (in_stmt s) (redo_flag s) (cur_stmt s) (ptr s))
       (cur_stmt s) (in_stmt s) (redo_flag s).

  Definition resume_old (code : list Z) (s : istate) : istate :=
    IS (st s) (setstate_pos_old code (redo_flag s) (cur_stmt s) (ptr s))
       (cur_stmt s) (in_stmt s) (redo_flag s).
End Machine.

(* ---------- statements as segments of the code stream ---------- *)
Inductive tok :=
| TPlain (b : Z)                       (* one byte that is no separator, quote, REM or multi-byte lead *)
| TMulti (lead : Z) (pay : list Z)     (* number constant / two-byte keyword: lead byte + PLUS_BYTES[lead] bytes *)
| TStr (s : list Z).                   (* closed string literal *)

Definition tok_bytes (t : tok) : list Z :=
  match t with
  | TPlain b => [b]
  | TMulti lead pay => lead :: pay
  | TStr s => ch_quote :: s ++ [ch_quote]
  end.

(* one statement: its leading separator (":" or NUL + 4 bytes link/line number), its tokens, and an optional
   remark (REM token + text up to the end of the line) *)
Record seg := Seg { s_sep : list Z; s_toks : list tok; s_rem : option (list Z) }.

Definition seg_body (g : seg) : list Z :=
  flat_map tok_bytes (s_toks g) ++ match s_rem g with Some r => state_tk_REM :: r | None => [] end.
Definition seg_bytes (g : seg) : list Z := s_sep g ++ seg_body g.

Definition terminator : list Z := [0; 0; 0].
Definition render (segs : list seg) : list Z := flat_map seg_bytes segs ++ terminator.

(* offset of statement k (k = length segs: the program terminator) *)
Definition start (segs : list seg) (k : nat) : nat := length (flat_map seg_bytes (firstn k segs)).

Definition plainb (b : Z) : bool :=
  negb (b =? 0) && negb (b =? ch_colon) && negb (b =? ch_quote) && negb (b =? state_tk_REM)
  && Nat.eqb (plus_bytes b) O.
Definition strb (c : Z) : bool := negb (c =? 0) && negb (c =? ch_quote).

Definition wf_tok (t : tok) : bool :=
  match t with
  | TPlain b => plainb b
  | TMulti lead pay => negb (is_end lead) && negb (lead =? ch_quote) && negb (lead =? state_tk_REM)
                       && Nat.eqb (plus_bytes lead) (length pay)
  | TStr s => forallb strb s
  end.

Definition is_line_sep (sep : list Z) : bool :=
  match sep with 0 :: h => Nat.eqb (length h) 4 | _ => false end.
Definition wf_sep (sep : list Z) : bool :=
  is_line_sep sep || match sep with [c] => c =? ch_colon | _ => false end.

Definition wf_seg (g : seg) : bool :=
  wf_sep (s_sep g) && forallb wf_tok (s_toks g)
  && match s_rem g with Some r => forallb (fun c => negb (c =? 0)) r | None => true end.

(* a remark runs to the end of the line: the next statement (if any) starts a new line *)
Fixpoint wf_segs (l : list seg) : bool :=
  match l with
  | [] => true
  | g :: r =>
      wf_seg g && wf_segs r &&
      match s_rem g, r with
      | Some _, g' :: _ => is_line_sep (s_sep g')
      | _, _ => true
      end
  end.

(* harness interface: resumed code pointers for a list of suspension points (in_stmt, redo, cur, ptr) *)
Definition setstate_all (code : list Z) (pts : list (Z * Z * Z * Z)) : list Z :=
  flat_map (fun q => match q with (i, r, c, p) => setstate_posZ code i r c p end) pts.
