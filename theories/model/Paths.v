(* C27 / C28: executable model of name and path resolution in pcbasic/basic/devices/disk.py (DiskDevice) and of
   the statement layer in devices/files.py, AS REPAIRED by fixes/D9.patch and fixes/D27a.patch.

   A native path is (drive letter, list of components below that drive's mount root); os.path.join of a path
   and a component appends the component.  Every function runs in a writer monad that records the host
   operations it issues (os.path.isdir/isfile/exists, os.listdir, io.open, os.mkdir/rmdir/remove/rename,
   statvfs) together with their paths.  ntpath.normpath and ntpath.split are ARBITRARY functions (Section
   variables without hypotheses); the host is a record of arbitrary oracles.  NO proofs here. *)
From Coq Require Import ZArith List Bool.
From PCB Require Import lib.Result lib.PyInt lib.Harness gen.Gen_dosnames model.DosNames.
Import ListNotations.
Open Scope Z_scope.

(* ---------- native paths, safe components, host operations ---------- *)
Definition npath : Type := Z * list str.
Definition pjoin (p : npath) (c : str) : npath := (fst p, snd p ++ [c]).

Definition safe (c : str) : Prop :=
  c <> [] /\ c <> s_dot /\ c <> s_dotdot /\ ~ In c_slash c /\ ~ In 0 c.
Definition safeb (c : str) : bool :=
  negb (seqb c []) && negb (seqb c s_dot) && negb (seqb c s_dotdot) && negb (mem c_slash c) && negb (mem 0 c).
Definition path_safe (p : npath) : Prop := Forall safe (snd p).

Inductive hostop : Type :=
| HIsdir (p : npath)
| HIsfile (p : npath)
| HExists (p : npath)
| HListdir (p : npath)
| HOpen (p : npath) (mode : Z)      (* mode: 114 'r', 119 'w', 43 'r+', 97 'a' *)
| HMkdir (p : npath)
| HRmdir (p : npath)
| HRemove (p : npath)
| HRename (p q : npath)
| HStatvfs (p : npath).

Definition op_paths (o : hostop) : list npath :=
  match o with
  | HIsdir p | HIsfile p | HExists p | HListdir p | HOpen p _ | HMkdir p | HRmdir p | HRemove p
  | HStatvfs p => [p]
  | HRename p q => [p; q]
  end.
Definition op_safe (o : hostop) : Prop := Forall path_safe (op_paths o).
Definition trace_safe (t : list hostop) : Prop := Forall op_safe t.

(* the host: arbitrary oracles.  h_listdir: Ok names | Err e (the BASIC error handle_oserror maps the OS
   error to).  h_try: outcome of an operation that can fail: None = success, Some e = BASIC error e. *)
Record host : Type := {
  h_isdir : npath -> bool;
  h_isfile : npath -> bool;
  h_exists : npath -> bool;
  h_listdir : npath -> res (list str);
  h_try : hostop -> option Z
}.
(* the contract on directory listings: os.listdir returns names of directory entries *)
Definition host_ok (h : host) : Prop := forall p l, h_listdir h p = Ok l -> Forall safe l.

(* ---------- writer monad ---------- *)
Definition M (A : Type) : Type := (list hostop * res A)%type.
Definition ret {A} (a : A) : M A := ([], Ok a).
Definition failE {A} (e : Z) : M A := ([], Err e).
Definition lift {A} (r : res A) : M A := ([], r).
Definition tell (o : hostop) : M unit := ([o], Ok tt).
Definition bindM {A B} (m : M A) (f : A -> M B) : M B :=
  match snd m with
  | Ok a => (fst m ++ fst (f a), snd (f a))
  | Err e => (fst m, Err e)
  | Host x => (fst m, Host x)
  | OutOfFuel => (fst m, OutOfFuel)
  end.
Notation "'do!' x <-- m ;; k" := (bindM m (fun x => k))
  (at level 200, x name, m at level 100, k at level 200, right associativity).
Notation "'do!' ' pat <-- m ;; k" := (bindM m (fun x => match x with pat => k end))
  (at level 200, pat pattern, m at level 100, k at level 200, right associativity).

(* drive state and interpreter state *)
Record dstate : Type := { ds_mounted : bool; ds_cwd : list str }.
Record state : Type := { st_cur : Z; st_drives : list (Z * dstate) }.
Fixpoint find_drive (l : Z) (ds : list (Z * dstate)) : dstate :=
  match ds with
  | [] => {| ds_mounted := false; ds_cwd := [] |}
  | (k, d) :: r => if k =? l then d else find_drive l r
  end.
Definition get_drive (s : state) (l : Z) : dstate := find_drive l (st_drives s).
Fixpoint set_drive (l : Z) (d : dstate) (ds : list (Z * dstate)) : list (Z * dstate) :=
  match ds with
  | [] => [(l, d)]
  | (k, d') :: r => if k =? l then (k, d) :: r else (k, d') :: set_drive l d r
  end.
Definition set_cwd (s : state) (l : Z) (cwd : list str) : state :=
  {| st_cur := st_cur s;
     st_drives := set_drive l {| ds_mounted := ds_mounted (get_drive s l); ds_cwd := cwd |} (st_drives s) |}.

Inductive stmt : Type :=
| SChdir (s : str)
| SMkdir (s : str)
| SRmdir (s : str)
| SKill (s : str)
| SName (a b : str)
| SFiles (s : option str)
| SOpen (s : str) (mode : Z) (program : bool).
   (* OPEN: mode 73 I / 79 O / 65 A / 82 R, program = false;
      LOAD, RUN, CHAIN, MERGE, BLOAD: mode I, program = true; SAVE, BSAVE: mode O, program = true *)

Definition s_BAS : str := [66; 65; 83].
Definition E_nondisk : Z := -2.   (* a device that is not a disk drive: outside this model *)

Definition ends_single_dot (n : str) : bool :=
  match rev n with
  | c :: r => (c =? c_dot) && negb (mem c_dot r)
  | [] => false
  end.

(* D9 repair: what _get_native_name refuses to look up *)
Definition bad_component (n : str) : bool :=
  seqb n [] || is_special n || mem c_slash n || mem c_bslash n.

Fixpoint strip_leading (cwd : list str) (elems : list str) : list str * list str :=
  match elems with
  | [] => (cwd, [])
  | e :: r =>
      if seqb e [] || seqb e s_dot then strip_leading cwd r
      else if seqb e s_dotdot then strip_leading (removelast cwd) r
      else (cwd, elems)
  end.

(* insertion-ordered dict built by a comprehension: later keys overwrite in place *)
Fixpoint dict_set (k v : str) (d : list (str * str)) : list (str * str) :=
  match d with
  | [] => [(k, v)]
  | (k', v') :: r => if seqb k k' then (k, v) :: r else (k', v') :: dict_set k v r
  end.
Definition dict_from (l : list (str * str)) : list (str * str) :=
  fold_left (fun d kv => dict_set (fst kv) (snd kv) d) l [].

Section Host.
Variable normpath : str -> str.          (* ntpath.normpath: arbitrary *)
Variable ntsplit : str -> str * str.     (* ntpath.split: arbitrary *)
Variable h : host.

(* istype(): os.path.isdir / isfile of join(path, name); a name with a NUL never reaches the OS *)
Definition istype (p : npath) (n : str) (isdir : bool) : M bool :=
  if mem 0 n then ret false
  else if isdir then (do! _ <-- tell (HIsdir (pjoin p n)) ;; ret (h_isdir h (pjoin p n)))
  else (do! _ <-- tell (HIsfile (pjoin p n)) ;; ret (h_isfile h (pjoin p n))).

(* the loop of dos_to_native_name over sorted(os.listdir()) *)
Fixpoint scan_names (p : npath) (dosname : str) (isdir : bool) (l : list str) : M (option str) :=
  match l with
  | [] => ret None
  | f :: r =>
      if is_ascii f && dos_is_legal_name f && seqb (dos_normalise_name f) dosname then
        do! b <-- istype p f isdir ;;
        if b then ret (Some f) else scan_names p dosname isdir r
      else scan_names p dosname isdir r
  end.

Definition dos_to_native_name (p : npath) (dosname : str) (isdir : bool) : M (option str) :=
  if negb (is_ascii dosname) then ret None
  else
    do! b <-- istype p dosname isdir ;;
    if b then ret (Some dosname)
    else
      do! _ <-- tell (HListdir p) ;;
      match h_listdir h p with
      | Ok l => scan_names p dosname isdir (sort_str l)
      | _ => ret None
      end.

(* _get_native_name after the name has been stripped and checked *)
Definition native_name_core (p : npath) (n : str) (isdir create : bool) : M str :=
  let name_err := if isdir then dn_E_PATH_NOT_FOUND else dn_E_FILE_NOT_FOUND in
  do! b <-- istype p (to_uni n) isdir ;;
  if b then ret (to_uni n)
  else
    let norm := dos_normalise_name n in
    if negb (dos_is_legal_name norm) then failE dn_E_BAD_FILE_NAME
    else
      do! r <-- dos_to_native_name p norm isdir ;;
      match r with
      | Some (c :: f) => ret (c :: f)
      | _ => if create then ret norm else failE name_err
      end.

Definition get_native_name (p : npath) (dos_name defext : str) (isdir create : bool) : M str :=
  let name_err := if isdir then dn_E_PATH_NOT_FOUND else dn_E_FILE_NOT_FOUND in
  if negb (seqb dos_name (lstrip dos_name)) then failE name_err
  else
    let n := defext_name dos_name defext in
    if bad_component n then failE name_err
    else if ends_single_dot n then
      do! b <-- istype p (to_uni n) isdir ;;
      if b then ret (to_uni n) else native_name_core p (removelast n) isdir create
    else native_name_core p n isdir create.

(* the function as it was BEFORE fixes/D9.patch (no bad_component test): only used to state the defect *)
Definition get_native_name_unrepaired (p : npath) (dos_name defext : str) (isdir create : bool) : M str :=
  let name_err := if isdir then dn_E_PATH_NOT_FOUND else dn_E_FILE_NOT_FOUND in
  if negb (seqb dos_name (lstrip dos_name)) then failE name_err
  else
    let n := defext_name dos_name defext in
    if ends_single_dot n then
      do! b <-- istype p (to_uni n) isdir ;;
      if b then ret (to_uni n) else native_name_core p (removelast n) isdir create
    else native_name_core p n isdir create.

Fixpoint walk (p : npath) (elems : list str) : M npath :=
  match elems with
  | [] => ret p
  | e :: r => do! c <-- get_native_name p e [] true false ;; walk (pjoin p c) r
  end.

Definition get_native_reldir (l : Z) (d : dstate) (dospath : str) : M (list str) :=
  if mem c_slash dospath then failE dn_E_BAD_FILE_NUMBER
  else if negb (ds_mounted d) then failE dn_E_PATH_NOT_FOUND
  else
    let cwd0 := match dospath with c :: _ => if c =? c_bslash then [] else ds_cwd d | [] => ds_cwd d end in
    let '(cwd1, elems) := strip_leading cwd0 (split_on c_bslash (normpath dospath)) in
    do! p <-- walk (l, cwd1) elems ;; ret (snd p).

Definition get_native_abspath (l : Z) (d : dstate) (path defext : str) (isdir create : bool) : M npath :=
  let '(dirname, name) := ntsplit path in
  do! rel <-- get_native_reldir l d dirname ;;
  match name with
  | [] => ret (l, rel)
  | _ :: _ => do! c <-- get_native_name (l, rel) name defext isdir create ;; ret (pjoin (l, rel) c)
  end.

Definition try_op (o : hostop) : M unit :=
  do! _ <-- tell o ;; match h_try h o with None => ret tt | Some e => failE e end.

(* any BASIC error while resolving the directory part becomes File not found; the trace is kept *)
Definition split_pathmask (l : Z) (d : dstate) (pathmask : str) : M (npath * str) :=
  if mem c_slash pathmask then failE dn_E_FILE_NOT_FOUND
  else
    let '(dospath, mask) := ntsplit pathmask in
    let r := get_native_reldir l d dospath in
    match snd r with
    | Ok rel => (fst r, Ok ((l, rel), mask))
    | Err _ => (fst r, Err dn_E_FILE_NOT_FOUND)
    | Host x => (fst r, Host x)
    | OutOfFuel => (fst r, OutOfFuel)
    end.

Fixpoint filter_dirs (p : npath) (names : list str) : M (list str) :=
  match names with
  | [] => ret []
  | n :: r =>
      do! _ <-- tell (HIsdir (pjoin p n)) ;;
      do! rest <-- filter_dirs p r ;;
      ret (if h_isdir h (pjoin p n) then n :: rest else rest)
  end.
Fixpoint filter_files (p : npath) (names : list str) : M (list str) :=
  match names with
  | [] => ret []
  | n :: r =>
      do! _ <-- tell (HExists (pjoin p n)) ;;
      do! keep <-- (if h_exists h (pjoin p n)
                then (do! _ <-- tell (HIsdir (pjoin p n)) ;; ret (negb (h_isdir h (pjoin p n))))
                else ret false) ;;
      do! rest <-- filter_files p r ;;
      ret (if keep then n :: rest else rest)
  end.
(* _get_dirs_files: names (the code keeps full paths; their basenames are these) *)
Definition dirs_files (p : npath) : M (list str * list str) :=
  do! _ <-- tell (HListdir p) ;;
  match h_listdir h p with
  | Ok l => do! ds <-- filter_dirs p l ;; do! fs <-- filter_files p l ;; ret (ds, fs)
  | Err e => failE e
  | Host x => ([], Host x)
  | OutOfFuel => ([], OutOfFuel)
  end.

(* the internal drive @: (InternalDiskDevice) when it is not mounted: _split_pathmask / _get_dirs_files are
   overridden and touch no host path; there are no bound files in the modelled sessions *)
Definition internal_unmounted (l : Z) (d : dstate) : bool := (l =? 64) && negb (ds_mounted d).

Definition listdir (l : Z) (d : dstate) (pathmask : str) : M (list str) :=
  if internal_unmounted l d then
    let mask := match upper pathmask with [] => [42; 46; 42] | _ :: _ => upper pathmask end in
    if is_special mask then ret [format_entry true ([], [])]
    else ret (map (format_entry true) (filter_names [s_dot; s_dotdot] mask))
  else
  do! '(dir, mask) <-- split_pathmask l d pathmask ;;
  if is_special mask then ret [format_entry true ([], [])]
  else
    do! '(dirs, fils) <-- dirs_files dir ;;
    let dirs := filter (fun n => negb (is_hidden n)) dirs in
    let fils := filter (fun n => negb (is_hidden n)) fils in
    ret (map (format_entry true) (filter_names (dirs ++ [s_dot; s_dotdot]) mask)
         ++ map (format_entry false) (filter_names fils mask)).

Fixpoint remove_all (dir : npath) (names : list str) : M unit :=
  match names with
  | [] => ret tt
  | n :: r => do! _ <-- try_op (HRemove (pjoin dir n)) ;; remove_all dir r
  end.

Definition kill_table (files : list str) : list (str * str) :=
  dict_from (map (fun n => (display_name n, n)) files).
Definition kill_select (mask : str) (files : list str) : list str :=
  map snd
    (filter (fun kv => dos_is_legal_name (fst kv) && negb (is_hidden (snd kv)))
       (filter (fun kv => dos_mask_matches mask (dos_splitext (fst kv))) (kill_table files))).

(* no file is open in the modelled histories (the harness closes what it opens) *)
Definition kill (l : Z) (d : dstate) (pathmask : str) : M unit :=
  if internal_unmounted l d then failE dn_E_FILE_NOT_FOUND
  else
  do! '(dir, mask) <-- split_pathmask l d pathmask ;;
  do! '(_, files) <-- dirs_files dir ;;
  match kill_select mask files with
  | [] => failE dn_E_FILE_NOT_FOUND
  | ns => remove_all dir ns
  end.

(* open_stream.  When APPEND / RANDOM had to create the file first (and that succeeded), the opens that
   follow are opens of a file that now exists: they are recorded but their outcome is not asked from the
   (pre-statement) host oracle. *)
Definition open_stream (p : npath) (mode : Z) : M unit :=
  do! created <-- (if (mode =? 65) || (mode =? 82) then
           (do! _ <-- tell (HExists p) ;;
            if h_exists h p then ret false else (do! _ <-- try_op (HOpen p 119) ;; ret true))
         else ret false) ;;
  let op (o : hostop) : M unit := if created then tell o else try_op o in
  do! _ <-- (if mode =? 65 then op (HOpen p 43) else ret tt) ;;
  op (HOpen p (if mode =? 73 then 114 else if mode =? 79 then 119 else if mode =? 82 then 43 else 97)).

(* Files._get_diskdevice_and_path (with D27a repaired) *)
Definition split_device (cur : Z) (path : str) : res (Z * str) :=
  match split_first c_colon path with
  | (a, None) => if mem cur dn_drive_letters then Ok (cur, a) else Err dn_E_DEVICE_UNAVAILABLE
  | (a, Some b) =>
      match upper a with
      | [l] => if mem l dn_drive_letters then Ok (l, b) else Err dn_E_DEVICE_UNAVAILABLE
      | _ => Err dn_E_DEVICE_UNAVAILABLE
      end
  end.

(* Files._get_device_param for OPEN-like statements *)
Definition open_device (cur : Z) (name : str) : res (Z * str) :=
  match split_first c_colon name with
  | (a, Some b) =>
      match upper a with
      | [l] => if mem l dn_drive_letters then Ok (l, b) else Err dn_E_BAD_FILE_NUMBER
      | u => if smem u dn_devices then Err E_nondisk else Err dn_E_BAD_FILE_NUMBER
      end
  | (a, None) => if smem name dn_dos_device_files then Err E_nondisk else Ok (cur, name)
  end.

(* one statement: new state and (for FILES) the listing *)
Definition exec (s : state) (st : stmt) : M (state * list str) :=
  let cur := st_cur s in
  match st with
  | SChdir name =>
      match name with [] => failE dn_E_BAD_FILE_NAME | _ :: _ =>
      do! '(l, path) <-- lift (split_device cur name) ;;
      do! rel <-- get_native_reldir l (get_drive s l) path ;;
      ret (set_cwd s l rel, [])
      end
  | SMkdir name =>
      match name with [] => failE dn_E_BAD_FILE_NAME | _ :: _ =>
      do! '(l, path) <-- lift (split_device cur name) ;;
      do! p <-- get_native_abspath l (get_drive s l) path [] true true ;;
      do! _ <-- try_op (HMkdir p) ;; ret (s, [])
      end
  | SRmdir name =>
      match name with [] => failE dn_E_BAD_FILE_NAME | _ :: _ =>
      do! '(l, path) <-- lift (split_device cur name) ;;
      do! p <-- get_native_abspath l (get_drive s l) path [] true false ;;
      do! _ <-- try_op (HRmdir p) ;; ret (s, [])
      end
  | SKill name =>
      match name with [] => failE dn_E_BAD_FILE_NAME | _ :: _ =>
      do! '(l, path) <-- lift (split_device cur name) ;;
      do! _ <-- kill l (get_drive s l) path ;; ret (s, [])
      end
  | SName a b =>
      do! '(l1, p1) <-- lift (split_device cur a) ;;
      do! _ <-- get_native_abspath l1 (get_drive s l1) p1 [] false false ;;
      do! '(l2, p2) <-- lift (split_device cur b) ;;
      if negb (l1 =? l2) then failE dn_E_RENAME_ACROSS_DISKS
      else
        do! old <-- get_native_abspath l1 (get_drive s l1) p1 [] false false ;;
        do! new <-- get_native_abspath l1 (get_drive s l1) p2 [] false true ;;
        do! _ <-- tell (HExists new) ;;
        if h_exists h new then failE dn_E_FILE_ALREADY_EXISTS
        else do! _ <-- try_op (HRename old new) ;; ret (s, [])
  | SFiles arg =>
      match arg with
      | Some [] => failE dn_E_BAD_FILE_NAME
      | _ =>
          let pathmask := match arg with Some m => m | None => [] end in
          do! '(l, path) <-- lift (split_device cur pathmask) ;;
          do! out <-- listdir l (get_drive s l) path ;;
          match out with
          | [] => failE dn_E_FILE_NOT_FOUND
          | _ :: _ =>
              (* get_free: statvfs of the mount root; 0 without a host call on the unmounted internal drive *)
              if internal_unmounted l (get_drive s l) then ret (s, out)
              else do! _ <-- tell (HStatvfs (l, [])) ;; ret (s, out)
          end
      end
  | SOpen name mode program =>
      match name with [] => failE dn_E_BAD_FILE_NUMBER | _ :: _ =>
      do! '(l, spec) <-- lift (open_device cur name) ;;
      let d := get_drive s l in
      if negb (ds_mounted d) then failE dn_E_PATH_NOT_FOUND
      else
        do! p <-- get_native_abspath l d spec (if program then s_BAS else []) false (negb (mode =? 73)) ;;
        do! _ <-- open_stream p mode ;; ret (s, [])
      end
  end.

End Host.

(* a history: every step has its own host (the file system changes between statements) *)
Fixpoint run (normpath : str -> str) (ntsplit : str -> str * str)
             (s : state) (steps : list (host * stmt)) : list (list hostop) * state :=
  match steps with
  | [] => ([], s)
  | (h, st) :: r =>
      let m := exec normpath ntsplit h s st in
      let s' := match snd m with Ok (s', _) => s' | _ => s end in
      let '(ts, sf) := run normpath ntsplit s' r in
      (fst m :: ts, sf)
  end.

Definition state_ok (s : state) : Prop :=
  Forall (fun kd => Forall safe (ds_cwd (snd kd))) (st_drives s).
