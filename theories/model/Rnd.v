(* C39: model of values/randomiser.py (Randomiser) on top of the regenerated integer arithmetic
   (gen/Gen_rnd.v: constants, clear, _cycle, arithmetic tail of reseed).
   Hand-written here (tied by correspondence in harness/C39.py): the byte-level view of the BASIC values
   that RND / RANDOMIZE receive and return, and the dispatch of rnd_ / reseed / randomize_.
   NO proofs in this file. *)
From Coq Require Import ZArith NArith List Bool QArith.
From PCB Require Import lib.Result lib.PyInt gen.Gen_rnd.
Import ListNotations.
Open Scope Z_scope.

(* ---------- generator state = the integer self._seed ---------- *)
Definition seed0 : Z := rnd_clear 0.                 (* Randomiser.__init__ calls clear() *)
Definition cycle (s : Z) : Z := rnd_cycle s.
(* k-fold _cycle(); the count is binary (N), never unary *)
Definition iter_cycle (k : N) (s : Z) : Z := N.iter k rnd_cycle s.

(* ---------- MBF single precision, as its 4 bytes [m0; m1; m2|sign; exponent] ---------- *)
Definition bitlen (a : Z) : Z := if a <=? 0 then 0 else Z.log2 a + 1.

(* Single.from_int(n) for |n| < 2^24 (Integer -> Single conversion; n = 0 -> four zero bytes) *)
Definition single_of_int (n : Z) : list Z :=
  if n =? 0 then [0; 0; 0; 0] else
  let a := Z.abs n in
  let k := bitlen a in
  let m := Z.shiftl a (24 - k) in
  [Z.land m 255; Z.land (Z.shiftr m 8) 255; Z.land (Z.shiftr m 16) 127 + (if n <? 0 then 128 else 0);
   128 + k].

(* bytes of  Single.from_int(seed).idiv(Single.from_int(2^24))  for 0 <= seed < 2^24:
   same mantissa, exponent lowered by 24 *)
Definition rnd_bytes (s : Z) : list Z :=
  if s =? 0 then [0; 0; 0; 0] else
  let k := bitlen s in
  let m := Z.shiftl s (24 - k) in
  [Z.land m 255; Z.land (Z.shiftr m 8) 255; Z.land (Z.shiftr m 16) 127; 128 + k - 24].

Definition sng_byte (f : list Z) (i : nat) : Z := nth i f 0.
Definition sng_is_zero (f : list Z) : bool := sng_byte f 3 =? 0.          (* Float.is_zero *)
Definition sng_is_neg (f : list Z) : bool := 128 <=? sng_byte f 2.        (* Float.is_negative *)
(* |Float.mantissa()| : 24 bits with the implicit leading one *)
Definition sng_mant (f : list Z) : Z :=
  sng_byte f 0 + 256 * sng_byte f 1 + 65536 * (128 + sng_byte f 2 mod 128).
Definition sng_exp (f : list Z) : Z := sng_byte f 3.

(* the rational number a Single denotes: (-1)^sign * mantissa * 2^(exp - 152); exp = 0 is zero *)
Definition sng_valQ (f : list Z) : Q :=
  if sng_is_zero f then 0%Q else
  let m := if sng_is_neg f then - sng_mant f else sng_mant f in
  if sng_exp f <=? 152 then Qmake m (Z.to_pos (2 ^ (152 - sng_exp f)))
  else Qmake (m * 2 ^ (sng_exp f - 152)) 1.

(* Double.to_single(): round to nearest, halves to even; overflow is handled by the float error handler,
   which (console present) continues with the largest single of that sign *)
Definition dbl_to_single (d : list Z) : list Z :=
  let b := fun i => nth i d 0 in
  let exp := b 7%nat in
  let neg := 128 <=? b 6%nat in
  let man := Z.lor (256 * b 4%nat + 65536 * b 5%nat + 16777216 * b 6%nat) 2147483648 + b 3%nat in
  if exp <=? 0 then [0; 0; 0; 0] else
  let lo := man mod 256 in
  let up := (128 <? lo) || ((lo =? 128) && Z.testbit man 8) in
  let man := man - lo + (if up then 256 else 0) in
  let man' := if 4294967296 <=? man then man / 2 else man in
  let exp' := if 4294967296 <=? man then exp + 1 else exp in
  if 255 <? exp' then (if neg then [255; 255; 255; 255] else [255; 255; 127; 255]) else
  let m := man' / 256 in
  [m mod 256; (m / 256) mod 256; (m / 65536) mod 128 + (if neg then 128 else 0); exp'].

(* ---------- BASIC values as seen by RND / RANDOMIZE ---------- *)
Inductive value :=
| VInt (n : Z)            (* Integer, -32768 <= n <= 32767 *)
| VSng (b : list Z)       (* Single, 4 bytes *)
| VDbl (b : list Z)       (* Double, 8 bytes *)
| VStr.                   (* any String *)

(* Value.to_bytes() *)
Definition value_bytes (v : value) : list Z :=
  match v with
  | VInt n => le_encode 2 (n mod 65536)
  | VSng b => b
  | VDbl b => b
  | VStr => []
  end.

(* values.to_single: String -> Type mismatch (13) *)
Definition to_single (v : value) : res (list Z) :=
  match v with
  | VInt n => Ok (single_of_int n)
  | VSng b => Ok b
  | VDbl b => Ok (dbl_to_single b)
  | VStr => Err 13
  end.

(* ---------- reseed: the number taken from the argument's bytes ---------- *)
Definition sint16 (z : Z) : Z := if z <? 32768 then z else z - 65536.      (* struct.unpack('<h') *)
Definition reseed_n (s : list Z) : Z :=
  let f0 := py_nth 0 s (-2) in
  let f1 := py_nth 0 s (-1) in
  let m0 := if 4 <=? zlen s then py_nth 0 s (-4) else 0 in
  let m1 := if 4 <=? zlen s then py_nth 0 s (-3) else 0 in
  sint16 (Z.lxor f0 m0 + 256 * Z.lxor f1 m1).

Definition reseed (s : Z) (bytes : list Z) : Z := rnd_reseed_tail s (reseed_n bytes).

(* ---------- operations ---------- *)
(* Randomiser.rnd_([arg]) : new seed and the bytes of the returned Single *)
Definition rnd_fn (s : Z) (arg : option value) : res (Z * list Z) :=
  match arg with
  | None => let s' := rnd_cycle s in Ok (s', rnd_bytes s')
  | Some v =>
      do f <- to_single v;
      if sng_is_zero f then Ok (s, rnd_bytes s)
      else
        let s1 := if sng_is_neg f then sng_mant f else s in
        let s' := rnd_cycle s1 in Ok (s', rnd_bytes s')
  end.

(* Session.randomize_([arg]) with an argument: String -> Illegal function call (5) *)
Definition randomize_fn (s : Z) (v : value) : res Z :=
  match v with
  | VStr => Err 5
  | _ => Ok (reseed s (value_bytes v))
  end.

(* ---------- several draws combined in one expression ----------
   Every value handed out by RND is a value of its own (seed/2^24 of the seed at that draw), so an expression
   that combines several draws sees the successive sequence values, whatever is still pending on the
   evaluation stack.  Values are represented by their seeds (exact scaling): differences of two values are
   again exactly representable Singles, comparisons are comparisons of the seeds. *)
Inductive xform :=
| XSub                    (* D1 - D2 *)
| XCmp (rel : Z)          (* D1 rel D2 : 0 "=", 1 "<", 2 ">", 3 "<=", 4 ">=", 5 "<>" *)
| XCmpSub (rel : Z).      (* D1 rel (D2 - D3) *)

Definition rel_holds (rel a b : Z) : bool :=
  if rel =? 0 then a =? b else if rel =? 1 then a <? b else if rel =? 2 then b <? a
  else if rel =? 3 then a <=? b else if rel =? 4 then b <=? a else negb (a =? b).

(* the Single (a - b) / 2^24 for 0 <= a, b < 2^24: exact, sign in bit 7 of byte 2 *)
Definition diff_bytes (a b : Z) : list Z :=
  if a =? b then [0; 0; 0; 0] else
  let r := rnd_bytes (Z.abs (a - b)) in
  if a <? b then [sng_byte r 0; sng_byte r 1; sng_byte r 2 + 128; sng_byte r 3] else r.

(* the draws of one expression, left to right: the seed after each draw; an error stops the evaluation with
   the seed reached so far *)
Fixpoint draws (s : Z) (args : list (option value)) : Z * res (list Z) :=
  match args with
  | [] => (s, Ok [])
  | a :: r =>
      match rnd_fn s a with
      | Ok (s1, _) => let '(s2, l) := draws s1 r in (s2, rmap (cons s1) l)
      | Err e => (s, Err e)
      | Host x => (s, Host x)
      | OutOfFuel => (s, OutOfFuel)
      end
  end.

Definition basic_bool (b : bool) : Z := if b then -1 else 0.

Definition expr_result (f : xform) (vals : list Z) : res (list Z) :=
  match f, vals with
  | XSub, [a; b] => Ok (diff_bytes a b)
  | XCmp rel, [a; b] => Ok [basic_bool (rel_holds rel a b)]
  | XCmpSub rel, [a; b; c] => Ok [basic_bool (rel_holds rel a (b - c))]
  | _, _ => Host host_Other
  end.

(* ---------- nested draws: the argument of RND is itself computed from draws ----------
   RND(RND), RND(0*RND), RND(-RND), RND(FNR(2)) with DEF FNR(Q)=RND*Q, two levels deep, ...
   Every node yields a Single; the argument expression is evaluated completely (all its draws made, the seed
   advanced) BEFORE the outer call looks at the seed. *)
Inductive nexp :=
| NPlain                  (* RND *)
| NVal (v : value)        (* RND(v), v an immediate value *)
| NArg (e : nexp)         (* RND(e) *)
| NNeg (e : nexp)         (* -e *)
| NZero (e : nexp)        (* 0*e *)
| NTwice (e : nexp).      (* e*2, FNR(2) *)

Definition neg_bytes (b : list Z) : list Z :=
  [sng_byte b 0; sng_byte b 1; Z.lxor (sng_byte b 2) 128; sng_byte b 3].
Definition twice_bytes (b : list Z) : list Z :=
  if sng_is_zero b then [0; 0; 0; 0] else [sng_byte b 0; sng_byte b 1; sng_byte b 2; sng_byte b 3 + 1].

Definition split_res (s : Z) (r : res (Z * list Z)) : Z * res (list Z) :=
  match r with
  | Ok (s', b) => (s', Ok b)
  | Err e => (s, Err e)
  | Host x => (s, Host x)
  | OutOfFuel => (s, OutOfFuel)
  end.

Fixpoint neval (s : Z) (e : nexp) : Z * res (list Z) :=
  match e with
  | NPlain => split_res s (rnd_fn s None)
  | NVal v => split_res s (rnd_fn s (Some v))
  | NArg e' =>
      let '(s1, r) := neval s e' in
      match r with
      | Ok b => split_res s1 (rnd_fn s1 (Some (VSng b)))     (* the outer call starts from s1 *)
      | _ => (s1, r)
      end
  | NNeg e' => let '(s1, r) := neval s e' in (s1, rmap neg_bytes r)
  | NZero e' => let '(s1, r) := neval s e' in (s1, rmap (fun _ => [0; 0; 0; 0]) r)
  | NTwice e' => let '(s1, r) := neval s e' in (s1, rmap twice_bytes r)
  end.

Inductive op :=
| ORnd (arg : option value)     (* RND, RND(x) *)
| ORandomize (v : value)        (* RANDOMIZE x *)
| OClear                        (* CLEAR / RUN / NEW: Randomiser.clear() *)
| OExpr (f : xform) (args : list (option value))    (* an expression combining several draws *)
| ONest (e : nexp).                                 (* an expression with nested draws *)

(* one operation: new seed (unchanged on error) and what the caller observes *)
Definition step (s : Z) (o : op) : Z * res (list Z) :=
  match o with
  | ORnd arg =>
      match rnd_fn s arg with
      | Ok (s', b) => (s', Ok b)
      | Err e => (s, Err e)
      | Host x => (s, Host x)
      | OutOfFuel => (s, OutOfFuel)
      end
  | ORandomize v =>
      match randomize_fn s v with
      | Ok s' => (s', Ok [])
      | Err e => (s, Err e)
      | Host x => (s, Host x)
      | OutOfFuel => (s, OutOfFuel)
      end
  | OClear => (rnd_clear s, Ok [])
  | OExpr f args => let '(s', r) := draws s args in (s', bind r (expr_result f))
  | ONest e => neval s e
  end.

(* final seed of a history *)
Fixpoint exec (s : Z) (ops : list op) : Z :=
  match ops with
  | [] => s
  | o :: r => exec (fst (step s o)) r
  end.

(* everything observable in a history: per operation the encoded result followed by the seed *)
Fixpoint trace (s : Z) (ops : list op) : list Z :=
  match ops with
  | [] => []
  | o :: r => let '(s', out) := step s o in enc_res out ++ [s'] ++ trace s' r
  end.

(* ---------- arguments handed over in variables ----------
   The argument of RND / RANDOMIZE may be a variable or array element; the callee then works on (a view of)
   the variable itself.  The store of variables is threaded through every operation so that "the operation
   leaves its argument alone" is a statement about the model and an observation of the correspondence. *)
Inductive vop :=
| VRnd (i : nat)           (* RND(X) with X the i-th variable *)
| VRandomize (i : nat)     (* RANDOMIZE X *)
| VOp (o : op).            (* an operation with an immediate argument (literal / expression) or none *)

Definition var_get (st : list value) (i : nat) : value := nth i st VStr.

Definition vop_op (st : list value) (o : vop) : op :=
  match o with
  | VRnd i => ORnd (Some (var_get st i))
  | VRandomize i => ORandomize (var_get st i)
  | VOp o' => o'
  end.

(* one operation on (seed, variables): no operation of the generator assigns to a variable *)
Definition vstep (s : Z) (st : list value) (o : vop) : (Z * list value) * res (list Z) :=
  let '(s', out) := step s (vop_op st o) in ((s', st), out).

Fixpoint vexec (s : Z) (st : list value) (ops : list vop) : Z * list value :=
  match ops with
  | [] => (s, st)
  | o :: r => let '((s', st'), _) := vstep s st o in vexec s' st' r
  end.

(* what is observed of the variable used by an operation, after the operation: its bytes *)
Definition var_obs (st : list value) (o : vop) : list Z :=
  match o with
  | VRnd i | VRandomize i => let b := value_bytes (var_get st i) in zlen b :: b
  | VOp _ => []
  end.

Fixpoint vtrace (s : Z) (st : list value) (ops : list vop) : list Z :=
  match ops with
  | [] => []
  | o :: r => let '((s', st'), out) := vstep s st o in
              enc_res out ++ [s'] ++ var_obs st' o ++ vtrace s' st' r
  end.

(* the values handed out so far (bytes of every successful RND / RND(x) call, in order): what a caller that kept
   them all still holds at the end of the history *)
Fixpoint vheld (s : Z) (st : list value) (ops : list vop) : list Z :=
  match ops with
  | [] => []
  | o :: r =>
      let '((s', st'), out) := vstep s st o in
      match vop_op st o, out with
      | ORnd _, Ok b => b ++ vheld s' st' r
      | _, _ => vheld s' st' r
      end
  end.

(* ---------- harness helpers (correspondence sweeps) ---------- *)
(* checksum of the RND value bytes over the seeds lo, lo+1, ..., lo+n-1 *)
Definition bytes_code (b : list Z) : Z :=
  sng_byte b 0 + 256 * sng_byte b 1 + 65536 * sng_byte b 2 + 16777216 * sng_byte b 3.
Definition scale_sum (lo : Z) (n : N) : list Z :=
  let '(_, a, x) := N.iter n (fun '(s, a, x) =>
        let c := bytes_code (rnd_bytes s) in
        (s + 1, a + c, Z.lxor x (c * (Z.land s 255 + 1)))) (lo, 0, 0) in
  [a; x].

(* walk n steps from s: number of the first step (1-based) at which the walk is back at s (0 = never),
   how many times it came back, and the final seed *)
Definition walk (s : Z) (n : N) : list Z :=
  let '(cur, i, first, cnt) := N.iter n (fun '(cur, i, first, cnt) =>
        let nx := rnd_cycle cur in
        let i' := i + 1 in
        if nx =? s then (nx, i', (if first =? 0 then i' else first), cnt + 1)
        else (nx, i', first, cnt)) (s, 0, 0, 0) in
  [first; cnt; cur].

(* seeds after RANDOMIZE n (Integer argument) from seed s, for n = lo .. lo+cnt-1 *)
Definition randomize_ints (s lo : Z) (cnt : nat) : list Z :=
  map (fun i => reseed s (value_bytes (VInt (lo + Z.of_nat i)))) (seq 0 cnt).
