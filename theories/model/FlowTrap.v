(* C21: reference semantics of error trapping.

   Every statement is a total function `pstep` that either succeeds or raises error n (model/Flow.v).  The
   reference semantics runs a program in one of two modes and says, in terms of the mode alone, what a raised
   error and what the trapping statements do:

     main mode       a raised error c of statement i, with a handler line set: ERR = c, ERL = the line of the
                     error position, and the handler runs (handler mode, remembering i); without a handler
                     the program stops with the message of c and that line.
                     RESUME: stops with RESUME without error.  End of program: finished.
     handler mode i  a raised error stops the program with its message (no trapping inside a handler).
                     RESUME: back to main mode at statement i;  RESUME NEXT: at the statement after i;
                     RESUME n: at line n (an undefined line is an error of the RESUME statement, raised in
                     main mode).  ON ERROR GOTO 0: stops with the message of the error being handled.
                     End of program: stops with No RESUME.

   Unlike the machine (`step`) it has no error_handle_mode / error_resume registers that the statements
   consult: the mode is the structure of the run.  (The registers are still written, never read, so that the
   two states can be compared by equality.)
   No proofs in this file. *)
From Coq Require Import ZArith List Bool.
From PCB Require Import gen.Gen_flow model.Flow.
Import ListNotations.
Open Scope Z_scope.

Inductive mode := MMain | MHandler (i : nat).

Inductive rres := RGo (m : mode) (st : state) (out : list Z) | RHalt (o : outcome).

(* ERR, ERL *)
Definition set_err (st : state) (c l : Z) : state :=
  let d := ds st in
  set_ds st {| env := env d; err := c; erl := l; onerr := onerr d; handling := handling d;
               resume_at := resume_at d; susp := susp d |}.

(* the registers the machine keeps for the mode (written only) *)
Definition with_mode (st : state) (m : mode) : state :=
  let d := ds st in
  set_ds st {| env := env d; err := err d; erl := erl d; onerr := onerr d;
               handling := match m with MMain => false | MHandler _ => true end;
               resume_at := match m with MMain => None | MHandler i => Some i end;
               susp := susp d |}.

(* ON ERROR GOTO 0 outside a handler *)
Definition clear_handler (st : state) : state :=
  let d := ds st in
  set_ds st {| env := env d; err := err d; erl := erl d; onerr := 0; handling := handling d;
               resume_at := resume_at d; susp := false |}.

(* error c raised in main mode by statement i with the stream at epos *)
Definition raise_main (code : list stmt) (st : state) (i : nat) (c : Z) (epos : nat) : rres :=
  let l := line_of code epos in
  if onerr (ds st) =? 0 then RHalt (Stopped c l)
  else
    match find_line code (onerr (ds st)) with
    | Some h => RGo (MHandler i) (set_pc (with_mode (set_err st c l) (MHandler i)) h) []
    | None => RHalt (Stopped flow_E_UNDEFINED_LINE_NUMBER 65535)
    end.

Definition ref_step (code : list stmt) (m : mode) (st : state) : rres :=
  let i := pc st in
  let plain :=
    match pstep code st with
    | PGo st' out => RGo m st' out
    | PHalt o => RHalt o
    | PRaise st' c epos =>
        match m with
        | MMain => raise_main code st' i c epos
        | MHandler _ => RHalt (Stopped c (line_of code epos))
        end
    end in
  match nth_error code i with
  | Some (SResume r) =>
      match m with
      | MMain => RHalt (Stopped flow_E_RESUME_WITHOUT_ERROR (line_of code i))
      | MHandler p =>
          let st1 := with_mode (set_err st 0 (erl (ds st))) MMain in
          match r with
          | RSame => RGo MMain (set_pc st1 p) []
          | RNext => RGo MMain (set_pc st1 (next_colon code p)) []
          | RLine n =>
              match find_line code n with
              | Some j => RGo MMain (set_pc st1 j) []
              | None => raise_main code st1 i flow_E_UNDEFINED_LINE_NUMBER i
              end
          end
      end
  | Some SEndProg =>
      match m with
      | MMain => RHalt Finished
      | MHandler _ => RHalt (Stopped flow_E_NO_RESUME (line_of code (Nat.pred i)))
      end
  | Some (SOnErrorGoto n) =>
      if n =? 0 then
        match m with
        | MMain => RGo MMain (set_pc (clear_handler st) (S i)) []
        | MHandler _ => RHalt (Stopped (err (ds st)) (erl (ds st)))
        end
      else plain
  | _ => plain
  end.

Fixpoint ref_run (code : list stmt) (fuel : nat) (m : mode) (st : state) : list Z * outcome :=
  match fuel with
  | O => ([], OutOfFuel)
  | S f =>
      match ref_step code m st with
      | RHalt o => ([], o)
      | RGo m' st' out => let (t, o) := ref_run code f m' st' in (out ++ t, o)
      end
  end.
