(* C14: executable model of Program.renum (program.py) and Interpreter.renum_ (interpreter.py), on top of
   model/Program.v.  NO proofs here.

   Models the code WITH the repair fixes/D4.patch (trap lines that are not renumbered keep their number:
   old_to_new.get(line, line)); skip_to as of /repo commit 22fc0dbb (a REM byte inside a string literal is
   a character).

   The three passes of Program.renum:
     1. guards + assignment of old_to_new over the sorted keys >= start
     2. overwrite the line-number fields
     3. `while ins.skip_to_read((tk.T_UINT,)) == tk.T_UINT:` rewrite the payload of every 0E token
        (except after ERROR GOTO when the payload is 0), report missing targets
     4. rebuild the line dict
   Pass 3 is modelled as ONE structural pass over the byte stream that is the state machine of
   TokenisedStream.skip_to (same clauses, same token-length table as Program.skip_to) with the loop body
   inlined where skip_to stops on a 0E byte; each new skip_to call starts with literal = rem = False,
   which is the state in which the 0E byte was found.  A RENUM rejected in the middle of pass 1 has
   already set last_stored to the last assigned number: [reject_last]. *)
From Coq Require Import ZArith List Bool.
From PCB Require Import lib.Result lib.PyInt gen.Gen_program model.Program.
Import ListNotations.
Open Scope Z_scope.

(* ---- pass 1 *)
Fixpoint assign_loop (ks : list Z) (new_line step : Z) : res (list (Z * Z)) :=
  match ks with
  | [] => Ok []
  | k :: r =>
      if (k <? 65536) && (new_line >? 65529) then Err err_IFC
      else if k =? 65536 then Ok []
      else do t <- assign_loop r (new_line + step) step; Ok ((k, new_line) :: t)
  end.

Definition renum_assign (d : list (Z * Z)) (new_line start_line step : Z) : res (list (Z * Z)) :=
  let remaining := filter (fun k => k <? start_line) (keys d) in
  if (match lmax remaining with Some m => new_line <=? m | None => false end) then Err err_IFC
  else assign_loop (sort_Z (filter (fun k => start_line <=? k) (keys d))) new_line step.

(* last_stored after a RENUM that is rejected with Illegal function call: guard 1 fails before anything is
   assigned; guard 2 fails inside the loop, after `self.last_stored = new_line` of the earlier lines *)
Fixpoint assign_last (ks : list Z) (new_line step cur : Z) : Z :=
  match ks with
  | [] => cur
  | k :: r =>
      if (k <? 65536) && (new_line >? 65529) then cur
      else if k =? 65536 then cur
      else assign_last r (new_line + step) step new_line
  end.
Definition reject_last (s : prog) (new_line start_line step : option Z) : Z :=
  let nl := match new_line with Some x => x | None => 10 end in
  let st := match start_line with Some x => x | None => 0 end in
  let sp := match step with Some x => x | None => 10 end in
  if (match step with Some x => x <? 1 | None => false end) then last_stored s
  else
    let remaining := filter (fun k => k <? st) (keys (lines s)) in
    if (match lmax remaining with Some m => nl <=? m | None => false end) then last_stored s
    else assign_last (sort_Z (filter (fun k => st <=? k) (keys (lines s)))) nl sp (last_stored s).

(* ---- pass 2: bytecode.seek(line_numbers[old]); read(3); write(pack('<H', new)) *)
Fixpoint write_numbers (bytes : list Z) (d o2n : list (Z * Z)) : res (list Z) :=
  match o2n with
  | [] => Ok bytes
  | (old, new) :: r =>
      match lookup old d with
      | None => Host host_KeyError
      | Some p => do w <- pack_H new; write_numbers (write_at (p + 3) w bytes) d r
      end
  end.

(* ---- pass 3 *)
(* backskip_blank twice from the 0E byte: [before] = the bytes in front of it, nearest first *)
Fixpoint drop_blanks (l : list Z) : list Z :=
  match l with
  | [] => []
  | c :: r => if member c cs_blanks then drop_blanks r else l
  end.
Definition error_goto_before (before : list Z) : bool :=
  match drop_blanks before with
  | g :: r => (g =? tk_GOTO) && match drop_blanks r with e :: _ => e =? tk_ERROR | [] => false end
  | [] => false
  end.

(* what happens to the payload j of a 0E token; [before] as above *)
Definition exempt (before : list Z) (j : Z) : bool := (j =? 0) && error_goto_before before.
Definition new_jump (o2n : list (Z * Z)) (before : list Z) (j : Z) : Z :=
  if exempt before j then j else match lookup j o2n with Some n => n | None => j end.
Definition reported (d o2n : list (Z * Z)) (before : list Z) (j : Z) : bool :=
  negb (exempt before j) && match lookup j o2n with Some _ => false | None => negb (member j (keys d)) end.

(* One event per 0E token found: (stream position behind the token, payload, reported?) *)
Definition event := (Z * Z * bool)%type.

(* the scan.  [before] = output so far, reversed;  pos = stream position of the head of l;
   lit/rem/skip as in Program.skip_to.  Result: rewritten stream and the events in order. *)
Fixpoint rscan (d o2n : list (Z * Z)) (l : list Z) (before : list Z) (pos : Z) (lit rem : bool) (skip : Z)
  : res (list Z * list event) :=
  match l with
  | [] => Ok ([], [])
  | c :: r =>
      if 0 <? skip then
        do t <- rscan d o2n r (c :: before) (pos + 1) lit rem (skip - 1); Ok (c :: fst t, snd t)
      else
        let lit1 := if c =? 34 then negb lit else if (c =? tk_REM) && negb lit then lit
                    else if c =? 0 then false else lit in
        let rem1 := if c =? 34 then rem else if (c =? tk_REM) && negb lit then true
                    else if c =? 0 then false else rem in
        if lit1 || rem1 then
          do t <- rscan d o2n r (c :: before) (pos + 1) lit1 rem1 0; Ok (c :: fst t, snd t)
        else if c =? tk_T_UINT then
          (* skip_to stops here; skip_to_read reads the 0E; token = ins.read(2) *)
          match r with
          | lo :: hi :: r' =>
              let j := unpack_H lo hi in
              do w <- pack_H (new_jump o2n before j);
              do t <- rscan d o2n r' (rev w ++ c :: before) (pos + 3) false false 0;
              Ok (c :: w ++ fst t, (pos + 3, j, reported d o2n before j) :: snd t)
          | _ => Host host_StructError           (* struct.unpack on a short token *)
          end
        else if c =? 0 then
          match r with
          | a :: b :: r' =>
              if (a =? 0) && (b =? 0) then
                (* end of program: skip_to breaks behind the 00 00 link; skip_to_read reads one more byte *)
                match r' with
                | x :: r'' =>
                    if x =? tk_T_UINT then
                      match r'' with
                      | lo :: hi :: r3 =>
                          let j := unpack_H lo hi in
                          let before' := b :: a :: c :: before in
                          do w <- pack_H (new_jump o2n before' j);
                          do t <- rscan d o2n r3 (rev w ++ x :: before') (pos + 6) false false 0;
                          Ok (c :: a :: b :: x :: w ++ fst t, (pos + 6, j, reported d o2n before' j) :: snd t)
                      | _ => Host host_StructError
                      end
                    else Ok (l, [])
                | [] => Ok (l, [])
                end
              else
                do t <- rscan d o2n r' (b :: a :: c :: before) (pos + 3) false false 2;
                Ok (c :: a :: b :: fst t, snd t)
          | _ => Ok (l, [])
          end
        else
          do t <- rscan d o2n r (c :: before) (pos + 1) lit1 rem1 (tk_plus_bytes c);
          Ok (c :: fst t, snd t)
  end.

(* console.write_line(b'Undefined line %d in %d' % (jumpnum, self.get_line_number(ins.tell()-1))),
   with the line dict as it was before the renumbering *)
Definition reports_of (d : list (Z * Z)) (evs : list event) : list (Z * Z) :=
  flat_map (fun e : event => let '(p, j, rep) := e in if rep then [(j, get_line_number d (p - 1))] else []) evs.

(* ---- pass 4: delete the old keys, then update with the new ones *)
Definition rebuild_dict (d o2n : list (Z * Z)) : list (Z * Z) :=
  let kept := filter (fun kv => negb (member (fst kv) (keys o2n))) d in
  fold_left (fun acc on => match lookup (fst on) d with Some p => dict_set (snd on) p acc | None => acc end)
            o2n kept.

(* ---- Program.renum *)
Record renum_out := { r_prog : prog; r_o2n : list (Z * Z); r_reports : list (Z * Z) }.

Definition renum (s : prog) (new_line start_line step : option Z) : res renum_out :=
  let nl := match new_line with Some x => x | None => 10 end in
  let st := match start_line with Some x => x | None => 0 end in
  let sp := match step with Some x => x | None => 10 end in
  do o2n <- renum_assign (lines s) nl st sp;
  do bytes1 <- write_numbers (code s) (lines s) o2n;
  do t <- rscan (lines s) o2n bytes1 [] 0 false false 0;
  Ok {| r_prog := {| code := fst t; lines := rebuild_dict (lines s) o2n;
                     last_stored := match rev o2n with (_, n) :: _ => n | [] => last_stored s end |};
        r_o2n := o2n;
        r_reports := reports_of (lines s) (snd t) |}.

(* ---- Interpreter.renum_: step check, Program.renum, then the traps follow their lines *)
Definition remap (o2n : list (Z * Z)) (trap : option Z) : option Z :=
  match trap with
  | None => None
  | Some l => if l =? 0 then Some l                                     (* `if self.on_error:` *)
              else Some (match lookup l o2n with Some n => n | None => l end)
  end.

Record traps := { on_error : option Z; gosubs : list (option Z) }.

Definition renum_cmd (s : prog) (tr : traps) (new_line start_line step : option Z) : res (renum_out * traps) :=
  if (match step with Some x => x <? 1 | None => false end) then Err err_IFC
  else
    do r <- renum s new_line start_line step;
    Ok (r, {| on_error := remap (r_o2n r) (on_error tr); gosubs := map (remap (r_o2n r)) (gosubs tr) |}).

(* ---- canonical observation for the harness *)
Definition enc_opt (o : option Z) : Z := match o with Some x => x | None => -1 end.
Definition renum_obs (x : res (renum_out * traps)) : list Z :=
  match x with
  | Ok (r, tr) =>
      0 :: obs (r_prog r)
        ++ (zlen (r_o2n r) :: flat_kv (r_o2n r))
        ++ (zlen (r_reports r) :: flat_kv (r_reports r))
        ++ (enc_opt (on_error tr) :: zlen (gosubs tr) :: map enc_opt (gosubs tr))
  | Err e => [1; e]
  | Host h => [2; h]
  | OutOfFuel => [3]
  end.

(* the same, with last_stored after a rejected command *)
Definition renum_obs_full (s : prog) (tr : traps) (new_line start_line step : option Z) : list Z :=
  match renum_cmd s tr new_line start_line step with
  | Err e => [1; e; reject_last s new_line start_line step]
  | x => renum_obs x
  end.
