(* C27 / C28, correspondence side only: concrete instances of what model/Paths.v leaves abstract -
   ntpath.normpath / ntpath.split / ntpath.splitroot of CPython 3.12 on bytes, a host built from a snapshot of
   the real mount directories (posix-lite outcome rules for the operations that can fail), and the encoders
   of results as list Z.  None of this is used by the theorems of props/C27.v (they hold for every normpath,
   split and host).  NO proofs here. *)
From Coq Require Import ZArith List Bool.
From PCB Require Import lib.Result lib.PyInt lib.Harness gen.Gen_dosnames model.DosNames model.Paths.
Import ListNotations.
Open Scope Z_scope.

(* ---------- ntpath on bytes ---------- *)
Definition nt_norm_seps (p : str) : str := map (fun c => if c =? c_slash then c_bslash else c) p.

(* index of the first c at position >= start *)
Fixpoint find_from (c : Z) (s : str) (start : nat) (i : nat) : option nat :=
  match s with
  | [] => None
  | x :: r =>
      if Nat.leb start i && (x =? c) then Some i else find_from c r start (S i)
  end.

Definition nt_unc_prefix : str := [92; 92; 63; 92; 85; 78; 67; 92].   (* \\?\UNC\ *)

Definition nt_splitroot (p : str) : str * str * str :=
  let normp := nt_norm_seps p in
  match normp with
  | 92 :: 92 :: _ =>
      let start := if seqb (upper (firstn 8 normp)) nt_unc_prefix then 8%nat else 2%nat in
      match find_from c_bslash normp start 0 with
      | None => (p, [], [])
      | Some index =>
          match find_from c_bslash normp (S index) 0 with
          | None => (p, [], [])
          | Some index2 => (firstn index2 p, firstn 1 (skipn index2 p), skipn (S index2) p)
          end
      end
  | 92 :: _ => ([], firstn 1 p, skipn 1 p)
  | _ :: 58 :: 92 :: _ => (firstn 2 p, firstn 1 (skipn 2 p), skipn 3 p)
  | _ :: 58 :: _ => (firstn 2 p, [], skipn 2 p)
  | _ => ([], [], p)
  end.

Fixpoint intercalate (sep : str) (l : list str) : str :=
  match l with
  | [] => []
  | [x] => x
  | x :: r => x ++ sep ++ intercalate sep r
  end.

(* the component loop of normpath as a stack (kept components, most recent first) *)
Fixpoint nt_norm_comps (has_root : bool) (kept : list str) (comps : list str) : list str :=
  match comps with
  | [] => rev kept
  | c :: r =>
      if seqb c [] || seqb c s_dot then nt_norm_comps has_root kept r
      else if seqb c s_dotdot then
        match kept with
        | top :: rest => if seqb top s_dotdot then nt_norm_comps has_root (c :: kept) r
                         else nt_norm_comps has_root rest r
        | [] => if has_root then nt_norm_comps has_root kept r else nt_norm_comps has_root (c :: kept) r
        end
      else nt_norm_comps has_root (c :: kept) r
  end.

Definition nt_normpath (path : str) : str :=
  let path := nt_norm_seps path in
  let '(drive, root, rest) := nt_splitroot path in
  let prefix := drive ++ root in
  let comps := nt_norm_comps (match root with [] => false | _ => true end) [] (split_on c_bslash rest) in
  let comps := match prefix, comps with [], [] => [s_dot] | _, _ => comps end in
  prefix ++ intercalate [c_bslash] comps.

Definition is_sep (c : Z) : bool := (c =? c_bslash) || (c =? c_slash).
Fixpoint strip_seps_l (s : str) : str :=
  match s with
  | c :: r => if is_sep c then strip_seps_l r else s
  | [] => []
  end.
(* longest suffix without separators, and what precedes it *)
Fixpoint tail_nosep (rs : str) (acc : str) : str * str :=   (* rs = reversed string *)
  match rs with
  | [] => ([], acc)
  | c :: r => if is_sep c then (rev rs, acc) else tail_nosep r (c :: acc)
  end.
Definition nt_split (p : str) : str * str :=
  let '(d, r, rest) := nt_splitroot p in
  let '(head, tail) := tail_nosep (rev rest) [] in
  (d ++ r ++ rev (strip_seps_l (rev head)), tail).

(* ---------- a host from a snapshot ---------- *)
(* one entry per existing object below a mount root (the root itself = []):
   (drive letter, components, is_directory, os.listdir order of its entries) *)
Definition entry : Type := (Z * list str * bool * list str)%type.
Definition snapshot : Type := list entry.

Fixpoint strs_eqb (a b : list str) : bool :=
  match a, b with
  | [], [] => true
  | x :: a', y :: b' => seqb x y && strs_eqb a' b'
  | _, _ => false
  end.
Definition npath_eqb (p q : npath) : bool := (fst p =? fst q) && strs_eqb (snd p) (snd q).

Fixpoint lookup (sn : snapshot) (p : npath) : option (bool * list str) :=
  match sn with
  | [] => None
  | (l, cs, d, ls) :: r => if npath_eqb (l, cs) p then Some (d, ls) else lookup r p
  end.
Definition parent (p : npath) : npath := (fst p, removelast (snd p)).
Fixpoint is_prefix (a b : list str) : bool :=
  match a, b with
  | [], _ => true
  | x :: a', y :: b' => seqb x y && is_prefix a' b'
  | _ :: _, [] => false
  end.

Definition sn_isdir (sn : snapshot) (p : npath) : bool :=
  match lookup sn p with Some (d, _) => d | None => false end.
Definition sn_exists (sn : snapshot) (p : npath) : bool :=
  match lookup sn p with Some _ => true | None => false end.
Definition sn_isfile (sn : snapshot) (p : npath) : bool :=
  match lookup sn p with Some (d, _) => negb d | None => false end.
Definition sn_listdir (sn : snapshot) (p : npath) : res (list str) :=
  match lookup sn p with
  | Some (true, ls) => Ok ls
  | Some (false, _) => Err dn_OS_ENOTDIR
  | None => Err dn_OS_ENOENT
  end.
(* ENOENT / ENOTDIR from the directory that should contain p *)
Definition parent_err (sn : snapshot) (p : npath) : option Z :=
  match snd p with
  | [] => None
  | _ :: _ =>
    match lookup sn (parent p) with
    | Some (true, _) => None
    | Some (false, _) => Some dn_OS_ENOTDIR
    | None => Some dn_OS_ENOENT
    end
  end.
Definition sn_try (sn : snapshot) (o : hostop) : option Z :=
  match o with
  | HOpen p mode =>
      if (mode =? 114) || (mode =? 43) then
        match lookup sn p with
        | Some (false, _) => None
        | Some (true, _) => Some dn_OS_EISDIR
        | None => match parent_err sn p with Some e => Some e | None => Some dn_OS_ENOENT end
        end
      else
        match lookup sn p with
        | Some (false, _) => None
        | Some (true, _) => Some dn_OS_EISDIR
        | None => parent_err sn p
        end
  | HMkdir p =>
      match lookup sn p with
      | Some _ => Some dn_OS_EEXIST
      | None => parent_err sn p
      end
  | HRmdir p =>
      match lookup sn p with
      | Some (true, []) => None
      | Some (true, _ :: _) => Some dn_OS_ENOTEMPTY
      | Some (false, _) => Some dn_OS_ENOTDIR
      | None => match parent_err sn p with Some e => Some e | None => Some dn_OS_ENOENT end
      end
  | HRemove p =>
      match lookup sn p with
      | Some (false, _) => None
      | Some (true, _) => Some dn_OS_EISDIR
      | None => match parent_err sn p with Some e => Some e | None => Some dn_OS_ENOENT end
      end
  | HRename p q =>
      match lookup sn p with
      | None => match parent_err sn p with Some e => Some e | None => Some dn_OS_ENOENT end
      | Some (d, _) =>
          if d && is_prefix (snd p) (snd q) then Some dn_OS_EINVAL
          else parent_err sn q
      end
  | _ => None
  end.
Definition sn_host (sn : snapshot) : host :=
  {| h_isdir := sn_isdir sn; h_isfile := sn_isfile sn; h_exists := sn_exists sn;
     h_listdir := sn_listdir sn; h_try := sn_try sn |}.

(* ---------- encoders ---------- *)
Definition enc_path (p : npath) : list Z := fst p :: enc_strs (snd p).
Definition enc_op (o : hostop) : list Z :=
  match o with
  | HIsdir p => 1 :: enc_path p
  | HIsfile p => 2 :: enc_path p
  | HExists p => 3 :: enc_path p
  | HListdir p => 4 :: enc_path p
  | HOpen p m => 5 :: m :: enc_path p
  | HMkdir p => 6 :: enc_path p
  | HRmdir p => 7 :: enc_path p
  | HRemove p => 8 :: enc_path p
  | HRename p q => 9 :: enc_path p ++ enc_path q
  | HStatvfs p => 10 :: enc_path p
  end.
Definition enc_trace (t : list hostop) : list Z := zlen t :: flat_map enc_op t.
Definition enc_status {A} (r : res A) : list Z :=
  match r with Ok _ => [0; 0] | Err e => [1; e] | Host x => [2; x] | OutOfFuel => [3; 0] end.

(* one step against a snapshot: status, trace, listing lines (FILES), then the cwd of every drive *)
Definition enc_cwds (s : state) : list Z :=
  flat_map (fun kd => fst kd :: enc_strs (ds_cwd (snd kd))) (st_drives s).
Fixpoint run_enc (s : state) (steps : list (snapshot * stmt)) : list Z :=
  match steps with
  | [] => enc_cwds s
  | (sn, st) :: r =>
      let m := exec nt_normpath nt_split (sn_host sn) s st in
      let s' := match snd m with Ok (s', _) => s' | _ => s end in
      let out := match snd m with Ok (_, o) => o | _ => [] end in
      enc_status (snd m) ++ enc_trace (fst m) ++ enc_strs out ++ run_enc s' r
  end.

(* the same with "snapshot unchanged since the previous step" written None *)
Fixpoint run_enc_opt (s : state) (last : snapshot) (steps : list (option snapshot * stmt)) : list Z :=
  match steps with
  | [] => enc_cwds s
  | (osn, st) :: r =>
      let sn := match osn with Some x => x | None => last end in
      let m := exec nt_normpath nt_split (sn_host sn) s st in
      let s' := match snd m with Ok (s', _) => s' | _ => s end in
      let out := match snd m with Ok (_, o) => o | _ => [] end in
      enc_status (snd m) ++ enc_trace (fst m) ++ enc_strs out ++ run_enc_opt s' sn r
  end.

(* name-level entry points for C28 *)
Definition enc_mres (m : M str) : list Z :=
  match snd m with Ok s => 0 :: enc_str s | Err e => [1; e] | Host x => [2; x] | OutOfFuel => [3] end.
