(* display/graphics.py GraphicsViewPort (C30, C31): the viewport object as a record; its methods ARE the
   regenerated functions of gen/Gen_viewport.v applied to the record fields (no second hand-written copy of
   the clip arithmetic).  Hand-modelled here: __setitem__ (one line: the funnel into the page matrix),
   set / unset.  NO proofs here (proofs/Viewport_proofs.v). *)
From Coq Require Import ZArith List Bool.
From PCB Require Import lib.Result lib.PyInt lib.GfxPrims gen.Gen_viewport model.Matrix.
Import ListNotations.
Open Scope Z_scope.

Record viewport : Type := VP {
  vp_abs : bool;                        (* _absolute (VIEW SCREEN) *)
  vp_x0 : Z; vp_y0 : Z; vp_x1 : Z; vp_y1 : Z;   (* _rect, absolute screen coordinates, inclusive *)
  vp_maxw : Z; vp_maxh : Z              (* _max_width, _max_height = size of the page pixel matrix *)
}.

Definition wf_vp (vp : viewport) : Prop :=
  0 <= vp_x0 vp <= vp_x1 vp /\ vp_x1 vp < vp_maxw vp /\ 0 <= vp_y0 vp <= vp_y1 vp /\ vp_y1 vp < vp_maxh vp.

Definition wf_vpb (vp : viewport) : bool :=
  (0 <=? vp_x0 vp) && (vp_x0 vp <=? vp_x1 vp) && (vp_x1 vp <? vp_maxw vp)
  && (0 <=? vp_y0 vp) && (vp_y0 vp <=? vp_y1 vp) && (vp_y1 vp <? vp_maxh vp).

(* is the absolute screen position (x, y) inside the viewport rectangle *)
Definition in_rect (vp : viewport) (x y : Z) : Prop :=
  vp_x0 vp <= x <= vp_x1 vp /\ vp_y0 vp <= y <= vp_y1 vp.

Definition on_vp {T} (f : bool -> Z -> Z -> Z -> Z -> Z -> Z -> T) (vp : viewport) : T :=
  f (vp_abs vp) (vp_x0 vp) (vp_y0 vp) (vp_x1 vp) (vp_y1 vp) (vp_maxw vp) (vp_maxh vp).

Definition vp_get_bounds := on_vp viewport_get_bounds.
Definition vp_contains := on_vp viewport_contains.
Definition vp_convert_coords := on_vp viewport_u_convert_coords.
Definition vp_cutoff_coord := on_vp viewport_cutoff_coord.
Definition vp_convert_slice := on_vp viewport_u_convert_slice.

(* GraphicsViewPort.__setitem__: self._pixels[self._convert_slice(index)] = data *)
Definition vp_setitem (vp : viewport) (m : matrix) (rq : wreq) : res matrix :=
  let '(yi, xi) := vp_convert_slice vp (rq_y rq, rq_x rq) in
  mat_setitem m yi xi (rq_data rq).

(* GraphicsViewPort.__getitem__ for a single pixel at viewport coordinates (x, y): absolute position by
   _convert_coords ("single pixel read can go outside of viewport"), then the page cell; None = off the page *)
Definition vp_cell (vp : viewport) (m : matrix) (x y : Z) : option Z :=
  let '(ax, ay) := vp_convert_coords vp x y in cellZ m ay ax.

Fixpoint vp_run (vp : viewport) (m : matrix) (rqs : list wreq) : res matrix :=
  match rqs with
  | [] => Ok m
  | rq :: rest => bind (vp_setitem vp m rq) (fun m' => vp_run vp m' rest)
  end.

(* unset(), set(x0, y0, x1, y1, absolute) *)
Definition vp_unset (vp : viewport) : viewport :=
  VP false 0 0 (vp_maxw vp - 1) (vp_maxh vp - 1) (vp_maxw vp) (vp_maxh vp).

Definition vp_set (vp : viewport) (x0 y0 x1 y1 : Z) (absolute : bool) : viewport :=
  VP absolute (Z.min x0 x1) (Z.min y0 y1) (Z.max x0 x1) (Z.max y0 y1) (vp_maxw vp) (vp_maxh vp).

(* bounds of an index after conversion *)
Definition idx_nonneg (i : idx) : Prop :=
  match i with
  | IInt z => 0 <= z
  | ISlice lo hi => (forall a, lo = Some a -> 0 <= a) /\ (forall b, hi = Some b -> 0 <= b)
  end.

(* the converted slice bounds are non-negative (so that Python does not wrap them to the far edge) *)
Definition nonneg_after_convert (vp : viewport) (rq : wreq) : Prop :=
  let '(yi, xi) := vp_convert_slice vp (rq_y rq, rq_x rq) in idx_nonneg yi /\ idx_nonneg xi.

(* a block write must bring rows of exactly the width of the (clipped) target slice: bytearray slice
   assignment would otherwise resize the row and shift every pixel to the right of it *)
Definition data_fits (vp : viewport) (rq : wreq) : Prop :=
  match rq_data rq with
  | Fill _ => True
  | Block src =>
    let '(yi, xi) := vp_convert_slice vp (rq_y rq, rq_x rq) in
    match xi with
    | ISlice lo hi => let '(a, b) := slice_bounds (vp_maxw vp) lo hi in
                      Forall (fun s => length s = (b - a)%nat) src
    | IInt _ => True
    end
  end.

Definition req_ok (vp : viewport) (rq : wreq) : Prop := nonneg_after_convert vp rq /\ data_fits vp rq.

(* a single-pixel request graph_view[y, x] = attr *)
Definition pixel_req (rq : wreq) : Prop :=
  exists y x a, rq = WReq (IInt y) (IInt x) (Fill a).

Definition pixel_reqb (rq : wreq) : bool :=
  match rq with
  | WReq (IInt _) (IInt _) (Fill _) => true
  | _ => false
  end.
