(* MBF.v - executable model of pcbasic's Microsoft-Binary-Format numbers (values/numbers.py, values.py)

   LAYERS
   1. gen/Gen_mbf.v (regenerated from numbers.py on every run): the class constants
      `Single_consts`, `Double_consts : fconst` and the byte/integer level methods of class Float,
      generic in the constants record: mbf_denormalise, mbf_to_int_den, mbf_to_int, mbf_to_int_truncate,
      mbf_bring_to_range, mbf_check_limits, mbf_from_int, mbf_itrunc, mbf_normalise, mbf_abs_gt, mbf_gt,
      mbf_eq, mbf_add_den, mbf_iadd, mbf_isub, ...; and Integer's int_gt, int_eq.
   2. this file: (a) the byte layout and the VALUE FUNCTION of an encoding, as an exact rational
      written with Z and powers of two; (b) hand-written glue for the few methods that manipulate several
      Python objects (Double.to_single/from_single, Float.ifloor, Integer.from_int/to_int, the
      isinstance dispatch of gt/eq) and for the values.py entry points (to_integer, to_single, to_double,
      CINT/FIX/INT/CSNG/CDBL, MKx$/CVx, HEX$/OCT$, &H/&O, the six relational operators).  The glue is tied
      to the source by correspondence (harness/C03.py, harness/C06.py).
   No proofs here (see proofs/MBF_*.v).

   BYTE LAYOUT (n = size in bytes: 4 single, 8 double; little endian)
        b[0] .. b[n-3]   low mantissa bytes
        b[n-2]           sign bit (0x80) + 7 high mantissa bits
        b[n-1]           exponent byte e; e = 0 means ZERO whatever the other bytes are
   With mbits = 8(n-1) (24 / 56), raw = b[0..n-2] as an integer (0 <= raw < 2^mbits),
        neg  = raw >= 2^(mbits-1)
        man  = raw mod 2^(mbits-1) + 2^(mbits-1)         (hidden bit restored; 2^(mbits-1) <= man < 2^mbits)
        value = (-1)^neg * man * 2^(e - bias),   bias = 128 + mbits (152 / 184)        if e > 0
              = 0                                                                       if e = 0
   VALUE FUNCTION.  `f_sval C b` is the integer  value * 2^bias  = (-1)^neg * man * 2^e.
   `value_scaled v` puts integers, singles and doubles on the common scale 2^184:
        value_scaled v = (exact value of v) * 2^184                     (an integer, so `lia` applies)
   and `value_Q v : Q` is the same value as a rational, value_scaled v / 2^184.                        *)
From Coq Require Import ZArith QArith List Bool.
From PCB Require Import lib.Result lib.PyInt lib.Harness lib.MBFPrims gen.Gen_mbf.
Import ListNotations.
Open Scope Z_scope.

(* ------------------------------------------------------------------------------------------------ *)
(* formats                                                                                          *)

Definition mbits (C : fconst) : Z := 8 * (c_size C - 1).           (* 24 single, 56 double *)

(* the generated constants have the shape all proofs rely on (proved for Single_consts, Double_consts
   by computation in MBF_proofs.v; a changed class constant breaks that proof) *)
Record fmt_ok (C : fconst) : Prop := {
  ok_size : 3 <= c_size C <= 9;
  ok_intsize : c_intsize C = c_size C;
  ok_bias : c_bias C = 128 + mbits C;
  ok_den_mask : c_den_mask C = 2 ^ (mbits C + 7);
  ok_den_upper : c_den_upper C = 2 ^ (mbits C + 8);
  ok_carrymask : c_carrymask C = 2 ^ (mbits C + 8) - 256;
  ok_signmask : c_signmask C = 2 ^ (mbits C - 1);
  ok_mask : c_mask C = 2 ^ mbits C - 1;
  ok_posmask : c_posmask C = 2 ^ (mbits C - 1) - 1;
  ok_pos_max : c_pos_max C = le_encode (Z.to_nat (c_size C - 1)) (2 ^ (mbits C - 1) - 1) ++ [255];
  ok_neg_max : c_neg_max C = le_encode (Z.to_nat (c_size C - 1)) (2 ^ mbits C - 1) ++ [255];
  ok_one : c_one C = le_encode (Z.to_nat (c_size C - 1)) 0 ++ [129]
}.

(* a well-formed buffer of the class: exactly `size` bytes *)
Definition buf_ok (C : fconst) (b : list Z) : Prop := zlen b = c_size C /\ bytes_ok b.
Definition buf_okb (C : fconst) (b : list Z) : bool := (zlen b =? c_size C) && bytesb b.

(* ------------------------------------------------------------------------------------------------ *)
(* byte layout and value of a float encoding                                                        *)

Definition f_exp (b : list Z) : Z := py_nth 0 b (-1).               (* exponent byte *)
Definition f_raw (b : list Z) : Z := le_decode (removelast b).      (* sign bit + stored mantissa bits *)
Definition f_neg (C : fconst) (b : list Z) : bool := 2 ^ (mbits C - 1) <=? f_raw b.
Definition f_man (C : fconst) (b : list Z) : Z :=                   (* mantissa with the hidden bit *)
  f_raw b mod 2 ^ (mbits C - 1) + 2 ^ (mbits C - 1).
Definition f_zero (b : list Z) : bool := f_exp b =? 0.

(* value * 2^bias *)
Definition f_sval (C : fconst) (b : list Z) : Z :=
  if f_zero b then 0 else (if f_neg C b then -1 else 1) * f_man C b * 2 ^ f_exp b.

(* the encoding with sign neg, exponent byte e (1..255) and mantissa m (2^(mbits-1) <= m < 2^mbits) *)
Definition f_encode (C : fconst) (neg : bool) (e m : Z) : list Z :=
  le_encode (Z.to_nat (c_size C - 1)) (m - 2 ^ (mbits C - 1) + (if neg then 2 ^ (mbits C - 1) else 0)) ++ [e].

(* ------------------------------------------------------------------------------------------------ *)
(* Integer (2 bytes, two's complement, little endian)                                               *)

Definition i_val (b : list Z) : Z :=                                 (* Integer.to_int() *)
  let u := le_decode b in if u <? 32768 then u else u - 65536.
Definition i_uval (b : list Z) : Z := le_decode b.                   (* Integer.to_int(unsigned=True) *)
Definition i_encode (n : Z) : list Z := le_encode 2 (n mod 65536).

Definition err_overflow : Z := 6.
Definition err_type_mismatch : Z := 13.
Definition err_ifc : Z := 5.

(* Integer.from_int(in_int, unsigned)  [as fixed by fixes/D03a.patch: the lower bound after the
   unsigned wrap is 0, so that struct.pack_into never sees a negative number]
     if unsigned: (if in_int < 0: in_int += 0x10000); minint, maxint = 0, 0xffff
     else: minint, maxint = -0x8000, 0x7fff
     if not (minint <= in_int <= maxint): raise Overflow
     struct.pack_into('<H' | '<h', buffer, 0, in_int)             -- little endian of in_int mod 2^16 *)
Definition i_from_int (n : Z) (unsigned : bool) : res (list Z) :=
  let n' := if unsigned && (n <? 0) then n + 65536 else n in
  let minint := if unsigned then 0 else -32768 in
  let maxint := if unsigned then 65535 else 32767 in
  if (minint <=? n') && (n' <=? maxint) then Ok (i_encode n') else Err err_overflow.

(* ------------------------------------------------------------------------------------------------ *)
(* glue over the generated Float methods                                                            *)

(* Double.from_single: self._buffer[:4] = 0000 ; self._buffer[4:] = in_single._buffer *)
Definition d_from_single (s : list Z) : list Z := [0; 0; 0; 0] ++ s.

(* Double.to_single: the single made of the high four bytes, rounded with byte 3 as carry byte:
     single = Single().from_bytes(mybytes[4:]); exp, man, neg = single._denormalise()
     man += mybytes[3]; return single._normalise(exp, man, neg)                                      *)
Definition d_to_single (d : list Z) : res (list Z) :=
  let s := py_slice d (Some 4) None in
  let '(e, man, neg) := mbf_denormalise Single_consts s in
  mbf_normalise Single_consts s e (man + py_nth 0 d 3) neg.

(* Float.ifloor: oldval = clone; was_negative; itrunc; if not eq(oldval) and was_negative: isub(one) *)
Definition f_ifloor (C : fconst) (b : list Z) : res (list Z) :=
  let was_negative := mbf_is_negative C b in
  do b1 <- mbf_itrunc C b;
  if negb (mbf_eq C b1 b) && was_negative then mbf_isub C b1 (c_one C) else Ok b1.

(* _check_limits raised OverflowError(self) after self.from_bytes(neg_max | pos_max): the payload *)
Definition f_max (C : fconst) (neg : bool) : list Z := if neg then c_neg_max C else c_pos_max C.

(* ------------------------------------------------------------------------------------------------ *)
(* BASIC values                                                                                     *)

Inductive value : Type :=
| VInt (b : list Z)      (* 2 bytes *)
| VSng (b : list Z)      (* 4 bytes *)
| VDbl (b : list Z)      (* 8 bytes *)
| VStr (s : list Z).     (* string content *)

Definition v_tag (v : value) : Z := match v with VInt _ => 2 | VSng _ => 4 | VDbl _ => 8 | VStr _ => 3 end.
Definition is_num (v : value) : bool := match v with VStr _ => false | _ => true end.
Definition value_ok (v : value) : Prop :=
  match v with
  | VInt b => zlen b = 2 /\ bytes_ok b
  | VSng b => buf_ok Single_consts b
  | VDbl b => buf_ok Double_consts b
  | VStr s => bytes_ok s
  end.

(* exact value * 2^184 (numeric values) *)
Definition value_scaled (v : value) : Z :=
  match v with
  | VInt b => i_val b * 2 ^ 184
  | VSng b => f_sval Single_consts b * 2 ^ 32
  | VDbl b => f_sval Double_consts b
  | VStr _ => 0
  end.
Definition value_Q (v : value) : Q := Qmake (value_scaled v) (Pos.pow 2 184).

(* canonical output for the harness: type tag (2 4 8 3) then the bytes *)
Definition enc_value (v : value) : list Z :=
  match v with
  | VInt b => 2 :: b
  | VSng b => 4 :: b
  | VDbl b => 8 :: b
  | VStr s => 3 :: s
  end.

(* --- conversions (values.to_integer / to_single / to_double) *)

(* Float.to_integer / Integer.to_integer *)
Definition v_to_integer (v : value) (unsigned : bool) : res value :=
  match v with
  | VStr _ => Err err_type_mismatch
  | VInt b => Ok (VInt b)
  | VSng b => rmap VInt (i_from_int (mbf_to_int Single_consts b) unsigned)
  | VDbl b => rmap VInt (i_from_int (mbf_to_int Double_consts b) unsigned)
  end.

(* what the FloatErrorHandler does with OverflowError: `hard` = the handler raises BASIC Overflow
   (no console, or error-handling suspended); otherwise it prints "Overflow" and the operation
   returns the payload (max float of the sign) *)
Definition float_safe (hard : bool) (r : res (list Z)) (payload : list Z) : res (list Z) :=
  match r with
  | Host 5 => if hard then Err err_overflow else Ok payload
  | _ => r
  end.

Definition v_to_single (hard : bool) (v : value) : res value :=
  match v with
  | VStr _ => Err err_type_mismatch
  | VInt b => rmap VSng (mbf_from_int Single_consts (zeros 4) (i_val b))
  | VSng b => Ok (VSng b)
  | VDbl b => rmap VSng (float_safe hard (d_to_single b)
                           (f_max Single_consts (mbf_is_negative Double_consts b)))
  end.

Definition v_to_double (v : value) : res value :=
  match v with
  | VStr _ => Err err_type_mismatch
  | VInt b => rmap VDbl (mbf_from_int Double_consts (zeros 8) (i_val b))
  | VSng b => Ok (VDbl (d_from_single b))
  | VDbl b => Ok (VDbl b)
  end.

Definition v_cint (v : value) : res value := v_to_integer v false.
Definition v_csng (hard : bool) (v : value) : res value := v_to_single hard v.
Definition v_cdbl (v : value) : res value := v_to_double v.

(* FIX: pass_number(inp).clone().itrunc() *)
Definition v_fix (v : value) : res value :=
  match v with
  | VStr _ => Err err_type_mismatch
  | VInt b => Ok (VInt b)
  | VSng b => rmap VSng (mbf_itrunc Single_consts b)
  | VDbl b => rmap VDbl (mbf_itrunc Double_consts b)
  end.

(* INT: strings pass unchanged; inp.clone().ifloor() *)
Definition v_int (v : value) : res value :=
  match v with
  | VStr s => Ok (VStr s)
  | VInt b => Ok (VInt b)
  | VSng b => rmap VSng (f_ifloor Single_consts b)
  | VDbl b => rmap VDbl (f_ifloor Double_consts b)
  end.

(* --- MKI$ MKS$ MKD$ / CVI CVS CVD *)
Definition v_bytes (v : value) : list Z :=
  match v with VInt b | VSng b | VDbl b | VStr b => b end.
Definition v_mki (v : value) : res value := rmap (fun x => VStr (v_bytes x)) (v_to_integer v false).
Definition v_mks (hard : bool) (v : value) : res value := rmap (fun x => VStr (v_bytes x)) (v_to_single hard v).
Definition v_mkd (v : value) : res value := rmap (fun x => VStr (v_bytes x)) (v_to_double v).

Definition v_cv (n : nat) (mk : list Z -> value) (v : value) : res value :=
  match v with
  | VStr s => if zlen s <? Z.of_nat n then Err err_ifc else Ok (mk (firstn n s))
  | _ => Err err_type_mismatch
  end.
Definition v_cvi := v_cv 2 VInt.
Definition v_cvs := v_cv 4 VSng.
Definition v_cvd := v_cv 8 VDbl.

(* --- HEX$ / OCT$ / &H / &O *)

(* digit characters: '0'..'9' 'A'..'F' *)
Definition digit_char (d : Z) : Z := if d <? 10 then 48 + d else 55 + d.
Definition char_digit (c : Z) : option Z :=
  if (48 <=? c) && (c <=? 57) then Some (c - 48)
  else if (65 <=? c) && (c <=? 70) then Some (c - 55)
  else None.

(* most significant digit first; fuel = number of digits allowed *)
Fixpoint to_digits_rev (fuel : nat) (base n : Z) : list Z :=
  match fuel with
  | O => []
  | S f => if n <? base then [n] else (n mod base) :: to_digits_rev f base (n / base)
  end.
Definition to_digits (base n : Z) : list Z :=
  rev (to_digits_rev (S (Z.to_nat (Z.log2 n))) base n).
Definition of_digits (base : Z) (ds : list Z) : Z :=
  fold_left (fun acc d => acc * base + d) ds 0.

(* b'%X' % n, b'%o' % n   (n >= 0) *)
Definition fmt_base (base n : Z) : list Z := map digit_char (to_digits base n).

(* int(s, base) for a non-empty string of digits valid in the base; anything else: ValueError
   (Python's int() also accepts signs, underscores, blanks and 0x/0o prefixes: not modelled, not generated) *)
Fixpoint parse_digits (base : Z) (s : list Z) : option (list Z) :=
  match s with
  | [] => Some []
  | c :: r =>
      match char_digit c, parse_digits base r with
      | Some d, Some ds => if d <? base then Some (d :: ds) else None
      | _, _ => None
      end
  end.
Definition py_int (base : Z) (s : list Z) : res Z :=
  match s with
  | [] => Host host_ValueError
  | _ => match parse_digits base s with
         | Some ds => Ok (of_digits base ds)
         | None => Host host_ValueError
         end
  end.

(* Integer.to_hex / to_oct *)
Definition i_to_hex (b : list Z) : list Z := fmt_base 16 (i_uval b).
Definition i_to_oct (b : list Z) : list Z := if int_is_zero b then [48] else fmt_base 8 (i_uval b).

(* values.hex_ / oct_ : to_integer(x, unsigned=True) then to_hex / to_oct *)
Definition v_hex (v : value) : res value :=
  do i <- v_to_integer v true; Ok (VStr (i_to_hex (v_bytes i))).
Definition v_oct (v : value) : res value :=
  do i <- v_to_integer v true; Ok (VStr (i_to_oct (v_bytes i))).

(* Integer.from_hex / from_oct through Values.from_repr (float_safe: ValueError -> Illegal function call)
   for the words "&H" ++ digits, "&O" ++ digits, "&" ++ digits (digits already upper case, no blanks) *)
Definition from_repr_safe (r : res (list Z)) : res value :=
  match r with
  | Host 1 => Err err_ifc
  | _ => rmap VInt r
  end.
Definition v_from_hex (digits : list Z) : res value :=
  from_repr_safe (do n <- (match digits with [] => Ok 0 | _ => py_int 16 digits end); i_from_int n true).
Definition v_from_oct (digits : list Z) : res value :=
  from_repr_safe (do n <- (match digits with [] => Ok 0 | _ => py_int 8 digits end); i_from_int n true).

(* --- comparisons (values._bool_gt, _bool_eq, eq neq gt gte lt lte) *)

(* match_types on two values of which at least one is numeric; two strings are compared by
   strings.String (property C09) and are not modelled here *)
Definition v_gt_bool (x y : value) : res bool :=
  match x, y with
  | VStr _, VStr _ => Host host_Other
  | VStr _, _ | _, VStr _ => Err err_type_mismatch
  | VInt a, VInt b => Ok (int_gt a b)
  | VDbl _, _ | _, VDbl _ =>
      do x' <- v_to_double x; do y' <- v_to_double y;
      Ok (mbf_gt Double_consts (v_bytes x') (v_bytes y'))
  | _, _ =>
      do x' <- v_to_single true x; do y' <- v_to_single true y;
      Ok (mbf_gt Single_consts (v_bytes x') (v_bytes y'))
  end.

Definition v_eq_bool (x y : value) : res bool :=
  match x, y with
  | VStr _, VStr _ => Host host_Other
  | VStr _, _ | _, VStr _ => Err err_type_mismatch
  | VInt a, VInt b => Ok (int_eq a b)
  | VDbl _, _ | _, VDbl _ =>
      do x' <- v_to_double x; do y' <- v_to_double y;
      Ok (mbf_eq Double_consts (v_bytes x') (v_bytes y'))
  | _, _ =>
      do x' <- v_to_single true x; do y' <- v_to_single true y;
      Ok (mbf_eq Single_consts (v_bytes x') (v_bytes y'))
  end.

(* Values.from_bool: -1 (ff ff) or 0 (00 00) *)
Definition from_bool (b : bool) : value := VInt (if b then [255; 255] else [0; 0]).

Definition v_eq (x y : value) : res value := rmap from_bool (v_eq_bool x y).
Definition v_neq (x y : value) : res value := rmap (fun b => from_bool (negb b)) (v_eq_bool x y).
Definition v_gt (x y : value) : res value := rmap from_bool (v_gt_bool x y).
Definition v_gte (x y : value) : res value := rmap (fun b => from_bool (negb b)) (v_gt_bool y x).
Definition v_lte (x y : value) : res value := rmap (fun b => from_bool (negb b)) (v_gt_bool x y).
Definition v_lt (x y : value) : res value := rmap from_bool (v_gt_bool y x).

Definition enc_vres (r : res value) : list Z := enc_res (rmap enc_value r).

(* ------------------------------------------------------------------------------------------------ *)
(* reference notions used in the theorems                                                           *)

(* round-half-away-from-zero, truncation and floor of the rational p/q (q > 0) *)
Definition round_half_away (p q : Z) : Z := Z.sgn p * ((2 * Z.abs p + q) / (2 * q)).
Definition trunc_div (p q : Z) : Z := Z.quot p q.
Definition floor_div (p q : Z) : Z := p / q.
Definition in_int16 (n : Z) : Prop := -32768 <= n <= 32767.

(* the rounding of Float._normalise on a mantissa carrying 8 extra low bits: to nearest on those
   8 bits, an exact half (low byte = 0x80) to even *)
Definition round_even8 (man : Z) : Z :=
  let hi := man / 256 in
  let low := man mod 256 in
  hi + (if (128 <? low) || ((low =? 128) && Z.odd hi) then 1 else 0).

(* ------------------------------------------------------------------------------------------------ *)
(* harness entry point: every unary conversion of the integers lo .. lo+n-1 as Integer, Single and
   Double, and the &H / &O literals of their HEX$/OCT$ digits (same order as harness/C03.py parts()) *)
Definition c03_sweep_one (n : Z) : list Z :=
  let v := VInt (i_encode n) in
  let s := match v_to_single true v with Ok x => x | _ => VStr [] end in
  let d := match v_to_double v with Ok x => x | _ => VStr [] end in
  let csng x := enc_vres (v_csng true x) ++ enc_vres (v_csng false x) in
  let u := n mod 65536 in
  let o := enc_vres (v_from_oct (fmt_base 8 u)) in
  enc_vres (v_cint v) ++ enc_vres (v_fix v) ++ enc_vres (v_int v) ++ csng v ++ enc_vres (v_cdbl v)
  ++ enc_vres (v_mki v) ++ enc_vres (v_hex v) ++ enc_vres (v_oct v)
  ++ enc_vres (v_cint s) ++ enc_vres (v_fix s) ++ enc_vres (v_int s) ++ enc_vres (v_hex s)
  ++ enc_vres (v_oct s) ++ enc_vres (v_cdbl s)
  ++ enc_vres (v_cint d) ++ csng d ++ enc_vres (v_int d)
  ++ enc_vres (v_from_hex (fmt_base 16 u)) ++ o ++ o.
Fixpoint c03_sweep_from (k : nat) (lo : Z) : list Z :=
  match k with O => [] | S k' => c03_sweep_one lo ++ c03_sweep_from k' (lo + 1) end.
(* the (long) result list is compared through its length and a polynomial hash *)
Definition digest (l : list Z) : list Z :=
  [zlen l; fold_left (fun h x => (h * 1000003 + x + 1) mod 2305843009213693951) l 0].
Definition c03_sweep (lo n : Z) : list Z := digest (c03_sweep_from (Z.to_nat n) lo).

(* harness entry point of C06: the six relational operators on one pair (harness/C06.py) *)
Definition c06_all (x y : value) : list Z :=
  enc_vres (v_eq x y) ++ enc_vres (v_neq x y) ++ enc_vres (v_gt x y) ++ enc_vres (v_gte x y)
  ++ enc_vres (v_lt x y) ++ enc_vres (v_lte x y).
