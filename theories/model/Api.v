(* C43: executable model of the Python session API for values
     pcbasic/basic/api.py            Session.set_variable / get_variable / evaluate / convert
     pcbasic/basic/implementation.py Implementation.set_variable / get_variable / get_converter / evaluate
                                     (with the fix fixes/D43b.patch: _to_basic_type converts inside lists)
     pcbasic/basic/values/values.py  Values.from_value (float_safe) ; numbers.py Integer.from_int / to_int,
                                     Float.from_value (as fixed by fixes/D43a.patch: frexp/ldexp) / to_value ;
                                     strings.py String.from_str / dereference (string space abstracted)
     pcbasic/basic/memory/arrays.py  Arrays.from_list / _from_list / to_list / _to_list / check_dim / set / get
                                     (flat position = the REGENERATED gen.Gen_arrays.arrays_index)
   Python values are `pyval`; a Python float is the dyadic rational m * 2^e (PFloat m e), +-inf, nan.
   Stored BASIC values are their bytes (numbers) or the byte string itself (strings: the string space of
   C10/C20 is abstracted to "the pointer dereferences to what was stored").
   The codepage conversions and Float.from_value are fields of an environment record, so that the
   theorems quantify over them (C41 supplies the codepage facts; the float clause is stated against a
   contract and separately shown for the executable model `mbf_from_value`).
   NO proofs in this file. *)
From Coq Require Import ZArith List Bool String.
From PCB Require Import lib.Result lib.PyInt lib.Harness lib.ArraysLib gen.Gen_arrays.
Import ListNotations.
Open Scope Z_scope.

(* ------------------------------------------------------------------------------------------------ *)
(* Python values                                                                                    *)

Inductive pyval : Type :=
| PNone
| PBool (b : bool)
| PInt (n : Z)
| PFloat (m e : Z)            (* the float m * 2^e *)
| PInf (neg : bool)
| PNan
| PBytes (s : list Z)
| PUni (u : list Z)           (* unicode string: list of code points (NFC-normal) *)
| PList (l : list pyval).

(* Python type tags used by get_converter / as_type:
   0 = None (no conversion), 1 int, 2 float, 3 bool, 4 bytes, 5 unicode, 6 list, 7 NoneType *)
Definition ty_of (v : pyval) : Z :=
  match v with
  | PNone => 7 | PBool _ => 3 | PInt _ => 1 | PFloat _ _ => 2 | PInf _ => 2 | PNan => 2
  | PBytes _ => 4 | PUni _ => 5 | PList _ => 6
  end.

(* BASIC error numbers used here *)
Definition err_IFC' : Z := 5.
Definition err_OVERFLOW : Z := 6.
Definition err_SUBSCRIPT : Z := 9.
Definition err_DUPDEF : Z := 10.
Definition err_STRING_TOO_LONG : Z := 15.

(* sigils *)
Definition sg_str : Z := 36.   (* $ *)
Definition sg_int : Z := 37.   (* % *)
Definition sg_sng : Z := 33.   (* ! *)
Definition sg_dbl : Z := 35.   (* # *)
Definition is_sigil (c : Z) : bool := (c =? 36) || (c =? 37) || (c =? 33) || (c =? 35).

(* ------------------------------------------------------------------------------------------------ *)
(* dyadic helpers: canonical form of m * 2^e is (m odd, e) or (0, 0)                               *)

Definition bitlen (a : Z) : Z := if a <=? 0 then 0 else Z.log2 a + 1.

Fixpoint strip2 (fuel : nat) (m e : Z) : Z * Z :=
  match fuel with
  | O => (m, e)
  | S f => if Z.even m then strip2 f (m / 2) (e + 1) else (m, e)
  end.
Definition dnorm (m e : Z) : Z * Z :=
  if m =? 0 then (0, 0) else strip2 (Z.to_nat (bitlen (Z.abs m))) m e.
Definition mkfloat (m e : Z) : pyval := let '(m', e') := dnorm m e in PFloat m' e'.

(* float(n) for a Python int n > 0: round to 53 bits, ties to even; None = OverflowError *)
Definition round53 (a : Z) : option (Z * Z) :=
  let L := bitlen a in
  if L <=? 53 then Some (a, 0)
  else
    let k := L - 53 in
    let q := a / 2 ^ k in
    let r := a mod 2 ^ k in
    let half := 2 ^ (k - 1) in
    let q' := if (half <? r) || ((r =? half) && Z.odd q) then q + 1 else q in
    if 2 ^ 1024 <=? q' * 2 ^ k then None else Some (q', k).

(* ------------------------------------------------------------------------------------------------ *)
(* Integer: struct '<h' pack / unpack with the range check of Integer.from_int                      *)

Definition int_pack (n : Z) : list Z := le_encode 2 (n mod 65536).
Definition int_unpack (b : list Z) : Z := let u := le_decode b in if u <? 32768 then u else u - 65536.

(* Integer.from_value = from_int(in_int):  if not (-0x8000 <= in_int <= 0x7fff): Overflow ; struct.pack_into.
   A float passes the comparison when in range and then makes struct.pack_into raise struct.error
   (known finding K43a); nan fails every comparison -> Overflow; other types cannot be compared *)
Definition int_from_value (v : pyval) : res (list Z) :=
  match v with
  | PInt n => if (-32768 <=? n) && (n <=? 32767) then Ok (int_pack n) else Err err_OVERFLOW
  | PBool b => Ok (int_pack (b2z b))
  | PFloat m e =>
      (* -32768 <= m*2^e <= 32767 *)
      let inr := if 0 <=? e then (-32768 <=? m * 2 ^ e) && (m * 2 ^ e <=? 32767)
                 else (-32768 * 2 ^ (- e) <=? m) && (m <=? 32767 * 2 ^ (- e)) in
      if inr then Host host_StructError else Err err_OVERFLOW
  | PInf _ => Err err_OVERFLOW
  | PNan => Err err_OVERFLOW
  | _ => Host host_TypeError
  end.

(* ------------------------------------------------------------------------------------------------ *)
(* MBF floats: byte layout and Float.to_value / Float.from_value                                    *)

Record fmt : Type := mkFmt { f_nbits : Z; f_nbytes : nat }.   (* mantissa bits, mantissa bytes *)
Definition Fsng : fmt := mkFmt 24 3.
Definition Fdbl : fmt := mkFmt 56 7.
Definition f_bias (F : fmt) : Z := 128 + f_nbits F.
Definition f_size (F : fmt) : nat := S (f_nbytes F).

Definition f_zero (F : fmt) : list Z := repeat 0 (f_size F).
(* mantissa man (hidden bit included, 2^(nbits-1) <= man < 2^nbits), exponent byte expb:
   struct.pack_into(intformat, buffer, 0, man & (mask if neg else posmask)); buffer[-1] = exp *)
Definition f_pack (F : fmt) (neg : bool) (man expb : Z) : list Z :=
  le_encode (f_nbytes F) (man mod 2 ^ (f_nbits F - 1) + (if neg then 2 ^ (f_nbits F - 1) else 0)) ++ [expb].
Definition f_max (F : fmt) (neg : bool) : list Z := f_pack F neg (2 ^ f_nbits F - 1) 255.

(* decode: (neg, man with hidden bit, exponent byte) *)
Definition f_raw (F : fmt) (b : list Z) : Z := le_decode (firstn (f_nbytes F) b).
Definition f_expb (F : fmt) (b : list Z) : Z := nth (f_nbytes F) b 0.
Definition f_neg (F : fmt) (b : list Z) : bool := 2 ^ (f_nbits F - 1) <=? f_raw F b.
Definition f_man (F : fmt) (b : list Z) : Z := f_raw F b mod 2 ^ (f_nbits F - 1) + 2 ^ (f_nbits F - 1).

(* Float.to_value():  exp == -bias -> 0. ; man = unpack ; man = -man if sign bit else man | signmask ;
   return man * 2.**exp   -- int -> float conversion of man rounds to 53 bits (doubles only) *)
Definition mbf_to_value (F : fmt) (b : list Z) : pyval :=
  if f_expb F b =? 0 then PFloat 0 0
  else
    let man := f_man F b in
    let e := f_expb F b - f_bias F in
    match round53 man with
    | Some (q, k) => mkfloat (if f_neg F b then - q else q) (e + k)
    | None => PNan   (* unreachable: man < 2^56 *)
    end.

(* Float.from_value(in_float) as fixed (fixes/D43a.patch), for a non-zero finite magnitude a * 2^e:
     fman, fexp = math.frexp(abs(x))              a*2^e = fman * 2^fexp, fexp = e + bitlen a
     man = int(math.floor(math.ldexp(fman, nbits) + 0.5))
     exp = fexp - nbits + bias
     man, exp = _bring_to_range(man, exp, posmask, mask)        (one right shift after a carry)
     _check_limits: exp > 255 -> max value + OverflowError(self) ; exp <= 0 -> zero
   OverflowError(self) is turned by float_safe / FloatErrorHandler.handle into the message "Overflow" on the
   console and the payload (the largest value) as the result *)
Definition mbf_round_man (F : fmt) (a : Z) : Z :=
  let L := bitlen a in
  if L <=? f_nbits F then a * 2 ^ (f_nbits F - L)
  else (a + 2 ^ (L - f_nbits F - 1)) / 2 ^ (L - f_nbits F).

Definition mbf_from_mag (F : fmt) (neg : bool) (a e : Z) : list Z :=
  let man0 := mbf_round_man F a in
  let exp0 := e + bitlen a + 128 in           (* fexp - nbits + bias *)
  let '(man, expb) := if 2 ^ f_nbits F - 1 <? man0 then (man0 / 2, exp0 + 1) else (man0, exp0) in
  if 255 <? expb then f_max F neg
  else if expb <=? 0 then f_zero F
  else f_pack F neg man expb.

Definition mbf_from_value (F : fmt) (v : pyval) : res (list Z) :=
  match v with
  | PFloat m e => if m =? 0 then Ok (f_zero F) else Ok (mbf_from_mag F (m <? 0) (Z.abs m) e)
  | PInt n =>
      if n =? 0 then Ok (f_zero F)
      else match round53 (Z.abs n) with
           | Some (q, k) => Ok (mbf_from_mag F (n <? 0) q k)
           | None => Ok (f_max F (n <? 0))           (* OverflowError: int too large to convert to float *)
           end
  | PBool b => if b then Ok (mbf_from_mag F false 1 0) else Ok (f_zero F)
  | PInf neg => Ok (f_max F neg)
  | PNan => Err err_IFC'                              (* ValueError -> Illegal function call *)
  | _ => Host host_TypeError
  end.

(* ------------------------------------------------------------------------------------------------ *)
(* environment: the parts the theorems quantify over                                                *)

Record env : Type := mkEnv {
  e_u2b : list Z -> res (list Z);            (* codepage.unicode_to_bytes (errors='ignore') *)
  e_b2u : list Z -> list Z;                  (* codepage.bytes_to_unicode(preserve=CONTROL) *)
  e_fv : fmt -> pyval -> res (list Z)        (* Float.from_value through float_safe *)
}.

(* ------------------------------------------------------------------------------------------------ *)
(* stored values                                                                                    *)

Inductive sval : Type :=
| SNum (b : list Z)       (* Integer / Single / Double buffer *)
| SStr (s : list Z).      (* String: what the pointer dereferences to *)

Definition fmt_of (sg : Z) : fmt := if sg =? sg_dbl then Fdbl else Fsng.

(* Values.new(sigil) *)
Definition sval_default (sg : Z) : sval :=
  if sg =? sg_str then SStr []
  else if sg =? sg_int then SNum [0; 0]
  else SNum (f_zero (fmt_of sg)).

(* Values.from_value(python_val, typechar) *)
Definition from_value (E : env) (sg : Z) (v : pyval) : res sval :=
  if sg =? sg_str then
    match v with
    | PBytes s => if 255 <? zlen s then Err err_STRING_TOO_LONG else Ok (SStr s)
    | _ => Host host_Other                      (* assert isinstance(python_str, bytes) *)
    end
  else if sg =? sg_int then rmap SNum (int_from_value v)
  else rmap SNum (e_fv E (fmt_of sg) v).

(* value.to_value() *)
Definition to_value (sg : Z) (x : sval) : pyval :=
  match x with
  | SStr s => PBytes s
  | SNum b => if sg =? sg_int then PInt (int_unpack b) else mbf_to_value (fmt_of sg) b
  end.

(* Implementation._to_basic_type (fixes/D43b.patch): unicode -> codepage bytes, bool -> -1 / 0,
   recursively inside lists *)
Fixpoint to_basic (E : env) (v : pyval) {struct v} : res pyval :=
  match v with
  | PUni u => rmap PBytes (e_u2b E u)
  | PBool b => Ok (PInt (if b then -1 else 0))
  | PList l =>
      rmap PList ((fix go (l : list pyval) : res (list pyval) :=
                     match l with
                     | [] => Ok []
                     | x :: r => do x' <- to_basic E x; do r' <- go r; Ok (x' :: r')
                     end) l)
  | _ => Ok v
  end.

(* ------------------------------------------------------------------------------------------------ *)
(* names                                                                                            *)

Definition lparen : Z := 40.
Fixpoint before_paren (n : list Z) : list Z :=
  match n with
  | [] => []
  | c :: r => if c =? lparen then [] else c :: before_paren r
  end.
Definition has_paren (n : list Z) : bool := existsb (Z.eqb lparen) n.
(* name.split(b'(')[0][-1:] in SIGILS *)
Definition sigil_explicit (n : list Z) : bool := is_sigil (py_last (before_paren n)).
Definition sigil_of (n : list Z) : Z := py_last n.

(* ------------------------------------------------------------------------------------------------ *)
(* session state                                                                                    *)

Record arr : Type := mkArr { a_dims : list Z; a_elems : list sval }.

Record state : Type := mkSt {
  s_base : option Z;                         (* Arrays._base *)
  s_scalars : list (list Z * sval);          (* Scalars._vars *)
  s_arrays : list (list Z * arr)             (* Arrays._dims / _buffers *)
}.
Definition st_init : state := mkSt None [] [].

Fixpoint alookup {A} (l : list (list Z * A)) (n : list Z) : option A :=
  match l with
  | [] => None
  | (k, v) :: r => if list_Z_eqb k n then Some v else alookup r n
  end.
Fixpoint aupdate {A} (l : list (list Z * A)) (n : list Z) (v : A) : list (list Z * A) :=
  match l with
  | [] => [(n, v)]
  | (k, w) :: r => if list_Z_eqb k n then (k, v) :: r else (k, w) :: aupdate r n v
  end.

Definition base_or0 (st : state) : Z := match s_base st with Some b => b | None => 0 end.

Fixpoint replace_nth {A} (k : nat) (v : A) (l : list A) : list A :=
  match l, k with
  | [], _ => []
  | _ :: r, O => v :: r
  | x :: r, S k' => x :: replace_nth k' v r
  end.

(* state-and-result sequencing: the state survives an error (Python mutates before raising) *)
Definition bindS {A B} (x : state * res A) (f : state -> A -> state * res B) : state * res B :=
  match x with
  | (s, Ok a) => f s a
  | (s, Err e) => (s, Err e)
  | (s, Host h) => (s, Host h)
  | (s, OutOfFuel) => (s, OutOfFuel)
  end.

(* Arrays.allocate(name, dimensions) without the memory check (memory is not modelled) *)
Definition allocate (st : state) (n dims : list Z) : state * res unit :=
  match dims with
  | [] => (st, Ok tt)
  | _ :: _ =>
    match alookup (s_arrays st) n with
    | Some _ => (st, Err err_DUPDEF)
    | None =>
      bindS (st, arrays_allocate_negative dims) (fun st _ =>
      bindS (match s_base st with
             | None => (mkSt (Some 0) (s_scalars st) (s_arrays st), Ok tt)
             | Some b => (st, arrays_allocate_below_base b dims)
             end) (fun st1 _ =>
      bindS (st1, arrays_flat_length (base_or0 st1) dims) (fun st1 len =>
        (mkSt (s_base st1) (s_scalars st1)
              (aupdate (s_arrays st1) n (mkArr dims (repeat (sval_default (sigil_of n)) (Z.to_nat len)))),
         Ok tt))))
    end
  end.

(* Arrays.check_dim(name, index): auto-dimension 0/1..10, then the subscript tests *)
Definition check_dim (st : state) (n idx : list Z) : state * res (list Z) :=
  bindS (match alookup (s_arrays st) n with
         | Some a => (st, Ok (a_dims a))
         | None =>
             let dims := repeat 10 (List.length idx) in
             bindS (allocate st n dims) (fun st1 _ => (st1, Ok dims))
         end) (fun st1 dims =>
  match alookup (s_arrays st1) n with
  | None => (st1, Host host_KeyError)
  | Some _ =>
      match s_base st1 with
      | None => (st1, Host host_TypeError)
      | Some b => (st1, bind (arrays_check_subscripts b idx dims) (fun _ => Ok dims))
      end
  end).

(* Arrays.get(name, index) *)
Definition elem_get (st : state) (n idx : list Z) : state * res sval :=
  bindS (check_dim st n idx) (fun st1 dims =>
  match alookup (s_arrays st1) n with
  | None => (st1, Host host_KeyError)
  | Some a =>
      (st1, bind (arrays_index (base_or0 st1) idx dims) (fun k =>
                  Ok (nth (Z.to_nat k) (a_elems a) (sval_default (sigil_of n)))))
  end).

(* Arrays.set(name, index, value) *)
Definition elem_set (st : state) (n idx : list Z) (v : sval) : state * res unit :=
  bindS (check_dim st n idx) (fun st1 dims =>
  match alookup (s_arrays st1) n with
  | None => (st1, Host host_KeyError)
  | Some a =>
      bindS (st1, arrays_index (base_or0 st1) idx dims) (fun st1 k =>
        (mkSt (s_base st1) (s_scalars st1)
              (aupdate (s_arrays st1) n (mkArr (a_dims a) (replace_nth (Z.to_nat k) v (a_elems a)))),
         Ok tt))
  end).

(* ------------------------------------------------------------------------------------------------ *)
(* Arrays.from_list / _from_list                                                                    *)

(* `not python_list` *)
Definition falsy (v : pyval) : bool :=
  match v with
  | PNone => true | PBool b => negb b | PInt n => n =? 0 | PFloat m _ => m =? 0
  | PInf _ => false | PNan => false
  | PBytes s => match s with [] => true | _ => false end
  | PUni s => match s with [] => true | _ => false end
  | PList l => match l with [] => true | _ => false end
  end.

(* for i, v in enumerate(items): self.set(name, index+[i+base], self._values.from_value(v, sigil)) *)
Fixpoint set_leaves (E : env) (n : list Z) (b : Z) (idx : list Z) (items : list pyval) (i : Z) (st : state)
  : state * res unit :=
  match items with
  | [] => (st, Ok tt)
  | x :: r =>
      bindS (st, from_value E (sigil_of n) x) (fun st sv =>
      bindS (elem_set st n (idx ++ [i + b]) sv) (fun st1 _ =>
      set_leaves E n b idx r (i + 1) st1))
  end.

Fixpoint from_list_aux (E : env) (n : list Z) (b : Z) (v : pyval) (idx : list Z) (st : state) {struct v}
  : state * res unit :=
  if falsy v then (st, Host host_ValueError)            (* 'Array must not be empty.' *)
  else
  match v with
  | PList ((PList _ :: _) as items) =>
      (fix go (items : list pyval) (i : Z) (st : state) {struct items} : state * res unit :=
         match items with
         | [] => (st, Ok tt)
         | x :: r => bindS (from_list_aux E n b x (idx ++ [i + b]) st) (fun st1 _ => go r (i + 1) st1)
         end) items 0 st
  | PList items => set_leaves E n b idx items 0 st
  | PBytes s => set_leaves E n b idx (map PInt s) 0 st      (* iterating bytes yields ints *)
  | _ => (st, Host host_TypeError)                         (* python_list[0] on a non-sequence *)
  end.

Definition from_list (E : env) (st : state) (n : list Z) (v : pyval) : state * res unit :=
  from_list_aux E n (base_or0 st) v [] st.

(* ------------------------------------------------------------------------------------------------ *)
(* Arrays.to_list / _to_list                                                                        *)

Definition zrange (lo hi : Z) : list Z := map (fun k => lo + Z.of_nat k) (seq 0 (Z.to_nat (hi - lo))).

Fixpoint mapM {A B} (f : A -> res B) (l : list A) : res (list B) :=
  match l with
  | [] => Ok []
  | x :: r => do y <- f x; do ys <- mapM f r; Ok (y :: ys)
  end.

Fixpoint to_list_aux (st : state) (n : list Z) (b : Z) (idx : list Z) (rem : list Z) {struct rem} : res pyval :=
  match rem with
  | [] => Host host_IndexError
  | [d] =>
      rmap PList (mapM (fun i => rmap (to_value (sigil_of n)) (snd (elem_get st n (idx ++ [i])))) (zrange b (d + 1)))
  | d :: rest =>
      rmap PList (mapM (fun i => to_list_aux st n b (idx ++ [i]) rest) (zrange b (d + 1)))
  end.

Definition to_list (st : state) (n : list Z) : res pyval :=
  match alookup (s_arrays st) n with
  | None => Ok (PList [])
  | Some a => to_list_aux st n (base_or0 st) [] (a_dims a)
  end.

(* ------------------------------------------------------------------------------------------------ *)
(* Implementation.get_converter(from_type, to_type)                                                 *)

(* int(math.floor(x)) for x = m * 2^e *)
Definition floor_dyadic (m e : Z) : Z := if 0 <=? e then m * 2 ^ e else m / 2 ^ (- e).

Definition convert (E : env) (v : pyval) (to_ty : Z) : res pyval :=
  let from_ty := ty_of v in
  if (to_ty =? 0) || (from_ty =? to_ty) then Ok v
  else
  match v, to_ty with
  | PBytes s, 5 => Ok (PUni (e_b2u E s))
  | PUni u, 4 => rmap PBytes (e_u2b E u)
  | PInt n, 3 => Ok (PBool (negb (n =? 0)))
  | PFloat m _, 3 => Ok (PBool (negb (m =? 0)))
  | PInf _, 3 => Ok (PBool true)
  | PNan, 3 => Ok (PBool true)
  | PBool b, 1 => Ok (PInt (if b then -1 else 0))
  | PInt n, 2 =>
      if n =? 0 then Ok (PFloat 0 0)
      else match round53 (Z.abs n) with
           | Some (q, k) => Ok (mkfloat (if n <? 0 then - q else q) k)
           | None => Host host_OverflowError
           end
  | PFloat m e, 1 => Ok (PInt (floor_dyadic m e))
  | PInf _, 1 => Host host_OverflowError
  | PNan, 1 => Host host_ValueError
  | PBool b, 2 => Ok (if b then PFloat (-1) 0 else PFloat 0 0)
  | _, _ => Host host_ValueError            (* "BASIC can't convert ..." *)
  end.

(* ------------------------------------------------------------------------------------------------ *)
(* the API entry points                                                                             *)

(* Session.set_variable(name, value) -> Implementation.set_variable *)
Definition set_variable (E : env) (st : state) (name : list Z) (value : pyval) : state * res unit :=
  let name := py_upper name in
  if negb (sigil_explicit name) then (st, Host host_ValueError)      (* 'Sigil must be explicit' *)
  else
  bindS (st, to_basic E value) (fun st value =>
  if has_paren name then from_list E st (before_paren name) value
  else
    bindS (st, from_value E (sigil_of name) value) (fun st sv =>
      (mkSt (s_base st) (aupdate (s_scalars st) name sv) (s_arrays st), Ok tt))).

Definition scalar_get (st : state) (name : list Z) : sval :=
  match alookup (s_scalars st) name with Some x => x | None => sval_default (sigil_of name) end.

(* Session.get_variable(name, as_type) -> Implementation.get_variable *)
Definition get_variable (E : env) (st : state) (name : list Z) (as_ty : Z) : res pyval :=
  let name := py_upper name in
  if negb (sigil_explicit name) then Host host_ValueError
  else if has_paren name then
    do value <- to_list st (before_paren name);
    match value with
    | PList [] => Ok (PList [])
    | PList ((first :: _) as items) =>
        (* convert = get_converter(type(value[0]), as_type): decided on the first item, before converting *)
        if (as_ty =? 0) || (ty_of first =? as_ty) then Ok (PList items)
        else match first with
             | PList _ => Host host_ValueError
             | _ => rmap PList (mapM (fun x => convert E x as_ty) items)
             end
    | _ => Host host_Other
    end
  else convert E (to_value (sigil_of name) (scalar_get st name)) as_ty.

(* Session.evaluate(expr) for expr = NAME or NAME(i, j, ...) with literal subscripts:
   the parser fetches the variable (auto-dimensioning an unknown array); a BASIC error is printed by
   _handle_exceptions and evaluate returns None *)
Definition evaluate (st : state) (name idx : list Z) : state * res pyval :=
  let name := py_upper name in
  match idx with
  | [] => (st, Ok (to_value (sigil_of name) (scalar_get st name)))
  | _ =>
      match elem_get st name idx with
      | (st1, Ok x) => (st1, Ok (to_value (sigil_of name) x))
      | (st1, Err _) => (st1, Ok PNone)
      | (st1, Host h) => (st1, Host h)
      | (st1, OutOfFuel) => (st1, OutOfFuel)
      end
  end.

(* OPTION BASE b / DIM name(dims) executed as BASIC statements (errors are printed, not raised) *)
Definition option_base (st : state) (b : Z) : state * res unit :=
  match s_base st with
  | Some b0 => if negb (b =? b0) then (st, Err err_DUPDEF) else (st, Ok tt)
  | None => (mkSt (Some b) (s_scalars st) (s_arrays st), Ok tt)
  end.
Definition dim (st : state) (n dims : list Z) : state * res unit := allocate st (py_upper n) dims.

(* store raw bytes in a scalar (harness: values.from_bytes + scalars.set), to exercise to_value *)
Definition set_raw (st : state) (name b : list Z) : state :=
  mkSt (s_base st) (aupdate (s_scalars st) (py_upper name) (SNum b)) (s_arrays st).

(* ------------------------------------------------------------------------------------------------ *)
(* scripts and canonical encodings for the correspondence harness                                   *)

Fixpoint enc_py (v : pyval) {struct v} : list Z :=
  match v with
  | PNone => [5]
  | PBool b => [6; enc_bool b]
  | PInt n => [0; n]
  | PFloat m e => [1; m; e]
  | PInf neg => [7; enc_bool neg]
  | PNan => [8]
  | PBytes s => 2 :: zlen s :: s
  | PUni u => 4 :: zlen u :: u
  | PList l => 3 :: zlen l :: (fix go (l : list pyval) : list Z :=
                                 match l with [] => [] | x :: r => enc_py x ++ go r end) l
  end.

Inductive op : Type :=
| OBase (b : Z)
| ODim (n dims : list Z)
| OSet (n : list Z) (v : pyval)
| OGet (n : list Z) (ty : Z)
| OEval (n idx : list Z)
| OConv (v : pyval) (ty : Z)
| ORaw (n b : list Z)
| OClear                                   (* CLEAR / NEW / RUN / storing a program line: all variables, arrays, OPTION BASE *)
| OLetEl (n idx : list Z) (v : pyval).     (* BASIC: LET n(idx) = literal *)

(* LET name(idx) = literal executed as a BASIC statement: the element is pre-allocated (auto-dimension), then the
   value is stored; errors are printed, not raised *)
Definition let_elem (E : env) (st : state) (n idx : list Z) (v : pyval) : state * res unit :=
  let n := py_upper n in
  bindS (check_dim st n idx) (fun st1 _ =>
  bindS (st1, from_value E (sigil_of n) v) (fun st2 sv => elem_set st2 n idx sv)).

Definition frame (l : list Z) : list Z := zlen l :: l.
Definition enc_unit (r : res unit) : list Z := enc_res (bind r (fun _ => Ok [])).
Definition enc_pyres (r : res pyval) : list Z := enc_res (rmap enc_py r).

Definition step (E : env) (st : state) (o : op) : state * list Z :=
  match o with
  | OBase b => let '(s, r) := option_base st b in (s, enc_unit r)
  | ODim n dims => let '(s, r) := dim st n dims in (s, enc_unit r)
  | OSet n v => let '(s, r) := set_variable E st n v in (s, enc_unit r)
  | OGet n ty => (st, enc_pyres (get_variable E st n ty))
  | OEval n idx => let '(s, r) := evaluate st n idx in (s, enc_pyres r)
  | OConv v ty => (st, enc_pyres (convert E v ty))
  | ORaw n b => (set_raw st n b, [0])
  | OClear => (st_init, [0])
  | OLetEl n idx v => let '(s, r) := let_elem E st n idx v in (s, enc_unit r)
  end.

Fixpoint run (E : env) (st : state) (ops : list op) : list Z :=
  match ops with
  | [] => []
  | o :: r => let '(s, out) := step E st o in frame out ++ run E s r
  end.

(* the session state after a history of API calls and BASIC-side changes *)
Fixpoint final (E : env) (st : state) (ops : list op) : state :=
  match ops with
  | [] => st
  | o :: r => final E (fst (step E st o)) r
  end.
