(* display/graphics.py Graphics.point_ (two-argument POINT) after the physical coordinates are known (C31):
   the regenerated out-of-range test (gen/Gen_point.v), then the single-pixel read of the viewport.
   NO proofs here. *)
From Coq Require Import ZArith List Bool.
From PCB Require Import lib.Result lib.PyInt lib.GfxPrims gen.Gen_viewport gen.Gen_point model.Matrix model.Viewport.
Import ListNotations.
Open Scope Z_scope.

Definition vp_offscreen (vp : viewport) (pw ph x y : Z) : bool :=
  point_offscreen (vp_abs vp) (vp_x0 vp) (vp_y0 vp) (vp_x1 vp) (vp_y1 vp) (vp_maxw vp) (vp_maxh vp) pw ph x y.

(* POINT(x, y): -1 when out of range, else the pixel; Host IndexError if the read leaves the page matrix *)
Definition point (vp : viewport) (m : matrix) (pw ph x y : Z) : res Z :=
  if vp_offscreen vp pw ph x y then Ok (-1)
  else match vp_cell vp m x y with
       | Some v => Ok v
       | None => Host host_IndexError
       end.
