(* C09: the reference ("textbook") definitions the string functions are compared with.
   Only definitions on lists; nothing here mentions the model. *)
From Coq Require Import ZArith List Bool.
From PCB Require Import lib.Result lib.PyInt.
Import ListNotations.
Open Scope Z_scope.

Definition IFC : Z := 5.              (* Illegal function call *)
Definition OVERFLOW : Z := 6.
Definition STRING_TOO_LONG : Z := 15.
Definition OUT_OF_STRING_SPACE : Z := 14.

(* the values an Integer can hold; rounding a numeric argument outside it is Overflow *)
Definition in16 (z : Z) : Prop := -32768 <= z <= 32767.

(* the outcome r of a function of one numeric argument z with documented range lo..hi and value v:
   the value inside the range, Illegal function call exactly outside it (for arguments an Integer can
   hold), Overflow exactly for arguments no Integer can hold *)
Definition checked {A} (z lo hi : Z) (v : A) (r : res A) : Prop :=
  (lo <= z <= hi -> r = Ok v) /\
  (r = Err IFC <-> in16 z /\ ~ lo <= z <= hi) /\
  (r = Err OVERFLOW <-> ~ in16 z).

(* LEFT$(s, n), RIGHT$(s, n), MID$(s, st, n) *)
Definition ref_left (s : list Z) (n : Z) : list Z := firstn (Z.to_nat n) s.
Definition ref_right (s : list Z) (n : Z) : list Z := skipn (length s - Z.to_nat n) s.
Definition ref_mid (s : list Z) (st n : Z) : list Z := firstn (Z.to_nat n) (skipn (Z.to_nat (st - 1)) s).

(* small occurs in big at the 1-based position p *)
Definition occurs_at (big small : list Z) (p : Z) : Prop :=
  1 <= p <= zlen big /\ firstn (length small) (skipn (Z.to_nat (p - 1)) big) = small.

(* k is the INSTR value: the least position >= st at which small occurs in big, 0 if there is none *)
Definition first_occurrence (st : Z) (big small : list Z) (k : Z) : Prop :=
  (k = 0 /\ forall p, st <= p -> ~ occurs_at big small p) \/
  (st <= k /\ occurs_at big small k /\ forall p, st <= p < k -> ~ occurs_at big small p).

(* STRING$(n, t$): n times the first byte of t$ (nothing for an empty t$) *)
Definition first_char_times (t : list Z) (n : nat) : list Z :=
  match t with [] => [] | c :: _ => repeat c n end.

(* byte-wise lexicographic order, a proper prefix comes first *)
Fixpoint lex_lt (a b : list Z) : Prop :=
  match a, b with
  | _, [] => False
  | [], _ :: _ => True
  | x :: a', y :: b' => x < y \/ (x = y /\ lex_lt a' b')
  end.

(* LSET / RSET into a buffer of n bytes: cut to n bytes, pad with spaces on the right / left *)
Definition ref_lset (n : nat) (s : list Z) : list Z :=
  firstn n s ++ repeat 32 (n - length (firstn n s)).
Definition ref_rset (n : nat) (s : list Z) : list Z :=
  repeat 32 (n - length (firstn n s)) ++ firstn n s.

(* the documented argument range of the MID$ statement: count 0..255 and, unless the count is 0,
   a start position inside the target *)
Definition midstmt_valid (t : list Z) (st n : Z) : Prop :=
  0 <= n <= 255 /\ (0 < n -> 1 <= st <= zlen t).

(* MID$(t, st, n) = v : at most n bytes, at most all of v, at most what fits, written at offset st-1 *)
Definition midset_count (t : list Z) (st n : Z) (v : list Z) : nat :=
  Nat.min (Nat.min (Z.to_nat n) (length v)) (length t - Z.to_nat (st - 1)).
Definition ref_midset (t : list Z) (st n : Z) (v : list Z) : list Z :=
  let off := Z.to_nat (st - 1) in
  let cnt := midset_count t st n v in
  firstn off t ++ firstn cnt v ++ skipn (off + cnt) t.

(* the same statement when source and target are one buffer: bytes are copied one at a time from left to
   right, so a byte written earlier is read again later: the first off bytes repeat periodically *)
Definition ref_midset_same_byte (t : list Z) (st n : Z) (p : nat) : Z :=
  let off := Z.to_nat (st - 1) in
  let cnt := midset_count t st n t in
  if (0 <? off)%nat && (off <=? p)%nat && (p <? off + cnt)%nat then nth (p mod off) t 0 else nth p t 0.
