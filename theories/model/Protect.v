(* C15: model of converter/protect.py on byte lists, on top of the regenerated per-byte arithmetic *)
From Coq Require Import ZArith List Bool.
From PCB Require Import lib.Result lib.PyInt gen.Gen_protect.
Import ListNotations.
Open Scope Z_scope.

(* outs.write(int2byte(c % 256)) *)
Definition enc_byte (i c : Z) : Z := (protect_protect_step i c) mod 256.
Definition dec_byte (i c : Z) : Z := (protect_unprotect_step i c) mod 256.

(* protect(ins, outs): every byte of ins is encrypted *)
Fixpoint protect_from (i : Z) (l : list Z) : list Z :=
  match l with
  | [] => []
  | c :: r => enc_byte i c :: protect_from (protect_protect_next i) r
  end.
Definition protect (l : list Z) : list Z := protect_from 0 l.

(* unprotect(ins, outs): the last byte of ins (the EOF marker) is dropped *)
Fixpoint unprotect_from (i : Z) (l : list Z) : list Z :=
  match l with
  | [] => []
  | c :: r =>
      match r with
      | [] => []
      | _ :: _ => dec_byte i c :: unprotect_from (protect_unprotect_next i) r
      end
  end.
Definition unprotect (l : list Z) : list Z := unprotect_from 0 l.

(* decrypting without the drop-last rule (used to state bijectivity) *)
Fixpoint unprotect_all_from (i : Z) (l : list Z) : list Z :=
  match l with
  | [] => []
  | c :: r => dec_byte i c :: unprotect_all_from (protect_unprotect_next i) r
  end.
Definition unprotect_all (l : list Z) : list Z := unprotect_all_from 0 l.

(* --- file level (program.py save/load + diskfiles magic/EOF bytes) ---
   bytecode b = 00 :: code; SAVE writes code (everything after the first byte):
   B: FF ++ code ++ 1A        P: FE ++ protect code ++ 1A      *)
Definition save_B (code : list Z) : list Z := 255 :: code ++ [26].
Definition save_P (code : list Z) : list Z := 254 :: protect code ++ [26].

(* LOAD: the magic byte selects the type; B copies everything that follows (including the EOF byte, which
   lands after the program terminator); P decrypts all but the last byte *)
Definition load_file (f : list Z) : option (bool * list Z) :=
  match f with
  | 255 :: r => Some (false, r)
  | 254 :: r => Some (true, unprotect r)
  | _ => None
  end.
