(* Decimal.v - executable model of pcbasic's decimal <-> binary conversion (C07)
   (values/numbers.py Float.to_str / to_decimal / from_decimal / str_to_decimal, values.py Values.from_repr)

   LAYERS
   1. gen/Gen_mbf.v, gen/Gen_dec.v (regenerated on every run): all integer arithmetic - _denormalise,
      _div_den, _div10_den, _add_den, _mul10_den, _apply_carry_den, the two scaling loops and roundings of
      to_decimal (`mbf_to_decimal_core`), the carry renormalisation of to_str (`mbf_to_str_carry`),
      from_int, from_decimal with its loops, _normalise; the class constants incl. sigil / exp_sign, BLANKS,
      SEPARATORS and the digit threshold of str_to_decimal.
   2. this file, hand-written and tied by correspondence (harness/C07.py):
      (a) the byte-string assembly of Float.to_str / Integer.to_str: _get_digits, rstrip(b'0'),
          _scientific_notation (digits_to_dot=1, force_dot=False), _decimal_notation (force_dot=False,
          group_thousands=False), sign / leading space / type sigil;
      (b) the character loop of str_to_decimal as a step function over a record of its thirteen local
          variables, with the four ways a loop pass can end (continue, break, return, raise);
      (c) Integer.from_str and the dispatch of Values.from_repr (typechar=None) with the float_safe handler;
      (d) DECLARATIVE notions used only in theorem statements: the reading of a text as a decimal
          literal (sign, mantissa characters, what ends it), its significant digits, the documented type
          rule, the significant digits of a printed number.
   No proofs here (proofs/Decimal_*.v). *)
From Coq Require Import ZArith List Bool.
From PCB Require Import lib.Result lib.PyInt lib.Harness lib.MBFPrims gen.Gen_mbf gen.Gen_dec model.MBF.
Import ListNotations.
Open Scope Z_scope.

(* ------------------------------------------------------------------------------------------------ *)
(* formats: the class constants of Single / Double that the printing and parsing code uses          *)

Record dfmt := { d_C : fconst; d_sigil : list Z; d_exp_sign : list Z; d_mk : list Z -> value }.
Definition Single_fmt : dfmt :=
  {| d_C := Single_consts; d_sigil := Single_sigil; d_exp_sign := Single_exp_sign; d_mk := VSng |}.
Definition Double_fmt : dfmt :=
  {| d_C := Double_consts; d_sigil := Double_sigil; d_exp_sign := Double_exp_sign; d_mk := VDbl |}.

(* ------------------------------------------------------------------------------------------------ *)
(* small list functions                                                                             *)

Fixpoint dropwhile {A} (p : A -> bool) (l : list A) : list A :=
  match l with [] => [] | x :: r => if p x then dropwhile p r else l end.
Fixpoint takewhile {A} (p : A -> bool) (l : list A) : list A :=
  match l with [] => [] | x :: r => if p x then x :: takewhile p r else [] end.
Definition mem (c : Z) (l : list Z) : bool := existsb (Z.eqb c) l.

Definition is_digit (c : Z) : bool := (48 <=? c) && (c <=? 57).          (* b'0' <= c <= b'9' *)
Definition is_pm (c : Z) : bool := (c =? 43) || (c =? 45).                (* c in b'+-' *)
Definition upper (c : Z) : Z := if (97 <=? c) && (c <=? 122) then c - 32 else c.   (* bytes.upper() *)
Definition is_blank (c : Z) : bool := mem c dec_BLANKS.
Definition is_sep (c : Z) : bool := mem c dec_SEPARATORS.

(* ------------------------------------------------------------------------------------------------ *)
(* PRINTING                                                                                         *)

(* b'%d' % n, n >= 0 *)
Definition dec_str (n : Z) : list Z := fmt_base 10 n.

(* _get_digits(mantissa, min_digits) = (b'%d' % abs(mantissa)).rjust(min_digits, b'0') *)
Definition get_digits (mantissa min_digits : Z) : list Z :=
  let s := dec_str (Z.abs mantissa) in
  repeat 48 (Z.to_nat (min_digits - zlen s)) ++ s.

(* bytes.rstrip(b'0') *)
Definition rstrip0 (s : list Z) : list Z := rev (dropwhile (Z.eqb 48) (rev s)).

(* Float._scientific_notation(digitstr, exp10, digits_to_dot=1, force_dot=False) *)
Definition scientific_notation (F : dfmt) (digitstr : list Z) (exp10 : Z) : list Z :=
  let valstr := firstn 1 digitstr in
  let valstr := if zlen digitstr >? 1 then valstr ++ [46] ++ skipn 1 digitstr else valstr in
  let exponent := exp10 - 1 + 1 in
  valstr ++ d_exp_sign F ++ [if exponent <? 0 then 45 else 43] ++ get_digits (Z.abs exponent) 2.

(* Float._decimal_notation(digitstr, exp10, type_sign, force_dot=False, group_thousands=False) *)
Definition decimal_notation (F : dfmt) (digitstr : list Z) (exp10 : Z) (type_sign : bool) : list Z :=
  let tsign := if type_sign then d_sigil F else [] in
  let exp10 := exp10 + 1 in
  let valstr :=
    if exp10 >=? zlen digitstr then digitstr ++ repeat 48 (Z.to_nat (exp10 - zlen digitstr))
    else if exp10 >? 0 then firstn (Z.to_nat exp10) digitstr ++ [46] ++ skipn (Z.to_nat exp10) digitstr
    else [46] ++ repeat 48 (Z.to_nat (- exp10)) ++ digitstr in
  if negb (mem 46 valstr) || list_Z_eqb tsign [35] then valstr ++ tsign else valstr.

(* Float.to_decimal(self.digits): the branch `digits >= self.digits` takes the class limits *)
Definition f_to_decimal (C : fconst) (b : list Z) : res (Z * Z) :=
  mbf_to_decimal_core C b (c_lim_bot C) (c_lim_top C).

(* mantissa and exponent as used by to_str: to_decimal followed by the carry renormalisation *)
Definition f_decimal (C : fconst) (b : list Z) : res (Z * Z) :=
  do me <- f_to_decimal C b; Ok (mbf_to_str_carry C b (fst me) (snd me)).

(* the part of Float.to_str after the mantissa and exponent are known *)
Definition str_of_decimal (F : dfmt) (mantissa exp10 : Z) (type_sign : bool) : list Z :=
  let digits := c_digits (d_C F) in
  let digitstr := rstrip0 (get_digits mantissa digits) in
  let exp10 := exp10 + (digits - 1) in
  if (exp10 >? digits - 1) || (zlen digitstr - exp10 >? digits + 1)
  then scientific_notation F digitstr exp10
  else decimal_notation F digitstr exp10 type_sign.

(* Float.to_str(leading_space, type_sign) *)
Definition f_to_str (F : dfmt) (b : list Z) (leading_space type_sign : bool) : res (list Z) :=
  let C := d_C F in
  if mbf_is_zero C b
  then Ok ((if leading_space then [32] else []) ++ [48] ++ (if type_sign then d_sigil F else []))
  else
    let sign := if mbf_is_negative C b then [45] else if leading_space then [32] else [] in
    do me <- f_decimal C b;
    Ok (sign ++ str_of_decimal F (fst me) (snd me) type_sign).

(* Integer.to_str(leading_space, type_sign): b'%d' % to_int(), a blank before non-negative numbers *)
Definition i_to_str (b : list Z) (leading_space : bool) : list Z :=
  let n := i_val b in
  if n <? 0 then 45 :: dec_str (- n)
  else (if leading_space then [32] else []) ++ dec_str n.

(* values.to_repr(inp, leading_space, type_sign) *)
Definition v_to_repr (v : value) (leading_space type_sign : bool) : res (list Z) :=
  match v with
  | VInt b => Ok (i_to_str b leading_space)
  | VSng b => f_to_str Single_fmt b leading_space type_sign
  | VDbl b => f_to_str Double_fmt b leading_space type_sign
  | VStr _ => Err err_type_mismatch
  end.

(* ------------------------------------------------------------------------------------------------ *)
(* PARSING: numbers.str_to_decimal(s, allow_nonnum)                                                 *)

(* the local variables of str_to_decimal *)
Record pst := mkP {
  p_found_sign : bool; p_found_point : bool; p_found_exp : bool; p_found_exp_sign : bool;
  p_exp_neg : bool; p_neg : bool;
  p_exp10 : Z; p_exponent : Z; p_mantissa : Z; p_digits : Z; p_zeros : Z;
  p_is_double : bool; p_is_single : bool }.

Definition p_init : pst := mkP false false false false false false 0 0 0 0 0 false false.

(* how one pass through the loop body ends *)
Inductive ctl :=
| Continue (s : pst)
| Break (s : pst)
| ReturnZero                (* `return False, 0, 0` *)
| RaiseValueError.

(* `if allow_nonnum: break` / `raise ValueError(..)` *)
Definition nonnum (allow : bool) (s : pst) : ctl := if allow then Break s else RaiseValueError.

(* the last `if (b'0' <= c <= b'9')` of the loop body: exponent digits *)
Definition exp_digit (allow : bool) (s : pst) (c : Z) : ctl :=
  if is_digit c
  then Continue (mkP (p_found_sign s) (p_found_point s) (p_found_exp s) (p_found_exp_sign s) (p_exp_neg s) (p_neg s)
                     (p_exp10 s) (p_exponent s * 10 + (c - 48)) (p_mantissa s) (p_digits s) (p_zeros s)
                     (p_is_double s) (p_is_single s))
  else nonnum allow s.

Definition step (allow : bool) (s0 : pst) (c : Z) : ctl :=
  if is_blank c then Continue s0 else
  if is_sep c then ReturnZero else
  (* if (not found_sign): found_sign = True; if c in b'+-': neg = (c == b'-'); continue *)
  let first := negb (p_found_sign s0) in
  let s := mkP true (p_found_point s0) (p_found_exp s0) (p_found_exp_sign s0) (p_exp_neg s0) (p_neg s0)
               (p_exp10 s0) (p_exponent s0) (p_mantissa s0) (p_digits s0) (p_zeros s0)
               (p_is_double s0) (p_is_single s0) in
  if first && is_pm c
  then Continue (mkP true (p_found_point s) (p_found_exp s) (p_found_exp_sign s) (p_exp_neg s) (c =? 45)
                     (p_exp10 s) (p_exponent s) (p_mantissa s) (p_digits s) (p_zeros s)
                     (p_is_double s) (p_is_single s))
  else if negb (p_found_exp s) then
    if is_digit c then
      let m := p_mantissa s * 10 + (c - 48) in
      let e10 := if p_found_point s then p_exp10 s - 1 else p_exp10 s in
      let d := if m =? 0 then p_digits s else p_digits s + 1 in
      let z := if m =? 0 then p_zeros s
               else if p_found_point s && (c =? 48) then p_zeros s + 1 else 0 in
      Continue (mkP true (p_found_point s) false (p_found_exp_sign s) (p_exp_neg s) (p_neg s)
                    e10 (p_exponent s) m d z (p_is_double s) (p_is_single s))
    else if c =? 46 then
      Continue (mkP true true false (p_found_exp_sign s) (p_exp_neg s) (p_neg s)
                    (p_exp10 s) (p_exponent s) (p_mantissa s) (p_digits s) (p_zeros s)
                    (p_is_double s) (p_is_single s))
    else if (upper c =? 68) || (upper c =? 69) then
      Continue (mkP true (p_found_point s) true (p_found_exp_sign s) (p_exp_neg s) (p_neg s)
                    (p_exp10 s) (p_exponent s) (p_mantissa s) (p_digits s) (p_zeros s)
                    (upper c =? 68) (p_is_single s))
    else if c =? 33 then
      Break (mkP true (p_found_point s) false (p_found_exp_sign s) (p_exp_neg s) (p_neg s)
                 (p_exp10 s) (p_exponent s) (p_mantissa s) (p_digits s) (p_zeros s)
                 (p_is_double s) true)
    else if c =? 35 then
      Break (mkP true (p_found_point s) false (p_found_exp_sign s) (p_exp_neg s) (p_neg s)
                 (p_exp10 s) (p_exponent s) (p_mantissa s) (p_digits s) (p_zeros s)
                 true (p_is_single s))
    else nonnum allow s
  else if negb (p_found_exp_sign s) then
    let s1 := mkP true (p_found_point s) true true (p_exp_neg s) (p_neg s)
                  (p_exp10 s) (p_exponent s) (p_mantissa s) (p_digits s) (p_zeros s)
                  (p_is_double s) (p_is_single s) in
    if is_pm c
    then Continue (mkP true (p_found_point s) true true (c =? 45) (p_neg s)
                       (p_exp10 s) (p_exponent s) (p_mantissa s) (p_digits s) (p_zeros s)
                       (p_is_double s) (p_is_single s))
    else exp_digit allow s1 c
  else exp_digit allow s c.

(* the statements after the loop *)
Definition finish (s : pst) : bool * Z * Z :=
  let exp10 := if p_exp_neg s then p_exp10 s - p_exponent s else p_exp10 s + p_exponent s in
  let is_double := if (p_digits s - p_zeros s >? dec_single_digits) && negb (p_is_single s)
                   then true else p_is_double s in
  (is_double, (if p_neg s then - p_mantissa s else p_mantissa s), exp10).

Fixpoint run (allow : bool) (s : pst) (l : list Z) : res (bool * Z * Z) :=
  match l with
  | [] => Ok (finish s)
  | c :: r =>
      match step allow s c with
      | Continue s' => run allow s' r
      | Break s' => Ok (finish s')
      | ReturnZero => Ok (false, 0, 0)
      | RaiseValueError => Host host_ValueError
      end
  end.

Definition str_to_decimal (s : list Z) (allow_nonnum : bool) : res (bool * Z * Z) := run allow_nonnum p_init s.

(* ------------------------------------------------------------------------------------------------ *)
(* Values.from_repr(word, allow_nonnum, typechar=None)                                              *)

(* bytes.strip(BLANKS) *)
Definition strip_blanks (s : list Z) : list Z := rev (dropwhile is_blank (rev (dropwhile is_blank s))).

(* Integer.from_str(dec_repr):
     valstr = dec_repr.strip(BLANKS); if set(valstr) - set(DIGITS): raise ValueError
     return self.from_int(int(valstr))                -- int(b'') raises ValueError *)
Definition int_from_str (w : list Z) : res (list Z) :=
  let v := strip_blanks w in
  if negb (forallb is_digit v) then Host host_ValueError
  else match v with
       | [] => Host host_ValueError
       | _ => i_from_int (of_digits 10 (map (fun c => c - 48) v)) false
       end.

(* new_single()/new_double().from_decimal(mantissa, exp10) under @float_safe:
   OverflowError(self) -> BASIC Overflow when the handler raises (`hard`), otherwise the message is
   printed and the value is the largest float of the sign *)
Definition from_decimal_safe (hard : bool) (F : dfmt) (mantissa exp10 : Z) : res value :=
  let C := d_C F in
  rmap (d_mk F) (float_safe hard (mbf_from_decimal C (zeros (c_size C)) mantissa exp10)
                            (f_max C (mantissa <? 0))).

(* the float branch of from_repr: str_to_decimal then from_decimal; ValueError -> Illegal function call *)
Definition from_repr_float (hard : bool) (w : list Z) (allow_nonnum : bool) : res value :=
  match str_to_decimal w allow_nonnum with
  | Ok (is_double, mantissa, exp10) =>
      from_decimal_safe hard (if is_double then Double_fmt else Single_fmt) mantissa exp10
  | Host x => if x =? host_ValueError then Err err_ifc else Host x
  | Err e => Err e
  | OutOfFuel => OutOfFuel
  end.

Definition from_repr (hard : bool) (word : list Z) (allow_nonnum : bool) : res value :=
  (* word = word.lstrip(b' \n').upper() *)
  let w := map upper (dropwhile (fun c => (c =? 32) || (c =? 10)) word) in
  match w with
  | [] => Ok (VInt [0; 0])
  | c0 :: r0 =>
      if c0 =? 38 then
        (* &H.. / &O.. / &.. : MBF.v (C03), clean digit strings only *)
        match r0 with
        | c1 :: r1 => if c1 =? 72 then v_from_hex r1
                      else if c1 =? 79 then v_from_oct (strip_blanks r1)
                      else v_from_oct (strip_blanks r0)
        | [] => v_from_oct (strip_blanks r0)
        end
      else
        match int_from_str w with
        | Ok b => Ok (VInt b)
        (* ValueError / Overflow: try a float *)
        | Host x => if x =? host_ValueError then from_repr_float hard w allow_nonnum else Host x
        | Err e => if e =? err_overflow then from_repr_float hard w allow_nonnum else Err e
        | OutOfFuel => OutOfFuel
        end
  end.

(* ------------------------------------------------------------------------------------------------ *)
(* DECLARATIVE notions for the theorem statements                                                   *)

(* -- reading a blank-free text as a decimal literal: [sign] mantissa-characters rest *)
Definition is_mant (c : Z) : bool := is_digit c || (c =? 46).
Definition is_expletter (c : Z) : bool := (upper c =? 68) || (upper c =? 69).

Definition unsigned_part (t : list Z) : list Z :=
  match t with c :: r => if is_pm c then r else t | [] => [] end.
Definition lit_neg (t : list Z) : bool :=
  match t with c :: _ => c =? 45 | [] => false end.
Definition lit_mant (t : list Z) : list Z := takewhile is_mant (unsigned_part t).
Definition lit_rest (t : list Z) : list Z := dropwhile is_mant (unsigned_part t).

(* the exponent part after the letter: [sign] digits, then whatever stops it *)
Definition exp_digits (r : list Z) : list Z := takewhile is_digit (unsigned_part r).
Definition exp_rest (r : list Z) : list Z := dropwhile is_digit (unsigned_part r).

(* digits of the mantissa, each with the flag "a decimal point came before it" *)
Fixpoint flag_digits (seen_point : bool) (m : list Z) : list (Z * bool) :=
  match m with
  | [] => []
  | c :: r => if c =? 46 then flag_digits true r else (c - 48, seen_point) :: flag_digits seen_point r
  end.

(* significant digits: from the first non-zero digit on, without the zeros that end the mantissa
   after a decimal point *)
Definition sig_part (m : list Z) : list (Z * bool) := dropwhile (fun x => fst x =? 0) (flag_digits false m).
Definition sig_digits (m : list Z) : Z :=
  zlen (sig_part m) - zlen (takewhile (fun x => (fst x =? 0) && snd x) (rev (sig_part m))).

(* value of the mantissa characters: the digits read as an integer, and minus the number of digits
   after the first point *)
Definition mant_int (m : list Z) : Z := of_digits 10 (map fst (flag_digits false m)).
Definition mant_scale (m : list Z) : Z := - zlen (filter snd (flag_digits false m)).

(* what ends the literal *)
Inductive ending :=
| EndOfText                         (* nothing follows the mantissa *)
| EndBang                           (* ! *)
| EndHash                           (* # *)
| EndSeparator                      (* one of the ASCII separators 1C 1D 1F: the whole text reads as zero *)
| EndOther                          (* any other character: the number ends there (or ValueError) *)
| EndExponent (letter : Z) (neg : bool) (digits : list Z) (after : ending).
                                    (* E/D [sign] digits, then EndOfText / EndSeparator / EndOther *)

Definition simple_ending (l : list Z) : ending :=
  match l with
  | [] => EndOfText
  | c :: _ => if is_sep c then EndSeparator else EndOther
  end.

Definition lit_ending (t : list Z) : ending :=
  match lit_rest t with
  | [] => EndOfText
  | c :: r =>
      if c =? 33 then EndBang
      else if c =? 35 then EndHash
      else if is_expletter c then EndExponent (upper c) (lit_neg r) (exp_digits r) (simple_ending (exp_rest r))
      else simple_ending (c :: r)
  end.

(* THE DOCUMENTED TYPE RULE: `!` single, `#` double, exponent letter D double, otherwise double exactly
   when there are more than seven significant digits; a separator character makes the text read as the
   single-precision zero *)
Definition doc_is_double (t : list Z) : bool :=
  match lit_ending t with
  | EndBang => false
  | EndHash => true
  | EndSeparator => false
  | EndExponent letter _ _ after =>
      match after with
      | EndSeparator => false
      | _ => (letter =? 68) || (sig_digits (lit_mant t) >? 7)
      end
  | _ => sig_digits (lit_mant t) >? 7
  end.

(* the text contains a character that is not part of the number *)
Definition has_nonnum (t : list Z) : bool :=
  match lit_ending t with
  | EndOther => true
  | EndExponent _ _ _ EndOther => true
  | _ => false
  end.

(* mantissa and decimal exponent the documented reading gives *)
Definition doc_mantissa (t : list Z) : Z :=
  match lit_ending t with
  | EndSeparator | EndExponent _ _ _ EndSeparator => 0
  | _ => (if lit_neg t then -1 else 1) * mant_int (lit_mant t)
  end.
Definition doc_exp10 (t : list Z) : Z :=
  match lit_ending t with
  | EndSeparator | EndExponent _ _ _ EndSeparator => 0
  | EndExponent _ neg ds _ =>
      mant_scale (lit_mant t) + (if neg then -1 else 1) * of_digits 10 (map (fun c => c - 48) ds)
  | _ => mant_scale (lit_mant t)
  end.

Definition nonblank (w : list Z) : list Z := filter (fun c => negb (is_blank c)) w.

(* the type from_repr gives to a word that does not start with & :
   2 = Integer (the word is only digits, possibly blanks around them, and at most 32767),
   8 = Double, 4 = Single by the documented rule *)
Definition doc_type (word : list Z) : Z :=
  let w := map upper (dropwhile (fun c => (c =? 32) || (c =? 10)) word) in
  match w with
  | [] => 2
  | _ =>
      let v := strip_blanks w in
      if forallb is_digit v && negb (match v with [] => true | _ => false end)
         && (of_digits 10 (map (fun c => c - 48) v) <=? 32767)
      then 2
      else if doc_is_double (nonblank w) then 8 else 4
  end.

(* -- significant digits of a printed number: the digit characters before the exponent letter,
      without leading zeros *)
Definition printed_mantissa (s : list Z) : list Z :=
  takewhile (fun c => negb ((c =? 69) || (c =? 68))) s.
Definition printed_sig_digits (s : list Z) : Z :=
  zlen (dropwhile (Z.eqb 48) (filter is_digit (printed_mantissa s))).

(* -- the exact value of a printed number as a pair (integer, power of ten):
      value = pd_int * 10 ^ pd_exp10;  the unit of the last digit shown is 10 ^ pd_exp10 *)
Definition printed_body (s : list Z) : list Z :=                      (* without blank / sign *)
  match s with
  | c :: r => if (c =? 32) || (c =? 45) then r else s
  | [] => []
  end.
Definition printed_neg (s : list Z) : bool := match s with 45 :: _ => true | _ => false end.
Definition printed_exp_part (s : list Z) : list Z :=                  (* after the letter E or D *)
  match dropwhile (fun c => negb ((c =? 69) || (c =? 68))) s with _ :: r => r | [] => [] end.
Definition pd_int (s : list Z) : Z :=
  (if printed_neg s then -1 else 1) * mant_int (takewhile is_mant (printed_body s)).
Definition pd_exp10 (s : list Z) : Z :=
  mant_scale (takewhile is_mant (printed_body s))
  + match printed_exp_part s with
    | [] => 0
    | sg :: ds => (if sg =? 45 then -1 else 1) * of_digits 10 (map (fun c => c - 48) (takewhile is_digit ds))
    end.

(* ------------------------------------------------------------------------------------------------ *)
(* harness entry points (harness/C07.py)                                                            *)

(* printing one value in the four (leading_space, type_sign) combinations *)
Definition enc_str (r : res (list Z)) : list Z :=
  match r with Ok s => 0 :: zlen s :: s | Err e => [1; e] | Host x => [2; x] | OutOfFuel => [3] end.
Definition c07_print (v : value) : list Z :=
  enc_str (v_to_repr v true false) ++ enc_str (v_to_repr v false false)
  ++ enc_str (v_to_repr v false true) ++ enc_str (v_to_repr v true true).

(* to_decimal(self.digits) itself *)
Definition c07_decimal (F : dfmt) (b : list Z) : list Z :=
  match f_to_decimal (d_C F) b with
  | Ok (m, e) => [0; m; e] | Err e => [1; e] | Host x => [2; x] | OutOfFuel => [3] end.

(* parsing: str_to_decimal (both allow_nonnum modes) and from_repr (hard errors, both modes) *)
Definition enc_std (r : res (bool * Z * Z)) : list Z :=
  match r with
  | Ok (d, m, e) => [0; enc_bool d; m; e] | Err e => [1; e] | Host x => [2; x] | OutOfFuel => [3] end.
Definition c07_parse (w : list Z) : list Z :=
  enc_std (str_to_decimal w true) ++ enc_std (str_to_decimal w false)
  ++ enc_vres (from_repr true w true) ++ enc_vres (from_repr true w false).
Definition c07_parse_soft (w : list Z) : list Z := enc_vres (from_repr false w true).

(* print then read back (the round trip of clause 1) *)
Definition c07_roundtrip (v : value) : list Z :=
  match v_to_repr v true false with
  | Ok s => enc_str (Ok s) ++ enc_vres (from_repr true s true)
  | r => enc_str r
  end.

(* the integers lo .. lo+n-1 as floats of format F (Float.from_int), printed and read back *)
Definition c07_int_one (F : dfmt) (n : Z) : list Z :=
  match mbf_from_int (d_C F) (zeros (c_size (d_C F))) n with
  | Ok b => c07_roundtrip (d_mk F b)
  | Err e => [1; e] | Host x => [2; x] | OutOfFuel => [3]
  end.
Fixpoint c07_int_sweep_from (F : dfmt) (k : nat) (lo : Z) : list Z :=
  match k with O => [] | S k' => c07_int_one F lo ++ c07_int_sweep_from F k' (lo + 1) end.
Definition c07_int_sweep (F : dfmt) (lo n : Z) : list Z := c07_int_sweep_from F (Z.to_nat n) lo.

(* the console output of `PRINT x : WRITE x : PRINT STR$(x)` (formatter: to_repr + blank; WRITE: no blank) *)
Definition c07_e2e (v : value) : list Z :=
  match v_to_repr v true false, v_to_repr v false false with
  | Ok p, Ok w => p ++ [32; 13; 10] ++ w ++ [13; 10] ++ p ++ [13; 10]
  | _, _ => []
  end.

(* the scaling steps on a den given as (exp, man, neg): op 0 = _div10_den, 1 = _mul10_den, 2 = _apply_carry_den *)
Definition enc_den (r : res (Z * Z * bool)) : list Z :=
  match r with
  | Ok (e, m, n) => [0; e; m; enc_bool n] | Err e => [1; e] | Host x => [2; x] | OutOfFuel => [3]
  end.
Definition c07_step (F : dfmt) (op e m : Z) (neg : bool) : list Z :=
  if op =? 0 then enc_den (mbf_div10_den (d_C F) (e, m, neg))
  else if op =? 1 then enc_den (Ok (mbf_mul10_den (d_C F) (e, m, neg)))
  else enc_den (Ok (mbf_apply_carry_den (d_C F) (e, m, neg))).

(* ------------------------------------------------------------------------------------------------ *)
(* LIST of a number token: Lister._detokenise_number(ins, lead) with trail = the PLUS_BYTES[lead] bytes after
   the lead byte (0B octal, 0C hex, 0D/0E line number, 0F one-byte integer, 11h..1Bh the constants 0..10,
   1C integer, 1D single, 1F double); any other lead: the failsafe b'' *)
Definition list_number (lead : Z) (trail : list Z) : res (list Z) :=
  if lead =? 11 then Ok ([38; 79] ++ i_to_oct trail)
  else if lead =? 12 then Ok ([38; 72] ++ i_to_hex trail)
  else if lead =? 15 then Ok (dec_str (py_nth 0 trail 0))
  else if (17 <=? lead) && (lead <=? 27) then Ok (dec_str (lead - 17))
  else if (lead =? 13) || (lead =? 14) then Ok (dec_str (i_uval trail))
  else if lead =? 28 then v_to_repr (VInt trail) false true
  else if lead =? 29 then v_to_repr (VSng trail) false true
  else if lead =? 31 then v_to_repr (VDbl trail) false true
  else Ok [].

(* the integer an integer-constant token stands for when the program runs (Integer.from_token) *)
Definition token_int (lead : Z) (trail : list Z) : option Z :=
  if (17 <=? lead) && (lead <=? 27) then Some (lead - 17)
  else if lead =? 15 then Some (py_nth 0 trail 0)
  else if lead =? 28 then Some (i_val trail)
  else None.

(* harness: the listed line `10 PRINT <token>` *)
Definition c07_list (lead : Z) (trail : list Z) : list Z :=
  enc_str (rmap (fun s => [49; 48; 32; 80; 82; 73; 78; 84; 32] ++ s) (list_number lead trail)).
