(* C25 + C26 combined: several file numbers open on the same random-access file.
   The lock table and the statement checks are model/Locks.v, the record transfer is model/RandomFile.v
   (rf_get / rf_put on the host stream); here the bytes belong to the file NAME and every file number has its
   own stream position, record pointer (lp_recpos of the lock table), record length and FIELD buffer.
   Host assumption made explicit: a write is visible to the other handles because RandomFile.put flushes
   (Gen_locks.rf_put_flushes) and every GET re-reads the file (lof() seeks to the end, which drops the read
   buffer of a Python buffered stream).  No proofs in this file. *)
From Coq Require Import ZArith List Bool.
From PCB Require Import lib.Result lib.PyInt gen.Gen_locks model.Locks model.RandomFile.
Import ListNotations.
Open Scope Z_scope.

Section Assoc.
  Context {A : Type}.
  Fixpoint aget (k : Z) (l : list (Z * A)) : option A :=
    match l with
    | [] => None
    | (j, v) :: r => if j =? k then Some v else aget k r
    end.
  Fixpoint aset (k : Z) (v : A) (l : list (Z * A)) : list (Z * A) :=
    match l with
    | [] => [(k, v)]
    | (j, w) :: r => if j =? k then (j, v) :: r else (j, w) :: aset k v r
    end.
  Definition adel (k : Z) (l : list (Z * A)) : list (Z * A) := filter (fun jv => negb (fst jv =? k)) l.
End Assoc.

(* per file number: position of its host stream, record length given at OPEN *)
Record hdl := mkH { h_pos : Z; h_reclen : Z }.

Record cstate := mkC {
  c_st : state;                       (* model/Locks.v: lock table with record pointers, existing names *)
  c_bytes : list (Z * list Z);        (* file name -> bytes on disk *)
  c_h : list (Z * hdl);               (* file number -> handle *)
  c_bufs : list (Z * list Z) }.       (* file number -> FIELD buffer (128 bytes, survives CLOSE) *)

Definition c_init : cstate := mkC init [] [] [].
Definition bytes_of (nm : Z) (cs : cstate) : list Z := match aget nm (c_bytes cs) with Some b => b | None => [] end.
Definition buf_of (n : Z) (cs : cstate) : list Z :=
  match aget n (c_bufs cs) with Some b => b | None => zeros field_size end.
Definition with_st (cs : cstate) (st : state) : cstate := mkC st (c_bytes cs) (c_h cs) (c_bufs cs).

Inductive cop :=
| COpen (nm n : Z) (a : acc) (lt : ltype) (reclen : Z)     (* OPEN name FOR RANDOM [ACCESS..] [LOCK..|SHARED] AS n LEN= *)
| CClose (n : Z)
| CLock (n : Z) (so eo : option Z)
| CUnlock (n : Z) (so eo : option Z)
| CField (n off w : Z) (rj : bool) (d : list Z)
| CPut (n : Z) (pos : option Z)
| CGet (n : Z) (pos : option Z)
| CQuery (n : Z).

(* the stream of file number n as RandomFile sees it: shared bytes, own position, own pointer and length *)
Definition rfile_of (cs : cstate) (this : fent) (h : hdl) : rfile :=
  mkRF (mkStream (bytes_of (lp_name this) cs) (h_pos h)) (lp_recpos this) (h_reclen h).

(* the data transfer of a PUT / GET that passed all checks; st' is the lock table after the statement *)
Definition do_put (cs : cstate) (st' : state) (n : Z) (this : fent) (h : hdl) (p : option Z) : cstate :=
  let f' := rf_put p (rfile_of cs this h) (buf_of n cs) in
  mkC st' (aset (lp_name this) (s_bytes (rf_stream f')) (c_bytes cs))
      (aset n (mkH (s_pos (rf_stream f')) (h_reclen h)) (c_h cs)) (c_bufs cs).
Definition do_get (cs : cstate) (st' : state) (n : Z) (this : fent) (h : hdl) (p : option Z) : cstate * list Z :=
  let '(f', buf') := rf_get p (rfile_of cs this h) (buf_of n cs) in
  (mkC st' (c_bytes cs) (aset n (mkH (s_pos (rf_stream f')) (h_reclen h)) (c_h cs)) (aset n buf' (c_bufs cs)),
   ztake (h_reclen h) buf').

Definition getput_c (put : bool) (cs : cstate) (n : Z) (pos : option Z) : cstate * res (list Z) :=
  let '(st', r) := getput_stmt put (c_st cs) n pos in
  match r with
  | Ok _ =>
      match find n (st_files (c_st cs)), aget n (c_h cs), check_pos pos with
      | Some this, Some h, Ok p =>
          if put then (do_put cs st' n this h p, Ok [])
          else let '(cs', out) := do_get cs st' n this h p in (cs', Ok out)
      | _, _, _ => (with_st cs st', Host host_Other)
      end
  | Err e => (with_st cs st', Err e)
  | Host x => (with_st cs st', Host x)
  | OutOfFuel => (with_st cs st', OutOfFuel)
  end.

Definition lift (cs : cstate) (x : state * res unit) : cstate * res (list Z) :=
  (with_st cs (fst x),
   match snd x with Ok _ => Ok [] | Err e => Err e | Host h => Host h | OutOfFuel => OutOfFuel end).

Definition cstep (cs : cstate) (o : cop) : cstate * res (list Z) :=
  match o with
  | COpen nm n a lt reclen =>
      let '(st', r) := open_stmt (c_st cs) nm n MR a lt reclen in
      match r with
      | Ok _ => (mkC st' (c_bytes cs) (aset n (mkH 0 reclen) (c_h cs)) (c_bufs cs), Ok [])
      | _ => lift cs (st', r)
      end
  | CClose n =>
      let '(st', r) := close_stmt (c_st cs) n in
      match r with
      | Ok _ => (mkC st' (c_bytes cs) (adel n (c_h cs)) (c_bufs cs), Ok [])
      | _ => lift cs (st', r)
      end
  | CLock n so eo => lift cs (lock_stmt false (c_st cs) n so eo)
  | CUnlock n so eo => lift cs (lock_stmt true (c_st cs) n so eo)
  | CField n off wd rj d =>
      if (n <? 0) || (255 <? n) then (cs, Err locks_err_IFC)
      else if n <? 1 then (cs, Err locks_err_BAD_FILE_NUMBER)
      else match find n (st_files (c_st cs)) with
           | None => (cs, Err locks_err_BAD_FILE_NUMBER)
           | Some _ =>
               if (off <? 0) || (255 <? off) || (wd <? 0) || (255 <? wd) then (cs, Err locks_err_IFC)
               else if (field_size <? off) || (field_size <? off + wd) then (cs, Err locks_err_FIELD_OVERFLOW)
               else (mkC (c_st cs) (c_bytes cs) (c_h cs) (aset n (buf_set off wd rj d (buf_of n cs)) (c_bufs cs)),
                     Ok [])
           end
  | CPut n pos => getput_c true cs n pos
  | CGet n pos => getput_c false cs n pos
  | CQuery n =>
      match find n (st_files (c_st cs)), aget n (c_h cs) with
      | Some this, Some h =>
          let f := rfile_of cs this h in
          (cs, Ok [single_trunc (rf_lof f); single_trunc (rf_loc f); if rf_iseof f then -1 else 0])
      | _, _ => (cs, Err locks_err_BAD_FILE_NUMBER)
      end
  end.

Fixpoint crun (cs : cstate) (ops : list cop) : cstate :=
  match ops with
  | [] => cs
  | o :: r => crun (fst (cstep cs o)) r
  end.

(* observation for the correspondence harness *)
Fixpoint ctrace (cs : cstate) (ops : list cop) : list Z :=
  match ops with
  | [] => enc_state (c_st cs)
          ++ flat_map (fun nm => zlen (bytes_of nm cs) :: bytes_of nm cs) [1; 2]
          ++ flat_map (fun n => buf_of n cs) [1; 2; 3]
  | o :: r => let (cs', res) := cstep cs o in
              match res with
              | Ok l => (0 :: zlen l :: l)
              | Err e => [1; e]
              | Host h => [2; h]
              | OutOfFuel => [3; 0]
              end ++ ctrace cs' r
  end.
