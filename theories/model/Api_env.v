(* C43: the concrete environment of a Session with a given codepage, over the C41 codepage model
   (model/Codepage.v, tables regenerated from /repo) and the executable Float.from_value model.
   NO proofs in this file. *)
From Coq Require Import ZArith List Bool String.
From PCB Require Import lib.Result lib.PyInt gen.Gen_codepages gen.Gen_codepages_dbcs model.Codepage model.Api.
Import ListNotations.
Open Scope Z_scope.

(* codepage.CONTROL: the bytes get_variable(as_type=unicode) keeps as control characters *)
Definition CONTROL : list (list Z) := [[7]; [9]; [10]; [11]; [12]; [13]; [28]; [29]; [30]; [31]].

(* Codepage.bytes_to_unicode(cps, preserve=CONTROL) of a Session's codepage object (box_protect=True) *)
Definition api_b2u (t : tables) (s : list Z) : list Z :=
  fst (to_unicode {| cv_t := t; cv_cpbox := true; cv_preserve := CONTROL; cv_boxarg := false;
                     cv_subst := false |} init_state s true).

Definition env_of_tables (t : tables) : env :=
  mkEnv (unicode_to_bytes t Ignore) (api_b2u t) mbf_from_value.

Definition env_of (cpname : string) : env := env_of_tables (get_codepage cpname).
