(* MBFArith.v - executable model of pcbasic's floating-point arithmetic entry points (C04, C05).

   The integer/byte level (Float.iadd isub imul idiv ineg iabs sign, _add_den, _div_den, _normalise,
   _bring_to_range, _check_limits) is REGENERATED from values/numbers.py into gen/Gen_mbf.v on every run.
   This file is the hand-written glue for the object-level code of values.py:
       add sub mul div            (type dispatch: match_types / to_float / to_single / to_double,
                                   the @float_safe wrapper and the FloatErrorHandler)
       neg abs_ sgn_
   tied to the source by correspondence (harness/C04.py, harness/C05.py: result BYTES of values.add/...
   on a real Session).  No proofs here (see proofs/MBFArith_*.v).

   ERRORS.  numbers.py raises OverflowError(self) / ZeroDivisionError(self) after setting self to the
   largest float of the sign; the generated code returns `Host 5` / `Host 6` and drops the payload, which
   is recomputed here (`f_max C sign`): for + and - the sign is the third component of `_add_den`, for
   * and / the xor of the operand signs, for division by zero the sign of the dividend.
   `hard` = the FloatErrorHandler raises the BASIC error (no console, or error trapping active);
   otherwise it prints the message and the operation returns the payload.                              *)
From Coq Require Import ZArith List Bool.
From PCB Require Import lib.Result lib.PyInt lib.Harness lib.MBFPrims gen.Gen_mbf model.MBF.
Import ListNotations.
Open Scope Z_scope.

Definition err_div_zero : Z := 11.

(* FloatErrorHandler.handle on OverflowError / ZeroDivisionError carrying `payload` *)
Definition arith_safe (hard : bool) (r : res (list Z)) (payload : list Z) : res (list Z) :=
  match r with
  | Host 5 => if hard then Err err_overflow else Ok payload
  | Host 6 => if hard then Err err_div_zero else Ok payload
  | _ => r
  end.

(* sign handed to _normalise by iadd / isub *)
Definition add_den_neg (C : fconst) (l r : Z * Z * bool) : bool :=
  let '(_, _, n) := mbf_add_den C l r in n.
Definition den_negate (d : Z * Z * bool) : Z * Z * bool := let '(e, m, n) := d in (e, m, negb n).

(* left.clone().iadd(right) etc. with the error handler; a, b buffers of class C *)
Definition f_add (hard : bool) (C : fconst) (a b : list Z) : res (list Z) :=
  arith_safe hard (mbf_iadd C a b)
    (f_max C (add_den_neg C (mbf_denormalise C a) (mbf_denormalise C b))).
Definition f_sub (hard : bool) (C : fconst) (a b : list Z) : res (list Z) :=
  arith_safe hard (mbf_isub C a b)
    (f_max C (add_den_neg C (mbf_denormalise C a) (den_negate (mbf_denormalise C b)))).
Definition f_mul (hard : bool) (C : fconst) (a b : list Z) : res (list Z) :=
  arith_safe hard (mbf_imul C a b)
    (f_max C (negb (Bool.eqb (mbf_is_negative C a) (mbf_is_negative C b)))).
Definition f_div (hard : bool) (C : fconst) (a b : list Z) : res (list Z) :=
  arith_safe hard (mbf_idiv C a b)
    (f_max C (if mbf_is_zero C b then mbf_is_negative C a
              else negb (Bool.eqb (mbf_is_negative C a) (mbf_is_negative C b)))).

(* ------------------------------------------------------------------------------------------------ *)
(* values.add / sub / mul / div                                                                     *)

(* is one of the operands a Double? (match_types; the explicit isinstance tests of mul / div) *)
Definition wide (x y : value) : bool :=
  match x, y with
  | VDbl _, _ | _, VDbl _ => true
  | _, _ => false
  end.

(* both operands numeric: convert to Double if one of them is, else to Single (Integer operands are
   promoted to Single: add/sub call left.to_float() first and match_types then lifts the right operand,
   mul/div call to_single() on both), then apply the in-place operation of that class *)
Definition v_arith (op : bool -> fconst -> list Z -> list Z -> res (list Z))
                   (hard : bool) (x y : value) : res value :=
  if wide x y then
    do x' <- v_to_double x; do y' <- v_to_double y;
    rmap VDbl (op hard Double_consts (v_bytes x') (v_bytes y'))
  else
    do x' <- v_to_single true x; do y' <- v_to_single true y;
    rmap VSng (op hard Single_consts (v_bytes x') (v_bytes y')).

(* values.add: two strings are concatenated (property C09, not modelled here: Host host_Other) *)
Definition v_add (hard : bool) (x y : value) : res value :=
  match x, y with
  | VStr _, VStr _ => Host host_Other
  | VStr _, _ | _, VStr _ => Err err_type_mismatch
  | _, _ => v_arith f_add hard x y
  end.

Definition v_num2 (op : bool -> fconst -> list Z -> list Z -> res (list Z))
                  (hard : bool) (x y : value) : res value :=
  match x, y with
  | VStr _, _ | _, VStr _ => Err err_type_mismatch
  | _, _ => v_arith op hard x y
  end.
Definition v_sub := v_num2 f_sub.
Definition v_mul := v_num2 f_mul.
Definition v_div := v_num2 f_div.

(* ------------------------------------------------------------------------------------------------ *)
(* values.neg / abs_ / sgn_                                                                         *)

(* inp.to_float(): Integer -> Single, floats unchanged *)
Definition v_to_float (v : value) : res value :=
  match v with
  | VInt _ => v_to_single true v
  | _ => Ok v
  end.

Definition v_unary (op : fconst -> list Z -> res (list Z)) (v : value) : res value :=
  match v with
  | VStr s => Ok (VStr s)                                   (* strings pass unchanged *)
  | _ => do f <- v_to_float v;
         match f with
         | VSng b => rmap VSng (op Single_consts b)
         | VDbl b => rmap VDbl (op Double_consts b)
         | _ => Host host_Other
         end
  end.
Definition v_neg := v_unary mbf_ineg.
Definition v_abs := v_unary mbf_iabs.

(* Integer(None, values).from_int(pass_number(x).sign()) *)
Definition v_sgn (v : value) : res value :=
  match v with
  | VStr _ => Err err_type_mismatch
  | VInt b => rmap VInt (i_from_int (int_sign b) false)
  | VSng b => rmap VInt (i_from_int (mbf_sign Single_consts b) false)
  | VDbl b => rmap VInt (i_from_int (mbf_sign Double_consts b) false)
  end.

(* ------------------------------------------------------------------------------------------------ *)
(* reference notions used in the theorems (all on the scale value * 2^184 of MBF.value_scaled)       *)

Definition fbits (t : Z) : Z := if t =? 8 then 56 else 24.          (* mantissa bits of the type tag *)
(* type tag of the result of a binary operation: the widest operand type, integers count as single *)
Definition widest (x y : value) : Z := if wide x y then 8 else 4.
(* largest and smallest positive magnitudes of the float type with tag t, times 2^184:
   MAX = (2^mbits - 1) * 2^(127 - mbits),  MIN = 2^-128 *)
Definition max_scaled (t : Z) : Z := (2 ^ fbits t - 1) * 2 ^ (311 - fbits t).
Definition min_scaled : Z := 2 ^ 56.
(* unit in the last place of a non-zero float value, times 2^184: 2^(e - 128 - mbits) *)
Definition ulp_scaled (v : value) : Z :=
  match v with
  | VSng b => 2 ^ (f_exp b + 32)
  | VDbl b => 2 ^ f_exp b
  | _ => 0
  end.
Definition is_zero_value (v : value) : bool :=
  match v with
  | VSng b | VDbl b => f_zero b
  | VInt b => int_is_zero b
  | VStr _ => false
  end.
(* canonical encodings: every float with a non-zero exponent byte, and the all-zero float *)
Definition canonical (v : value) : bool :=
  match v with
  | VSng b | VDbl b => negb (f_zero b) || list_Z_eqb b (zeros (zlen b))
  | _ => true
  end.

(* class, constructor and scale factor (value_scaled = f_sval * scale) of the float type with tag t *)
Definition cls (t : Z) : fconst := if t =? 8 then Double_consts else Single_consts.
Definition mkf (t : Z) (b : list Z) : value := if t =? 8 then VDbl b else VSng b.
Definition scale_of (t : Z) : Z := if t =? 8 then 1 else 2 ^ 32.

(* `err_ok strict x bound`:  x < bound  (strict)  or  x <= bound *)
Definition err_le (strict : bool) (x bound : Z) : Prop := if strict then x < bound else x <= bound.

(* THE STATEMENT OF C04 for one operation on one operand pair.
   The exact result is the rational N / D on the scale of value_scaled (value * 2^184); t is the result
   type; rh / rs are the results with the error handler raising (hard) / printing and continuing (soft).
     - Overflow (BASIC error 6) is raised only if |exact| > MAX, and the soft result is then the largest
       number of the type with the sign of the exact result;
     - it is always raised if |exact| >= 2^127 (between MAX and 2^127 the result may round to MAX itself);
     - otherwise both modes return the same float r of type t; if r is a zero then |exact| < MIN = 2^-128
       (in particular: a non-zero exact result is replaced by zero only below MIN);
     - if r is not zero,  den * |r - exact|  <  /  <=  w * ulp(r)      (strict: < ; else <=). *)
Definition val_post (t : Z) (strict : bool) (w den : Z) (N D : Z) (rh rs : res value) : Prop :=
  (match rh return Prop with
   | Err e => e = err_overflow /\ max_scaled t * D < Z.abs N /\
              rs = Ok (mkf t (f_max (cls t) (N <? 0)))
   | Ok r => rs = Ok r /\ v_tag r = t /\ value_ok r /\
             (if is_zero_value r then Z.abs N < min_scaled * D
              else err_le strict (den * Z.abs (value_scaled r * D - N)) (w * ulp_scaled r * D))
   | _ => False
   end) /\ (2 ^ 311 * D <= Z.abs N -> rh = Err err_overflow).

(* ------------------------------------------------------------------------------------------------ *)
(* harness entry points                                                                             *)

Definition c04_all (x y : value) : list Z :=
  enc_vres (v_add true x y) ++ enc_vres (v_add false x y) ++
  enc_vres (v_sub true x y) ++ enc_vres (v_sub false x y) ++
  enc_vres (v_mul true x y) ++ enc_vres (v_mul false x y) ++
  enc_vres (v_div true x y) ++ enc_vres (v_div false x y).

Definition rbind (r : res value) (f : value -> res value) : res value := bind r f.
Definition v_one : value := VInt [1; 0].
Definition v_zero : value := VInt [0; 0].
(* the identities of C05 evaluated on one pair (harness/C05.py, same order) *)
Definition c05_all (x y : value) : list Z :=
  enc_vres (v_add true x y) ++ enc_vres (v_add true y x) ++
  enc_vres (v_mul true x y) ++ enc_vres (v_mul true y x) ++
  enc_vres (v_add true x v_zero) ++ enc_vres (v_add true v_zero x) ++
  enc_vres (v_mul true x v_one) ++ enc_vres (v_mul true v_one x) ++
  enc_vres (v_div true x v_one) ++ enc_vres (v_sub true x x) ++
  enc_vres (v_neg x) ++ enc_vres (rbind (v_neg x) v_neg) ++
  enc_vres (v_abs x) ++ enc_vres (v_sgn x) ++
  enc_vres (v_sub true x y) ++ enc_vres (v_div true x y).
