(* C10 / C20: executable model of pcbasic's string memory.
   values/strings.py   StringSpace (store, _delete_last, collect_garbage, fix/reset_temporaries, is_permanent)
   memory/memory.py    DataSegment (check_free, _collect_garbage and its root set, get_stack, fre_, clear)
   memory/scalars.py   Scalars.set / get, memory/arrays.py  Arrays.allocate / check_dim / set / erase_
   The model follows the code WITH the fixes D10a-D10d, D15, D16, D20a, D20b (see /verif/fixes).
   No proofs in this file. *)
From Coq Require Import ZArith List Bool.
From PCB Require Import lib.Result lib.PyInt.
Import ListNotations.
Open Scope Z_scope.

(* ---------- basic data ---------- *)

Definition ptr := (Z * Z)%type.                 (* string pointer: (length, address) *)

(* a Python value object that can sit on an expression stack or in temp_values *)
Inductive obj :=
| OVar (n : Z)             (* String that is a view of the buffer of string scalar n *)
| OArr (n i : Z)           (* String that is a view of element i of string array n *)
| OStr (p : ptr)           (* String with a buffer of its own *)
| ONum (t z : Z)           (* number of type t (2 integer, 4 single, 8 double) with integer value z *)
| OSaveS (n : Z) (p : ptr) (* UserFunction.evaluate: saved copy of string scalar n (a root since fix D15) *)
| OSaveN (n z : Z).        (* ... saved copy of numeric scalar n (not a String: never a root) *)

Inductive sval := SStr (p : ptr) | SNum (z : Z).      (* contents of a scalar's buffer *)

(* variable / function names: 10 * k + type code; type code 3 = string, 2/4/8 = integer/single/double *)
Definition nty (n : Z) : Z := n mod 10.
Definition is_strname (n : Z) : bool := nty n =? 3.
(* a name written without a sigil (type code 0) gets the default type of its first letter (DataSegment.complete_name) *)
Fixpoint deftype_of (k : Z) (d : list (Z * (Z * Z))) : Z :=
  match d with
  | [] => 4
  | (lo, (hi, t)) :: r => if (lo <=? k) && (k <=? hi) then t else deftype_of k r
  end.
Definition szero (n : Z) : sval := if is_strname n then SStr (0, 0) else SNum 0.

Record cfg := mk_cfg {
  code_start : Z;                    (* DataSegment.code_start *)
  var_start : Z;                     (* code_start + program.size(): constant while the program is fixed *)
  code : list (Z * list Z)           (* string literals in program code: address -> bytes *)
}.

(* expressions and statements of the modelled fragment *)
Inductive expr :=
| ELit (addr : option Z) (bs : list Z)     (* "..." : Some a = literal in program code at a; None = direct mode *)
| ENum (t z : Z)
| EVar (n : Z)
| EArr (n i : Z)
| ECat (a b : expr)                        (* a + b *)
| EPar (e : expr)                          (* ( e ) *)
| ELeft (e n : expr)
| ERight (e n : expr)
| EMid (e s : expr) (n : option expr)
| EString (n c : expr)
| ESpace (n : expr)
| EStr (e : expr)
| EChr (e : expr)
| EFre (e : expr)
| ELen (e : expr)
| EInstr (a b : expr)
| EFn (f : Z) (args : list expr).

Inductive lval := LvS (n : Z) | LvA (n i : Z).

(* a value typed at an INPUT prompt: a string field or an integer number *)
Inductive inval := IStr (bs : list Z) | INum (z : Z).

Inductive stmt :=
| SLet (l : lval) (e : expr)
| SMid (l : lval) (s : expr) (n : option expr) (e : expr)
| SLset (l : lval) (e : expr) (rjust : bool)
| SSwap (a b : lval)
| SErase (n : Z)
| SDim (n d : Z)
| SClear (k : option Z)
| SDef (f : Z) (params : list Z) (body : expr)
| SDeftype (t lo hi : Z)                               (* DEFINT / DEFSNG / DEFDBL / DEFSTR lo-hi (letter indices) *)
| SInput (vars : list lval) (typed : list inval)      (* INPUT v1, v2, ... with the values typed at the prompt *).

Record state := mk_state {
  strs : list (Z * list Z);            (* StringSpace._strings : address -> bytes *)
  cur : Z;                             (* StringSpace.current *)
  tmp : option Z;                      (* StringSpace._temp *)
  totmem : Z;                          (* DataSegment.total_memory *)
  stksz : Z;                           (* DataSegment.stack_size *)
  scal : list (Z * sval);              (* Scalars._vars, in insertion order *)
  scur : Z;                            (* Scalars.current *)
  arrs : list (Z * (Z * list ptr));    (* Arrays: name -> (max index, element pointers), insertion order *)
  acur : Z;                            (* Arrays.current *)
  stack : list (list obj);             (* DataSegment._stack, innermost frame first, top of a frame first *)
  tvals : list obj;                    (* DataSegment.temp_values, most recently added first *)
  fns : list (Z * (list Z * expr));    (* UserFunctionManager._fn_dict *)
  active : list Z;                     (* functions whose _is_parsing flag is set *)
  deft : list (Z * (Z * Z))            (* DEFINT/DEFSNG/DEFDBL/DEFSTR ranges (lo, (hi, type)), latest first *)
}.

(* DataSegment.complete_name: a name without a sigil (type code 0) takes the current default type of its letter *)
Definition resolve (st : state) (n : Z) : Z :=
  if n mod 10 =? 0 then n + deftype_of (n / 10) (deft st) else n.

Definition top (st : state) : Z := totmem st - stksz st - 2.          (* stack_start() *)
Definition free (c : cfg) (st : state) : Z := cur st - var_start c - scur st - acur st.   (* _get_free() *)

(* ---------- state updates ---------- *)
Definition set_strs st x := mk_state x (cur st) (tmp st) (totmem st) (stksz st) (scal st) (scur st) (arrs st) (acur st) (stack st) (tvals st) (fns st) (active st) (deft st).
Definition set_cur st x := mk_state (strs st) x (tmp st) (totmem st) (stksz st) (scal st) (scur st) (arrs st) (acur st) (stack st) (tvals st) (fns st) (active st) (deft st).
Definition set_tmp st x := mk_state (strs st) (cur st) x (totmem st) (stksz st) (scal st) (scur st) (arrs st) (acur st) (stack st) (tvals st) (fns st) (active st) (deft st).
Definition set_scal st x := mk_state (strs st) (cur st) (tmp st) (totmem st) (stksz st) x (scur st) (arrs st) (acur st) (stack st) (tvals st) (fns st) (active st) (deft st).
Definition set_scur st x := mk_state (strs st) (cur st) (tmp st) (totmem st) (stksz st) (scal st) x (arrs st) (acur st) (stack st) (tvals st) (fns st) (active st) (deft st).
Definition set_arrs st x := mk_state (strs st) (cur st) (tmp st) (totmem st) (stksz st) (scal st) (scur st) x (acur st) (stack st) (tvals st) (fns st) (active st) (deft st).
Definition set_acur st x := mk_state (strs st) (cur st) (tmp st) (totmem st) (stksz st) (scal st) (scur st) (arrs st) x (stack st) (tvals st) (fns st) (active st) (deft st).
Definition set_stack st x := mk_state (strs st) (cur st) (tmp st) (totmem st) (stksz st) (scal st) (scur st) (arrs st) (acur st) x (tvals st) (fns st) (active st) (deft st).
Definition set_tvals st x := mk_state (strs st) (cur st) (tmp st) (totmem st) (stksz st) (scal st) (scur st) (arrs st) (acur st) (stack st) x (fns st) (active st) (deft st).
Definition set_fns st x := mk_state (strs st) (cur st) (tmp st) (totmem st) (stksz st) (scal st) (scur st) (arrs st) (acur st) (stack st) (tvals st) x (active st) (deft st).
Definition set_active st x := mk_state (strs st) (cur st) (tmp st) (totmem st) (stksz st) (scal st) (scur st) (arrs st) (acur st) (stack st) (tvals st) (fns st) x (deft st).
Definition set_deft st x := mk_state (strs st) (cur st) (tmp st) (totmem st) (stksz st) (scal st) (scur st) (arrs st) (acur st) (stack st) (tvals st) (fns st) (active st) x.
Definition set_totmem st x := mk_state (strs st) (cur st) (tmp st) x (stksz st) (scal st) (scur st) (arrs st) (acur st) (stack st) (tvals st) (fns st) (active st) (deft st).

(* ---------- association lists keyed by Z (Python dicts in insertion order) ---------- *)
Fixpoint lookup {A} (k : Z) (l : list (Z * A)) : option A :=
  match l with
  | [] => None
  | (k', v) :: r => if k =? k' then Some v else lookup k r
  end.

(* replace the value of an existing key in place, or append a new key at the end *)
Fixpoint upsert {A} (k : Z) (v : A) (l : list (Z * A)) : list (Z * A) :=
  match l with
  | [] => [(k, v)]
  | (k', v') :: r => if k =? k' then (k, v) :: r else (k', v') :: upsert k v r
  end.

Fixpoint remove_key {A} (k : Z) (l : list (Z * A)) : list (Z * A) :=
  match l with
  | [] => []
  | (k', v') :: r => if k =? k' then r else (k', v') :: remove_key k r
  end.

Definition mem_key {A} (k : Z) (l : list (Z * A)) : bool :=
  match lookup k l with Some _ => true | None => false end.

Fixpoint update_nth {A} (n : nat) (x : A) (l : list A) : list A :=
  match l, n with
  | [], _ => []
  | _ :: r, O => x :: r
  | y :: r, S n' => y :: update_nth n' x r
  end.

(* ---------- pointers held by the roots ---------- *)

(* a place that holds a string pointer and that the collector reads and rewrites *)
Inductive loc :=
| LScal (n : Z)            (* buffer of string scalar n *)
| LArr (n : Z) (i : nat)   (* element i of string array n *)
| LStk (f k : nat)         (* own buffer of the String at position k of stack frame f *)
| LTmp (k : nat).          (* own buffer of the String at position k of temp_values *)

Definition scal_ptr (st : state) (n : Z) : ptr :=
  match lookup n (scal st) with Some (SStr p) => p | _ => (0, 0) end.

Definition arr_ptr (st : state) (n : Z) (i : nat) : ptr :=
  match lookup n (arrs st) with Some (_, els) => nth i els (0, 0) | None => (0, 0) end.

Definition obj_own_ptr (o : obj) : ptr :=
  match o with OStr p => p | OSaveS _ p => p | _ => (0, 0) end.

Definition set_obj_ptr (o : obj) (p : ptr) : obj :=
  match o with OStr _ => OStr p | OSaveS n _ => OSaveS n p | _ => o end.

Definition get_loc (st : state) (l : loc) : ptr :=
  match l with
  | LScal n => scal_ptr st n
  | LArr n i => arr_ptr st n i
  | LStk f k => obj_own_ptr (nth k (nth f (stack st) []) (ONum 0 0))
  | LTmp k => obj_own_ptr (nth k (tvals st) (ONum 0 0))
  end.

Definition set_loc (st : state) (l : loc) (p : ptr) : state :=
  match l with
  | LScal n => set_scal st (upsert n (SStr p) (scal st))
  | LArr n i =>
      match lookup n (arrs st) with
      | Some (d, els) => set_arrs st (upsert n (d, update_nth i p els) (arrs st))
      | None => st
      end
  | LStk f k =>
      let fr := nth f (stack st) [] in
      set_stack st (update_nth f (update_nth k (set_obj_ptr (nth k fr (ONum 0 0)) p) fr) (stack st))
  | LTmp k => set_tvals st (update_nth k (set_obj_ptr (nth k (tvals st) (ONum 0 0)) p) (tvals st))
  end.

(* the pointer a String object currently holds *)
Definition optr (st : state) (o : obj) : ptr :=
  match o with
  | OVar n => scal_ptr st n
  | OArr n i => arr_ptr st n (Z.to_nat i)
  | OStr p => p
  | OSaveS _ p => p
  | _ => (0, 0)
  end.

Definition is_strobj (o : obj) : bool :=
  match o with OVar _ | OArr _ _ | OStr _ | OSaveS _ _ => true | _ => false end.

(* ---------- the root set, in the order DataSegment._collect_garbage builds it ---------- *)
Fixpoint seq_nat (start len : nat) : list nat :=
  match len with O => [] | S l => start :: seq_nat (S start) l end.

(* Scalars.get_strings(): every scalar whose name ends in $ *)
Definition scalar_roots (st : state) : list loc :=
  flat_map (fun '(n, _) => if is_strname n then [LScal n] else []) (scal st).

(* Arrays.get_strings(): all elements of all string arrays *)
Definition array_roots (st : state) : list loc :=
  flat_map (fun '(n, (_, els)) => if is_strname n then map (LArr n) (seq_nat 0 (length els)) else []) (arrs st).

(* the place whose pointer a String object on a stack / in temp_values makes the collector rewrite *)
Definition obj_root (own : nat -> loc) (k : nat) (o : obj) : list loc :=
  match o with
  | OVar n => [LScal n]
  | OArr n i => [LArr n (Z.to_nat i)]
  | OStr _ => [own k]
  | OSaveS _ _ => [own k]
  | _ => []
  end.

Fixpoint objs_roots (own : nat -> loc) (k : nat) (os : list obj) : list loc :=
  match os with
  | [] => []
  | o :: r => obj_root own k o ++ objs_roots own (S k) r
  end.

(* a frame is stored top first; Python iterates the deque bottom first *)
Definition frame_roots (f : nat) (fr : list obj) : list loc := rev (objs_roots (LStk f) 0 fr).

Fixpoint frames_roots (f : nat) (frs : list (list obj)) : list loc :=
  match frs with
  | [] => []
  | fr :: r => frames_roots (S f) r ++ frame_roots f fr      (* outermost frame first *)
  end.

Definition stack_roots (st : state) : list loc := frames_roots 0 (stack st).
Definition temp_roots (st : state) : list loc := rev (objs_roots LTmp 0 (tvals st)).   (* a set in Python; see design note *)

Definition roots (st : state) : list loc :=
  scalar_roots st ++ array_roots st ++ stack_roots st ++ temp_roots st.

(* ---------- StringSpace ---------- *)

Definition take_pad (n : nat) (l : list Z) : list Z := firstn n l ++ repeat 0 (n - length (firstn n l)).

(* StringSpace._retrieve / view: the bytes a pointer refers to *)
Definition deref (c : cfg) (st : state) (p : ptr) : res (list Z) :=
  let '(l, a) := p in
  if l =? 0 then Ok []
  else if var_start c <=? a then
    match lookup a (strs st) with Some bs => Ok bs | None => Host host_KeyError end
  else if code_start c <=? a then
    (* program.get_memory_block(address, length): always exactly `length` bytes of program memory *)
    Ok (take_pad (Z.to_nat l) (match lookup a (code c) with Some bs => bs | None => [] end))
  else Host host_ValueError.

(* one entry of string_list in collect_garbage: (view, address, string) *)
Definition entry := (loc * (Z * list Z))%type.

(* sort by address, largest first, keeping the order of equal addresses (Python's stable sort, reverse=True) *)
Fixpoint insert_desc (e : entry) (l : list entry) : list entry :=
  match l with
  | [] => [e]
  | x :: r => if fst (snd x) <? fst (snd e) then e :: x :: r else x :: insert_desc e r
  end.

Definition sort_desc (l : list entry) : list entry :=
  fold_left (fun acc e => insert_desc e acc) l [].

Definition retrieve (st : state) (len a : Z) : res (list Z) :=
  if len =? 0 then Ok []
  else match lookup a (strs st) with Some bs => Ok bs | None => Host host_KeyError end.

(* first loop of collect_garbage: read every root pointer that points into string space, retrieve its string *)
Fixpoint gather (c : cfg) (st : state) (ls : list loc) : res (list entry) :=
  match ls with
  | [] => Ok []
  | l :: r =>
      let '(len, a) := get_loc st l in
      if var_start c <=? a then
        match retrieve st len a with
        | Ok bs =>
            match gather c st r with
            | Ok es => Ok ((l, (a, bs)) :: es)
            | Err e => Err e | Host h => Host h | OutOfFuel => OutOfFuel
            end
        | Err e => Err e | Host h => Host h | OutOfFuel => OutOfFuel
        end
      else gather c st r
  end.

(* ... and in the same loop find the sentinel: the first view of the lowest-address permanent string,
   where permanent = non-empty and above _temp; best starts at stack_start() *)
Fixpoint sentinel (c : cfg) (st : state) (ls : list loc) (best : Z) (bl : option loc) : option loc :=
  match ls with
  | [] => bl
  | l :: r =>
      let '(len, a) := get_loc st l in
      if (var_start c <=? a)
         && match tmp st with Some t => (0 <? len) && (t <? a) && (a <? best) | None => false end
      then sentinel c st r a (Some l)
      else sentinel c st r best bl
  end.

(* StringSpace.store(s, check_free=False) *)
Definition store_raw (st : state) (bs : list Z) : state * ptr :=
  let n := zlen bs in
  let cur' := cur st - n in
  let a := cur' + 1 in
  let st1 := set_cur st cur' in
  (if 0 <? n then set_strs st1 ((a, bs) :: strs st1) else st1, (n, a)).

(* second loop of collect_garbage: re-store in order and rewrite the pointers; a string that several
   pointers refer to is stored once (fix D10d); prev = (old address, new pointer) of the last string stored *)
Fixpoint restore_all (st : state) (es : list entry) (prev : option (Z * ptr)) : state :=
  match es with
  | [] => st
  | (l, (a, bs)) :: r =>
      match bs, prev with
      | _ :: _, Some (pa, pp) =>
          if a =? pa then restore_all (set_loc st l pp) r prev
          else let '(st1, p) := store_raw st bs in restore_all (set_loc st1 l p) r (Some (a, p))
      | _ :: _, None =>
          let '(st1, p) := store_raw st bs in restore_all (set_loc st1 l p) r (Some (a, p))
      | [], _ =>
          let '(st1, p) := store_raw st bs in restore_all (set_loc st1 l p) r prev
      end
  end.

(* DataSegment._collect_garbage + StringSpace.collect_garbage *)
Definition collect (c : cfg) (st : state) : res state :=
  match gather c st (roots st) with
  | Ok es =>
      let st1 := restore_all (set_cur (set_strs st []) (top st)) (sort_desc es) None in
      Ok (match sentinel c st (roots st) (top st) None with
          | None => set_tmp st1 None
          | Some l => if match tmp st with Some t => t =? top st | None => true end then st1
                      else set_tmp st1 (Some (snd (get_loc st1 l) - 1))
          end)
  | Err e => Err e | Host h => Host h | OutOfFuel => OutOfFuel
  end.

(* results that always carry the state reached (Python exceptions do not roll anything back) *)
Definition R (A : Type) := (state * res A)%type.
Definition retR {A} (st : state) (a : A) : R A := (st, Ok a).
Definition errR {A} (st : state) (e : Z) : R A := (st, Err e).
Definition bindR {A B} (x : R A) (f : state -> A -> R B) : R B :=
  let '(st, r) := x in
  match r with
  | Ok a => f st a
  | Err e => (st, Err e)
  | Host h => (st, Host h)
  | OutOfFuel => (st, OutOfFuel)
  end.
(* try: x finally: cleanup *)
Definition finallyR {A} (x : R A) (cleanup : state -> state) : R A :=
  let '(st, r) := x in (cleanup st, r).

Notation "'doR' ( st , x ) <- r ; k" := (bindR r (fun st x => k))
  (at level 200, st name, x pattern, r at level 100, k at level 200, right associativity).

(* DataSegment.check_free(size, err) *)
Definition check_free (c : cfg) (st : state) (size err : Z) : R unit :=
  if free c st <=? size then
    match collect c st with
    | Ok st1 => if free c st1 <=? size then errR st1 err else retR st1 tt
    | Err e => (st, Err e) | Host h => (st, Host h) | OutOfFuel => (st, OutOfFuel)
    end
  else retR st tt.

(* StringSpace.store(s) : allocate a new string in string space *)
Definition store (c : cfg) (st : state) (bs : list Z) : R ptr :=
  if 255 <? zlen bs then errR st 15
  else
    doR (st1, _) <- check_free c st (zlen bs) 14;
    let '(st2, p) := store_raw st1 bs in retR st2 p.

(* StringSpace._delete_last *)
Definition delete_last (st : state) : state :=
  match lookup (cur st + 1) (strs st) with
  | Some bs => set_strs (set_cur st (cur st + zlen bs)) (remove_key (cur st + 1) (strs st))
  | None => st
  end.

Definition fix_temporaries (st : state) : state := set_tmp st (Some (cur st)).

Definition reset_temporaries (st : state) : state :=
  let st1 := match tmp st with
             | Some t => if t =? cur st then st else delete_last st
             | None => st
             end in
  set_tmp st1 (Some (cur st1)).

(* StringSpace.is_permanent (with fix D10a) / is_field_string *)
Definition is_permanent (st : state) (p : ptr) : bool :=
  match tmp st with Some t => t <? snd p | None => true end.
Definition is_field (c : cfg) (p : ptr) : bool := snd p <? code_start c.

(* StringSpace.check_modify: copy a program literal out to string space before modifying it *)
Definition check_modify (c : cfg) (st : state) (p : ptr) : R ptr :=
  if (code_start c <=? snd p) && (snd p <? var_start c) then
    match deref c st p with
    | Ok bs => store c st bs
    | Err e => (st, Err e) | Host h => (st, Host h) | OutOfFuel => (st, OutOfFuel)
    end
  else retR st p.

(* ---------- stacks and temp_values ---------- *)
Definition push_frame (st : state) : state := set_stack st ([] :: stack st).
Definition pop_frame (st : state) : state := set_stack st (tl (stack st)).
Definition push_obj (st : state) (o : obj) : state :=
  match stack st with
  | fr :: r => set_stack st ((o :: fr) :: r)
  | [] => set_stack st [[o]]
  end.
Definition top_obj (st : state) : obj :=
  match stack st with (o :: _) :: _ => o | _ => ONum 0 0 end.
Definition pop_obj (st : state) : state :=
  match stack st with (_ :: fr) :: r => set_stack st (fr :: r) | _ => st end.
Definition tv_push (st : state) (o : obj) : state := set_tvals st (o :: tvals st).
Definition tv_top (st : state) : obj := match tvals st with o :: _ => o | [] => ONum 0 0 end.
Definition tv_pop (st : state) : state := set_tvals st (tl (tvals st)).

(* an object taken off a stack or out of temp_values: a String with its own buffer keeps the pointer it has now *)
Definition detach (o : obj) : obj := match o with OSaveS _ p => OStr p | _ => o end.

(* ---------- Scalars ---------- *)
Definition size_bytes (n : Z) : Z := nty n.                 (* 2, 3, 4, 8 *)
Definition scalar_mem (n : Z) : Z := 4 + size_bytes n.      (* Scalars.memory_size for names of at most 3 chars *)

(* numeric conversion of an integer-valued number to type t: only integers can overflow *)
Definition conv_num (t z : Z) : res Z :=
  if (t =? 2) && ((z <? -32768) || (32767 <? z)) then Err 6 else Ok z.

(* values.to_type(sigil of n, value): check only (the pointer of a String is read later) *)
Definition check_type (n : Z) (o : obj) : res unit :=
  if is_strname n then (if is_strobj o then Ok tt else Err 13)
  else match o with
       | ONum _ z => match conv_num (nty n) z with Ok _ => Ok tt | Err e => Err e | Host h => Host h | OutOfFuel => OutOfFuel end
       | _ => Err 13
       end.

Definition obj_sval (st : state) (n : Z) (o : obj) : sval :=
  if is_strname n then SStr (optr st o)
  else match o with ONum _ z => SNum z | _ => SNum 0 end.

(* allocate variable memory for scalar n if it has none (Scalars.set, first half) *)
Definition alloc_scalar (c : cfg) (st : state) (n : Z) : R unit :=
  if mem_key n (scal st) then retR st tt
  else
    doR (st1, _) <- check_free c st (scalar_mem n) 7;
    retR (set_scal (set_scur st1 (scur st1 + scalar_mem n)) (upsert n (szero n) (scal st1))) tt.

(* where Scalars.set / Arrays.set finds the value object when it finally copies its bytes *)
Inductive vsrc := VTop | VTmp (k : nat) | VObj (o : obj).
Definition read_src (st : state) (s : vsrc) : obj :=
  match s with
  | VTop => top_obj st
  | VTmp k => nth k (tvals st) (ONum 0 0)
  | VObj o => o
  end.

(* Scalars.set(name, value) *)
Definition set_scalar (c : cfg) (st : state) (n : Z) (v : option vsrc) : R unit :=
  match v with
  | None => alloc_scalar c st n
  | Some s =>
      let st0 := if is_strobj (read_src st s) then fix_temporaries st else st in
      match check_type n (read_src st0 s) with
      | Ok _ =>
          doR (st1, _) <- alloc_scalar c st0 n;
          retR (set_scal st1 (upsert n (obj_sval st1 n (read_src st1 s)) (scal st1))) tt
      | Err e => (st0, Err e) | Host h => (st0, Host h) | OutOfFuel => (st0, OutOfFuel)
      end
  end.

(* ---------- Arrays (one dimension, OPTION BASE 0) ---------- *)
Definition array_mem (d : Z) : Z := 9 + 3 * (d + 1).        (* record (1+3+3+2) + buffer *)

(* Arrays.allocate(name, [d]) *)
Definition allocate (c : cfg) (st : state) (n d : Z) : R unit :=
  if negb (is_strname n) then errR st 13        (* numeric arrays are outside the model *)
  else if mem_key n (arrs st) then errR st 10
  else if d <? 0 then errR st 5
  else
    doR (st1, _) <- check_free c st (array_mem d) 7;
    retR (set_arrs (set_acur st1 (acur st1 + array_mem d))
                   (upsert n (d, repeat (0, 0) (Z.to_nat (d + 1))) (arrs st1))) tt.

(* Arrays.check_dim(name, [i]) *)
Definition check_dim (c : cfg) (st : state) (n i : Z) : R unit :=
  if negb (is_strname n) then errR st 13 else
  doR (st1, _) <- (if mem_key n (arrs st) then retR st tt else allocate c st n 10);
  match lookup n (arrs st1) with
  | Some (d, _) => if i <? 0 then errR st1 5 else if d <? i then errR st1 9 else retR st1 tt
  | None => errR st1 9
  end.

(* Arrays.set(name, [i], value) with the value on top of the current stack frame *)
Definition set_array (c : cfg) (st : state) (n i : Z) : R unit :=
  let st0 := if is_strobj (top_obj st) then fix_temporaries st else st in
  (* value = to_type(sigil, value); buffer = view_buffer(name, index); buffer[:] = value.to_bytes()   (fix D10e:
     the value's pointer is read after the array was dimensioned, which may have collected) *)
  if is_strobj (top_obj st0) then
    doR (st1, _) <- check_dim c st0 n i;
    retR (set_loc st1 (LArr n (Z.to_nat i)) (optr st1 (top_obj st1))) tt
  else errR st0 13.

(* Arrays.erase_ *)
Definition erase (st : state) (n : Z) : R unit :=
  match lookup n (arrs st) with
  | Some (d, _) => retR (set_arrs (set_acur st (acur st - array_mem d)) (remove_key n (arrs st))) tt
  | None => errR st 5
  end.

(* DataSegment.clear + UserFunctionManager.clear (with fix D16: temp_values is emptied too) *)
Definition clear_all (st : state) : state :=
  let st1 := set_scal (set_scur st 0) [] in
  let st2 := set_arrs (set_acur st1 0) [] in
  let st3 := set_cur (set_strs st2 []) (top st2) in
  set_deft (set_fns (set_tvals st3 []) []) [].

Definition init_state (totmem stksz : Z) : state :=
  mk_state [] (totmem - stksz - 2) None totmem stksz [] 0 [] 0 [] [] [] [] [].
