(* C33: byte lists written as Coq string literals (keeps the generated case files small and fast to read) *)
From Coq Require Import ZArith List String Ascii.
Import ListNotations.
Open Scope Z_scope.

Definition bs (s : string) : list Z := map (fun a => Z.of_N (N_of_ascii a)) (list_ascii_of_string s).
