(* C25, FIELD semantics: string variables attached to the FIELD buffer of one random file.
   memory/memory.py Field.attach_var makes the variable a pointer (offset, width) into the 128-byte buffer of
   the file number; LSET / RSET / MID$= write through the pointer (values/strings.py lset, midset);
   LET gives the variable a string of its own (detached).  PUT / GET are RandomFile.put / get of
   model/RandomFile.v on the same buffer.  No proofs in this file. *)
From Coq Require Import ZArith List Bool.
From PCB Require Import lib.Result lib.PyInt gen.Gen_locks model.Locks model.RandomFile model.SharedFile.
Import ListNotations.
Open Scope Z_scope.

Inductive var :=
| VField (off w : Z)        (* attached: the bytes [off, off + w) of the buffer *)
| VStr (s : list Z).        (* a string of its own *)

Record fvstate := mkFV { fv_i : istate; fv_vars : list (Z * var) }.
Definition fv_init (L : Z) : fvstate := mkFV (i_init L (zeros field_size)) [].

Definition var_of (v : Z) (st : fvstate) : var :=
  match aget v (fv_vars st) with Some x => x | None => VStr [] end.     (* unassigned = empty string *)
Definition value_in (buf : list Z) (x : var) : list Z :=
  match x with VField off w => ztake w (zdrop off buf) | VStr s => s end.
Definition value (v : Z) (st : fvstate) : list Z := value_in (i_buf (fv_i st)) (var_of v st).

(* FIELD #n, w1 AS v1$, w2 AS v2$, ...: attach one after the other; an error leaves the earlier ones attached *)
Fixpoint attach (off : Z) (defs : list (Z * Z)) (vars : list (Z * var)) : list (Z * var) * res unit :=
  match defs with
  | [] => (vars, Ok tt)
  | (w, v) :: r =>
      if (w <? 0) || (255 <? w) then (vars, Err locks_err_IFC)
      else if field_size <? off + w then (vars, Err locks_err_FIELD_OVERFLOW)
      else attach (off + w) r (aset v (VField off w) vars)
  end.

(* MID$(v$, start, num) = d on the current value s *)
Definition midset (s : list Z) (start num : Z) (d : list Z) : list Z :=
  let offset := start - 1 in
  let n1 := Z.min num (zlen d) in
  let n2 := if zlen s <? offset + n1 then zlen s - offset else n1 in
  if n2 <=? 0 then s else ztake offset s ++ ztake n2 d ++ zdrop (offset + n2) s.

Definition with_buf (st : fvstate) (b : list Z) : fvstate := mkFV (mkI (i_file (fv_i st)) b) (fv_vars st).

(* write a new value of the same length through the variable *)
Definition store (st : fvstate) (v : Z) (new : list Z) : fvstate :=
  match var_of v st with
  | VField off w => with_buf st (ztake off (i_buf (fv_i st)) ++ new ++ zdrop (off + w) (i_buf (fv_i st)))
  | VStr _ => mkFV (fv_i st) (aset v (VStr new) (fv_vars st))
  end.

Inductive fop :=
| FField (defs : list (Z * Z))                    (* (width, variable) *)
| FLset (v : Z) (rj : bool) (d : list Z)
| FMid (v start : Z) (num : option Z) (d : list Z)
| FLet (v : Z) (d : list Z)
| FPut (k : Z)
| FGet (k : Z).

Definition fstep (st : fvstate) (o : fop) : fvstate * res unit :=
  match o with
  | FField defs => let '(vars, r) := attach 0 defs (fv_vars st) in (mkFV (fv_i st) vars, r)
  | FLset v rj d => (store st v (justify rj (zlen (value v st)) d), Ok tt)
  | FMid v start num d =>
      let n := match num with Some x => x | None => 255 end in
      let s := value v st in
      if (n <? 0) || (255 <? n) then (st, Err locks_err_IFC)
      else if (0 <? n) && ((start <? 1) || (zlen s <? start)) then (st, Err locks_err_IFC)
      else (store st v (midset s start n d), Ok tt)
  | FLet v d => (mkFV (fv_i st) (aset v (VStr d) (fv_vars st)), Ok tt)
  | FPut k => (mkFV (fst (istep (fv_i st) (RPut (Some k)))) (fv_vars st), Ok tt)
  | FGet k => (mkFV (fst (istep (fv_i st) (RGet (Some k)))) (fv_vars st), Ok tt)
  end.

Fixpoint frun (st : fvstate) (ops : list fop) : fvstate :=
  match ops with [] => st | o :: r => frun (fst (fstep st o)) r end.

(* observation: after every statement the result and the values of the variables 1..3; at the end the buffer
   and the file *)
Definition enc_val (l : list Z) : list Z := zlen l :: l.
Fixpoint ftrace (st : fvstate) (ops : list fop) : list Z :=
  match ops with
  | [] => i_buf (fv_i st) ++ enc_val (s_bytes (rf_stream (i_file (fv_i st))))
  | o :: r => let (st', res) := fstep st o in
              enc_res_unit res ++ enc_val (value 1 st') ++ enc_val (value 2 st') ++ enc_val (value 3 st')
              ++ ftrace st' r
  end.
