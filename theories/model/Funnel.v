(* C01: the exception funnel.  Python exception classes as an inductive type with the subclass relation the
   `except` clauses rely on; which classes each layer catches is REGENERATED (gen/Gen_funnel.v). *)
From Coq Require Import ZArith List Bool.
From PCB Require Import lib.Result lib.PyInt gen.Gen_funnel.
Import ListNotations.
Open Scope Z_scope.

Inductive exn :=
| XBasic (n : Z)          (* error.BASICError(n) *)
| XBreak                  (* error.Break *)
| XExit | XReset          (* error.Exit, error.Reset (a subclass of Exit) *)
| XValue                  (* ValueError *)
| XArith                  (* another ArithmeticError, e.g. FloatingPointError *)
| XOverflow | XZeroDiv    (* OverflowError, ZeroDivisionError (ArithmeticError subclasses) *)
| XOs (errno : Z)         (* OSError / EnvironmentError / IOError *)
| XOther (k : Z).         (* KeyError, TypeError, IndexError, AttributeError, ... *)

(* isinstance e cls, for the class codes used in Gen_funnel *)
Definition isinst (e : exn) (cls : Z) : bool :=
  match e with
  | XBasic _ => cls =? 10
  | XBreak => cls =? 11
  | XExit => cls =? 12
  | XReset => (cls =? 13) || (cls =? 12)
  | XValue => cls =? 1
  | XArith => cls =? 2
  | XOverflow => (cls =? 3) || (cls =? 2)
  | XZeroDiv => (cls =? 4) || (cls =? 2)
  | XOs _ => cls =? 5
  | XOther _ => false
  end.
Definition caught (e : exn) (classes : list Z) : bool := existsb (isinst e) classes.

Fixpoint assoc (k : Z) (l : list (Z * Z)) : option Z :=
  match l with [] => None | (a, b) :: r => if a =? k then Some b else assoc k r end.

(* outcome of a layer: the exception that leaves it, or normal continuation *)
Inductive out := Raises (e : exn) | Continues.

(* FloatErrorHandler.handle *)
Definition float_handle (do_raise has_console : bool) (e : exn) : out :=
  let code :=
    (fix pick (m : list (Z * Z)) : option Z :=
       match m with
       | [] => None
       | (cls, err) :: r => if isinst e cls then Some err else pick r
       end) funnel_float_error_map in
  match code with
  | None => Raises e
  | Some err =>
      if do_raise || negb has_console || negb (existsb (Z.eqb err) funnel_soft_types)
      then Raises (XBasic err) else Continues
  end.

(* values.float_safe around a callee that raises e *)
Definition float_safe (do_raise has_console : bool) (e : exn) : out :=
  if caught e funnel_float_safe_catches then float_handle do_raise has_console e else Raises e.

(* disk.handle_oserror(e) for an OSError; devicebase.safe_io(err) *)
Definition handle_oserror (errno : Z) : exn :=
  XBasic (match assoc errno funnel_OS_ERROR with Some b => b | None => funnel_oserror_default end).
Definition safe_io (err : Z) (e : exn) : exn :=
  if caught e funnel_safe_io_catches then XBasic err else e.

(* Implementation._handle_exceptions: what a caller of execute/evaluate observes *)
Inductive verdict := Message | Propagated (e : exn).
Definition handle_exceptions (e : exn) : verdict :=
  match find (fun row => caught e row) funnel_handle_exceptions with
  | Some row => if existsb (Z.eqb 12) row then Propagated e else Message
  | None => Propagated e
  end.

(* the property's allowed ways out of the session API *)
Definition allowed (v : verdict) : bool :=
  match v with
  | Message => true
  | Propagated XExit | Propagated XReset | Propagated XBreak | Propagated (XBasic _) => true
  | Propagated _ => false
  end.

(* harness encodings *)
Definition enc_exn (e : exn) : list Z :=
  match e with
  | XBasic n => [10; n] | XBreak => [11; 0] | XExit => [12; 0] | XReset => [13; 0]
  | XValue => [1; 0] | XArith => [2; 0] | XOverflow => [3; 0] | XZeroDiv => [4; 0]
  | XOs n => [5; n] | XOther k => [9; k]
  end.
Definition dec_exn (c a : Z) : exn :=
  if c =? 10 then XBasic a else if c =? 11 then XBreak else if c =? 12 then XExit else if c =? 13 then XReset
  else if c =? 1 then XValue else if c =? 2 then XArith else if c =? 3 then XOverflow else if c =? 4 then XZeroDiv
  else if c =? 5 then XOs a else XOther a.
Definition enc_out (o : out) : list Z := match o with Raises e => 1 :: enc_exn e | Continues => [0] end.
Definition enc_verdict (v : verdict) : list Z := match v with Message => [0] | Propagated e => 1 :: enc_exn e end.

(* PEEK preset table (machine.Memory._get_memory): the table is a dict (possibly empty); a missing key falls
   through to the memory map.  table = None (the old default) is the Host TypeError case. *)
Definition peek_preset (table : option (list (Z * Z))) (addr : Z) : res (option Z) :=
  match table with
  | None => Host host_TypeError
  | Some t => Ok (assoc addr t)
  end.
