(* C13 / C14: executable model of pcbasic/basic/program.py (Program: store_line, find_pos_line_dict,
   update_line_dict, delete, erase, rebuild_line_dict, list_lines, get_line_number) and of
   base/codestream.py TokenisedStream.skip_to (single-byte find ranges).  NO proofs here.

   The model is of the code WITH the repair fixes/D13b.patch (the memory check of store_line counts the
   lines behind the insertion point); skip_to is modelled as of /repo commit 22fc0dbb (a REM token byte
   inside a string literal does not start a comment - defect D13a of this check, repaired there).  Token-length table, token bytes, blanks and error numbers are
   regenerated from /repo (gen/Gen_program.v).

   bytecode  : list Z (bytes), offsets are Z
   line dict : association list (line number, offset) with unique keys, Python insertion order
   streams   : a position is an offset; reading past the end yields fewer bytes, as io.BytesIO *)
From Coq Require Import ZArith List Bool.
From PCB Require Import lib.Result lib.PyInt gen.Gen_program.
Import ListNotations.
Open Scope Z_scope.

Record cfg := { cs : Z;        (* memory.code_start *)
                limit : Z }.   (* memory.stack_start() *)

Record prog := { code : list Z; lines : list (Z * Z); last_stored : Z }.

(* ---- byte-list primitives (no nat counters: offsets can be tens of thousands) *)
Fixpoint ztake (n : Z) (l : list Z) : list Z :=
  match l with
  | [] => []
  | x :: r => if n <=? 0 then [] else x :: ztake (n - 1) r
  end.
Fixpoint zdrop (n : Z) (l : list Z) : list Z :=
  match l with
  | [] => []
  | x :: r => if n <=? 0 then l else zdrop (n - 1) r
  end.

(* struct.pack('<H', x) raises struct.error outside 0..65535 *)
Definition le2 (x : Z) : list Z := [x mod 256; x / 256].
Definition pack_H (x : Z) : res (list Z) :=
  if (0 <=? x) && (x <=? 65535) then Ok (le2 x) else Host host_StructError.
Definition unpack_H (a b : Z) : Z := a + 256 * b.

(* stream.seek(p); stream.write(w) for p within the buffer *)
Definition write_at (p : Z) (w : list Z) (c : list Z) : list Z :=
  ztake p c ++ w ++ zdrop (p + zlen w) c.

(* ---- dict primitives *)
Definition keys (d : list (Z * Z)) : list Z := map fst d.
Fixpoint lookup (k : Z) (d : list (Z * Z)) : option Z :=
  match d with
  | [] => None
  | (k', v) :: r => if k =? k' then Some v else lookup k r
  end.
Fixpoint dict_set (k v : Z) (d : list (Z * Z)) : list (Z * Z) :=
  match d with
  | [] => [(k, v)]
  | (k', v') :: r => if k =? k' then (k, v) :: r else (k', v') :: dict_set k v r
  end.
Fixpoint lmin (l : list Z) : option Z :=
  match l with
  | [] => None
  | x :: r => match lmin r with None => Some x | Some m => Some (Z.min x m) end
  end.
Fixpoint lmax (l : list Z) : option Z :=
  match l with
  | [] => None
  | x :: r => match lmax r with None => Some x | Some m => Some (Z.max x m) end
  end.

(* ---- TokenisedStream.skip_to(findrange) for single-byte find ranges, break_on_first_char=True.
   Returns the number of bytes consumed; the stream is left at the found byte (not consumed), at the
   end of the stream, or just behind a 00 00 link.  [skip] = payload bytes still to be passed over
   (self.read(PLUS_BYTES[c]) / self.read(2) of the line number). *)
Fixpoint skip_to (find : Z -> bool) (l : list Z) (lit rem : bool) (skip : Z) : Z :=
  match l with
  | [] => 0
  | c :: r =>
      if 0 <? skip then 1 + skip_to find r lit rem (skip - 1)
      else
        let lit1 := if c =? 34 then negb lit else if (c =? tk_REM) && negb lit then lit
                    else if c =? 0 then false else lit in
        let rem1 := if c =? 34 then rem else if (c =? tk_REM) && negb lit then true
                    else if c =? 0 then false else rem in
        if lit1 || rem1 then 1 + skip_to find r lit1 rem1 0
        else if find c then 0
        else if c =? 0 then
          match r with
          | a :: b :: r' =>
              if (a =? 0) && (b =? 0) then 3 else 3 + skip_to find r' false false 2
          | _ => 1 + zlen r
          end
        else 1 + skip_to find r lit1 rem1 (tk_plus_bytes c)
  end.

Definition is_end_line (c : Z) : bool := c =? 0.
(* skip_to(tk.END_LINE) from the first byte of a line body *)
Definition skip_line (l : list Z) : Z := skip_to is_end_line l false false 0.

(* what the tokeniser can produce for the text of one line: bytes, no 00 at a token position, and no
   token payload running over the end of the line.  Hand-poked code / crafted files violate this. *)
Fixpoint body_ok (l : list Z) (lit rem : bool) (skip : Z) : bool :=
  match l with
  | [] => skip <=? 0
  | c :: r =>
      if 0 <? skip then body_ok r lit rem (skip - 1)
      else if c =? 0 then false
      else
        let lit1 := if c =? 34 then negb lit else lit in
        let rem1 := if c =? 34 then rem else if (c =? tk_REM) && negb lit then true else rem in
        if lit1 || rem1 then body_ok r lit1 rem1 0
        else body_ok r lit1 rem1 (tk_plus_bytes c)
  end.
Definition wf_body (b : list Z) : bool := bytesb b && body_ok b false false 0.

(* ---- Program.erase *)
Definition erase : prog := {| code := [0; 0; 0]; lines := [(65536, 0)]; last_stored := 0 |}.

(* ---- Program.find_pos_line_dict *)
Definition in_range (a b k : Z) : bool := (a <=? k) && (k <=? b).
Definition find_pos (d : list (Z * Z)) (fromline toline : Z) : res (Z * Z * list Z * list Z) :=
  let deleteable := filter (in_range fromline toline) (keys d) in
  let beyond := filter (fun k => toline <? k) (keys d) in
  match lmin beyond with
  | None => Host host_ValueError                         (* min([]) *)
  | Some mb =>
      match lookup mb d with
      | None => Host host_KeyError
      | Some afterpos =>
          let startpos := match lmin deleteable with
                          | None => afterpos
                          | Some md => match lookup md d with Some p => p | None => afterpos end
                          end in
          Ok (startpos, afterpos, deleteable, beyond)
      end
  end.

(* ---- Program.update_line_dict: the pointer fix-up walk.
   [l] is the stream from the link field of the first line behind the edit; [skip] bytes are passed
   over (self.bytecode.read(next_addr - addr - 2)); every link gets [delta] added until 00 00 or the end. *)
Fixpoint fix_links (l : list Z) (skip addr delta : Z) : res (list Z) :=
  match l with
  | [] => Ok []
  | a :: r =>
      if 0 <? skip then rmap (cons a) (fix_links r (skip - 1) addr delta)
      else
        match r with
        | [] => Ok l
        | b :: r' =>
            if (a =? 0) && (b =? 0) then Ok l
            else
              let next_addr := unpack_H a b in
              do w <- pack_H (next_addr + delta);
              let n := next_addr - addr - 2 in
              if n <? 0 then Ok (w ++ r')              (* read(negative) reads to the end *)
              else do t <- fix_links r' n next_addr delta; Ok (w ++ t)
        end
  end.

Definition member (k : Z) (l : list Z) : bool := existsb (Z.eqb k) l.

Definition update_line_dict (c : cfg) (bytes : list Z) (d : list (Z * Z))
           (pos afterpos length : Z) (deleteable beyond : list Z) : res (list Z * list (Z * Z)) :=
  let delta := length - (afterpos - pos) in
  let p := afterpos + delta + 1 in
  do t <- fix_links (zdrop p bytes) 0 (cs c + 1 + afterpos) delta;
  let d1 := filter (fun kv => negb (member (fst kv) deleteable)) d in
  let d2 := map (fun kv => if member (fst kv) beyond then (fst kv, snd kv + delta) else kv) d1 in
  Ok (ztake p bytes ++ t, d2).

(* Program.truncate(rest) *)
Definition seal (rest : list Z) : list Z := match rest with [] => [0; 0; 0] | _ => rest end.

Fixpoint skip_blank (l : list Z) : list Z :=
  match l with
  | [] => []
  | c :: r => if member c cs_blanks then skip_blank r else l
  end.

(* ---- Program.store_line(linebuf); linebuf = 00 C0 DE lo hi body as written by the tokeniser *)
Definition store_line (c : cfg) (s : prog) (linebuf : list Z) : res prog :=
  match linebuf with
  | _ :: t0 :: t1 :: lo :: hi :: body =>
      if (t0 =? 0) && (t1 =? 0) then Host host_Other       (* detokenise_line_number = -1: not a line *)
      else
      let scanline := unpack_H lo hi in
      let empty := match skip_blank body with [] => true | x :: _ => x =? 0 end in
      do r <- find_pos (lines s) scanline scanline;
      let '(pos, afterpos, deleteable, beyond) := r in
      if empty && (match deleteable with [] => true | _ => false end)
      then Err err_UNDEFINED_LINE_NUMBER
      else
        let rest := zdrop afterpos (code s) in
        if empty then
          do u <- update_line_dict c (ztake pos (code s) ++ seal rest) (lines s) pos afterpos 0
                                   deleteable beyond;
          Ok {| code := fst u; lines := snd u; last_stored := scanline |}
        else
          let length := zlen linebuf in
          if cs c + pos + length + zlen rest >? limit c then Err err_OUT_OF_MEMORY
          else
            do w <- pack_H (cs c + 1 + pos + length);
            let bytes := ztake pos (code s) ++ (0 :: w ++ lo :: hi :: body) ++ seal rest in
            do u <- update_line_dict c bytes (lines s) pos afterpos length deleteable beyond;
            Ok {| code := fst u; lines := dict_set scanline pos (snd u); last_stored := scanline |}
  | _ => Host host_Other
  end.

(* ---- Program.delete(fromline, toline); None = open end *)
Definition delete (c : cfg) (s : prog) (fromline toline : option Z) : res prog :=
  let f := match fromline with Some f => f
                             | None => match lmin (keys (lines s)) with Some m => m | None => 0 end end in
  let t := match toline with Some t => t | None => 65535 end in
  do r <- find_pos (lines s) f t;
  let '(startpos, afterpos, deleteable, beyond) := r in
  match deleteable with
  | [] => Err err_IFC
  | _ =>
      let rest := zdrop afterpos (code s) in
      do u <- update_line_dict c (ztake startpos (code s) ++ seal rest) (lines s) startpos afterpos 0
                               deleteable beyond;
      Ok {| code := fst u; lines := snd u; last_stored := last_stored s |}
  end.

(* ---- Program.rebuild_line_dict: full rescan  00 | link(2) | num(2) | body | 00 ...
   One iteration per line; [fuel] bounds the number of lines. Returns the entries in scan order and
   the final scan position. *)
Fixpoint rescan (fuel : nat) (l : list Z) (scanpos : Z) : res (list (Z * Z) * Z) :=
  match fuel with
  | O => OutOfFuel
  | S fuel' =>
      match l with
      | _ :: a :: b :: lo :: hi :: body =>
          if (a =? 0) && (b =? 0) then Ok ([], scanpos)
          else
            let n := skip_line body in
            do r <- rescan fuel' (zdrop n body) (scanpos + 5 + n);
            Ok ((unpack_H lo hi, scanpos) :: fst r, snd r)
      | _ => Ok ([], scanpos)
      end
  end.

(* the offsets pass: the link of the line at [last] becomes code_start + 1 + (start of the next line) *)
Fixpoint relink (c : cfg) (bytes : list Z) (last : Z) (offsets : list Z) : res (list Z) :=
  match offsets with
  | [] => Ok (write_at last [0; 0; 0] bytes)
  | pos :: r =>
      do w <- pack_H (cs c + 1 + pos);
      relink c (write_at (last + 1) w bytes) pos r
  end.

Definition rebuild_line_dict (c : cfg) (s : prog) : res prog :=
  do r <- rescan (S (length (code s))) (code s) 0;
  let entries := fst r in
  let d := fold_left (fun d kv => dict_set (fst kv) (snd kv) d) entries [] in
  let offsets := map (fun kv => snd kv) (tl entries) ++ match entries with [] => [] | _ => [snd r] end in
  do bytes <- relink c (code s) 0 offsets;
  Ok {| code := bytes; lines := dict_set 65536 (snd r) d; last_stored := last_stored s |}.

(* ---- Program.list_lines(from, to): positions of the selected numbers, sorted by POSITION *)
Fixpoint insert_sorted (x : Z) (l : list Z) : list Z :=
  match l with
  | [] => [x]
  | y :: r => if x <=? y then x :: l else y :: insert_sorted x r
  end.
Definition sort_Z (l : list Z) : list Z := fold_right insert_sorted [] l.

(* the line stored at an offset: (number, body) as delimited by skip_to(END_LINE) *)
Definition line_at (bytes : list Z) (pos : Z) : option (Z * list Z) :=
  match zdrop pos bytes with
  | _ :: a :: b :: lo :: hi :: body =>
      if (a =? 0) && (b =? 0) then None else Some (unpack_H lo hi, ztake (skip_line body) body)
  | _ => None
  end.

Definition list_positions (s : prog) (fromline toline : option Z) : list Z :=
  let t := match toline with Some t => t | None => 65535 end in
  let sel := filter (fun kv => (match fromline with Some f => f <=? fst kv | None => true end)
                               && (fst kv <=? t)) (lines s) in
  sort_Z (map snd sel).

Definition list_lines (s : prog) (fromline toline : option Z) : list (option (Z * list Z)) :=
  map (line_at (code s)) (list_positions s fromline toline).

(* ---- Interpreter.jump: GOTO n *)
Definition jump (s : prog) (n : Z) : res Z :=
  match lookup n (lines s) with Some p => Ok p | None => Err err_UNDEFINED_LINE_NUMBER end.

(* ---- Program.get_line_number(pos): largest line number stored at or before pos, -1 if none *)
Definition get_line_number (d : list (Z * Z)) (pos : Z) : Z :=
  fold_left (fun pre kv => if (snd kv <=? pos) && (pre <? fst kv) then fst kv else pre) d (-1).

(* ---- the link chain as PEEK sees it: follow the links from the first line.
   Result: the (offset, number) of every line visited, and whether the walk ended on a 00 00 link. *)
Fixpoint chain (c : cfg) (fuel : nat) (bytes : list Z) (pos : Z) : list (Z * Z) * bool :=
  match fuel with
  | O => ([], false)
  | S fuel' =>
      match zdrop pos bytes with
      | _ :: a :: b :: r =>
          if (a =? 0) && (b =? 0) then ([], true)
          else match r with
               | lo :: hi :: _ =>
                   let nxt := unpack_H a b - (cs c + 1) in
                   let t := chain c fuel' bytes nxt in
                   ((pos, unpack_H lo hi) :: fst t, snd t)
               | _ => ([], false)
               end
      | _ => ([], false)
      end
  end.

(* ---- edit histories *)
Inductive op :=
| OStore (linebuf : list Z)
| ODelete (fromline toline : option Z)
| ONew
| ORebuild.      (* rebuild_line_dict on the stored image: what LOAD / POKE into code do after writing *)

(* a failing command (BASIC error) leaves the program as it was *)
Definition step (c : cfg) (s : prog) (o : op) : res prog :=
  match o with
  | OStore lb => store_line c s lb
  | ODelete f t => delete c s f t
  | ONew => Ok erase
  | ORebuild => rebuild_line_dict c s
  end.

Definition step_keep (c : cfg) (s : prog) (o : op) : prog :=
  match step c s o with Ok s' => s' | _ => s end.

Definition run (c : cfg) (ops : list op) : prog := fold_left (step_keep c) ops erase.

(* the line buffer the tokeniser hands to store_line for line number n with text b *)
Definition mk_linebuf (n : Z) (b : list Z) : list Z := 0 :: 192 :: 222 :: le2 n ++ b.

(* ---- canonical observation of a state for the correspondence harness:
   code length :: code ++ sorted (number, offset) pairs ++ [last_stored] *)
Fixpoint insert_kv (x : Z * Z) (l : list (Z * Z)) : list (Z * Z) :=
  match l with
  | [] => [x]
  | y :: r => if fst x <=? fst y then x :: l else y :: insert_kv x r
  end.
Definition sort_kv (l : list (Z * Z)) : list (Z * Z) := fold_right insert_kv [] l.
Definition flat_kv (l : list (Z * Z)) : list Z := flat_map (fun kv => [fst kv; snd kv]) l.
(* the byte code enters the observation as (length, polynomial hash) to keep the case literals small *)
Definition code_hash (l : list Z) : Z := fold_left (fun h b => (h * 257 + b + 1) mod 1000000007) l 0.
Definition obs (s : prog) : list Z :=
  [zlen (code s); code_hash (code s)] ++ (zlen (lines s) :: flat_kv (sort_kv (lines s))) ++ [last_stored s].
(* run-length helper for case literals *)
Definition zrep (n : nat) (x : Z) : list Z := repeat x n.

Definition status (r : res prog) : Z :=
  match r with Ok _ => 0 | Err e => 100 + e | Host x => 200 + x | OutOfFuel => 300 end.

(* per-command status; a host exception ends the history (the harness stops there too) *)
Fixpoint trace_from (c : cfg) (s : prog) (ops : list op) : list Z * prog :=
  match ops with
  | [] => ([], s)
  | o :: r =>
      let t := step c s o in
      match t with
      | Ok s' => let u := trace_from c s' r in (0 :: fst u, snd u)
      | Err _ => let u := trace_from c s r in (status t :: fst u, snd u)
      | _ => ([status t], s)
      end
  end.

Definition line_numbers_listed (s : prog) : list Z :=
  map (fun o => match o with Some nb => fst nb | None => -1 end) (list_lines s None None).

(* every stored line buffer has the tokeniser's shape 00 C0 DE lo hi body with a well-formed body
   (the hypothesis op_ok of the theorems, checked on the real tokeniser's output) *)
Definition ops_wf (ops : list op) : bool :=
  forallb (fun o => match o with
                    | OStore (0 :: 192 :: 222 :: lo :: hi :: b) => byteb lo && byteb hi && wf_body b
                    | OStore _ => false
                    | _ => true
                    end) ops.

Definition trace (c : cfg) (ops : list op) : list Z :=
  let u := trace_from c erase ops in
  let l := if existsb (fun x => 200 <=? x) (fst u) then [] else line_numbers_listed (snd u) in
  (zlen (fst u) :: fst u) ++ obs (snd u) ++ (zlen l :: l) ++ [b2z (ops_wf ops)].
