(* C28 (and C27): executable model of the DOS-name algebra of pcbasic/basic/devices/disk.py.
   Strings are lists of Z: bytes (0..255) for DOS names, Unicode code points for native (host) names.
   Tables (ALLOWABLE_CHARS, the default codepage, error numbers) are regenerated into gen/Gen_dosnames.v.
   NO proofs here. *)
From Coq Require Import ZArith List Bool.
From PCB Require Import lib.Result lib.PyInt lib.Harness gen.Gen_dosnames.
Import ListNotations.
Open Scope Z_scope.

Definition str := list Z.

Definition seqb (a b : str) : bool := list_Z_eqb a b.
Definition mem (c : Z) (s : str) : bool := existsb (Z.eqb c) s.
Definition smem (s : str) (l : list str) : bool := existsb (seqb s) l.

Definition c_dot : Z := 46.
Definition c_slash : Z := 47.
Definition c_bslash : Z := 92.
Definition c_colon : Z := 58.
Definition s_dot : str := [46].
Definition s_dotdot : str := [46; 46].

(* bytes.upper(): ASCII letters only *)
Definition upc (c : Z) : Z := if (97 <=? c) && (c <=? 122) then c - 32 else c.
Definition upper (s : str) : str := map upc s.
Definition lowc (c : Z) : Z := if (65 <=? c) && (c <=? 90) then c + 32 else c.

(* bytes.strip(): ASCII whitespace = space \t \n \v \f \r *)
Definition is_ws (c : Z) : bool := (c =? 32) || ((9 <=? c) && (c <=? 13)).
Fixpoint lstrip (s : str) : str :=
  match s with
  | [] => []
  | c :: r => if is_ws c then lstrip r else s
  end.
Definition rstrip (s : str) : str := rev (lstrip (rev s)).
Definition strip (s : str) : str := rstrip (lstrip s).

(* s.split(sep, 1): text before the first sep, and (if there is one) the text after it *)
Fixpoint split_first (d : Z) (s : str) : str * option str :=
  match s with
  | [] => ([], None)
  | c :: r =>
      if c =? d then ([], Some r)
      else let '(a, b) := split_first d r in (c :: a, b)
  end.

(* s.split(sep): all fields (always at least one) *)
Fixpoint split_on (d : Z) (s : str) : list str :=
  match s with
  | [] => [[]]
  | c :: r =>
      if c =? d then [] :: split_on d r
      else match split_on d r with
           | f :: fs => (c :: f) :: fs
           | [] => [[c]]
           end
  end.

(* dos_splitext: trunk and extension around the FIRST dot, dot excluded *)
Definition dos_splitext (s : str) : str * str :=
  let '(t, e) := split_first c_dot s in
  (t, match e with Some e => e | None => [] end).

Definition is_special (s : str) : bool := seqb s s_dot || seqb s s_dotdot.

(* dos_normalise_name: upper-case 8.3 *)
Definition dos_normalise_name (s : str) : str :=
  if is_special s then s
  else
    let '(t, e) := dos_splitext (upper s) in
    let t := firstn 8 t in
    let e := firstn 3 e in
    t ++ match e with [] => [] | _ :: _ => c_dot :: e end.

Definition allowable (c : Z) : bool := mem c dn_allowable.

(* dos_is_legal_name *)
Definition dos_is_legal_name (s : str) : bool :=
  if is_special s then true
  else
    let '(t, e) := dos_splitext s in
    (Nat.leb (length t) 8 && Nat.leb (length e) 3)
    && (seqb t (strip t) && seqb e (strip e))
    && (forallb allowable t && forallb allowable e).

(* dos_name_matches(name, mask): the regexp \A ... \Z built from mask.upper() with ? -> . and * -> .* ,
   every other character escaped, matched against name.upper(); `.` does not match a newline (no DOTALL).
   Modelled as a regexp-free matcher; the agreement with re is part of the correspondence (harness/C28.py). *)
Fixpoint wmatch (m n : str) : bool :=
  match m with
  | [] => match n with [] => true | _ :: _ => false end
  | c :: m' =>
      if c =? 42 then
        (fix star (n : str) : bool :=
           wmatch m' n ||
           match n with
           | [] => false
           | x :: n' => negb (x =? 10) && star n'
           end) n
      else if c =? 63 then
        match n with
        | [] => false
        | x :: n' => negb (x =? 10) && wmatch m' n'
        end
      else
        match n with
        | [] => false
        | x :: n' => (x =? c) && wmatch m' n'
        end
  end.
Definition dos_name_matches (name mask : str) : bool := wmatch (upper mask) (upper name).

(* --- the regular expression dos_name_matches actually builds ---
   regexp = b'\A' + (b'.' for ?, b'.*' for *, re.escape(c) otherwise, over mask.upper()) + b'\Z',
   re.compile(regexp).match(name.upper()).  `regex` is the abstract syntax of that pattern, `rmatch` the
   standard language semantics of regular expressions (whole-string match: the pattern is anchored by \A \Z;
   `.` is any character but newline: no DOTALL), `mask_pattern` the pattern text, compared with the text the
   code hands to re.compile by the correspondence. *)
Inductive regex : Type :=
| REps
| RDot                       (* . *)
| RLit (c : Z)               (* re.escape(c) *)
| RCat (r s : regex)
| RStar (r : regex).

Inductive rmatch : regex -> str -> Prop :=
| MEps : rmatch REps []
| MDot x : x <> 10 -> rmatch RDot [x]
| MLit c : rmatch (RLit c) [c]
| MCat r s a b : rmatch r a -> rmatch s b -> rmatch (RCat r s) (a ++ b)
| MStar0 r : rmatch (RStar r) []
| MStarApp r a b : rmatch r a -> rmatch (RStar r) b -> rmatch (RStar r) (a ++ b).

Definition regex_of_char (c : Z) : regex :=
  if c =? 63 then RDot else if c =? 42 then RStar RDot else RLit c.
Definition regex_of_mask (mask : str) : regex :=
  fold_right (fun c r => RCat (regex_of_char c) r) REps (upper mask).

(* re.escape on one byte (CPython 3.7+): backslash before ()[]{}?*+-|^$\.&~# and ASCII whitespace *)
Definition re_special : list Z :=
  [40; 41; 91; 93; 123; 125; 63; 42; 43; 45; 124; 94; 36; 92; 46; 38; 126; 35; 32; 9; 10; 13; 11; 12].
Definition re_escape (c : Z) : str := if mem c re_special then [92; c] else [c].
Fixpoint render (r : regex) : str :=
  match r with
  | REps => []
  | RDot => [46]
  | RLit c => re_escape c
  | RCat a b => render a ++ render b
  | RStar a => render a ++ [42]
  end.
Definition mask_pattern (mask : str) : str := [92; 65] ++ render (regex_of_mask mask) ++ [92; 90].

(* does (trunk, ext) match the two halves of a mask *)
Definition dos_mask_matches (mask : str) (te : str * str) : bool :=
  let '(tm, em) := dos_splitext mask in
  dos_name_matches (fst te) tm && dos_name_matches (snd te) em.

(* _get_dos_name_defext: strip trailing whitespace, add the default extension iff there is no dot *)
Definition defext_name (s defext : str) : str :=
  let s := rstrip s in
  match defext with
  | [] => s
  | _ :: _ => if mem c_dot s then s else s ++ c_dot :: defext
  end.

(* --- codepage (default page, regenerated table) --- *)
Definition cp (b : Z) : Z := nth (Z.to_nat b) dn_cp 63.
Definition to_uni (s : str) : str := map cp s.
Fixpoint assoc (k : Z) (l : list (Z * Z)) : option Z :=
  match l with
  | [] => None
  | (a, b) :: r => if a =? k then Some b else assoc k r
  end.
(* unicode_to_bytes(errors='replace'), one code point at a time: unknown -> '?' *)
Definition u2c (u : Z) : Z := match assoc u dn_u2c with Some b => b | None => 63 end.
Definition to_cp (s : str) : str := map u2c s.

Definition is_ascii (s : str) : bool := forallb (fun c => (0 <=? c) && (c <? 128)) s.

(* _get_dos_display_name on a host without Windows short names *)
Definition display_name (native : str) : str :=
  if is_ascii native && dos_is_legal_name native then dos_normalise_name native
  else
    let '(t, e) := dos_splitext (to_cp native) in
    let t := if Nat.ltb 8 (length t) then firstn 7 t ++ [43] else t in
    let e := if Nat.ltb 3 (length e) then firstn 2 e ++ [43] else e in
    t ++ (match e, t with
          | _ :: _, _ => [c_dot]
          | [], [] => [c_dot]
          | [], _ :: _ => []
          end) ++ e.

(* lexicographic order on strings (Python's order on str / bytes) and insertion sort = sorted() *)
Fixpoint str_leb (a b : str) : bool :=
  match a, b with
  | [], _ => true
  | _ :: _, [] => false
  | x :: a', y :: b' => if x <? y then true else if y <? x then false else str_leb a' b'
  end.
Fixpoint insert_by {A} (le : A -> A -> bool) (x : A) (l : list A) : list A :=
  match l with
  | [] => [x]
  | y :: r => if le x y then x :: l else y :: insert_by le x r
  end.
Definition sort_by {A} (le : A -> A -> bool) (l : list A) : list A := fold_right (insert_by le) [] l.
Definition sort_str : list str -> list str := sort_by str_leb.
Definition pair_leb (a b : str * str) : bool :=
  if seqb (fst a) (fst b) then str_leb (snd a) (snd b) else str_leb (fst a) (fst b).

(* _filter_names on display names: split, keep the matching ones, sorted *)
Definition filter_names (natives : list str) (mask : str) : list (str * str) :=
  let mask := match mask with [] => [42; 46; 42] | _ :: _ => mask end in
  sort_by pair_leb (filter (dos_mask_matches mask) (map (fun n => dos_splitext (display_name n)) natives)).

(* one line of DiskDevice.listdir output *)
Definition ljust (n : nat) (s : str) : str := s ++ repeat 32 (n - length s).
Definition format_entry (isdir : bool) (te : str * str) : str :=
  let '(t, e) := te in
  ljust 8 t ++ [match e, t with | _ :: _, _ => 46 | [], [] => 46 | [], _ :: _ => 32 end] ++ ljust 3 e
  ++ (if isdir then [60; 68; 73; 82; 62] else [32; 32; 32; 32; 32]).

(* is_hidden (posix): basename starts with '.' and is not . or .. *)
Definition is_hidden (n : str) : bool :=
  match n with
  | c :: _ => (c =? c_dot) && negb (is_special n)
  | [] => false
  end.

(* encoding helpers for the correspondence harness *)
Definition enc_str (s : str) : list Z := zlen s :: s.
Definition enc_strs (l : list str) : list Z := zlen l :: flat_map enc_str l.
