(* C19 / C21: executable small-step model of the control flow of pcbasic/basic/interpreter.py
   (parse loop, jump, jump_sub, return_, if_, on_jump_, for_/_find_next/iterate_loop/next_, while_/wend_,
   trap_error, on_error_goto_, resume_, erl_/err_, end of program inside a handler) and
   implementation.py (end_, _handle_error).

   The code stream.  A tokenised program is modelled as ONE list of statement slots:
       program stream ++ [SEndProg] ++ direct line
   A position of the code (a byte offset + run_mode) is an index into this list: an index below the
   SEndProg marker is an offset in the program with run_mode = True, an index above it is an offset in
   the direct line with run_mode = False.  `SLine n` is the line header (00 link link lo hi) of program
   line n; every other slot is one statement, i.e. the text between two statement markers (`:`, THEN,
   ELSE or a line header).  As in the byte stream an IF is flat: `IF c THEN a:b ELSE d` is
       SIf c None; a; b; SElse None; d
   (`:ELSE` is a statement of its own that skips the rest of the line when reached sequentially).
   NEXT with a variable list has sub-positions (slot, k) = "just after the k-th variable", which is what
   FOR records as nextpos.

   Values are integer (%) variables and integer expressions; arithmetic is exact in Z, and whatever the
   real interpreter would do in floating point or by soft error handling is `Unmodelled` (fail-closed).
   No proofs in this file. *)
From Coq Require Import ZArith List Bool.
From PCB Require Import gen.Gen_flow.
Import ListNotations.
Open Scope Z_scope.

(* ------------------------------------------------------------------ syntax *)

Definition var := nat.

Inductive cmpop := CLt | CLe | CEq | CNe | CGe | CGt.

Inductive expr :=
| EConst (z : Z)
| EVar (v : var)
| EAdd (a b : expr)
| ESub (a b : expr)
| EIDiv (a b : expr)            (* a \ b *)
| ECmp (o : cmpop) (a b : expr)
| EErr                          (* ERR *)
| EErl.                         (* ERL *)

Inductive rkind := RSame | RNext | RLine (n : Z).

Inductive stmt :=
| SLine (n : Z)                               (* header of program line n *)
| SEndProg                                    (* end of the program stream; the direct line follows *)
| SPrint (e : expr)
| SLet (v : var) (e : expr)
| SFor (v : var) (a b s : expr)               (* FOR v = a TO b STEP s *)
| SNext (vs : list var)                       (* NEXT / NEXT v1, v2, ... *)
| SWhile (c : expr)
| SWend
| SGosub (n : Z)
| SReturn (n : option Z)
| SGoto (n : Z)
| SIf (c : expr) (j : option Z)               (* IF c THEN [j]; with j = None the next slot is the THEN clause *)
| SElse (j : option Z)                        (* :ELSE [j] *)
| SOn (e : expr) (gosub : bool) (ns : list Z) (* ON e GOTO/GOSUB n1, n2, ... *)
| SEnd
| SError (e : expr)
| SOnErrorGoto (n : Z)
| SResume (r : rkind)
| SRead (vs : list var)                        (* READ v1, v2, ... *)
| SData (items : list Z)                      (* DATA c1, c2, ... (integer constants) *)
| SRestore (n : option Z).                    (* RESTORE [n] *)

(* ------------------------------------------------------------------ state *)

(* a FOR record: (varname, stop, step, sgn, forpos, nextpos); sgn = sign of step is recomputed *)
Record frec := { f_var : var; f_stop : Z; f_step : Z; f_forpos : nat; f_nidx : nat; f_nk : nat }.

(* data part: variables and error-trapping registers *)
Record dstate := {
  env : list Z;            (* variable v has value nth v env 0 *)
  err : Z;                 (* error_num *)
  erl : Z;                 (* line of error_pos as ERL reports it: 0 none, 65535 direct line *)
  onerr : Z;               (* on_error: 0 (or None) = no handler *)
  handling : bool;         (* error_handle_mode *)
  resume_at : option nat;  (* error_resume: the statement pointer (with its run mode) *)
  susp : bool              (* values.error_handler._do_raise: soft handling of math errors suspended *)
}.

Record state := {
  pc : nat;
  fors : list frec;            (* for_stack, top first *)
  whiles : list (nat * nat);   (* while_stack (whilepos, wendpos), top first *)
  gosubs : list nat;           (* gosub_stack: position of the calling statement, top first *)
  dptr : nat * nat;            (* data_pos: (j, 0) = look for the next DATA statement from slot j on;
                                  (j, k) = k items of the DATA statement in slot j have been read *)
  ds : dstate
}.

Definition set_pc (st : state) (p : nat) : state :=
  {| pc := p; fors := fors st; whiles := whiles st; gosubs := gosubs st; dptr := dptr st; ds := ds st |}.
Definition set_fors (st : state) (f : list frec) : state :=
  {| pc := pc st; fors := f; whiles := whiles st; gosubs := gosubs st; dptr := dptr st; ds := ds st |}.
Definition set_whiles (st : state) (w : list (nat * nat)) : state :=
  {| pc := pc st; fors := fors st; whiles := w; gosubs := gosubs st; dptr := dptr st; ds := ds st |}.
Definition set_gosubs (st : state) (g : list nat) : state :=
  {| pc := pc st; fors := fors st; whiles := whiles st; gosubs := g; dptr := dptr st; ds := ds st |}.
Definition set_dptr (st : state) (p : nat * nat) : state :=
  {| pc := pc st; fors := fors st; whiles := whiles st; gosubs := gosubs st; dptr := p; ds := ds st |}.
Definition set_ds (st : state) (d : dstate) : state :=
  {| pc := pc st; fors := fors st; whiles := whiles st; gosubs := gosubs st; dptr := dptr st; ds := d |}.

Definition d_set_env (d : dstate) (e : list Z) : dstate :=
  {| env := e; err := err d; erl := erl d; onerr := onerr d; handling := handling d;
     resume_at := resume_at d; susp := susp d |}.

Definition getv (e : list Z) (v : var) : Z := nth v e 0.
Fixpoint setv (e : list Z) (v : var) (z : Z) : list Z :=
  match v, e with
  | O, [] => [z]
  | O, _ :: r => z :: r
  | S v', [] => 0 :: setv [] v' z
  | S v', x :: r => x :: setv r v' z
  end.
Definition set_var (st : state) (v : var) (z : Z) : state :=
  set_ds st (d_set_env (ds st) (setv (env (ds st)) v z)).

Definition init_ds : dstate :=
  {| env := []; err := 0; erl := 0; onerr := 0; handling := false; resume_at := None; susp := false |}.
Definition init_at (p : nat) : state :=
  {| pc := p; fors := []; whiles := []; gosubs := []; dptr := (0%nat, 0%nat); ds := init_ds |}.

(* ------------------------------------------------------------------ expressions *)

Inductive eres := EV (z : Z) | EE (c : Z) | EU.

Definition in16 (z : Z) : bool := (-32768 <=? z) && (z <=? 32767).
(* integers that a single-precision value holds exactly *)
Definition exact24 (z : Z) : bool := (-16777216 <=? z) && (z <=? 16777216).

Definition cmp_holds (o : cmpop) (x y : Z) : bool :=
  match o with
  | CLt => x <? y | CLe => x <=? y | CEq => x =? y
  | CNe => negb (x =? y) | CGe => x >=? y | CGt => x >? y
  end.

Definition ebind (r : eres) (k : Z -> eres) : eres :=
  match r with EV z => k z | EE c => EE c | EU => EU end.

Fixpoint eval (d : dstate) (e : expr) : eres :=
  match e with
  | EConst z => if exact24 z then EV z else EU
  | EVar v => EV (getv (env d) v)
  | EAdd a b => ebind (eval d a) (fun x => ebind (eval d b) (fun y =>
                  if exact24 (x + y) then EV (x + y) else EU))
  | ESub a b => ebind (eval d a) (fun x => ebind (eval d b) (fun y =>
                  if exact24 (x - y) then EV (x - y) else EU))
  | EIDiv a b => ebind (eval d a) (fun x => ebind (eval d b) (fun y =>
                  (* to_integer(left), to_integer(right): Overflow outside 16 bits *)
                  if negb (in16 x && in16 y) then EE flow_E_OVERFLOW
                  else if y =? 0 then
                    (* ZeroDivisionError goes to the float error handler: a hard error only while an
                       ON ERROR GOTO n is in force; otherwise a message and a float result *)
                    (if susp d then EE flow_E_DIVISION_BY_ZERO else EU)
                  else if in16 (Z.quot x y) then EV (Z.quot x y) else EE flow_E_OVERFLOW))
  | ECmp o a b => ebind (eval d a) (fun x => ebind (eval d b) (fun y =>
                  EV (if cmp_holds o x y then -1 else 0)))
  | EErr => EV (err d)
  | EErl => EV (erl d)
  end.

(* PRINT a \ b with b = 0 while math errors are soft (no ON ERROR GOTO n in force): the float error handler
   prints "Division by zero" and the result is machine infinity with the sign of a; execution continues.
   Some neg = that case, with the sign.  (Only PRINT of such a quotient is modelled; elsewhere the soft case
   stays Unmodelled.) *)
Definition soft_div (d : dstate) (e : expr) : option bool :=
  match e with
  | EIDiv a b =>
      match eval d a, eval d b with
      | EV x, EV y => if in16 x && in16 y && (y =? 0) && negb (susp d) then Some (x <? 0) else None
      | _, _ => None
      end
  | _ => None
  end.
(* output codes: the soft message, and plus / minus machine infinity as PRINT shows it (1.701412E+38) *)
Definition soft_out (neg : bool) : list Z := [77711; if neg then -88888 else 88888].

(* ------------------------------------------------------------------ scanning the code stream *)

(* program.line_numbers[n]: position of the header of line n (program stream only) *)
Fixpoint find_line_from (l : list stmt) (base : nat) (n : Z) : option nat :=
  match l with
  | [] => None
  | SLine m :: r => if m =? n then Some base else find_line_from r (S base) n
  | SEndProg :: _ => None
  | _ :: r => find_line_from r (S base) n
  end.
Definition find_line (code : list stmt) (n : Z) : option nat := find_line_from code 0 n.

(* program.get_line_number(pos) as ERL and the error message use it; 65535 = position in the direct line
   (error_pos = -1).  Lines are stored in increasing order, so "largest line number starting at or before
   pos" is the last header at or before pos. *)
Fixpoint line_of_from (l : list stmt) (i : nat) (cur : Z) : Z :=
  match l with
  | [] => 65535
  | SEndProg :: _ => 65535
  | s :: r =>
      let cur' := match s with SLine n => n | _ => cur end in
      match i with O => cur' | S i' => line_of_from r i' cur' end
  end.
Definition line_of (code : list stmt) (i : nat) : Z := line_of_from code i 65535.

(* first line header / end of stream at or after the start of l *)
Fixpoint eol_from (l : list stmt) (base : nat) : nat :=
  match l with
  | [] => base
  | SLine _ :: _ => base
  | SEndProg :: _ => base
  | _ :: r => eol_from r (S base)
  end.
Definition eol (code : list stmt) (i : nat) : nat := eol_from (skipn i code) i.

(* parser._parse_if, false branch: find the :ELSE of this IF (IF tokens nest), or the end of the line *)
Inductive else_target := ElseAt (k : nat) (j : option Z) | NoElse (k : nat).
Fixpoint find_else_from (l : list stmt) (base nest : nat) : else_target :=
  match l with
  | [] => NoElse base
  | SLine _ :: _ => NoElse base
  | SEndProg :: _ => NoElse base
  | SIf _ _ :: r => find_else_from r (S base) (S nest)
  | SElse j :: r =>
      match nest with
      | O => ElseAt base j
      | S n' => find_else_from r (S base) n'
      end
  | _ :: r => find_else_from r (S base) nest
  end.

(* codestream.skip_block(FOR, NEXT, allow_comma=True) + _find_next: position (slot, variable index) of
   the NEXT that closes a FOR, with `depth` FORs open in between *)
Fixpoint scan_next (l : list stmt) (base depth : nat) : option (nat * nat) :=
  match l with
  | [] => None
  | SEndProg :: _ => None
  | SFor _ _ _ _ :: r => scan_next r (S base) (S depth)
  | SNext vs :: r =>
      let n := Nat.max 1 (length vs) in
      if Nat.ltb depth n then Some (base, depth) else scan_next r (S base) (depth - n)
  | _ :: r => scan_next r (S base) depth
  end.

(* skip_block(WHILE, WEND) + _find_wend *)
Fixpoint scan_wend (l : list stmt) (base depth : nat) : option nat :=
  match l with
  | [] => None
  | SEndProg :: _ => None
  | SWhile _ :: r => scan_wend r (S base) (S depth)
  | SWend :: r =>
      match depth with
      | O => Some base
      | S d' => scan_wend r (S base) d'
      end
  | _ :: r => scan_wend r (S base) depth
  end.

(* RESUME NEXT: skip_to(END_STATEMENT, break_on_first_char=False) from the start of the failing statement:
   the next slot that is introduced by `:` or a line header.  A slot directly after THEN or ELSE is not;
   ELSE itself always is (it is stored as `:ELSE`). *)
Definition then_joined (s : stmt) : bool :=
  match s with SIf _ None => true | SElse None => true | _ => false end.
Fixpoint next_colon_from (l : list stmt) (base : nat) (prev : stmt) : nat :=
  match l with
  | [] => base
  | SLine _ :: _ => base
  | SEndProg :: _ => base
  | SElse _ :: _ => base
  | s :: r => if then_joined prev then next_colon_from r (S base) s else base
  end.
Definition next_colon (code : list stmt) (p : nat) : nat :=
  match skipn p code with
  | [] => p
  | s :: r => next_colon_from r (S p) s
  end.

(* READ: the next DATA statement at or after slot `from` that starts after a colon or a line header
   (codestream.skip_to_token: statements in THEN / ELSE clauses are not seen), in the program stream *)
Fixpoint find_data_from (l : list stmt) (base : nat) (joined : bool) (from : nat) : option (nat * list Z) :=
  match l with
  | [] => None
  | SEndProg :: _ => None
  | s :: r =>
      match s with
      | SData items =>
          if Nat.leb from base && negb joined then Some (base, items)
          else find_data_from r (S base) (then_joined s) from
      | _ => find_data_from r (S base) (then_joined s) from
      end
  end.

(* the item the data pointer is at, and the pointer after it; None = Out of DATA *)
Definition read_item (code : list stmt) (dp : nat * nat) : option (Z * (nat * nat)) :=
  let at_item := fun (j k : nat) (items : list Z) =>
    match nth_error items k with
    | Some z => Some (z, if Nat.ltb (S k) (length items) then (j, S k) else (S j, 0%nat))
    | None => None
    end in
  match dp with
  | (j, O) =>
      match find_data_from code 0 false j with
      | Some (j', items) => at_item j' 0%nat items
      | None => None
      end
  | (j, S k) =>
      match nth_error code j with
      | Some (SData items) => at_item j (S k) items
      | _ => None
      end
  end.

(* ------------------------------------------------------------------ outcomes *)

Inductive outcome :=
| Finished                      (* back at the prompt without an error message *)
| Stopped (c l : Z)             (* error message for error c "in l" (l = 65535: no line) *)
| Unmodelled
| OutOfFuel.

Inductive sres := Go (st : state) (out : list Z) | Halt (o : outcome).

(* Interpreter.trap_error for error c raised while statement i runs, with the stream at epos *)
Definition trap (code : list stmt) (st : state) (i : nat) (c : Z) (epos : nat) : sres :=
  let d := ds st in
  let l := line_of code epos in
  if negb (onerr d =? 0) && negb (handling d) then
    match find_line code (onerr d) with
    | Some h =>
        Go (set_pc (set_ds st {| env := env d; err := c; erl := l; onerr := onerr d; handling := true;
                                  resume_at := Some i; susp := susp d |}) h) []
    | None => Halt (Stopped flow_E_UNDEFINED_LINE_NUMBER 65535)
    end
  else Halt (Stopped c l).

Definition with_val (code : list stmt) (st : state) (i epos : nat) (r : eres) (k : Z -> sres) : sres :=
  match r with
  | EV z => k z
  | EE c => trap code st i c epos
  | EU => Halt Unmodelled
  end.

(* a value converted to the integer type (FOR bounds, ON, ERROR): Overflow outside 16 bits *)
Definition with_int (code : list stmt) (st : state) (i : nat) (r : eres) (k : Z -> sres) : sres :=
  with_val code st i i r (fun z => if in16 z then k z else trap code st i flow_E_OVERFLOW i).

(* Interpreter.jump *)
Definition jump (code : list stmt) (st : state) (i : nat) (n : Z) (k : nat -> sres) : sres :=
  match find_line code n with
  | Some j => k j
  | None => trap code st i flow_E_UNDEFINED_LINE_NUMBER i
  end.

(* ------------------------------------------------------------------ FOR / NEXT *)

(* the record whose nextpos is (j, k), searched from the top, and the records below it *)
Fixpoint find_for (fs : list frec) (j k : nat) : option (frec * list frec) :=
  match fs with
  | [] => None
  | f :: r => if Nat.eqb (f_nidx f) j && Nat.eqb (f_nk f) k then Some (f, r) else find_for r j k
  end.

Inductive ires := ILoop (st : state) | IEnded (st : state) | IErr (st : state) (c : Z).

(* Interpreter.iterate_loop with the stream just after variable k of the NEXT in slot j *)
Definition iterate (st : state) (j k : nat) (name : option var) : ires :=
  match find_for (fors st) j k with
  | None => IErr st flow_E_NEXT_WITHOUT_FOR
  | Some (f, below) =>
      let name_ok := match name with None => true | Some v => Nat.eqb v (f_var f) end in
      if negb name_ok then IErr st flow_E_NEXT_WITHOUT_FOR
      else
        let st1 := set_fors st (f :: below) in
        let c := getv (env (ds st)) (f_var f) + f_step f in
        if negb (in16 c) then IErr st1 flow_E_OVERFLOW
        else
          let st2 := set_var st1 (f_var f) c in
          let ends := if flow_next_dir (Z.sgn (f_step f)) then c >? f_stop f else f_stop f >? c in
          if ends then IEnded (set_fors st2 below) else ILoop (set_pc st2 (f_forpos f))
  end.

(* Interpreter.next_ from variable k on *)
Fixpoint next_vars (st : state) (j k : nat) (names : list (option var)) : ires :=
  match names with
  | [] => IEnded st
  | nm :: rest =>
      match iterate st j k nm with
      | IEnded st' => next_vars st' j (S k) rest
      | r => r
      end
  end.

Definition next_names (vs : list var) : list (option var) :=
  match vs with [] => [None] | _ => map Some vs end.

Definition vars_of_next (code : list stmt) (j : nat) : list var :=
  match nth_error code j with Some (SNext vs) => vs | _ => [] end.

(* Interpreter._check_while_condition for the WHILE in slot w, run from statement i *)
Definition check_while (code : list stmt) (st : state) (i w : nat) : sres :=
  match nth_error code w with
  | Some (SWhile c) =>
      with_val code st i w (eval (ds st) c) (fun z =>
        if z =? 0 then
          match whiles st with
          | (_, e) :: rest => Go (set_pc (set_whiles st rest) (S e)) []
          | [] => Halt Unmodelled
          end
        else Go (set_pc st (S w)) [])
  | _ => Halt Unmodelled
  end.

(* wend_: pop records until the one of this WEND is on top *)
Fixpoint pop_to_wend (ws : list (nat * nat)) (j : nat) : option (list (nat * nat)) :=
  match ws with
  | [] => None
  | (w, e) :: rest => if Nat.eqb e j then Some ws else pop_to_wend rest j
  end.


(* ------------------------------------------------------------------ READ *)

Inductive rdres := RdOk (st : state) | RdErr (st : state) (c : Z) | RdUnmodelled.

(* Interpreter.read_: for each variable the next DATA item is fetched (the stream goes to the DATA statement
   and comes BACK to the READ statement) and then assigned; the data pointer advances only after a successful
   assignment.  Errors - Out of DATA, Overflow of the assignment - are raised with the stream at the READ. *)
Fixpoint read_vars (code : list stmt) (st : state) (vs : list var) : rdres :=
  match vs with
  | [] => RdOk st
  | v :: rest =>
      match read_item code (dptr st) with
      | None => RdErr st flow_E_OUT_OF_DATA
      | Some (z, dp') =>
          if negb (exact24 z) then RdUnmodelled
          else if in16 z then read_vars code (set_dptr (set_var st v z) dp') rest
          else RdErr st flow_E_OVERFLOW
      end
  end.

(* ------------------------------------------------------------------ one statement: Ok | Raise *)

(* what one statement does by itself: it continues (new state, output), ends the program, or raises
   BASIC error c with the stream at epos and the state as the raise leaves it.  What becomes of a raised
   error (trap_error) is not the statement's business: see `step`. *)
Inductive pres := PGo (st : state) (out : list Z) | PHalt (o : outcome) | PRaise (st : state) (c : Z) (epos : nat).

Definition pwith_val (st : state) (epos : nat) (r : eres) (k : Z -> pres) : pres :=
  match r with
  | EV z => k z
  | EE c => PRaise st c epos
  | EU => PHalt Unmodelled
  end.

Definition pwith_int (st : state) (i : nat) (r : eres) (k : Z -> pres) : pres :=
  pwith_val st i r (fun z => if in16 z then k z else PRaise st flow_E_OVERFLOW i).

Definition pjump (code : list stmt) (st : state) (i : nat) (n : Z) (k : nat -> pres) : pres :=
  match find_line code n with
  | Some j => k j
  | None => PRaise st flow_E_UNDEFINED_LINE_NUMBER i
  end.

(* Interpreter._check_while_condition for the WHILE in slot w *)
Definition pcheck_while (code : list stmt) (st : state) (w : nat) : pres :=
  match nth_error code w with
  | Some (SWhile c) =>
      pwith_val st w (eval (ds st) c) (fun z =>
        if z =? 0 then
          match whiles st with
          | (_, e) :: rest => PGo (set_pc (set_whiles st rest) (S e)) []
          | [] => PHalt Unmodelled
          end
        else PGo (set_pc st (S w)) [])
  | _ => PHalt Unmodelled
  end.

Definition pstep (code : list stmt) (st : state) : pres :=
  let i := pc st in
  let d := ds st in
  match nth_error code i with
  | None => PHalt Finished                      (* end of the direct line *)
  | Some s =>
    match s with
    | SEndProg =>
        (* end of program: inside an unfinished handler this is No RESUME, which no handler catches *)
        match resume_at d with
        | Some _ => PHalt (Stopped flow_E_NO_RESUME (line_of code (Nat.pred i)))
        | None => PHalt Finished
        end
    | SLine _ => PGo (set_pc st (S i)) []
    | SPrint e =>
        match soft_div d e with
        | Some neg => PGo (set_pc st (S i)) (soft_out neg)
        | None => pwith_val st i (eval d e) (fun z => PGo (set_pc st (S i)) [z])
        end
    | SLet v e =>
        pwith_val st i (eval d e) (fun z =>
          if in16 z then PGo (set_pc (set_var st v z) (S i)) [] else PRaise st flow_E_OVERFLOW i)
    | SGoto n => pjump code st i n (fun j => PGo (set_pc st j) [])
    | SGosub n => pjump code st i n (fun j => PGo (set_pc (set_gosubs st (i :: gosubs st)) j) [])
    | SReturn tgt =>
        match gosubs st with
        | [] => PRaise st flow_E_RETURN_WITHOUT_GOSUB i
        | r :: rest =>
            let st1 := set_gosubs st rest in
            match tgt with
            | None => PGo (set_pc st1 (S r)) []
            | Some n => pjump code st1 i n (fun j => PGo (set_pc st1 j) [])
            end
        end
    | SIf c tj =>
        pwith_val st i (eval d c) (fun z =>
          if negb (z =? 0) then
            match tj with
            | Some n => pjump code st i n (fun j => PGo (set_pc st j) [])
            | None => PGo (set_pc st (S i)) []
            end
          else
            match find_else_from (skipn (S i) code) (S i) 0 with
            | NoElse k => PGo (set_pc st k) []
            | ElseAt k None => PGo (set_pc st (S k)) []
            | ElseAt k (Some n) => pjump code st i n (fun j => PGo (set_pc st j) [])
            end)
    | SElse _ => PGo (set_pc st (eol code (S i))) []
    | SOn e gosub ns =>
        pwith_int st i (eval d e) (fun z =>
          if negb ((flow_on_lo <=? z) && (z <=? flow_on_hi)) then PRaise st flow_E_ILLEGAL_FUNCTION_CALL i
          else if (1 <=? z) && (z <=? Z.of_nat (length ns)) then
            let n := nth (Z.to_nat (z - 1)) ns 0 in
            pjump code st i n (fun j =>
              PGo (set_pc (if gosub then set_gosubs st (i :: gosubs st) else st) j) [])
          else PGo (set_pc st (S i)) [])
    | SEnd => PHalt Finished
    | SError e =>
        pwith_int st i (eval d e) (fun z =>
          if negb ((flow_error_lo <=? z) && (z <=? flow_error_hi)) then PRaise st flow_E_ILLEGAL_FUNCTION_CALL i
          else PRaise st z i)
    | SOnErrorGoto n =>
        let set_h st :=
          set_ds st {| env := env d; err := err d; erl := erl d; onerr := n; handling := handling d;
                       resume_at := resume_at d; susp := negb (n =? 0) |} in
        if n =? 0 then
          if handling d then
            (* ON ERROR GOTO 0 inside a handler: the error is raised again, no handler any more *)
            PHalt (Stopped (err d) (erl d))
          else PGo (set_pc (set_h st) (S i)) []
        else
          match find_line code n with
          | Some _ => PGo (set_pc (set_h st) (S i)) []
          | None => PRaise st flow_E_UNDEFINED_LINE_NUMBER i
          end
    | SResume r =>
        match resume_at d with
        | None =>
            PRaise (set_ds st {| env := env d; err := err d; erl := erl d; onerr := 0; handling := handling d;
                                 resume_at := None; susp := susp d |}) flow_E_RESUME_WITHOUT_ERROR i
        | Some p =>
            let st1 := set_ds st {| env := env d; err := 0; erl := erl d; onerr := onerr d; handling := false;
                                    resume_at := None; susp := susp d |} in
            match r with
            | RSame => PGo (set_pc st1 p) []
            | RNext => PGo (set_pc st1 (next_colon code p)) []
            | RLine n => pjump code st1 i n (fun j => PGo (set_pc st1 j) [])
            end
        end
    | SRead vs =>
        match read_vars code st vs with
        | RdOk st' => PGo (set_pc st' (S i)) []
        | RdErr st' c => PRaise st' c i
        | RdUnmodelled => PHalt Unmodelled
        end
    | SData _ => PGo (set_pc st (S i)) []
    | SRestore None => PGo (set_pc (set_dptr st (0%nat, 0%nat)) (S i)) []
    | SRestore (Some n) => pjump code st i n (fun j => PGo (set_pc (set_dptr st (j, 0%nat)) (S i)) [])
    | SFor v a b s =>
        pwith_int st i (eval d a) (fun va =>
        pwith_int st i (eval d b) (fun vb =>
        pwith_int st i (eval d s) (fun vs =>
          match scan_next (skipn (S i) code) (S i) 0 with
          | None => PRaise st flow_E_FOR_WITHOUT_NEXT i
          | Some (j, k) =>
              let nvs := vars_of_next code j in
              let name_ok := match nth_error nvs k with Some v' => Nat.eqb v' v | None => true end in
              if negb name_ok then PRaise st flow_E_NEXT_WITHOUT_FOR j
              else
                let st1 := set_var st v va in
                let st2 := set_fors st1 ({| f_var := v; f_stop := vb; f_step := vs; f_forpos := S i;
                                            f_nidx := j; f_nk := k |} :: fors st1) in
                let empty := if flow_for_dir (Z.sgn vs) then va >? vb else vb >? va in
                if empty then
                  (* jump to the NEXT and iterate once; when that ends the loop, go on with the rest of
                     its variable list *)
                  match next_vars st2 j k (None :: map Some (skipn (S k) nvs)) with
                  | IEnded st' => PGo (set_pc st' (S j)) []
                  | ILoop st' => PGo st' []
                  | IErr st' c => PRaise st' c j
                  end
                else PGo (set_pc st2 (S i)) []
          end)))
    | SNext vs =>
        match next_vars st i 0 (next_names vs) with
        | IEnded st' => PGo (set_pc st' (S i)) []
        | ILoop st' => PGo st' []
        | IErr st' c => PRaise st' c i
        end
    | SWhile c =>
        match scan_wend (skipn (S i) code) (S i) 0 with
        | None => PRaise st flow_E_WHILE_WITHOUT_WEND i
        | Some j => pcheck_while code (set_whiles st ((i, j) :: whiles st)) i
        end
    | SWend =>
        match pop_to_wend (whiles st) i with
        | None => PRaise (set_whiles st []) flow_E_WEND_WITHOUT_WHILE i
        | Some ((w, e) :: rest) => pcheck_while code (set_whiles st ((w, e) :: rest)) w
        | Some [] => PHalt Unmodelled
        end
    end
  end.

(* the parse loop: a statement, and trap_error for what it raises (current_statement = pc st) *)
Definition step (code : list stmt) (st : state) : sres :=
  match pstep code st with
  | PGo st' out => Go st' out
  | PHalt o => Halt o
  | PRaise st' c epos => trap code st' (pc st) c epos
  end.

(* ------------------------------------------------------------------ running *)

Fixpoint run (code : list stmt) (fuel : nat) (st : state) : list Z * outcome :=
  match fuel with
  | O => ([], OutOfFuel)
  | S f =>
      match step code st with
      | Halt o => ([], o)
      | Go st' out => let (t, o) := run code f st' in (out ++ t, o)
      end
  end.

(* n statement executions that all continue: the output and the state reached *)
Fixpoint steps (code : list stmt) (n : nat) (st : state) : option (list Z * state) :=
  match n with
  | O => Some ([], st)
  | S n' =>
      match step code st with
      | Halt _ => None
      | Go st' out =>
          match steps code n' st' with
          | Some (t, st'') => Some (out ++ t, st'')
          | None => None
          end
      end
  end.

(* position of the first statement of the direct line *)
Fixpoint endprog_from (l : list stmt) (base : nat) : nat :=
  match l with
  | [] => base
  | SEndProg :: _ => base
  | _ :: r => endprog_from r (S base)
  end.
Definition direct_start (code : list stmt) : nat := S (endprog_from code 0).

(* RUN starts at position 0 of the program; a direct line starts after the SEndProg marker *)
Definition run_program (code : list stmt) (fuel : nat) : list Z * outcome := run code fuel (init_at 0).
Definition run_direct (code : list stmt) (fuel : nat) : list Z * outcome :=
  run code fuel (init_at (direct_start code)).

(* fuel used by the correspondence harness (harness/flowlib.py FUEL) *)
Definition harness_fuel : nat := 1500%nat.

(* canonical encoding for the correspondence harness:
   finished [0] ++ trace; stopped [1; err; line] ++ trace; unmodelled [2; 99]; out of fuel [3] *)
Definition enc_run (r : list Z * outcome) : list Z :=
  match r with
  | (t, Finished) => 0 :: t
  | (t, Stopped c l) => 1 :: c :: l :: t
  | (_, Unmodelled) => [2; 99]
  | (_, OutOfFuel) => [3]
  end.

(* ------------------------------------------------------------------ sessions: several commands in a row *)

(* The interpreter object lives on between commands: variables, stacks, ON ERROR line and the error
   registers are what the last command left.  `after_halt` is the state a program stop leaves behind:
     - an error that is not trapped (trap_error, else branch): ERR, ERL set, error_handle_mode := False;
       error_resume and the stacks stay as they are;
     - END (implementation.end_): error_handle_mode := False, error_resume := None;
     - end of the program inside a handler (No RESUME) and ON ERROR GOTO 0 inside a handler end in trap_error's
       else branch as well (the latter after on_error := 0);
     - falling off the program or the direct line changes nothing. *)
Definition stopped_state (st : state) (c l : Z) : state :=
  let d := ds st in
  set_ds st {| env := env d; err := c; erl := l; onerr := onerr d; handling := false;
               resume_at := resume_at d; susp := susp d |}.

Definition after_halt (code : list stmt) (st : state) : state :=
  let d := ds st in
  match pstep code st with
  | PRaise st' c epos => stopped_state st' c (line_of code epos)
  | PGo _ _ => st
  | PHalt _ =>
      match nth_error code (pc st) with
      | Some SEnd =>
          set_ds st {| env := env d; err := err d; erl := erl d; onerr := onerr d; handling := false;
                       resume_at := None; susp := susp d |}
      | Some SEndProg =>
          match resume_at d with
          | Some _ => stopped_state st flow_E_NO_RESUME (line_of code (Nat.pred (pc st)))
          | None => st
          end
      | Some (SOnErrorGoto _) =>
          set_ds st {| env := env d; err := err d; erl := erl d; onerr := 0; handling := false;
                       resume_at := resume_at d; susp := false |}
      | _ => st
      end
  end.

(* run, also returning the state that is left behind *)
Fixpoint run_st (code : list stmt) (fuel : nat) (st : state) : list Z * outcome * state :=
  match fuel with
  | O => ([], OutOfFuel, st)
  | S f =>
      match step code st with
      | Halt o => ([], o, after_halt code st)
      | Go st' out => let '(t, o, s) := run_st code f st' in (out ++ t, o, s)
      end
  end.

(* a command typed at the prompt: RUN, or a direct line *)
Inductive command := CRun | CDirect (line : list stmt).

(* RUN: variables, stacks, error registers, ON ERROR line and the suspension of soft math errors are cleared
   (Interpreter.clear, as repaired by fixes/D23e): the state of a fresh session;
   a direct line: everything stays, execution starts at its first statement *)
Definition start_command (prog : list stmt) (st : state) (c : command) : list stmt * state :=
  match c with
  | CRun =>
      (prog ++ [SEndProg],
       {| pc := 0; fors := []; whiles := []; gosubs := []; dptr := (0%nat, 0%nat);
          ds := {| env := []; err := 0; erl := 0; onerr := 0; handling := false; resume_at := None;
                   susp := false |} |})
  | CDirect line => (prog ++ SEndProg :: line, set_pc st (S (length prog)))
  end.

Definition enc_run_sep (r : list Z * outcome) : list Z := enc_run r ++ [55555].

Fixpoint run_session (prog : list stmt) (cmds : list command) (fuel : nat) (st : state) : list Z :=
  match cmds with
  | [] => []
  | c :: rest =>
      let (code, st0) := start_command prog st c in
      let '(t, o, st') := run_st code fuel st0 in
      match o with
      | OutOfFuel => enc_run (t, o)
      | Unmodelled => enc_run (t, o)
      | _ => enc_run_sep (t, o) ++ run_session prog rest fuel st'
      end
  end.
