(* display/graphics.py Graphics: drawing primitives and statements (C30, C31).
   - geometric hand model of the primitives as pixel lists (line_pixels = Bresenham, straight, box), tied to
     the regenerated request generators of gen/Gen_raster.v by proofs/Raster_bridge.v
   - graphics state (pages, active page, viewport, text mode) and `exec` of a statement: the requests come
     from the REGENERATED generators and go through the viewport funnel into the active page.
   NO proofs here. *)
From Coq Require Import ZArith List Bool.
From PCB Require Import lib.Result lib.PyInt lib.GfxPrims gen.Gen_viewport gen.Gen_raster
  model.Matrix model.Viewport.
Import ListNotations.
Open Scope Z_scope.

(* ---------- geometry *)

(* Bresenham in the (major, minor) frame: n pixels from (x, y) with error term err *)
Fixpoint bres (n : nat) (sx sy dx dy : Z) (x y err : Z) : list (Z * Z) :=
  match n with
  | O => []
  | S n' =>
    (x, y) :: (let e := err - dy in
               if e <? 0 then bres n' sx sy dx dy (x + sx) (y + sy) (e + dx)
               else bres n' sx sy dx dy (x + sx) y e)
  end.

Definition swap_if (steep : bool) (p : Z * Z) : Z * Z := if steep then (snd p, fst p) else p.

(* the pixels (x, y) of _draw_line between two (already cut-off) points, in drawing order *)
Definition line_pixels (x0 y0 x1 y1 : Z) : list (Z * Z) :=
  let '(x0, y0, x1, y1) := if y1 <=? y0 then (x1, y1, x0, y0) else (x0, y0, x1, y1) in
  let dx := Z.abs (x1 - x0) in
  let dy := Z.abs (y1 - y0) in
  let steep := dy >? dx in
  let '(x0, y0, x1, y1, dx, dy) := if steep then (y0, x0, y1, x1, dy, dx) else (x0, y0, x1, y1, dx, dy) in
  let sx := if x1 >? x0 then 1 else -1 in
  let sy := if y1 >? y0 then 1 else -1 in
  map (swap_if steep) (bres (Z.to_nat (dx + 1)) sx sy dx dy x0 y0 (dx / 2)).

(* a, a +- 1, ..., b *)
Fixpoint zrange_from (n : nat) (a s : Z) : list Z :=
  match n with
  | O => []
  | S n' => a :: zrange_from n' (a + s) s
  end.
Definition zrange (a b : Z) : list Z :=
  zrange_from (Z.to_nat (Z.abs (b - a) + 1)) a (if b >? a then 1 else -1).

(* _draw_straight: vertical when x0 = x1, else horizontal at y0 *)
Definition straight_pixels (x0 y0 x1 y1 : Z) : list (Z * Z) :=
  if x0 =? x1 then map (fun p => (x0, p)) (zrange y0 y1)
  else map (fun p => (p, y0)) (zrange x0 x1).

(* _draw_box: two horizontals then two verticals (top to bottom); corners are visited twice *)
Definition box_pixels (x0 y0 x1 y1 : Z) : list (Z * Z) :=
  let h1 := straight_pixels x1 y1 x0 y1 in
  let h2 := straight_pixels x1 y0 x0 y0 in
  let '(y0, y1) := if y0 <? y1 then (y1, y0) else (y0, y1) in
  h1 ++ h2 ++ straight_pixels x1 y1 x1 y0 ++ straight_pixels x0 y1 x0 y0.

(* the 16-bit line style mask walks right and wraps *)
Definition next_mask (mask : Z) : Z :=
  let m := Z.shiftr mask 1 in if m =? 0 then 32768 else m.

Fixpoint masked {A} (pattern mask : Z) (l : list A) : list A * Z :=
  match l with
  | [] => ([], mask)
  | p :: r =>
    let '(k, m') := masked pattern (next_mask mask) r in
    (if negb (Z.land pattern mask =? 0) then p :: k else k, m')
  end.

Definition pix_req (a : Z) (p : Z * Z) : wreq := WReq (IInt (snd p)) (IInt (fst p)) (Fill a).

(* hand model of the request lists, in issue order *)
Definition line_reqs (vp : viewport) (x0 y0 x1 y1 a pattern : Z) : list wreq :=
  let '(x0, y0) := vp_cutoff_coord vp x0 y0 in
  let '(x1, y1) := vp_cutoff_coord vp x1 y1 in
  map (pix_req a) (fst (masked pattern 32768 (line_pixels x0 y0 x1 y1))).

Definition box_reqs (vp : viewport) (x0 y0 x1 y1 a pattern : Z) : list wreq :=
  let '(x0, y0) := vp_cutoff_coord vp x0 y0 in
  let '(x1, y1) := vp_cutoff_coord vp x1 y1 in
  map (pix_req a) (fst (masked pattern 32768 (box_pixels x0 y0 x1 y1))).

Definition boxfill_reqs (vp : viewport) (x0 y0 x1 y1 a : Z) : list wreq :=
  let '(x0, y0) := vp_cutoff_coord vp x0 y0 in
  let '(x1, y1) := vp_cutoff_coord vp x1 y1 in
  [WReq (ISlice (Some (Z.min y0 y1)) (Some (Z.max y0 y1 + 1)))
        (ISlice (Some (Z.min x0 x1)) (Some (Z.max x0 x1 + 1))) (Fill a)].

(* ---------- the regenerated generators applied to a viewport record, in issue order *)

Definition on_gv {T} (f : list wreq -> bool -> Z -> Z -> Z -> Z -> Z -> Z -> T) (vp : viewport) : T :=
  f [] (vp_abs vp) (vp_x0 vp) (vp_y0 vp) (vp_x1 vp) (vp_y1 vp) (vp_maxw vp) (vp_maxh vp).

Definition gen_pset (vp : viewport) (x y a : Z) : list wreq := rev (on_gv raster_pset_write vp x y a).
Definition gen_line (vp : viewport) (x0 y0 x1 y1 a pattern : Z) : res (list wreq) :=
  rmap (@rev wreq) (on_gv raster_u_draw_line vp x0 y0 x1 y1 a pattern).
Definition gen_box (vp : viewport) (x0 y0 x1 y1 a pattern : Z) : res (list wreq) :=
  rmap (@rev wreq) (on_gv raster_u_draw_box vp x0 y0 x1 y1 a pattern).
Definition gen_boxfill (vp : viewport) (x0 y0 x1 y1 a : Z) : list wreq :=
  rev (on_gv raster_u_draw_box_filled vp x0 y0 x1 y1 a).

(* ---------- statements *)

Inductive stmt : Type :=
| SPset (x y a : Z)                                   (* PSET / PRESET with physical coordinates *)
| SLine (x0 y0 x1 y1 a pattern : Z)                   (* LINE *)
| SBox (x0 y0 x1 y1 a pattern : Z)                    (* LINE ,B *)
| SBoxF (x0 y0 x1 y1 a : Z)                           (* LINE ,BF *)
| SView (x0 y0 x1 y1 : Z) (absolute : bool) (fill border : option (Z * Z))
                                                      (* VIEW [SCREEN]; fill / border: None = omitted, else (attribute as
                                                         written, attribute drawn = _get_attr_index of it) *)
| SPut (x y : Z) (sprite : matrix) (op : Z)           (* PUT: op 0 PSET, 1 PRESET, 2 AND, 3 OR, 4 XOR *)
| SPixels (guard : Z) (pts : list (Z * Z * Z)) (err : Z)
                                                      (* CIRCLE / ellipse (guard 0) and DRAW (guard 2): the single-pixel
                                                         requests (y, x, attr) they issue in order - octant plotting,
                                                         pie-slice lines and DRAW segments all end in graph_view[y, x] =
                                                         attr (regenerated site table + writer-call check); err = the
                                                         BASIC error that ended the statement (0 = none) *)
| SReqs (guard : Z) (rqs : list wreq) (err : Z).      (* CIRCLE / PAINT / DRAW (guard 0 / 1 / 2) as the requests they
                                                         issued, and the error that ended them (0 = none) *)

Record gstate : Type := GS {
  g_text : bool;            (* mode.is_text_mode *)
  g_bpp : Z;                (* mode.bitsperpixel *)
  g_pages : list matrix;    (* pixel matrices of all pages *)
  g_apage : nat;            (* active page number *)
  g_vp : viewport
}.

Fixpoint set_page (pages : list matrix) (n : nat) (m : matrix) : list matrix :=
  match pages, n with
  | [], _ => []
  | _ :: r, O => m :: r
  | p :: r, S n' => p :: set_page r n' m
  end.

(* elementwise combination of two matrices (zip) *)
Definition mat_zip (f : Z -> Z -> Z) (a b : matrix) : matrix :=
  map (fun '(ra, rb) => map (fun '(x, y) => f x y) (combine ra rb)) (combine a b).

Definition sprite_width (s : matrix) : Z := match s with [] => 0 | r :: _ => zlen r end.

(* GraphicsViewPort.__getitem__ for a slice pair *)
Definition vp_getslice (vp : viewport) (m : matrix) (y0 y1 x0 x1 : Z) : matrix :=
  match vp_convert_slice vp (ISlice (Some y0) (Some y1), ISlice (Some x0) (Some x1)) with
  | (ISlice ylo yhi, ISlice xlo xhi) => mat_getslice m ylo yhi xlo xhi
  | _ => []
  end.

(* put_: bounds tests, the block to write *)
Definition put_reqs (vp : viewport) (bpp : Z) (page : matrix) (x0 y0 : Z) (sprite : matrix) (op : Z)
  : res (list wreq) :=
  let x1 := x0 + sprite_width sprite - 1 in
  let y1 := y0 + zlen sprite - 1 in
  if negb (vp_contains vp x0 y0) then Err 5
  else if negb (vp_contains vp x1 y1) then Err 5
  else
    let cur := vp_getslice vp page y0 (y1 + 1) x0 (x1 + 1) in
    let rect :=
      if op =? 0 then sprite
      else if op =? 1 then map (map (fun v => Z.lxor v (2 ^ bpp - 1))) sprite
      else if op =? 2 then mat_zip Z.land cur sprite
      else if op =? 3 then mat_zip Z.lor cur sprite
      else mat_zip Z.lxor cur sprite in
    Ok [WReq (ISlice (Some y0) (Some (y1 + 1))) (ISlice (Some x0) (Some (x1 + 1))) (Block rect)].

(* a sprite as a ByteMatrix: every row has the width of the first (ByteMatrix asserts this on construction) *)
Definition rectify (s : matrix) : matrix :=
  let w := Z.to_nat (sprite_width s) in map (fun r => firstn w (r ++ repeat 0 w)) s.

Definition the_page (st : gstate) : matrix := nth (g_apage st) (g_pages st) [].

(* the text-mode guard of the statement (regenerated: it is the first statement of each method) *)
Definition stmt_guard (s : stmt) (is_text : bool) : res unit :=
  match s with
  | SPset _ _ _ => raster_guard_u_pset_preset is_text
  | SLine _ _ _ _ _ _ | SBox _ _ _ _ _ _ | SBoxF _ _ _ _ _ => raster_guard_line is_text
  | SView _ _ _ _ _ _ _ => raster_guard_view is_text
  | SPut _ _ _ _ => raster_guard_put is_text
  | SPixels g _ _ | SReqs g _ _ => if g =? 0 then raster_guard_circle is_text
                 else if g =? 1 then raster_guard_paint is_text
                 else raster_guard_draw is_text
  end.

(* the requests of a statement and the viewport in force while / after they are applied *)
Definition stmt_reqs (st : gstate) (s : stmt) : res (viewport * list wreq * viewport) :=
  let vp := g_vp st in
  match s with
  | SPset x y a => Ok (vp, gen_pset vp x y a, vp)
  | SLine x0 y0 x1 y1 a p => bind (gen_line vp x0 y0 x1 y1 a p) (fun r => Ok (vp, r, vp))
  | SBox x0 y0 x1 y1 a p => bind (gen_box vp x0 y0 x1 y1 a p) (fun r => Ok (vp, r, vp))
  | SBoxF x0 y0 x1 y1 a => Ok (vp, gen_boxfill vp x0 y0 x1 y1 a, vp)
  | SView x0 y0 x1 y1 ab fill border =>
    (* view_: range checks of the corners (regenerated; mode.pixel_width/height = size of the page matrix), then
       _set_view: unset, draw fill and border on the whole screen, then set *)
    bind (raster_view_checks (vp_maxw vp) (vp_maxh vp) x0 y0 x1 y1) (fun _ =>
    (* the attribute range checks are also done in view_, before anything is touched *)
    bind (raster_view_attr_checks (option_map fst fill) (option_map fst border)) (fun _ =>
    let u := vp_unset vp in
    let rf := match fill with Some (_, f) => gen_boxfill u x0 y0 x1 y1 f | None => [] end in
    bind (match border with
          | Some (_, b) => gen_box u (x0 - 1) (y0 - 1) (x1 + 1) (y1 + 1) b 65535
          | None => Ok []
          end) (fun rb => Ok (u, rf ++ rb, vp_set vp x0 y0 x1 y1 ab))))
  | SPut x y sprite op =>
    bind (put_reqs vp (g_bpp st) (the_page st) x y (rectify sprite) op) (fun r => Ok (vp, r, vp))
  | SPixels _ pts _ => Ok (vp, map (fun '(y, x, a) => WReq (IInt y) (IInt x) (Fill a)) pts, vp)
  | SReqs _ rqs _ => Ok (vp, rqs, vp)
  end.

(* the error that ended a replayed statement after its requests (0 = none) *)
Definition stmt_err (s : stmt) : Z :=
  match s with
  | SPixels _ _ e | SReqs _ _ e => e
  | _ => 0
  end.

(* execute one statement: result and new state (unchanged on error) *)
Definition exec (st : gstate) (s : stmt) : res unit * gstate :=
  match stmt_guard s (g_text st) with
  | Ok _ =>
    match stmt_reqs st s with
    | Ok (vpd, rqs, vpa) =>
      match vp_run vpd (the_page st) rqs with
      | Ok m' => ((if stmt_err s =? 0 then Ok tt else Err (stmt_err s)),
                  GS (g_text st) (g_bpp st) (set_page (g_pages st) (g_apage st) m') (g_apage st) vpa)
      | Err e => (Err e, st) | Host x => (Host x, st) | OutOfFuel => (OutOfFuel, st)
      end
    | Err e => (Err e, st) | Host x => (Host x, st) | OutOfFuel => (OutOfFuel, st)
    end
  | Err e => (Err e, st) | Host x => (Host x, st) | OutOfFuel => (OutOfFuel, st)
  end.

(* ---------- encoding for the correspondence harness *)
Definition enc_req (r : wreq) : list Z :=
  enc_idx (rq_y r) ++ enc_idx (rq_x r) ++
  match rq_data r with
  | Fill a => [0; a]
  | Block rows => 1 :: zlen rows :: sprite_width rows :: concat rows
  end.

Definition enc_reqs (l : list wreq) : list Z := zlen l :: concat (map enc_req l).

(* changed cells of a page in one tail-recursive pass (no intermediate list: pages have 64000+ cells; per cell
   only additions).  Per row: count, first and last changed x, sum of x, sum of new values.  Summary: count,
   bounding box, c1 = sum over cells of (y*1009 + x*31 + v + 1), c2 = sum over rows of (y+1)*(sx + 7*sv + 3*cnt) *)
Definition rsum : Type := (Z * Z * Z * Z * Z)%type.      (* cnt, firstx, lastx, sx, sv *)
Definition dsum : Type := (Z * Z * Z * Z * Z * Z * Z)%type.

Fixpoint rsum_row (x : Z) (r r' : list Z) (acc : rsum) : rsum :=
  match r, r' with
  | a :: t, b :: t' =>
    rsum_row (x + 1) t t'
      (if a =? b then acc
       else let '(n, fx, lx, sx, sv) := acc in
            (n + 1, (if n =? 0 then x else fx), x, sx + x, sv + b))
  | _, _ => acc
  end.

Definition dsum_add_row (acc : dsum) (y : Z) (rs : rsum) : dsum :=
  let '(rn, fx, lx, sx, sv) := rs in
  if rn =? 0 then acc
  else
    let '(n, y0, y1, x0, x1, c1, c2) := acc in
    let c1' := c1 + rn * (y * 1009 + 1) + 31 * sx + sv in
    let c2' := c2 + (y + 1) * (sx + 7 * sv + 3 * rn) in
    if n =? 0 then (rn, y, y, fx, lx, c1', c2')
    else (n + rn, y0, y, Z.min x0 fx, Z.max x1 lx, c1', c2').

Fixpoint dsum_rows (y : Z) (m m' : matrix) (acc : dsum) : dsum :=
  match m, m' with
  | r :: t, r' :: t' => dsum_rows (y + 1) t t' (dsum_add_row acc y (rsum_row 0 r r' (0, 0, 0, 0, 0)))
  | _, _ => acc
  end.

Definition diff_summary (m m' : matrix) : list Z :=
  let '(n, y0, y1, x0, x1, c1, c2) := dsum_rows 0 m m' (0, 0, 0, 0, 0, 0, 0) in
  if n =? 0 then [0] else [n; y0; y1; x0; x1; c1; c2].

Definition enc_vp (vp : viewport) : list Z :=
  [b2z (vp_abs vp); vp_x0 vp; vp_y0 vp; vp_x1 vp; vp_y1 vp].

(* run a statement on a state whose pages are all blank with value bg; report result code, per-page diffs and
   the viewport afterwards *)
Definition run_case (text : bool) (bpp w h npages : Z) (apage : Z) (bg : Z) (vp : viewport) (s : stmt) : list Z :=
  let pages := repeat (blank h w bg) (Z.to_nat npages) in
  let st := GS text bpp pages (Z.to_nat apage) vp in
  let '(r, st') := exec st s in
  match r with
  | Ok _ => 0 :: concat (map (fun '(p, p') => diff_summary p p') (combine pages (g_pages st')))
              ++ enc_vp (g_vp st')
  | Err e => [1; e] ++ concat (map (fun '(p, p') => diff_summary p p') (combine pages (g_pages st')))
               ++ enc_vp (g_vp st')
  | Host x => [2; x]
  | OutOfFuel => [3]
  end.

(* ---------- histories with page selection (SCREEN ,,apage,vpage without a mode change) *)
Inductive hstep : Type :=
| HStmt (s : stmt)          (* a graphics statement *)
| HSelect (a : nat).        (* select active page a: Graphics.set_page - the viewport (rectangle, origin, VIEW SCREEN
                               flag) is ONE object that is re-pointed to the page's pixels, not a per-page setting *)

Definition hexec (st : gstate) (h : hstep) : gstate :=
  match h with
  | HStmt s => snd (exec st s)
  | HSelect a => if (a <? length (g_pages st))%nat
                 then GS (g_text st) (g_bpp st) (g_pages st) a (g_vp st)
                 else st      (* Illegal function call: nothing changes *)
  end.

Fixpoint hrun (st : gstate) (l : list hstep) : gstate :=
  match l with
  | [] => st
  | h :: r => hrun (hexec st h) r
  end.
