(* C11: model of the variable area of the data segment: memory/scalars.py (class Scalars), the array
   table of model/Arrays.v, and the parts of memory/memory.py (DataSegment) that create variables,
   compute VARPTR / VARPTR$ and answer PEEK over the variable area.  Arrays.get_memory is modelled AS
   FIXED by fixes/D6.patch.  String values are their 3-byte descriptors (opaque; the string space is C10).
   `limit` is strings.current (after a possible collection), an input of every operation.  NO proofs. *)
From Coq Require Import ZArith List Bool.
From PCB Require Import lib.Result lib.PyInt lib.Harness lib.ArraysLib gen.Gen_arrays model.Arrays.
Import ListNotations.
Open Scope Z_scope.

(* one scalar: _vars[name], _var_memory[name] = (name_ptr, var_ptr), absolute offsets in the segment *)
Record svar : Type := mkS {
  s_name : list Z;
  s_buf : list Z;
  s_nptr : Z;
  s_vptr : Z
}.

Record vstate : Type := mkV {
  v_start : Z;            (* var_start() = code_start + program size: constant while no program edit *)
  v_svars : list svar;    (* insertion ordered *)
  v_scur : Z;             (* scalars.current *)
  v_arr : astate
}.

Definition v_init (start : Z) : vstate := mkV start [] 0 a_init.

Definition var_current (st : vstate) : Z := v_start st + v_scur st.

(* strings.current - var_current(): what Arrays.allocate sees as `free` *)
Definition afree (st : vstate) (limit : Z) : Z := limit - var_current st.

Definition with_arr (st : vstate) (a : astate) : vstate := mkV (v_start st) (v_svars st) (v_scur st) a.

Fixpoint slookup (l : list svar) (n : list Z) : option svar :=
  match l with
  | [] => None
  | s :: r => if list_Z_eqb (s_name s) n then Some s else slookup r n
  end.

Fixpoint supdate (l : list svar) (n : list Z) (buf : list Z) : list svar :=
  match l with
  | [] => []
  | s :: r => if list_Z_eqb (s_name s) n then mkS (s_name s) buf (s_nptr s) (s_vptr s) :: r
              else s :: supdate r n buf
  end.

(* Scalars.set(name, value): value None = only make sure the variable exists *)
Definition scalar_set (st : vstate) (limit : Z) (n : list Z) (v : option (list Z)) : vstate * res unit :=
  match slookup (v_svars st) n with
  | None =>
      let size := scalars_memory_size n in
      if limit - var_current st - a_cur (v_arr st) <=? size then (st, Err err_OUT_OF_MEMORY)
      else
        let '(cur', (nptr, vptr)) := scalars_set_alloc (v_scur st) (var_current st) n size in
        let buf := match v with Some b => b | None => zeros (size_bytes n) end in
        (mkV (v_start st) (v_svars st ++ [mkS n buf nptr vptr]) cur' (v_arr st), Ok tt)
  | Some _ =>
      match v with
      | None => (st, Ok tt)
      | Some b => (mkV (v_start st) (supdate (v_svars st) n b) (v_scur st) (v_arr st), Ok tt)
      end
  end.

(* lift an operation of the array table *)
Definition lift {T} (st : vstate) (x : astate * res T) : vstate * res T := (with_arr st (fst x), snd x).

(* LET: _preallocate, then set_variable *)
Definition let_scalar (st : vstate) (limit : Z) (n v : list Z) : vstate * res unit :=
  bindS (scalar_set st limit n None) (fun st1 _ => scalar_set st1 limit n (Some v)).

Definition let_elem (st : vstate) (limit : Z) (n idx v : list Z) : vstate * res unit :=
  bindS (lift st (check_dim (v_arr st) (afree st limit) n idx)) (fun st1 _ =>
    lift st1 (elem_set (v_arr st1) (afree st1 limit) n idx v)).

(* --- SWAP: _view_buffer gives a place, the two places exchange their bytes --- *)
Inductive place : Type :=
| PScalar (n : list Z)
| PElem (n : list Z) (lo hi : Z).

Definition view_place (st : vstate) (limit : Z) (n idx : list Z) (empty_err : bool) : vstate * res place :=
  match idx with
  | [] =>
      match slookup (v_svars st) n with
      | Some _ => (st, Ok (PScalar n))
      | None =>
          bindS (scalar_set st limit n None) (fun st1 _ =>
            if empty_err then (st1, Err err_IFC) else (st1, Ok (PScalar n)))
      end
  | _ :: _ =>
      bindS (lift st (check_dim (v_arr st) (afree st limit) n idx)) (fun st1 dims =>
        (st1, bind (elem_range (v_arr st1) n idx dims) (fun '(lo, hi) => Ok (PElem n lo hi))))
  end.

Definition read_place (st : vstate) (p : place) : res (list Z) :=
  match p with
  | PScalar n => match slookup (v_svars st) n with Some s => Ok (s_buf s) | None => Host host_KeyError end
  | PElem n lo hi => match lookup (a_list (v_arr st)) n with
                     | Some a => Ok (slice (a_buf a) lo hi)
                     | None => Host host_KeyError
                     end
  end.

Definition write_place (st : vstate) (p : place) (b : list Z) : vstate :=
  match p with
  | PScalar n => mkV (v_start st) (supdate (v_svars st) n b) (v_scur st) (v_arr st)
  | PElem n lo hi =>
      match lookup (a_list (v_arr st)) n with
      | Some a => with_arr st (mkA (update_buf (a_list (v_arr st)) n (set_slice (a_buf a) lo b))
                                   (a_base (v_arr st)) (a_bydim (v_arr st)) (a_cur (v_arr st)))
      | None => st
      end
  end.

Definition swap_ (st : vstate) (limit : Z) (n1 i1 n2 i2 : list Z) : vstate * res unit :=
  if negb (py_last n1 =? py_last n2) then (st, Err err_TYPE_MISMATCH)
  else
    bindS (view_place st limit n1 i1 false) (fun st1 left =>
    bindS (view_place st1 limit n2 i2 true) (fun st2 right =>
    bindS (st2, read_place st2 right) (fun st2 rb =>
    bindS (st2, read_place st2 left) (fun st2 lb =>
      (write_place (write_place st2 left rb) right lb, Ok tt))))).

(* --- VARPTR and VARPTR$ --- *)
Definition varptr (st : vstate) (n idx : list Z) : res Z :=
  match idx with
  | [] => match slookup (v_svars st) n with
          | Some s => Ok (s_vptr s)
          | None => Err err_IFC            (* KeyError -> Illegal function call *)
          end
  | _ :: _ =>
      match lookup (a_list (v_arr st)) n with
      | Some a => with_base (v_arr st) (fun b =>
                    arrays_varptr_addr b (var_current st) (a_aptr a) n idx (a_dims a))
      | None => Err err_IFC
      end
  end.

Definition varptr_ (st : vstate) (limit : Z) (n idx : list Z) : vstate * res Z :=
  match idx with
  | [] => (st, varptr st n idx)
  | _ :: _ =>
      bindS (lift st (check_dim (v_arr st) (afree st limit) n idx)) (fun st1 _ => (st1, varptr st1 n idx))
  end.

(* struct.pack('<BH', size, var_ptr) *)
Definition varptr_str_ (st : vstate) (limit : Z) (n idx : list Z) : vstate * res (list Z) :=
  bindS (varptr_ st limit n idx) (fun st1 p => (st1, Ok (size_bytes n :: le_encode 2 p))).

(* --- PEEK over the variable area --- *)

(* the entry with the largest name_ptr <= address (scan in dict order, strict improvement) *)
Fixpoint sfind (l : list svar) (address : Z) (best : option svar) : option svar :=
  match l with
  | [] => best
  | s :: r =>
      let cur := match best with Some b => s_nptr b | None => -1 end in
      if (s_nptr s <=? address) && (s_nptr s >? cur) then sfind r address (Some s) else sfind r address best
  end.

Definition scalars_get_memory (st : vstate) (address : Z) : Z :=
  match sfind (v_svars st) address None with
  | None => -1
  | Some s =>
      if address >=? s_vptr s then
        let offset := address - s_vptr s in
        if offset >=? size_bytes (s_name s) then -1 else nth (Z.to_nat offset) (s_buf s) (-1)
      else get_name_in_memory (s_name s) (address - s_nptr s)
  end.

(* Arrays.get_memory as fixed by D6: compares var_current + name_ptr with the address, no break *)
Fixpoint afind (l : list arr) (vc address : Z) (best : option arr) : option arr :=
  match l with
  | [] => best
  | a :: r =>
      let cur := match best with Some b => a_nptr b | None => -1 end in
      if (vc + a_nptr a <=? address) && (a_nptr a >? cur) then afind r vc address (Some a)
      else afind r vc address best
  end.

(* the record after the name: struct '<HB' (bytes to the end of the array, rank) then '<H' per dimension *)
Definition array_header (b bufsize : Z) (a : arr) : list Z :=
  le_encode 2 (bufsize + 1 + 2 * zlen (a_dims a)) ++ [zlen (a_dims a)] ++
  flat_map (fun d => le_encode 2 (d + 1 - b)) (a_dims a).

Definition arrays_get_memory (st : vstate) (address : Z) : res Z :=
  let vc := var_current st in
  match afind (a_list (v_arr st)) vc address None with
  | None => Ok (-1)
  | Some a =>
      with_base (v_arr st) (fun b =>
      bind (arrays_buffer_size b (a_name a) (a_dims a)) (fun bufsize =>
      if address >=? vc + a_aptr a then
        let offset := address - a_aptr a - vc in
        if offset >=? bufsize then Ok (-1)
        else match nth_error (a_buf a) (Z.to_nat offset) with
             | Some x => Ok x
             | None => Host host_TypeError          (* ord(b'') *)
             end
      else
        let offset := address - a_nptr a - vc in
        let nl := Z.max 3 (zlen (a_name a)) + 1 in
        if offset <? nl then Ok (get_name_in_memory (a_name a) offset)
        else match nth_error (array_header b bufsize a) (Z.to_nat (offset - nl)) with
             | Some x => Ok x
             | None => Host host_TypeError
             end))
  end.

(* DataSegment.get_memory for var_start <= addr <= strings.current, as PEEK returns it (max(0, .));
   other addresses belong to other properties: None *)
Definition peek (st : vstate) (limit : Z) (addr : Z) : option (res Z) :=
  if addr <? v_start st then None
  else if addr <? var_current st then Some (Ok (Z.max 0 (scalars_get_memory st addr)))
  else if addr <? var_current st + a_cur (v_arr st) then
    Some (bind (arrays_get_memory st addr) (fun x => Ok (Z.max 0 x)))
  else if addr >? limit then None
  else Some (Ok 0).

Definition enc_peek (p : option (res Z)) : list Z :=
  match p with None => [9] | Some r => enc_resZ r end.

(* one number per address in dumps: the byte, or a negative code *)
Definition peek_code (p : option (res Z)) : Z :=
  match p with
  | None => -9
  | Some (Ok x) => x
  | Some (Err e) => -100 - e
  | Some (Host h) => -200 - h
  | Some OutOfFuel => -300
  end.

Fixpoint zrange_from (lo : Z) (n : nat) : list Z :=
  match n with O => [] | S n' => lo :: zrange_from (lo + 1) n' end.

(* PEEK of every address of the variable area *)
Definition dump (st : vstate) (limit : Z) : list Z :=
  map (fun a => peek_code (peek st limit a))
           (zrange_from (v_start st) (Z.to_nat (v_scur st + a_cur (v_arr st)))).

(* ------------------------------------------------------------------------------------------------
   histories *)
Inductive vop : Type :=
| VLetS (limit : Z) (n v : list Z)
| VLetE (limit : Z) (n idx v : list Z)
| VDim (limit : Z) (args : list (list Z * list Z))
| VErase (names : list (list Z))
| VBase (b : Z)
| VClear
| VSwap (limit : Z) (n1 i1 n2 i2 : list Z)
| VVarptr (limit : Z) (n idx : list Z)
| VVarptrS (limit : Z) (n idx : list Z)
| VPeek (limit : Z) (addr : Z)
| VDump (limit : Z).

Definition vstep (st : vstate) (o : vop) : vstate * list Z :=
  match o with
  | VLetS limit n v => let '(s, r) := let_scalar st limit n v in (s, enc_unit r)
  | VLetE limit n idx v => let '(s, r) := let_elem st limit n idx v in (s, enc_unit r)
  | VDim limit args => let '(s, r) := lift st (dim_ (v_arr st) (afree st limit) args) in (s, enc_unit r)
  | VErase names => let '(s, r) := lift st (erase_ (v_arr st) names) in (s, enc_unit r)
  | VBase b => let '(s, r) := lift st (option_base_ (v_arr st) b) in (s, enc_unit r)
  | VClear => (v_init (v_start st), enc_unit (Ok tt))
  | VSwap limit n1 i1 n2 i2 => let '(s, r) := swap_ st limit n1 i1 n2 i2 in (s, enc_unit r)
  | VVarptr limit n idx => let '(s, r) := varptr_ st limit n idx in (s, enc_resZ r)
  | VVarptrS limit n idx => let '(s, r) := varptr_str_ st limit n idx in (s, enc_res r)
  | VPeek limit addr => (st, enc_peek (peek st limit addr))
  | VDump limit => (st, [var_current st; a_cur (v_arr st)] ++ dump st limit)
  end.

Fixpoint vrun (st : vstate) (ops : list vop) : list Z :=
  match ops with
  | [] => []
  | o :: r => let '(s, out) := vstep st o in (zlen out :: out) ++ vrun s r
  end.

Fixpoint vfinal (st : vstate) (ops : list vop) : vstate :=
  match ops with
  | [] => st
  | o :: r => vfinal (fst (vstep st o)) r
  end.
