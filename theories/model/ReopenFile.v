(* C40: state.unpickle_file(name, mode, pos) for a named file that still exists: contents of the file on disk and
   stream position right after re-opening.  Modes as Python's f.mode: has_w = 'w' in mode, has_a = 'a' in mode
   ('wb' OUTPUT, 'ab' APPEND, 'rb' INPUT, 'r+b' RANDOM).  pos = f.tell() when pickled, -1 if unknown.
   Hand model, tied by correspondence with the real function on real files (harness/C40.py, kind 'reopen'). *)
From Coq Require Import ZArith List Bool.
From PCB Require Import lib.PyInt.
Import ListNotations.
Open Scope Z_scope.

Definition zeros (n : nat) : list Z := repeat 0 n.

(* f.truncate(pos): cut, or extend with NUL bytes *)
Definition truncate_to (pos : nat) (disk : list Z) : list Z :=
  firstn pos disk ++ zeros (pos - length disk).

Definition reopen (has_w has_a : bool) (pos : Z) (disk : list Z) : list Z * Z :=
  if has_w && (pos >? 0) then
    (* keep the first pos bytes: read them, re-create the file, write them back *)
    let buf := firstn (Z.to_nat pos) disk in (buf, zlen buf)
  else if has_a && (pos >=? 0) then
    (* discard anything appended after pickling; append streams sit at the end *)
    let c := truncate_to (Z.to_nat pos) disk in (c, zlen c)
  else if has_w then ([], 0)                        (* open(name, 'w..') truncates *)
  else if has_a then (disk, zlen disk)
  else (disk, if pos >? 0 then pos else 0).         (* seek(pos) if pos > 0 *)

(* harness interface: [tell] ++ contents *)
Definition reopen_out (has_w has_a pos : Z) (disk : list Z) : list Z :=
  let r := reopen (z2b has_w) (z2b has_a) pos disk in snd r :: fst r.
