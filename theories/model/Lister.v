(* C17: model of converter/lister.py (Lister.detokenise_line) on byte lists.  No proofs here.
   Parameters of the section:
     tkw     : the token -> keyword dictionary (TokenKeywordDict(syntax).to_keyword, regenerated)
     fl_str  : 4- or 8-byte float trail -> listed text (values.from_bytes(trail).to_str(False, True));
               C07's business; a recorded table in the correspondence, a section variable in the theorems.
   The output buffer is kept REVERSED (rout): output[-1:] is the head of rout. *)
From Coq Require Import ZArith List Bool.
From PCB Require Import lib.Result lib.PyInt lib.Harness gen.Gen_tokens model.Tok.
Import ListNotations.
Open Scope Z_scope.

(* b'%d' / b'%X' / b'%o' for values below radix^fuel *)
Definition digit_char (d : Z) : Z := if d <? 10 then 48 + d else 55 + d.
Fixpoint radix_digits (base : Z) (fuel : nat) (n : Z) (acc : list Z) : list Z :=
  match fuel with
  | O => acc
  | S f => let acc' := digit_char (n mod base) :: acc in
           if n / base =? 0 then acc' else radix_digits base f (n / base) acc'
  end.
Definition dec_str (n : Z) : list Z :=
  if n <? 0 then 45 :: radix_digits 10 6 (- n) [] else radix_digits 10 6 n [].
Definition hex_str (n : Z) : list Z := radix_digits 16 5 n [].
Definition oct_str (n : Z) : list Z := radix_digits 8 7 n [].

Definition u16 (trail : list Z) : Z :=
  match trail with [a; b] => a + 256 * b | _ => 0 end.
Definition s16 (trail : list Z) : Z := let u := u16 trail in if u <? 32768 then u else u - 65536.

Definition plus_bytes (s : Z) : nat :=
  (fix go (d : list (list Z * Z)) : nat :=
     match d with
     | [] => O
     | (k, v) :: d' => if list_Z_eqb [s] k then Z.to_nat v else go d'
     end) tk_PLUS_BYTES.

Definition pad_trail (n : nat) (raw : list Z) : list Z := raw ++ repeat 0 (n - length raw).

Section Lister.
Variable tkw : list (list Z * list Z).
Variable fl_str : list Z -> res (list Z).

(* values.from_bytes(trail).to_str(leading_space=False, type_sign=True) by len(trail) *)
Definition value_str (trail : list Z) : res (list Z) :=
  match length trail with
  | 2%nat => Ok (dec_str (s16 trail))
  | 3%nat => Host host_TypeError
  | 4%nat => fl_str trail
  | 8%nat => fl_str trail
  | _ => Host host_KeyError
  end.

(* Lister._detokenise_number *)
Definition detok_number (s : Z) (trail : list Z) : res (list Z) :=
  if list_Z_eqb [s] tk_T_OCT then
    match length trail with
    | 2%nat => Ok ([38; 79] ++ oct_str (u16 trail))
    | _ => Host host_KeyError
    end
  else if list_Z_eqb [s] tk_T_HEX then
    match length trail with
    | 2%nat => Ok ([38; 72] ++ hex_str (u16 trail))
    | _ => Host host_KeyError
    end
  else if list_Z_eqb [s] tk_T_BYTE then
    match trail with
    | [b] => Ok (dec_str b)
    | _ => Host host_TypeError
    end
  else if (hd 0 tk_C_0 <=? s) && (s <=? hd 0 tk_C_10) then Ok (dec_str (s - hd 0 tk_C_0))
  else if lmem [s] tk_LINE_NUMBER then
    match length trail with
    | 2%nat => Ok (dec_str (u16 trail))
    | _ => Host host_StructError
    end
  else value_str trail.

(* the two spacing rules of Lister._detokenise_keyword_into *)
Definition needs_space_before (token rout : list Z) : bool :=
  negb (lmem token lst_no_space_before)
  && (match rout with c :: _ => mem c tk_ALPHANUMERIC | [] => false end)
  && negb (list_Z_eqb (firstn 2 rout) (rev tk_KW_FN))
  && negb (list_Z_eqb (firstn 3 rout) (rev tk_KW_USR)).
Definition needs_space_after (token next_char : list Z) : bool :=
  negb (lmem token lst_no_space_after_token) && negb (lmem next_char lst_no_space_after_next).

(* Lister._detokenise_keyword_into (with fix D17a: the + of WHILE+ is swallowed when the WHILE token is
   listed, not whenever the output text happens to end in "WHILE"): s lead byte, r the stream after it,
   rout the reversed output.  Result: (new reversed output, comment flag, further bytes consumed) *)
Definition lookup_token (s : Z) (r : list Z) : option (list Z * list Z * nat) :=
  match assoc [s] tkw with
  | Some k => Some ([s], k, O)
  | None =>
      match r with
      | n :: _ => match assoc [s; n] tkw with Some k => Some ([s; n], k, 1%nat) | None => None end
      | [] => None
      end
  end.

(* what listing the keyword `keyword` of token `token` does: r1 is the stream after the token *)
Definition keyword_effect (token keyword r1 rout : list Z) : list Z * bool * nat :=
  let rout1 := if needs_space_before token rout then 32 :: rout else rout in
  let next_char := firstn 1 r1 in
  let '(rout2, extra) :=
    if list_Z_eqb token tk_REM && list_Z_eqb next_char tk_O_REM
       && (match rout1 with c :: _ => c =? 58 | [] => false end)
    then (rev tk_KW_O_REM ++ tl rout1, 1%nat)
    else if list_Z_eqb token tk_WHILE && list_Z_eqb next_char tk_O_PLUS
    then (rev keyword ++ rout1, 1%nat)
    else if list_Z_eqb token tk_ELSE then
      match rout1 with
      | [] => (rev (tl keyword), O)
      | _ :: t => (rev keyword ++ t, O)
      end
    else (rev keyword ++ rout1, O) in
  let rout3 := if needs_space_after token next_char then 32 :: rout2 else rout2 in
  (rout3, lmem token tk_COMMENT, extra).

Definition detok_keyword (s : Z) (r : list Z) (rout : list Z) : list Z * bool * nat :=
  match lookup_token s r with
  | None => (s :: rout, false, O)
  | Some (token, keyword, used) =>
      let '(rout3, com, extra) := keyword_effect token keyword (skipn used r) rout in
      (rout3, com, (used + extra)%nat)
  end.

(* Lister.detokenise_compound_statement; result: reversed output *)
Fixpoint detok_loop (lit com : bool) (rout : list Z) (skip : nat) (l : list Z) {struct l} : res (list Z) :=
  match skip, l with
  | S k, _ :: r => detok_loop lit com rout k r
  | S k, [] => Ok rout
  | O, [] => Ok rout
  | O, s :: r =>
      if s =? 0 then Ok rout
      else if s =? 34 then detok_loop (negb lit) com (s :: rout) O r
      else if lmem [s] tk_NUMBER || lmem [s] tk_LINE_NUMBER then
        (* trail = ins.read(ntrail), padded with NUL bytes when the stream ends inside the token *)
        let raw := firstn (plus_bytes s) r in
        bind (detok_number s (pad_trail (plus_bytes s) raw))
             (fun t => detok_loop lit com (rev t ++ rout) (length raw) r)
      else if com || lit || ((32 <=? s) && (s <=? 126)) then detok_loop lit com (s :: rout) O r
      else if s =? 10 then detok_loop lit com (13 :: 10 :: rout) O r
      else if s <=? 9 then detok_loop lit com (s :: rout) O r
      else
        let '(rout', com', k) := detok_keyword s r rout in
        detok_loop lit com' rout' k r
  end.

(* Lister.detokenise_line: l is the stream after the NUL that starts the line.
   Result: (line number or -1, listed text) *)
Definition detokenise_line (l : list Z) : res (Z * list Z) :=
  match l with
  | a :: b :: lo :: hi :: r =>
      if (a =? 0) && (b =? 0) then Ok (-1, [])
      else
        let n := lo + 256 * hi in
        let r' := match r with s :: t => if (s =? 32) && (n =? 0) then t else r | [] => r end in
        let linum := dec_str n ++ (match r' with s :: _ => if s =? 9 then [] else [32] | [] => [32] end) in
        bind (detok_loop false false [] O r')
             (fun rout => Ok (n, linum ++ firstn 255 (rev rout)))
  | _ => Ok (-1, [])
  end.

End Lister.

Definition fl_str_table (tab : list (list Z * list Z)) (trail : list Z) : res (list Z) :=
  match assoc trail tab with
  | Some t => Ok t
  | None => Host 99
  end.
