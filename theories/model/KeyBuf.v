(* C37: model of inputs/keyboard.py:KeyboardBuffer (as repaired by fix D12) and of its BIOS-data-area view in
   machine.py:Memory._get_low_memory/_set_low_memory (addresses 1050..1053 and the 32 slot bytes 1054..1085).
   Every integer expression comes from gen/Gen_keybuf.v (regenerated from the source on every run); the list
   operations (append, index, slice, comprehension) are modelled here and tied by correspondence.
   NO proofs in this file. *)
From Coq Require Import ZArith List Bool.
From PCB Require Import lib.Result lib.PyInt gen.Gen_keybuf.
Import ListNotations.
Open Scope Z_scope.

(* a keystroke: (eascii/codepage bytes, scancode); a scancode None is 0 (PEEK reads `scan or 0`) *)
Definition key : Type := (list Z * Z)%type.
Definition blank : key := ([0; 0], 0).

Record kb : Type := { buf : list key; start : Z }.
Definition buflen (s : kb) : Z := zlen (buf s).

(* ---- Python list primitives ------------------------------------------------------------------- *)
(* l[i]: position of index i (negative indices count from the end), None = IndexError *)
Definition py_index {A} (l : list A) (i : Z) : option nat :=
  let n := zlen l in
  if (0 <=? i) && (i <? n) then Some (Z.to_nat i)
  else if (i <? 0) && (- n <=? i) then Some (Z.to_nat (n + i))
  else None.

Definition py_get {A} (l : list A) (i : Z) : res A :=
  match py_index l i with
  | Some k => match nth_error l k with Some x => Ok x | None => Host host_IndexError end
  | None => Host host_IndexError
  end.

Fixpoint set_nth {A} (k : nat) (x : A) (l : list A) : list A :=
  match l, k with
  | [], _ => []
  | _ :: r, O => x :: r
  | y :: r, S k' => y :: set_nth k' x r
  end.

Definition py_set {A} (l : list A) (i : Z) (x : A) : res (list A) :=
  match py_index l i with
  | Some k => Ok (set_nth k x l)
  | None => Host host_IndexError
  end.

(* l[:n] *)
Definition py_slice_to {A} (l : list A) (n : Z) : list A :=
  if n <? 0 then firstn (Z.to_nat (zlen l + n)) l else firstn (Z.to_nat n) l.

(* range(n) *)
Definition zrange (n : Z) : list Z := map Z.of_nat (seq 0 (Z.to_nat n)).

(* [f(i) for i in l] where f can raise *)
Fixpoint mapM {A B} (f : A -> res B) (l : list A) : res (list B) :=
  match l with
  | [] => Ok []
  | x :: r => bind (f x) (fun y => bind (mapM f r) (fun ys => Ok (y :: ys)))
  end.

(* ---- KeyboardBuffer ---------------------------------------------------------------------------- *)
Definition init : kb :=
  {| buf := repeat blank (Z.to_nat keybuf_init_len); start := keybuf_init_start |}.

(* append(cp_c, scan) with self._check_full = check_full *)
Definition append (check_full : bool) (c : list Z) (scan : Z) (s : kb) : res kb :=
  if negb (zlen c =? 0) then
    if keybuf_append_full check_full (buflen s) (start s) then
      bind (py_set (buf s) (keybuf_append_cr_index (buflen s) (start s))
                   (keybuf_append_cr_char, keybuf_append_cr_scan))
           (fun b => Ok {| buf := b; start := start s |})
    else Ok {| buf := buf s ++ [(c, scan)]; start := start s |}
  else Ok s.

(* getc(): IndexError is caught and gives b'' *)
Definition getc (s : kb) : list Z * kb :=
  match py_get (buf s) (keybuf_getc_index (buflen s) (start s)) with
  | Ok k => (fst k, {| buf := buf s; start := keybuf_getc_next (buflen s) (start s) |})
  | _ => ([], s)
  end.

Definition peekc (s : kb) : list Z :=
  match py_get (buf s) (keybuf_peek_index (buflen s) (start s)) with
  | Ok k => fst k
  | _ => []
  end.

Definition length_ (s : kb) : Z := keybuf_length (buflen s) (start s).
Definition empty_ (s : kb) : bool := keybuf_empty (buflen s) (start s).
Definition start_ (s : kb) : Z := keybuf_start (buflen s) (start s).
Definition stop_ (s : kb) : Z := keybuf_stop (buflen s) (start s).

Definition ring_read (s : kb) (index : Z) : res key :=
  py_get (buf s) (keybuf_ring_index (buflen s) (start s) index).

Definition ring_write (index : Z) (k : key) (s : kb) : res kb :=
  bind (py_set (buf s) (keybuf_ring_index (buflen s) (start s) index) k)
       (fun b => Ok {| buf := b; start := start s |}).

(* ring_set_boundaries(newstart, newstop), repaired version *)
Definition set_boundaries (newstart newstop : Z) (s : kb) : res kb :=
  let '(a, b, len) := keybuf_setb_norm newstart newstop in
  let s1 := {| buf := py_slice_to (buf s) (keybuf_setb_keep (buflen s) (start s)); start := start s |} in
  bind (mapM (ring_read s1) (zrange keybuf_setb_ring_n)) (fun ring =>
  let st := keybuf_setb_start a in
  bind (mapM (fun p => py_get ring (keybuf_setb_slot p)) (zrange (keybuf_setb_newlen st len))) (fun b' =>
  Ok {| buf := b'; start := st |})).

(* ---- BIOS data area: Memory._get_low_memory / _set_low_memory ---------------------------------- *)
Definition not_modelled : Z := -2.

Definition peek_mem (s : kb) (addr : Z) : res Z :=
  if addr =? 1050 then Ok (keybuf_peek_1050 (start_ s) (stop_ s))
  else if addr =? 1051 then Ok (keybuf_peek_1051 (start_ s) (stop_ s))
  else if addr =? 1052 then Ok (keybuf_peek_1052 (start_ s) (stop_ s))
  else if addr =? 1053 then Ok (keybuf_peek_1053 (start_ s) (stop_ s))
  else if (keybuf_peek_slot_lo <=? addr) && (addr <? keybuf_peek_slot_hi) then
    bind (ring_read s (keybuf_peek_slot_index addr)) (fun k =>
      if z2b (keybuf_peek_slot_odd addr) then Ok (snd k)
      else match fst k with [] => Ok 0 | c0 :: _ => Ok c0 end)
  else Ok not_modelled.

Definition poke_mem (addr value : Z) (s : kb) : res kb :=
  if addr =? 1050 then
    let '(a, b) := keybuf_poke_1050 (start_ s) (stop_ s) value in set_boundaries a b s
  else if addr =? 1052 then
    let '(a, b) := keybuf_poke_1052 (start_ s) (stop_ s) value in set_boundaries a b s
  else if (keybuf_poke_slot_lo <=? addr) && (addr <? keybuf_poke_slot_hi) then
    let index := keybuf_poke_slot_index addr in
    bind (ring_read s index) (fun k =>
      let k' := if z2b (keybuf_poke_slot_odd addr) then (fst k, value)
                else if keybuf_poke_slot_blank value then ([], snd k)
                else ([value], snd k) in
      ring_write index k' s)
  else Ok s.

(* ---- session-level operations used by the correspondence harness and the history theorems ------- *)
Inductive op : Type :=
| Down (c : list Z) (scan : Z)      (* key-down event: Keyboard._key_down -> buf.append, limit checked *)
| Inject (c : list Z)                (* Session.press_keys / inject_keystrokes: limit ignored, scan None *)
| Inkey                              (* INKEY$ *)
| InputS (n : Z)                     (* INPUT$(n) with n keystrokes waiting *)
| Peek (addr : Z)                    (* DEF SEG=0: PEEK(addr) *)
| Poke (addr value : Z)              (* DEF SEG=0: POKE addr, value *)
| PokeFrom (dst src : Z).            (* DEF SEG=0: POKE dst, PEEK(src) *)

Fixpoint getn (n : nat) (s : kb) : list Z * kb :=
  match n with
  | O => ([], s)
  | S n' => let '(c, s1) := getc s in let '(r, s2) := getn n' s1 in (c ++ r, s2)
  end.

(* one step: (observable output, new state) *)
Definition step (o : op) (s : kb) : res (list Z * kb) :=
  match o with
  | Down c scan => bind (append true c scan s) (fun s' => Ok ([], s'))
  | Inject c => bind (append false c 0 s) (fun s' => Ok ([], s'))
  | Inkey => let '(c, s') := getc s in Ok (zlen c :: c, s')
  | InputS n =>
      (* files.input_: fewer than n bytes read (a waiting key with an empty char) is Input past end,
         which Session.evaluate reports as None, encoded -2; the keys are consumed all the same *)
      let '(c, s') := getn (Z.to_nat n) s in
      Ok (if zlen c <? n then [-2] else zlen c :: c, s')
  | Peek addr => bind (peek_mem s addr) (fun v => Ok ([Z.max 0 v], s))
  | Poke addr value =>
      if (0 <=? value) && (value <=? 255) then bind (poke_mem addr value s) (fun s' => Ok ([], s'))
      else Ok ([], s)
  | PokeFrom dst src =>
      bind (peek_mem s src) (fun v =>
        let value := Z.max 0 v in
        if (0 <=? value) && (value <=? 255) then bind (poke_mem dst value s) (fun s' => Ok ([], s'))
        else Ok ([], s))
  end.

(* a history: outputs concatenated; a host exception ends it with the marker -1 :: encoding *)
Fixpoint run (ops : list op) (s : kb) : list Z * kb :=
  match ops with
  | [] => ([], s)
  | o :: r =>
      match step o s with
      | Ok (out, s') => let '(outs, sf) := run r s' in (out ++ outs, sf)
      | Err e => ([-1; 1; e], s)
      | Host x => ([-1; 2; x], s)
      | OutOfFuel => ([-1; 3], s)
      end
  end.

Definition run_out (ops : list op) : list Z := fst (run ops init).

(* ---- specification: bounded FIFO of capacity 15 ------------------------------------------------- *)
Definition capacity : Z := 15.

(* the keystrokes waiting, in order *)
Definition waiting (s : kb) : list key := skipn (Z.to_nat (start s)) (buf s).

(* FIFO operations on a queue of keystrokes; a read returns the char of the oldest key or b'' *)
Inductive fop : Type :=
| FPress (c : list Z) (scan : Z)     (* dropped when `capacity` keys are waiting *)
| FInject (c : list Z)               (* pasted / injected: never dropped *)
| FRead.

Definition fifo_step (o : fop) (q : list key) : option (list Z) * list key :=
  match o with
  | FPress c scan =>
      if zlen c =? 0 then (None, q)
      else if capacity <=? zlen q then (None, q) else (None, q ++ [(c, scan)])
  | FInject c => if zlen c =? 0 then (None, q) else (None, q ++ [(c, 0)])
  | FRead => match q with [] => (Some [], []) | k :: r => (Some (fst k), r) end
  end.

Fixpoint fifo_run (ops : list fop) (q : list key) : list (list Z) * list key :=
  match ops with
  | [] => ([], q)
  | o :: r =>
      let '(out, q1) := fifo_step o q in
      let '(outs, qf) := fifo_run r q1 in
      (match out with Some c => c :: outs | None => outs end, qf)
  end.

(* the same operations on the implementation model *)
Definition impl_fop (o : fop) (s : kb) : res (option (list Z) * kb) :=
  match o with
  | FPress c scan => bind (append true c scan s) (fun s' => Ok (None, s'))
  | FInject c => bind (append false c 0 s) (fun s' => Ok (None, s'))
  | FRead => let '(c, s') := getc s in Ok (Some c, s')
  end.

Fixpoint impl_run (ops : list fop) (s : kb) : res (list (list Z) * kb) :=
  match ops with
  | [] => Ok ([], s)
  | o :: r =>
      bind (impl_fop o s) (fun '(out, s1) =>
      bind (impl_run r s1) (fun '(outs, sf) =>
      Ok (match out with Some c => c :: outs | None => outs end, sf)))
  end.

(* bookkeeping on the specification: keys accepted (not dropped) and keys delivered by reads *)
Fixpoint fifo_accepted (ops : list fop) (q : list key) : list key :=
  match ops with
  | [] => []
  | o :: r =>
      let q1 := snd (fifo_step o q) in
      match o with
      | FPress c scan =>
          if (zlen c =? 0) || (capacity <=? zlen q) then fifo_accepted r q1 else (c, scan) :: fifo_accepted r q1
      | FInject c => if zlen c =? 0 then fifo_accepted r q1 else (c, 0) :: fifo_accepted r q1
      | FRead => fifo_accepted r q1
      end
  end.

Fixpoint fifo_delivered (ops : list fop) (q : list key) : list key :=
  match ops with
  | [] => []
  | o :: r =>
      let q1 := snd (fifo_step o q) in
      match o, q with
      | FRead, k :: _ => k :: fifo_delivered r q1
      | _, _ => fifo_delivered r q1
      end
  end.

(* ring slots from a, n of them *)
Definition slots_from (a n : Z) : list Z := map (fun j => (a + j) mod keybuf_ring_length) (zrange n).

(* full history: all session operations, host exceptions visible *)
Fixpoint run_state (ops : list op) (s : kb) : res kb :=
  match ops with
  | [] => Ok s
  | o :: r => bind (step o s) (fun '(_, s') => run_state r s')
  end.

Definition is_inject (o : op) : bool := match o with Inject _ => true | _ => false end.
