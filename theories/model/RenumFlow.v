(* C14 (behaviour preservation, abstract half): renaming of line labels on the control-flow programs of
   model/Flow.v (C19/C21, read-only) and on the items of a tokenised body.  Definitions only. *)
From Coq Require Import ZArith List Bool.
From PCB Require Import lib.Result lib.PyInt gen.Gen_program gen.Gen_flow model.Program model.ProgramSpec
  model.Renum model.RenumSpec model.Flow.
Import ListNotations.
Open Scope Z_scope.

(* ON ERROR GOTO 0 is not a reference to line 0 *)
Definition ren0 (f : Z -> Z) (n : Z) : Z := if n =? 0 then 0 else f n.

Definition rename_stmt (f : Z -> Z) (s : stmt) : stmt :=
  match s with
  | SLine n => SLine (f n)
  | SGosub n => SGosub (f n)
  | SGoto n => SGoto (f n)
  | SReturn (Some n) => SReturn (Some (f n))
  | SIf c (Some j) => SIf c (Some (f j))
  | SElse (Some j) => SElse (Some (f j))
  | SOn e g ns => SOn e g (map f ns)
  | SOnErrorGoto n => SOnErrorGoto (ren0 f n)
  | SResume (RLine n) => SResume (RLine (f n))
  | _ => s
  end.
Definition rename_lines (f : Z -> Z) (code : list stmt) : list stmt := map (rename_stmt f) code.

(* line numbers of the headers of the program stream *)
Fixpoint flow_lines (l : list stmt) : list Z :=
  match l with
  | [] => []
  | SEndProg :: _ => []
  | SLine n :: r => n :: flow_lines r
  | _ :: r => flow_lines r
  end.

(* the renaming on the items of a tokenised line body *)
Definition rename_item (f : Z -> Z) (it : item) : item :=
  match it with IRef j => IRef (f j) | _ => it end.
Definition refs_nonzero (its : list item) : Prop := forall j, In (IRef j) its -> j <> 0.

(* renaming of what the program prints about line numbers: ERL values *)
Definition rename_erl (f : Z -> Z) (z : Z) : Z := if (z =? 0) || (z =? 65535) then z else f z.

Definition rename_outcome (f : Z -> Z) (o : outcome) : outcome :=
  match o with Stopped c l => Stopped c (rename_erl f l) | _ => o end.

(* every line number a statement refers to, and every expression it evaluates *)
Definition targets_of (s : stmt) : list Z :=
  match s with
  | SGosub n | SGoto n | SReturn (Some n) | SIf _ (Some n) | SElse (Some n) | SResume (RLine n) => [n]
  | SOn _ _ ns => ns
  | SOnErrorGoto n => if n =? 0 then [] else [n]
  | _ => []
  end.
Fixpoint expr_no_erl (e : expr) : bool :=
  match e with
  | EErl => false
  | EAdd a b | ESub a b | EIDiv a b | ECmp _ a b => expr_no_erl a && expr_no_erl b
  | _ => true
  end.
Definition stmt_no_erl (s : stmt) : bool :=
  match s with
  | SPrint e | SLet _ e | SWhile e | SIf e _ | SOn e _ _ | SError e => expr_no_erl e
  | SFor _ a b c => expr_no_erl a && expr_no_erl b && expr_no_erl c
  | _ => true
  end.

(* the behaviour-preservation statement for the Flow machine (C19/C21): for a program whose line headers are
   below 65535, all of whose targets exist and which never reads ERL in an expression, and a renaming that is
   increasing on the program's lines, running the renamed program produces the same output and ends the same
   way.  (With missing targets it is false: RENUM keeps a missing target j, and j may be the new number of
   another line.)  STATED ONLY - the proved parts are in proofs/RenumFlow_proofs.v. *)
Definition C14_simulation_flow_statement : Prop :=
  forall (f : Z -> Z) (code : list stmt) (fuel : nat),
    (forall a b, In a (flow_lines code) -> In b (flow_lines code) -> a < b -> f a < f b) ->
    (forall a, In a (flow_lines code) -> 0 <= a < 65535 /\ 0 <= f a < 65535) ->
    (forall s n, In s code -> In n (targets_of s) -> In n (flow_lines code)) ->
    (forall s, In s code -> stmt_no_erl s = true) ->
    fst (run_program (rename_lines f code) fuel) = fst (run_program code fuel)
    /\ snd (run_program (rename_lines f code) fuel) = rename_outcome f (snd (run_program code fuel)).
