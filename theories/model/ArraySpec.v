(* C12: INDEPENDENT specification of BASIC arrays, written from the language rules and sharing no
   definition with model/Arrays.v or the regenerated code: shapes (name -> upper bounds), OPTION BASE
   state, plain arithmetic for the memory need, and element VALUES in a finite map keyed by
   (name, subscript tuple).  No flat index, no buffers, no pointers.  NO proofs here. *)
From Coq Require Import ZArith List Bool.
From PCB Require Import lib.Result lib.PyInt lib.Harness model.Arrays.   (* Arrays: only aop, vmap, vmap_get, vmap_filter, zeros *)
Import ListNotations.
Open Scope Z_scope.

Record sstate : Type := mkSp {
  sp_shapes : list (list Z * list Z);   (* declared arrays in order of declaration *)
  sp_base : option Z;                   (* OPTION BASE; None = not yet fixed *)
  sp_bydim : bool                       (* the base was fixed implicitly by a DIM *)
}.

Definition sp_init : sstate := mkSp [] None false.

Fixpoint s_find (l : list (list Z * list Z)) (n : list Z) : option (list Z) :=
  match l with
  | [] => None
  | (m, d) :: r => if list_Z_eqb m n then Some d else s_find r n
  end.

Fixpoint s_remove (l : list (list Z * list Z)) (n : list Z) : list (list Z * list Z) :=
  match l with
  | [] => []
  | (m, d) :: r => if list_Z_eqb m n then r else (m, d) :: s_remove r n
  end.

(* bytes per element by type character: % 2, ! 4, # 8, $ 3 *)
Definition s_size (n : list Z) : Z :=
  let c := last n (-1) in
  if c =? 36 then 3 else if c =? 37 then 2 else if c =? 33 then 4 else if c =? 35 then 8 else 0.

(* number of elements: product of (upper bound + 1 - base) *)
Fixpoint s_count (b : Z) (dims : list Z) : Z :=
  match dims with [] => 1 | d :: r => (d + 1 - b) * s_count b r end.

(* memory an array takes: elements, plus a record of 1 + max(3, name length) + 3 + 2 per dimension *)
Definition s_need (b : Z) (n dims : list Z) : Z :=
  s_count b dims * s_size n + (1 + Z.max 3 (Z.of_nat (length n)) + 3 + 2 * Z.of_nat (length dims)).

Fixpoint s_used (b : Z) (l : list (list Z * list Z)) : Z :=
  match l with [] => 0 | (n, d) :: r => s_need b n d + s_used b r end.

Definition s_baseval (sp : sstate) : Z := match sp_base sp with Some b => b | None => 0 end.

(* DIM name(dims): `free` = memory available to arrays *)
Definition s_alloc (sp : sstate) (free : Z) (n dims : list Z) : sstate * res unit :=
  match dims with
  | [] => (sp, Ok tt)                                         (* DIM A : nothing *)
  | _ :: _ =>
    match s_find (sp_shapes sp) n with
    | Some _ => (sp, Err 10)                                  (* Duplicate definition *)
    | None =>
      if existsb (fun d => d <? 0) dims then (sp, Err 5)      (* Illegal function call *)
      else
        let below := match sp_base sp with Some b => existsb (fun d => d <? b) dims | None => false end in
        if below then (sp, Err 9)                             (* Subscript out of range *)
        else
          (* the base is fixed to 0 by this DIM if it was open - even if memory then runs out *)
          let sp1 := match sp_base sp with
                     | None => mkSp (sp_shapes sp) (Some 0) true
                     | Some _ => sp
                     end in
          let b := s_baseval sp1 in
          if free - s_used b (sp_shapes sp1) <=? s_need b n dims then (sp1, Err 7)    (* Out of memory *)
          else (mkSp (sp_shapes sp1 ++ [(n, dims)]) (sp_base sp1) (sp_bydim sp1), Ok tt)
    end
  end.

Fixpoint s_dim (sp : sstate) (free : Z) (args : list (list Z * list Z)) : sstate * res unit :=
  match args with
  | [] => (sp, Ok tt)
  | (n, dims) :: r =>
      match s_alloc sp free n dims with
      | (sp1, Ok _) => s_dim sp1 free r
      | (sp1, e) => (sp1, e)
      end
  end.

(* subscripts against bounds: the first offending subscript decides *)
Fixpoint s_scan (b : Z) (idx dims : list Z) : res unit :=
  match idx, dims with
  | i :: idx', d :: dims' =>
      if i <? 0 then Err 5 else if (i <? b) || (d <? i) then Err 9 else s_scan b idx' dims'
  | _, _ => Ok tt
  end.

(* access to name(idx): first use dimensions the array to 10 in every dimension *)
Definition s_access (sp : sstate) (free : Z) (n idx : list Z) : sstate * res unit :=
  let '(sp1, r) := match s_find (sp_shapes sp) n with
                   | Some _ => (sp, Ok tt)
                   | None => s_alloc sp free n (repeat 10 (length idx))
                   end in
  match r with
  | Ok _ =>
      match s_find (sp_shapes sp1) n with
      | None => (sp1, Host 2)                                  (* no subscripts at all: not BASIC *)
      | Some dims =>
          if negb (Nat.eqb (length idx) (length dims)) then (sp1, Err 9)
          else (sp1, s_scan (s_baseval sp1) idx dims)
      end
  | e => (sp1, e)
  end.

Fixpoint s_erase_names (sp : sstate) (names : list (list Z)) : sstate * res unit :=
  match names with
  | [] => (sp, Ok tt)
  | n :: r =>
      match s_find (sp_shapes sp) n with
      | None => (sp, Err 5)
      | Some _ => s_erase_names (mkSp (s_remove (sp_shapes sp) n) (sp_base sp) (sp_bydim sp)) r
      end
  end.

(* ERASE: when the last array goes, a base that was only implied by DIM is open again *)
Definition s_erase (sp : sstate) (names : list (list Z)) : sstate * res unit :=
  match s_erase_names sp names with
  | (sp1, Ok _) =>
      (match sp_shapes sp1 with
       | [] => if sp_bydim sp1 then mkSp [] None false else sp1
       | _ => sp1
       end, Ok tt)
  | (sp1, e) => (sp1, e)
  end.

Definition s_option_base (sp : sstate) (b : Z) : sstate * res unit :=
  match sp_base sp with
  | None => (mkSp (sp_shapes sp) (Some b) (sp_bydim sp), Ok tt)
  | Some b0 => if b =? b0 then (sp, Ok tt) else (sp, Err 10)
  end.

Definition s_declared (sp : sstate) (n : list Z) : bool :=
  match s_find (sp_shapes sp) n with Some _ => true | None => false end.

Definition s_unit (r : res unit) : res (list Z) :=
  match r with Ok _ => Ok [] | Err e => Err e | Host h => Host h | OutOfFuel => OutOfFuel end.

(* one statement: values of arrays that are not declared both before and after it are forgotten *)
Definition sstep (sp : sstate) (m : vmap) (o : aop) : sstate * vmap * res (list Z) :=
  let '(sp', out) :=
    match o with
    | ODim free args => let '(s, r) := s_dim sp free args in (s, s_unit r)
    | OErase names => let '(s, r) := s_erase sp names in (s, s_unit r)
    | OBase b => let '(s, r) := s_option_base sp b in (s, s_unit r)
    | OSet free n idx v => let '(s, r) := s_access sp free n idx in (s, s_unit r)
    | OGet free n idx => let '(s, r) := s_access sp free n idx in (s, s_unit r)
    | OClear => (sp_init, Ok [])
    end in
  let m1 := vmap_filter (fun n => s_declared sp n && s_declared sp' n) m in
  match o, out with
  | OSet _ n idx v, Ok _ => (sp', ((n, idx), v) :: m1, out)
  | OGet _ n idx, Ok _ =>
      (sp', m1, Ok (match vmap_get m1 (n, idx) with Some v => v | None => zeros (s_size n) end))
  | _, _ => (sp', m1, out)
  end.

Fixpoint srun (sp : sstate) (m : vmap) (ops : list aop) : list (res (list Z)) :=
  match ops with
  | [] => []
  | o :: r => let '(s, m', out) := sstep sp m o in out :: srun s m' r
  end.

(* statements made of several operations (see model/Arrays.v xop): the spec runs them in order and
   stops at the first error *)
Fixpoint sseq (sp : sstate) (m : vmap) (ops : list aop) : sstate * vmap * res (list Z) :=
  match ops with
  | [] => (sp, m, Ok [])
  | o :: r => let '(s, m', out) := sstep sp m o in
              match out with Ok _ => sseq s m' r | e => (s, m', e) end
  end.

Definition sxstep (sp : sstate) (m : vmap) (x : xop) : sstate * vmap * res (list Z) :=
  match x with
  | XOp o => sstep sp m o
  | XSeq ops tail => let '(s, m', out) := sseq sp m ops in (s, m', seq_out out tail)
  end.

Fixpoint sxrun (sp : sstate) (m : vmap) (xs : list xop) : list (res (list Z)) :=
  match xs with
  | [] => []
  | x :: r => let '(s, m', out) := sxstep sp m x in out :: sxrun s m' r
  end.
