(* C02: 16-bit two's-complement integers.  Clean arithmetic model + the operator layer of values.py /
   interpreter.py built on the regenerated code (gen/Gen_int16.v).  No proofs in this file. *)
From Coq Require Import ZArith List Bool.
From PCB Require Import lib.Result lib.PyInt lib.Int16Prims gen.Gen_int16.
Import ListNotations.
Open Scope Z_scope.

(* ---------- the clean model ---------- *)
Definition in16 (z : Z) : Prop := -32768 <= z <= 32767.
Definition in16b (z : Z) : bool := (-32768 <=? z) && (z <=? 32767).
(* the range of values whose 16-bit pattern the bitwise operators accept (signed or unsigned reading) *)
Definition inpat (z : Z) : Prop := -32768 <= z <= 65535.

Definition u16 (z : Z) : Z := z mod 65536.
Definition wrap16 (z : Z) : Z := (z + 32768) mod 65536 - 32768.

Definition buf_ok (b : buf16) : Prop := byte_ok (fst b) /\ byte_ok (snd b).
Definition buf_okb (b : buf16) : bool := byteb (fst b) && byteb (snd b).

(* little-endian two's-complement encoding of a value / decoding of a buffer *)
Definition enc (z : Z) : buf16 := (u16 z mod 256, u16 z / 256).
Definition decu (b : buf16) : Z := fst b + 256 * snd b.
Definition dec (b : buf16) : Z := wrap16 (decu b).

Definition overflow : Z := int16_err_OVERFLOW.
Definition division_by_zero : Z := int16_err_DIVISION_BY_ZERO.
Definition type_mismatch : Z := int16_err_TYPE_MISMATCH.

(* result of an exact integer operation that must fit 16 bits *)
Definition fit16 (z : Z) : res buf16 := if in16b z then Ok (enc z) else Err 6.

(* bit i of the 16-bit pattern of a buffer *)
Definition bit (b : buf16) (i : Z) : bool := Z.testbit (decu b) i.

(* ---------- error handler: values.float_safe + FloatErrorHandler.handle (hand model) ----------
   `hard` = handler._do_raise (ON ERROR GOTO active) or no console.  A ZeroDivisionError / OverflowError
   is "soft" otherwise: the message is printed and evaluation continues with the payload float. *)
Inductive outcome : Type :=
| OutInt (b : buf16)              (* an Integer result *)
| OutErr (e : Z)                  (* BASICError e: execution interrupted / trapped *)
| OutSoft (e : Z) (payload : Z)   (* message of error e printed; value = MBF single with these 4 bytes (LE) *)
| OutHost (x : Z)                 (* a Python exception escapes *)
| OutFuel.

Definition error_ifc : Z := 5.

Definition handle (hard : bool) (x : Z) : outcome :=
  let cls := x mod 256 in
  if cls =? host_ValueError then OutErr error_ifc
  else if cls =? host_OverflowError then
    (if hard then OutErr overflow else OutSoft overflow (le_decode int16_Single_pos_max))
  else if cls =? host_ZeroDivisionError then
    (if hard then OutErr division_by_zero else OutSoft division_by_zero (x / 256))
  else OutHost x.

Definition plain (r : res buf16) : outcome :=
  match r with
  | Ok b => OutInt b
  | Err e => OutErr e
  | Host x => OutHost x
  | OutOfFuel => OutFuel
  end.

Definition float_safe (hard : bool) (r : res buf16) : outcome :=
  match r with
  | Host x => handle hard x
  | _ => plain r
  end.

(* values.to_integer(x) of an operand (unsigned=False) *)
Definition conv (o : operand) : res buf16 := int16_values_to_integer o false.

(* sequencing of the two operand conversions *)
Definition obind (r : res buf16) (k : buf16 -> outcome) : outcome :=
  match r with Ok b => k b | _ => plain r end.
Definition obindf (h : bool) (r : res buf16) (k : buf16 -> outcome) : outcome :=
  match r with Ok b => k b | _ => float_safe h r end.

(* the ZeroDivisionError raised by idiv_int / imod: payload = largest single with the sign of the dividend *)
Definition zde_of (a : Z) : Z :=
  int16_zde (if a <? 0 then int16_Single_neg_max else int16_Single_pos_max).

(* what BASIC observes for a zero divisor: error 11 when errors are trapped (hard); otherwise the message
   "Division by zero" is printed and evaluation continues with +/- 1.701412E+38 *)
Definition div_zero_outcome (hard : bool) (a : Z) : outcome :=
  if hard then OutErr 11
  else OutSoft 11 (le_decode (if a <? 0 then int16_Single_neg_max else int16_Single_pos_max)).

(* the operator functions as the expression parser calls them (parser/operators.py) *)
Definition op_intdiv (hard : bool) (l r : operand) : outcome := float_safe hard (int16_values_intdiv l r).
Definition op_mod (hard : bool) (l r : operand) : outcome := float_safe hard (int16_values_mod_ l r).
Definition op_not (x : operand) : outcome := plain (int16_values_not_ x).
Definition op_and (l r : operand) : outcome := plain (int16_values_and_ l r).
Definition op_or (l r : operand) : outcome := plain (int16_values_or_ l r).
Definition op_xor (l r : operand) : outcome := plain (int16_values_xor_ l r).
Definition op_eqv (l r : operand) : outcome := plain (int16_values_eqv_ l r).
Definition op_imp (l r : operand) : outcome := plain (int16_values_imp_ l r).

(* ---------- FOR counter: interpreter.iterate_loop for an integer loop variable ----------
   counter_view.iadd(step); loop_ends = counter_view.gt(stop) if sgn >= 0 else stop.gt(counter_view)  (a zero step counts as non-negative)
   result: new counter bytes and whether the loop ends; Overflow leaves the counter unchanged (the raise
   precedes the buffer write). *)
Definition for_step (counter step stop : buf16) (sgn : Z) : res (buf16 * bool) :=
  bind (int16_iadd counter step) (fun c' =>
    Ok (c', if sgn >=? 0 then int16_gt c' stop else int16_gt stop c')).

(* ---------- canonical encodings for the correspondence harness ---------- *)
Definition enc_buf (b : buf16) : list Z := [fst b; snd b].
Definition enc_outcome (o : outcome) : list Z :=
  match o with
  | OutInt b => 0 :: enc_buf b
  | OutErr e => [1; e]
  | OutHost x => [2; x mod 256]
  | OutFuel => [3]
  | OutSoft e p => [4; e; p]
  end.
Definition enc_rbuf (r : res buf16) : list Z := enc_outcome (plain r).
Definition enc_rstep (r : res (buf16 * bool)) : list Z :=
  match r with
  | Ok (b, e) => [0; fst b; snd b; enc_bool e]
  | Err e => [1; e]
  | Host x => [2; x mod 256]
  | OutOfFuel => [3]
  end.

Definition mk_operand (kind v : Z) : operand :=
  if kind =? 0 then OpInt (v mod 256, v / 256) else if kind =? 1 then OpFlt v else OpStr.

(* one operation on one pair; op codes are those of harness/C02.py *)
Definition run1 (op : Z) (hard : bool) (x y : operand) : list Z :=
  let bx := match x with OpInt b => b | _ => (0, 0) end in
  let by_ := match y with OpInt b => b | _ => (0, 0) end in
  match op with
  | 0 => enc_rbuf (int16_iadd bx by_)
  | 1 => enc_rbuf (int16_isub bx by_)
  | 2 => enc_rbuf (int16_ineg bx)
  | 3 => enc_rbuf (int16_iabs bx)
  | 4 => enc_outcome (op_intdiv hard x y)
  | 5 => enc_outcome (op_mod hard x y)
  | 6 => enc_outcome (op_not x)
  | 7 => enc_outcome (op_and x y)
  | 8 => enc_outcome (op_or x y)
  | 9 => enc_outcome (op_xor x y)
  | 10 => enc_outcome (op_eqv x y)
  | 11 => enc_outcome (op_imp x y)
  | 12 => [enc_bool (int16_gt bx by_)]
  | 13 => [enc_bool (int16_eq bx by_)]
  | _ => [99]
  end.

(* integer operands given by their unsigned 16-bit patterns: the grid xs x ys, row by row *)
Definition run_grid (op : Z) (hard : bool) (xs ys : list Z) : list Z :=
  flat_map (fun x => flat_map (fun y => run1 op hard (mk_operand 0 x) (mk_operand 0 y)) ys) xs.

(* an interval of patterns for the unary sweeps *)
Fixpoint zrange (n : nat) (start : Z) : list Z :=
  match n with O => [] | S n' => start :: zrange n' (start + 1) end.

(* arbitrary operands: (kind, value) pairs *)
Definition run_list (op : Z) (hard : bool) (l : list ((Z * Z) * (Z * Z))) : list Z :=
  flat_map (fun p => run1 op hard (mk_operand (fst (fst p)) (snd (fst p)))
                                   (mk_operand (fst (snd p)) (snd (snd p)))) l.

(* FOR steps: ((counter, step), (stop, sgn)) with 16-bit patterns *)
Definition pat (v : Z) : buf16 := (v mod 256, v / 256).
(* what the counter variable holds after counter_view.iadd(step) was left by an error (regenerated
   int16_iadd_exitbuf): reported as 77 :: bytes when it differs from the old counter *)
Definition enc_ctr_after_error (c s : buf16) : list Z :=
  match int16_iadd_exitbuf c s with
  | Ok b => if buf16_eqb b c then [] else 77 :: [fst b; snd b]
  | _ => [78]
  end.
Definition run_for (l : list ((Z * Z) * (Z * Z))) : list Z :=
  flat_map (fun p =>
    let c := pat (fst (fst p)) in
    let s := pat (snd (fst p)) in
    let r := for_step c s (pat (fst (snd p))) (snd (snd p)) in
    enc_rstep r ++ match r with Err _ => enc_ctr_after_error c s | _ => [] end) l.

(* ---------- which FOR record a NEXT iterates (interpreter.iterate_loop, hand model) ----------
   for_stack is a Python list, newest record last.  Every execution of a FOR statement appends a record
   (variable, stop, step, sgn, forpos, nextpos); a loop left with GOTO leaves its record behind.  NEXT at code
   position `pos` takes the NEWEST record whose nextpos is pos (searching from the top), drops the records
   above it, adds THAT record's step to its variable and tests THAT record's limit; the record is popped when the
   loop ends.  `vname` is the variable named after NEXT (None for a bare NEXT); a mismatch is NEXT without FOR.
   Here the stack is kept newest first. *)
Record frec : Type := mk_frec { f_var : Z; f_stop : buf16; f_step : buf16; f_sgn : Z; f_nextpos : Z }.

Definition next_without_for : Z := 1.

Fixpoint find_rec (pos : Z) (st : list frec) : option (frec * list frec) :=
  match st with
  | [] => None
  | r :: below => if f_nextpos r =? pos then Some (r, below) else find_rec pos below
  end.

(* result: remaining stack (newest first), variable updated, its new value, whether the loop ended *)
Definition next_step (st : list frec) (pos : Z) (vname : option Z) (get : Z -> buf16)
  : res (list frec * (Z * buf16) * bool) :=
  match find_rec pos st with
  | None => Err next_without_for
  | Some (r, below) =>
      if match vname with Some v => negb (v =? f_var r) | None => false end then Err next_without_for
      else bind (for_step (get (f_var r)) (f_step r) (f_stop r) (f_sgn r)) (fun ce =>
             Ok (if snd ce then below else r :: below, (f_var r, fst ce), snd ce))
  end.

(* NEXT on the variable store: the loop variable is a view of the variable's memory and iadd works in place, so
   whatever iadd leaves in the buffer - also when it raises - is what the variable holds afterwards *)
Definition upd (store : Z -> buf16) (v : Z) (b : buf16) : Z -> buf16 :=
  fun w => if w =? v then b else store w.
Definition next_exec (st : list frec) (pos : Z) (vname : option Z) (store : Z -> buf16)
  : (Z -> buf16) * res (list frec * (Z * buf16) * bool) :=
  let r := next_step st pos vname store in
  match find_rec pos st with
  | None => (store, r)
  | Some (rec, _) =>
      if match vname with Some v => negb (v =? f_var rec) | None => false end then (store, r)
      else match int16_iadd_exitbuf (store (f_var rec)) (f_step rec) with
           | Ok b => (upd store (f_var rec) b, r)
           | _ => (store, r)
           end
  end.

(* harness: records in Python order (oldest first) as (((var, stop), (step, sgn)), nextpos); two variables 0 / 1
   with counters c0 / c1 (patterns); vname -1 = bare NEXT *)
Definition mk_rec (t : ((Z * Z) * (Z * Z)) * Z) : frec :=
  mk_frec (fst (fst (fst t))) (pat (snd (fst (fst t)))) (pat (fst (snd (fst t)))) (snd (snd (fst t))) (snd t).
Definition run_next (recs : list (((Z * Z) * (Z * Z)) * Z)) (pos vname c0 c1 : Z) : list Z :=
  let st := rev (map mk_rec recs) in
  let get := fun v => if v =? 0 then pat c0 else pat c1 in
  match next_step st pos (if vname <? 0 then None else Some vname) get with
  | Ok (st', (v, c), e) => [0; v; fst c; snd c; enc_bool e; zlen st']
  | Err e => [1; e]
  | Host x => [2; x mod 256]
  | OutOfFuel => [3]
  end.
Definition run_nexts (l : list ((list (((Z * Z) * (Z * Z)) * Z) * (Z * Z)) * (Z * Z))) : list Z :=
  flat_map (fun p => run_next (fst (fst p)) (fst (snd (fst p))) (snd (snd (fst p))) (fst (snd p)) (snd (snd p))) l.

(* ---------- a re-entered FOR loop through a BASIC program (harness/C02.py FORHIST) ----------
   The FOR statement at line 40 (NEXT at line 60) is executed once per entry (a, b, s, q) read from DATA; every
   entry but the last is left with GOTO after q passes (its record stays on the stack), the last one runs, printing
   the counter, until it ends (E), overflows (X) or has printed 6 values (M).  Mirrors the control flow of that
   program on top of next_step with the real stack discipline. *)
Inductive hres : Type := HLeave (st : list frec) | HDone (out : list Z).

Fixpoint hist_loop (fuel : nat) (st : list frec) (i : buf16) (p q m : Z) (last : bool) (acc : list Z) : hres :=
  match fuel with
  | O => HDone (acc ++ [1000009])
  | S fuel' =>
      let p' := if last then p else p + 1 in
      if negb last && (p' >? q) then HLeave st
      else
        let acc' := if last then acc ++ [dec i] else acc in
        let m' := if last then m + 1 else m in
        if last && (m' >=? 6) then HDone (acc' ++ [1000001])
        else match next_step st 60 None (fun _ => i) with
             | Ok (st', (_, c), e) =>
                 if e then HDone (acc' ++ [1000002; dec c]) else hist_loop fuel' st' c p' q m' last acc'
             | Err e => HDone (acc' ++ [1000003; e; dec i])
             | _ => HDone (acc' ++ [1000008])
             end
  end.

Fixpoint hist_prog (entries : list ((Z * Z) * (Z * Z))) (st : list frec) : list Z :=
  match entries with
  | [] => [1000007]
  | e :: rest =>
      let r := mk_frec 0 (enc (snd (fst e))) (enc (fst (snd e))) (Z.sgn (fst (snd e))) 60 in
      match hist_loop 100 (r :: st) (enc (fst (fst e))) 0 (snd (snd e)) 0
                      (match rest with [] => true | _ => false end) [] with
      | HLeave st' => hist_prog rest st'
      | HDone out => out
      end
  end.
Definition run_hists (l : list (list ((Z * Z) * (Z * Z)))) : list Z :=
  flat_map (fun es => hist_prog es [] ++ [1000000]) l.
