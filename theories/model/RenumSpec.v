(* C14: the abstract side of RENUM.  Definitions only.
   A line body is also viewed as a sequence of items (string literal, comment, token with payload,
   line-number reference, plain byte); [render] gives its bytes. *)
From Coq Require Import ZArith List Bool Sorting.Sorted.
From PCB Require Import lib.Result lib.PyInt gen.Gen_program model.Program model.ProgramSpec model.Renum.
Import ListNotations.
Open Scope Z_scope.

(* new, new+step, ... *)
Fixpoint seqz (a step : Z) (n : nat) : list Z :=
  match n with O => [] | S k => a :: seqz (a + step) step k end.

(* the lines that RENUM new,start,step renumbers, and those it leaves alone *)
Definition rn_part (start : Z) (ls : list line) : list line := filter (fun l : line => start <=? fst l) ls.
Definition keep_part (start : Z) (ls : list line) : list line := filter (fun l : line => fst l <? start) ls.

Definition o2n_of (rn : list line) (new step : Z) : list (Z * Z) :=
  combine (nums rn) (seqz new step (length rn)).

(* RENUM is accepted iff (Interpreter.renum_) step >= 1, (guard 1) new is above every line that stays
   in front, (guard 2) the last new number does not exceed 65529 *)
Definition accepted (ls : list line) (new start step : Z) : Prop :=
  1 <= step
  /\ (forall l, In l (keep_part start ls) -> fst l < new)
  /\ (rn_part start ls = [] \/ new + (Z.of_nat (length (rn_part start ls)) - 1) * step <= 65529).

(* the new number of line k: the i-th renumbered line gets new + i*step, every other number stays *)
Definition new_number (o2n : list (Z * Z)) (k : Z) : Z :=
  match lookup k o2n with Some n => n | None => k end.

(* ---- the rewriting of one line body: every 0E token at a token position gets a new payload.
   Same state as body_ok; [before] = output so far (whole program), reversed; pos = stream position. *)
Fixpoint rw_body (d o2n : list (Z * Z)) (l before : list Z) (pos : Z) (lit rem : bool) (skip : Z)
  : list Z * list event :=
  match l with
  | [] => ([], [])
  | c :: r =>
      if 0 <? skip then
        let t := rw_body d o2n r (c :: before) (pos + 1) lit rem (skip - 1) in (c :: fst t, snd t)
      else
        let lit1 := if c =? 34 then negb lit else lit in
        let rem1 := if c =? 34 then rem else if (c =? tk_REM) && negb lit then true else rem in
        if lit1 || rem1 then
          let t := rw_body d o2n r (c :: before) (pos + 1) lit1 rem1 0 in (c :: fst t, snd t)
        else if c =? tk_T_UINT then
          match r with
          | lo :: hi :: r' =>
              let j := unpack_H lo hi in
              let w := le2 (new_jump o2n before j) in
              let t := rw_body d o2n r' (rev w ++ c :: before) (pos + 3) false false 0 in
              (c :: w ++ fst t, (pos + 3, j, reported d o2n before j) :: snd t)
          | _ => (l, [])
          end
        else
          let t := rw_body d o2n r (c :: before) (pos + 1) lit1 rem1 (tk_plus_bytes c) in (c :: fst t, snd t)
  end.

(* the whole program: headers are passed over, bodies rewritten, in memory order *)
Fixpoint rw_prog (d o2n : list (Z * Z)) (c0 p : Z) (ls : list line) (before : list Z) (pos : Z)
  : list line * list event :=
  match ls with
  | [] => ([], [])
  | l :: r =>
      let hdr := 0 :: le2 (c0 + 1 + p + 5 + zlen (snd l)) ++ le2 (fst l) in
      let b := rw_body d o2n (snd l) (rev hdr ++ before) (pos + 5) false false 0 in
      let t := rw_prog d o2n c0 (p + 5 + zlen (snd l)) r (rev (fst b) ++ rev hdr ++ before) (pos + 5 + zlen (snd l)) in
      ((fst l, fst b) :: fst t, snd b ++ snd t)
  end.

(* ---- items *)
Inductive item :=
| ILit (s : list Z) (closed : bool)      (* string literal, closed or running to the end of the line *)
| IRem (s : list Z)                      (* REM token and the rest of the line *)
| ITok (c : Z) (payload : list Z)        (* token with its payload bytes (numbers, two-byte keywords) *)
| IRef (j : Z)                           (* 0E lo hi : reference to line j *)
| IChr (c : Z).                          (* any other byte: keyword token, letter, digit, blank... *)

Definition render1 (it : item) : list Z :=
  match it with
  | ILit s closed => 34 :: s ++ (if closed then [34] else [])
  | IRem s => tk_REM :: s
  | ITok c p => c :: p
  | IRef j => tk_T_UINT :: le2 j
  | IChr c => [c]
  end.
Definition render (its : list item) : list Z := flat_map render1 its.

Definition plain (c : Z) : bool := negb ((c =? 0) || (c =? 34) || (c =? tk_REM) || (c =? tk_T_UINT)).
Definition no_byte (x : Z) (s : list Z) : bool := forallb (fun c => negb (c =? x)) s.

(* well-formed item lists; an unclosed literal or a comment can only be the last item *)
Fixpoint items_ok (its : list item) : bool :=
  match its with
  | [] => true
  | it :: r =>
      match it with
      | ILit s closed => bytesb s && no_byte 0 s && no_byte 34 s && (closed || match r with [] => true | _ => false end)
      | IRem s => bytesb s && no_byte 0 s && match r with [] => true | _ => false end
      | ITok c p => byteb c && plain c && (0 <? tk_plus_bytes c) && (zlen p =? tk_plus_bytes c) && bytesb p
      | IRef j => (0 <=? j) && (j <? 65536)
      | IChr c => byteb c && plain c && (tk_plus_bytes c =? 0)
      end && items_ok r
  end.

(* rewriting at item level: the payload of each reference becomes new_jump (ON ERROR GOTO 0 is exempt) *)
Fixpoint rw_items (o2n : list (Z * Z)) (its : list item) (before : list Z) : list item :=
  match its with
  | [] => []
  | it :: r =>
      let it' := match it with IRef j => IRef (new_jump o2n before j) | _ => it end in
      it' :: rw_items o2n r (rev (render1 it') ++ before)
  end.

(* behaviour preservation, stated only (partial): for an interpreter semantics [exec] on programs that maps
   a program and an input to a trace of outputs in which line numbers are printed through [show], running
   the renumbered program gives the trace of the original one with the printed numbers renamed *)
Definition C14_simulation_statement
  (exec : list line -> list Z -> list (list Z)) (rename_trace : (Z -> Z) -> list (list Z) -> list (list Z)) : Prop :=
  forall c s ls tail new start step r tr tr' input,
    abs_ok c s ls tail -> renum_cmd s tr (Some new) (Some start) (Some step) = Ok (r, tr') ->
    forall ls', abs_ok c (r_prog r) ls' tail ->
    exec ls' input = rename_trace (new_number (r_o2n r)) (exec ls input).
