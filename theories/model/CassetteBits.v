(* C29, one level below model/Cassette.v: the bit stream of a CAS image (TapeBitStream/CASBitStream and
   CassetteStream._write_record/_write_block/_read_record/_read_block).  A CAS file is the bit stream
   packed MSB first into bytes; write_pause writes nothing on CAS images.  CRC arithmetic and framing
   constants come from the regenerated gen/Gen_cassette.v.  WAV images (pulse layer) are not modelled. *)
From Coq Require Import ZArith List Bool.
From PCB Require Import lib.Result lib.PyInt gen.Gen_cassette model.Cassette.
Import ListNotations.
Open Scope Z_scope.

Definition bits := list bool.

(* TapeBitStream.write_byte: bits = [1 if byte & (128 >> i) != 0 else 0 for i in range(8)] *)
Definition enc_byte (b : Z) : bits :=
  map (fun i => negb (Z.land b (Z.shiftr 128 i) =? 0)) [0; 1; 2; 3; 4; 5; 6; 7].
(* TapeBitStream.read_byte: byte += bit * 128 >> i *)
Fixpoint dec_bits (l : bits) (i : Z) : Z :=
  match l with
  | [] => 0
  | b :: r => Z.shiftr ((if b then 1 else 0) * 128) i + dec_bits r (i + 1)
  end.
Definition read_byte (s : bits) : option (Z * bits) :=
  if (8 <=? length s)%nat then Some (dec_bits (firstn 8 s) 0, skipn 8 s) else None.

Definition enc_bytes (l : list Z) : bits := flat_map enc_byte l.

(* crc(data) *)
Fixpoint iter8 (n : nat) (rem : Z) : Z :=
  match n with O => rem | S n' => iter8 n' (cas_crc_bit rem) end.
Definition crc_byte (rem d : Z) : Z := iter8 8 (cas_crc_xor rem d).
Definition crc (data : list Z) : Z := Z.lxor (fold_left crc_byte data cas_crc_init) cas_crc_final.

(* write_leader / _write_block / write_trailer / _write_record *)
Definition enc_leader : bits :=
  enc_bytes (repeat 255 (Z.to_nat cas_leader_bytes)) ++ false :: enc_byte cas_sync_byte.
(* struct.pack('<H', crc_word): lo, hi; written hi then lo *)
Definition enc_block (b : block) : bits :=
  enc_bytes b ++ enc_byte (crc b / 256) ++ enc_byte (crc b mod 256).
Definition enc_trailer : bits := repeat true (Z.to_nat cas_trailer_ones) ++ [false].
Definition enc_record (r : record) : bits := enc_leader ++ flat_map enc_block r ++ enc_trailer.
Definition enc_tape (t : tape) : bits := flat_map enc_record t.

(* write_intro on a new image: the intro bytes and seven 0 bits *)
Definition enc_intro : bits := enc_bytes cas_intro ++ repeat false 7.

(* the image file: bits packed MSB first, the last byte padded with 0 bits (flush) *)
Fixpoint pack (fuel : nat) (s : bits) : list Z :=
  match fuel with
  | O => []
  | S f => match s with
           | [] => []
           | _ => dec_bits (firstn 8 s) 0 :: pack f (skipn 8 s)
           end
  end.
Definition image_bytes (t : tape) : list Z :=
  let s := enc_intro ++ enc_tape t in pack (length s) s.

(* ---------------------------------------------------------------- reading *)

(* `while self.read_bit() != 1: pass` : None = EndOfTape *)
Fixpoint skip_to_one (s : bits) : option bits :=
  match s with
  | [] => None
  | true :: r => Some r
  | false :: r => skip_to_one r
  end.
(* count 1 bits up to and including the next 0 bit *)
Fixpoint count_ones (s : bits) (n : Z) : option (Z * bits) :=
  match s with
  | [] => None
  | true :: r => count_ones r (n + 1)
  | false :: r => Some (n, r)
  end.

(* TapeBitStream.read_leader: None = end of tape (returns False) *)
Fixpoint read_leader (fuel : nat) (s : bits) : option bits :=
  match fuel with
  | O => None
  | S f =>
      match skip_to_one s with
      | None => None
      | Some s1 =>
          match count_ones s1 0 with
          | None => None
          | Some (n, s2) =>
              if cas_min_leader_bits <=? n then
                match read_byte s2 with
                | None => None
                | Some (sync, s3) => if sync =? cas_sync_byte then Some s3 else read_leader f s3
                end
              else read_leader f s2
          end
      end
  end.

Fixpoint read_bytes (n : nat) (s : bits) : option (list Z * bits) :=
  match n with
  | O => Some ([], s)
  | S n' => match read_byte s with
            | None => None
            | Some (b, s1) => match read_bytes n' s1 with
                              | None => None
                              | Some (l, s2) => Some (b :: l, s2)
                              end
            end
  end.

Inductive bres (A : Type) :=
| BOk (a : A) (rest : bits)
| BCrc                 (* CRCError -> Device I/O error *)
| BEnd.                (* EndOfTape *)
Arguments BOk {A}. Arguments BCrc {A}. Arguments BEnd {A}.

(* CassetteStream._read_block *)
Definition read_block (s : bits) : bres block :=
  match read_bytes nblock s with
  | None => BEnd
  | Some (data, s1) =>
      match read_bytes 2 s1 with
      | Some ([b0; b1], s2) => if b0 * 256 + b1 =? crc data then BOk data s2 else BCrc
      | _ => BEnd
      end
  end.

(* TapeBitStream.read_trailer: `while self.read_bit() == 1: pass`, EndOfTape ignored *)
Fixpoint read_trailer (s : bits) : bits :=
  match s with
  | [] => []
  | true :: r => read_trailer r
  | false :: r => r
  end.

Fixpoint read_blocks (k : nat) (s : bits) : bres (list block) :=
  match k with
  | O => BOk [] s
  | S k' => match read_block s with
            | BOk b s1 => match read_blocks k' s1 with
                          | BOk bs s2 => BOk (b :: bs) s2
                          | BCrc => BCrc
                          | BEnd => BEnd
                          end
            | BCrc => BCrc
            | BEnd => BEnd
            end
  end.

(* CassetteStream._read_record reading k blocks: leader, blocks, trailer *)
Definition read_record (k : nat) (s : bits) : bres record :=
  match read_leader (S (length s)) s with
  | None => BEnd
  | Some s1 => match read_blocks k s1 with
               | BOk bs s2 => BOk bs (read_trailer s2)
               | BCrc => BCrc
               | BEnd => BEnd
               end
  end.

(* a whole tape, the block count of each record being known to the reader (header / file type) *)
Fixpoint read_records (ks : list nat) (s : bits) : bres (list record) :=
  match ks with
  | [] => BOk [] s
  | k :: ks' => match read_record k s with
                | BOk r s1 => match read_records ks' s1 with
                              | BOk rs s2 => BOk (r :: rs) s2
                              | BCrc => BCrc
                              | BEnd => BEnd
                              end
                | BCrc => BCrc
                | BEnd => BEnd
                end
  end.

(* harness: image digest and what the bit-level reader returns for the written tape *)
Definition bits_case (fs : list wfile) : list Z :=
  let t := w_tape (fst (write_files wst0 fs)) in
  digest (image_bytes t) ++
  match read_records (map (@length block) t) (enc_tape t) with
  | BOk rs _ => 0 :: tape_digest rs
  | BCrc => [1; 57]
  | BEnd => [1; 24]
  end.
