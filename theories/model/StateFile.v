(* C40: the session-file format of pcbasic/basic/state.py: header layout, save_session's framing and the
   accept/reject decision of load_session as a function of the file bytes.  The checks themselves
   (state_load_check) and the expected header values are regenerated from state.py (gen/Gen_state.v).
   zlib.decompress / pickle.loads (and their inverses) are Section variables: the object graph has no model. *)
From Coq Require Import ZArith List Bool.
From PCB Require Import lib.Result lib.PyInt gen.Gen_state model.Crc32.
Import ListNotations.
Open Scope Z_scope.

Definition header_len : nat := Z.to_nat state_header_size.

(* struct.unpack('<LIIIII', header)[k] *)
Definition field (k : nat) (hdr : list Z) : Z := le_decode (firstn 4 (skipn (4 * k) hdr)).

(* with open(...) as f: header = f.read(24); blob = f.read() *)
Definition file_header (f : list Z) : list Z := firstn header_len f.
Definition file_blob (f : list Z) : list Z := skipn header_len f.

(* everything load_session does before `pickle.loads(zlib.decompress(blob))`:
   Ok tt = the file passes, Host 1 = ValueError (struct.error is turned into ValueError) *)
Definition load_check (f : list Z) : res unit :=
  let hdr := file_header f in
  let checksum := crc32 (file_blob f) in
  if Nat.ltb (length hdr) header_len then Host host_ValueError
  else state_load_check checksum (field 0 hdr) (field 1 hdr) (field 2 hdr) (field 3 hdr) (field 4 hdr)
         (field 5 hdr).

(* struct.pack('<LIIIII', checksum, *HEADER values) ++ blob *)
Definition save_header (blob : list Z) : list Z :=
  le_encode 4 (crc32 blob) ++ flat_map (le_encode 4) state_header_values.
Definition save_file (blob : list Z) : list Z := save_header blob ++ blob.

Section Session.
  Variable obj : Type.
  (* zlib.decompress / pickle.loads: may raise (zlib.error, UnpicklingError, ... -> some Host k) *)
  Variable decompress : list Z -> res (list Z).
  Variable unpickle : list Z -> res obj.
  (* zlib.compress(pickle.dumps(obj, HIGHEST_PROTOCOL)) *)
  Variable compress : list Z -> list Z.
  Variable pickle : obj -> list Z.

  Definition load_session (f : list Z) : res obj :=
    do _ <- load_check f ;
    do raw <- decompress (file_blob f) ;
    unpickle raw.

  Definition save_session (o : obj) : list Z := save_file (compress (pickle o)).
End Session.

(* ---------- harness interface (correspondence with the real load_session) ----------
   dcode = 0: zlib.decompress + pickle.loads of the payload succeed (observed directly in the harness);
   otherwise they raise the host exception class dcode.  Result code: 0 loaded, k = Host k. *)
Definition load_code (dcode : Z) (f : list Z) : Z :=
  match load_session (list Z) (fun b => if dcode =? 0 then Ok b else Host dcode) (fun r => Ok r) f with
  | Ok _ => 0
  | Host k => k
  | Err _ => 98
  | OutOfFuel => 99
  end.

(* base file, single-byte modifications (position, new byte), and whole-file variants with their dcode *)
Definition load_codes (dcode : Z) (f : list Z) (mods : list (Z * Z)) (variants : list (Z * list Z)) : list Z :=
  load_code dcode f
  :: map (fun m => load_code dcode (set_nth (Z.to_nat (fst m)) (snd m) f)) mods
  ++ map (fun v => load_code (fst v) (snd v)) variants.
