(* C18, typing clause: hand-written model of the type dispatch of the operator functions of
   values/values.py (pow add sub mul div intdiv mod_ eq..lte and_..imp_ neg not_ and the identity for
   unary plus), and of their values on the sub-domain where results are exact: integer-valued numbers that
   are exactly representable in their type (integer: magnitude <= 32767, single: <= 2^24, double: <= 2^53)
   and byte strings.  A number beyond the integer range given to an integer operator (\ MOD AND .. IMP NOT)
   is an Overflow error.  Outside the domain (non-integral quotient, division by zero - a soft error in
   pcbasic -, negative exponent, a result not exactly representable in its type, -32768) the model answers
   Host host_Other; the harness only generates in-domain cases.  Tied to /repo by correspondence.
   Singles above 32767 and doubles above 2^24 make the PRECISION in which an operator works observable:
   16777216! = 16777217# is false only if the comparison is done in double, 3 > 40000# overflows if the
   double is narrowed to an integer. *)
From Coq Require Import ZArith List Bool.
From PCB Require Import lib.Result lib.PyInt lib.Harness gen.Gen_prec model.Shunting.
Import ListNotations.
Open Scope Z_scope.

Inductive ty := TInt | TSng | TDbl | TStr.
Definition ty_code (t : ty) : Z := match t with TInt => 0 | TSng => 1 | TDbl => 2 | TStr => 3 end.
Definition is_str (t : ty) : bool := match t with TStr => true | _ => false end.
Definition is_dbl (t : ty) : bool := match t with TDbl => true | _ => false end.
Definition is_sng (t : ty) : bool := match t with TSng => true | _ => false end.

(* width order of the numeric types *)
Definition ty_rank (t : ty) : Z := match t with TInt => 0 | TSng => 1 | TDbl => 2 | TStr => 3 end.
(* match_types on two numbers: Double if either is, else Single if either is, else Integer *)
Definition widest (a b : ty) : ty :=
  if is_dbl a || is_dbl b then TDbl else if is_sng a || is_sng b then TSng else TInt.
(* Number.to_float(): Integer -> Single *)
Definition to_float (t : ty) : ty := match t with TInt => TSng | _ => t end.

Definition tmm : Z := prec_err_TYPE_MISMATCH.

Definition relational (o : bop) : bool :=
  match o with Gt | Eq | Lt | Ge | Le | Ne => true | _ => false end.

(* result type of a binary operator function; dm = the session's double_math option (off by default) *)
Definition rt_binop (dm : bool) (o : bop) (a b : ty) : res ty :=
  match o with
  | Pow =>
      if is_str a || is_str b then Err tmm
      else if dm && (is_dbl a || is_dbl b) then Ok TDbl else Ok TSng
  | Add =>
      match a, b with
      | TStr, TStr => Ok TStr
      | TStr, _ | _, TStr => Err tmm
      | _, _ => Ok (widest (to_float a) b)
      end
  | Sub =>
      if is_str a || is_str b then Err tmm else Ok (widest (to_float a) b)
  | Mul | Div =>
      if is_str a || is_str b then Err tmm
      else if is_dbl a || is_dbl b then Ok TDbl else Ok TSng
  | IntDiv | Mod | And | Or | Xor | Eqv | Imp =>
      if is_str a || is_str b then Err tmm else Ok TInt
  | Gt | Eq | Lt | Ge | Le | Ne =>
      match a, b with
      | TStr, TStr => Ok TInt
      | TStr, _ | _, TStr => Err tmm
      | _, _ => Ok TInt
      end
  end.

Definition rt_unop (o : uop) (a : ty) : res ty :=
  match o with
  | Neg => Ok (to_float a)                         (* strings pass unchanged: to_float TStr = TStr *)
  | Pos => Ok a
  | Not => if is_str a then Err tmm else Ok TInt
  end.

(* ---- values on the exact sub-domain *)
Inductive val := VNum (t : ty) (x : Z) | VStr (s : list Z).
Definition ty_of (v : val) : ty := match v with VNum t _ => t | VStr _ => TStr end.

Definition out_of_domain {A} : res A := Host host_Other.
(* integers exactly representable in the type *)
Definition ty_bound (t : ty) : Z :=
  match t with TInt => 32767 | TSng => 16777216 | TDbl => 9007199254740992 | TStr => 0 end.
Definition in_dom (t : ty) (x : Z) : bool := (- ty_bound t <=? x) && (x <=? ty_bound t).
Definition num (t : ty) (x : Z) : res val := if in_dom t x then Ok (VNum t x) else out_of_domain.
(* to_integer() of an operand of an integer operator *)
Definition int_arg (x : Z) : res Z :=
  if in_dom TInt x then Ok x
  else if x =? -32768 then out_of_domain else Err prec_err_OVERFLOW.
Definition integer_op (o : bop) : bool :=
  match o with IntDiv | Mod | And | Or | Xor | Eqv | Imp => true | _ => false end.
Definition b2i (b : bool) : Z := if b then -1 else 0.

(* String.gt *)
Fixpoint str_gt (a b : list Z) : bool :=
  match a, b with
  | x :: a', y :: b' => if x >? y then true else if x <? y then false else str_gt a' b'
  | _ :: _, [] => true
  | [], _ => false
  end.
Definition str_eq (a b : list Z) : bool := list_Z_eqb a b.

Definition rel (o : bop) (eq gt lt : bool) : bool :=
  match o with
  | Gt => gt | Eq => eq | Lt => lt | Ge => negb lt | Le => negb gt | Ne => negb eq | _ => false
  end.

Definition num_binop (o : bop) (x y : Z) : res Z :=
  match o with
  | Pow => if (y <? 0) || negb (in_dom TSng x) || negb (in_dom TSng y) then out_of_domain else Ok (x ^ y)
  | Mul => Ok (x * y)
  | Div => if y =? 0 then out_of_domain else if x mod y =? 0 then Ok (x / y) else out_of_domain
  | IntDiv => if y =? 0 then out_of_domain else Ok (Z.quot x y)
  | Mod => if y =? 0 then out_of_domain else Ok (Z.rem x y)
  | Add => Ok (x + y)
  | Sub => Ok (x - y)
  | Gt | Eq | Lt | Ge | Le | Ne => Ok (b2i (rel o (x =? y) (x >? y) (x <? y)))
  | And => Ok (Z.land x y)
  | Or => Ok (Z.lor x y)
  | Xor => Ok (Z.lxor x y)
  | Eqv => Ok (Z.lnot (Z.lxor x y))
  | Imp => Ok (Z.lor (Z.lnot x) y)
  end.

(* single-precision + and - with an operand of magnitude 2^24 are left out of the exact domain: the sum may
   fall into the binade below, where pcbasic's Single addition is one unit off (-1 + 16777216! gives 16777216;
   float arithmetic is C04/C05's subject, not this property's) *)
Definition sng_edge (o : bop) (t : ty) (x y : Z) : bool :=
  match o, t with
  | Add, TSng | Sub, TSng => (Z.abs x =? 16777216) || (Z.abs y =? 16777216)
  | _, _ => false
  end.

(* the integer operators convert their left operand before they look at the right one, so an Overflow of
   the left operand comes before a Type mismatch of the right one:  100000! AND "A"  is an Overflow *)
Definition left_conv (o : bop) (a : val) : res unit :=
  if integer_op o then match a with VNum _ x => do _ <- int_arg x; Ok tt | VStr _ => Ok tt end else Ok tt.

Definition v_binop (dm : bool) (o : bop) (a b : val) : res val :=
  do _ <- left_conv o a;
  do t <- rt_binop dm o (ty_of a) (ty_of b);
  match a, b with
  | VNum _ x, VNum _ y =>
      if integer_op o
      then do x' <- int_arg x; do y' <- int_arg y; do r <- num_binop o x' y'; num t r
      else do r <- num_binop o x y; if sng_edge o t x y then out_of_domain else num t r
  | VStr s1, VStr s2 =>
      if relational o then Ok (VNum t (b2i (rel o (str_eq s1 s2) (str_gt s1 s2) (str_gt s2 s1))))
      else if (zlen s1 + zlen s2) <=? 255 then Ok (VStr (s1 ++ s2)) else out_of_domain
  | _, _ => out_of_domain            (* unreachable: rt_binop has raised Type mismatch *)
  end.

Definition v_unop (o : uop) (a : val) : res val :=
  do t <- rt_unop o (ty_of a);
  match o, a with
  | Neg, VNum _ x => num t (- x)
  | Not, VNum _ x => do x' <- int_arg x; num t (- x' - 1)
  | _, _ => Ok a
  end.

(* ---- value domain 2 of the correspondence harness: typed values through the real operator functions *)
Definition v_parse (toks : list (token val)) : res (val * list (token val)) :=
  sy_parse val v_unop (v_binop false) gen_tables toks.
Definition v_code (v : val) : list Z :=
  match v with VNum t x => [ty_code t; x] | VStr s => 3 :: zlen s :: s end.
Definition v_enc (r : res (val * list (token val))) : list Z :=
  enc_res (rmap (fun vr => zlen (snd vr) :: v_code (fst vr)) r).
Definition tN (t : Z) (x : Z) : token val :=
  TUnit (Ok (VNum (if t =? 0 then TInt else if t =? 1 then TSng else TDbl) x)).
Definition tS (s : list Z) : token val := TUnit (Ok (VStr s)).
Definition tP (k : Z) : token val := TOp k.

(* the type of an expression as a value domain of its own *)
Definition ty_parse (dm : bool) (toks : list (token ty)) : res (ty * list (token ty)) :=
  sy_parse ty rt_unop (rt_binop dm) gen_tables toks.

Definition vN (t x : Z) : expr val :=
  Leaf (Ok (VNum (if t =? 0 then TInt else if t =? 1 then TSng else TDbl) x)).
Definition vS (s : list Z) : expr val := Leaf (Ok (VStr s)).
Definition v_pr (ge le ne : bool) (e : expr val) : list (token val) :=
  pr val gen_utok gen_bspell (alt3 ge le ne) e.

(* ---- type-conversion functions applied to a value (a function call is a unit of the expression):
   1 CINT 2 CSNG 3 CDBL 4 ABS 5 SGN 6 INT 7 FIX, on the exact domain *)
Definition v_fn (f : Z) (a : val) : res val :=
  match a with
  | VStr s => if (f =? 4) || (f =? 6) then Ok a else Err tmm        (* ABS and INT pass a string unchanged *)
  | VNum t x =>
      if f =? 1 then do x' <- int_arg x; num TInt x'
      else if f =? 2 then num TSng x
      else if f =? 3 then num TDbl x
      else if f =? 4 then num (to_float t) (Z.abs x)
      else if f =? 5 then num TInt (Z.sgn x)
      else if (f =? 6) || (f =? 7) then Ok a
      else out_of_domain
  end.
(* the unit `FN( arg )` : the argument is evaluated by a nested parse when the unit is read *)
Definition vF (f : Z) (arg : expr val) : expr val :=
  Leaf (bind (eval val v_unop (v_binop false) arg) (v_fn f)).

(* ---- variables: an expression over a store; every occurrence of a variable reads the same store, and the
   operator functions are functions of the operand VALUES (they cannot write to a variable) *)
Definition store := Z -> val.
Inductive xexpr :=
| XVar (x : Z)
| XLit (v : val)
| XPar (e : xexpr)
| XUn (o : uop) (e : xexpr)
| XBin (o : bop) (l r : xexpr).
Fixpoint inst (s : store) (e : xexpr) : expr val :=
  match e with
  | XVar x => Leaf (Ok (s x))
  | XLit v => Leaf (Ok v)
  | XPar e1 => Par (inst s e1)
  | XUn o e1 => Un o (inst s e1)
  | XBin o l r => Bin o (inst s l) (inst s r)
  end.

(* ---- string functions as units (their results are TEMPORARY strings, like the result of +):
   8 CHR$(n)  9 STR$(n)  10 LEFT$(s, i)  11 RIGHT$(s, i)  12 MID$(s, i, j);  i, j are integer constants *)
Fixpoint digits_fuel (fuel : nat) (x : Z) (acc : list Z) : list Z :=
  match fuel with
  | O => acc
  | S f => let acc' := (48 + x mod 10) :: acc in
           if x / 10 =? 0 then acc' else digits_fuel f (x / 10) acc'
  end.
Definition str_of_int (x : Z) : list Z :=
  (if x <? 0 then 45 else 32) :: digits_fuel 20 (Z.abs x) [].
Definition v_sfn (f i j : Z) (a : val) : res val :=
  match a with
  | VNum _ x =>
      if f =? 8 then (if (0 <=? x) && (x <=? 255) then Ok (VStr [x]) else out_of_domain)
      else if f =? 9 then (if Z.abs x <=? 999999 then Ok (VStr (str_of_int x)) else out_of_domain)
      else Err tmm
  | VStr s =>
      if (f =? 8) || (f =? 9) then Err tmm
      else if (i <? 0) || (j <? 0) || (255 <? i) || (255 <? j) then out_of_domain
      else if f =? 10 then Ok (VStr (firstn (Z.to_nat i) s))
      else if f =? 11 then Ok (VStr (skipn (length s - Z.to_nat i) s))
      else if f =? 12 then (if i =? 0 then out_of_domain
                            else Ok (VStr (firstn (Z.to_nat j) (skipn (Z.to_nat (i - 1)) s))))
      else out_of_domain
  end.
Definition vG (f i j : Z) (arg : expr val) : expr val :=
  Leaf (bind (eval val v_unop (v_binop false) arg) (v_sfn f i j)).
