(* C20 / C10: expression evaluation, DEF FN calls and statements on top of the string-space model.
   parser/expressions.py     ExpressionParser.parse / _drain (expression stacks are collector roots)
   parser/userfunctions.py   UserFunction.evaluate, UserFunctionManager.define (with fixes D15, D20a, D20b)
   values/values.py          StringFunctions.left_/right_/mid_/instr_/string_ (with fix D16), str_, chr_, space_, len_
   memory/memory.py          let_, mid_ (with fix D10c), lset_/rset_, swap_, fre_, set_variable
   Numbers are integer-valued (type tag + Z); conversion to INTEGER can overflow, nothing else can.
   No proofs in this file. *)
From Coq Require Import ZArith List Bool.
From PCB Require Import lib.Result lib.PyInt model.StrSpace.
Import ListNotations.
Open Scope Z_scope.

(* ---------- small helpers ---------- *)
Definition liftR {A} (st : state) (r : res A) : R A := (st, r).

Definition to_int16 (o : obj) : res Z :=         (* values.to_int: strings are a type mismatch *)
  match o with ONum _ z => conv_num 2 z | _ => Err 13 end.

Definition takeZ {A} (n : Z) (l : list A) : list A := firstn (Z.to_nat n) l.
Definition dropZ {A} (n : Z) (l : list A) : list A := skipn (Z.to_nat n) l.
Definition lastZ {A} (n : Z) (l : list A) : list A := dropZ (zlen l - n) l.     (* s[-n:] for n > 0 *)

Fixpoint digits (fuel : nat) (n : Z) : list Z :=
  match fuel with
  | O => []
  | S f => if n <? 10 then [48 + n] else digits f (n / 10) ++ [48 + n mod 10]
  end.
(* STR$ of an integer-valued number *)
Definition str_of_num (z : Z) : list Z :=
  if z <? 0 then 45 :: digits 40 (- z) else 32 :: digits 40 z.

Fixpoint is_prefix (s l : list Z) : bool :=
  match s, l with
  | [], _ => true
  | x :: s', y :: l' => (x =? y) && is_prefix s' l'
  | _ :: _, [] => false
  end.
Fixpoint find_from (i : Z) (l s : list Z) : Z :=       (* bytes.find *)
  if is_prefix s l then i else
  match l with
  | [] => -1
  | _ :: r => find_from (i + 1) r s
  end.

Fixpoint repeat_list {A} (l : list A) (n : nat) : list A :=
  match n with O => [] | S n' => l ++ repeat_list l n' end.

Definition remove_z (x : Z) (l : list Z) : list Z := filter (fun y => negb (y =? x)) l.
Definition mem_z (x : Z) (l : list Z) : bool := existsb (Z.eqb x) l.

Section Eval.
Variable c : cfg.

(* values.add *)
Definition add_objs (st : state) (l r : obj) : R obj :=
  match l, r with
  | ONum t1 z1, ONum t2 z2 => retR st (ONum (if (t1 =? 8) || (t2 =? 8) then 8 else 4) (z1 + z2))
  | _, _ =>
      if is_strobj l && is_strobj r then
        match deref c st (optr st l), deref c st (optr st r) with
        | Ok a, Ok b => doR (st1, p) <- store c st (a ++ b); retR st1 (OStr p)
        | Ok _, x => liftR st (bind x (fun _ => Err 13))
        | x, _ => liftR st (bind x (fun _ => Err 13))
        end
      else errR st 13
  end.

(* ---------- UserFunction.evaluate, for any way of evaluating sub-expressions ---------- *)
Section WithParse.
Variable parse : expr -> state -> R obj.

(* TYPE_TO_CONV[sigil of p](arg).clone()  (the clone is fix D20b) *)
Definition conv_arg (p : Z) (st : state) (v : obj) : res obj :=
  if is_strname p then (if is_strobj v then Ok (OStr (optr st v)) else Err 13)
  else match v with
       | ONum _ z => bind (conv_num (nty p) z) (fun z' => Ok (ONum (nty p) z'))
       | _ => Err 13
       end.

(* for arg, conv in zip(iargs, conversions): value = conv(arg).clone(); temp_values.add(value) *)
Fixpoint eval_args (ps : list Z) (args : list expr) (st : state) : R unit :=
  match ps, args with
  | p :: ps', a :: args' =>
      doR (st1, v) <- parse a st;
      match conv_arg p st1 v with
      | Ok o => eval_args ps' args' (tv_push st1 o)
      | Err e => (st1, Err e) | Host h => (st1, Host h) | OutOfFuel => (st1, OutOfFuel)
      end
  | _, _ => retR st tt
  end.

(* for name in varnames: create if missing; varsave[name] = clone; temp_values.add(varsave[name]) (fix D15) *)
Fixpoint save_params (ps : list Z) (saved : list Z) (st : state) : R unit :=
  match ps with
  | [] => retR st tt
  | n :: r =>
      doR (st1, _) <- set_scalar c st n None;
      if mem_z n saved then save_params r saved st1
      else
        let o := match lookup n (scal st1) with
                 | Some (SStr p) => OSaveS n p
                 | Some (SNum z) => OSaveN n z
                 | None => OSaveN n 0
                 end in
        save_params r (n :: saved) (tv_push st1 o)
  end.

(* for name, value in zip(varnames, args): scalars.set(name, value); argument j of k sits at tvals[m + k-1-j] *)
Fixpoint bind_params (ps : list Z) (j k m : nat) (st : state) : R unit :=
  match ps with
  | [] => retR st tt
  | n :: r =>
      if (j <? k)%nat then
        doR (st1, _) <- set_scalar c st n (Some (VTmp (m + (k - 1 - j))%nat));
        bind_params r (S j) k m st1
      else retR st tt
  end.

(* finally: copy the saved values back and drop this call's entries from temp_values *)
Fixpoint unwind (n : nat) (st : state) : state :=
  match n with
  | O => st
  | S n' =>
      let st1 := match tv_top st with
                 | OSaveS v p => set_scal st (upsert v (SStr p) (scal st))
                 | OSaveN v z => set_scal st (upsert v (SNum z) (scal st))
                 | _ => st
                 end in
      unwind n' (tv_pop st1)
  end.

(* values.to_type(self._sigil, value).clone()   (the clone is fix D20a) *)
Definition conv_result (f : Z) (st : state) (v : obj) : res obj := conv_arg f st v.

(* the call proper, for the completed parameter names ps *)
Definition evaluate_call (f : Z) (ps : list Z) (body : expr) (args : list expr) (st : state) : R obj :=
      let mark := length (tvals st) in
      finallyR
        (doR (st1, _) <- eval_args ps args st;
         if mem_z f (active st1) then errR st1 7
         else
           doR (st2, _) <- save_params ps [] st1;
           let k := Nat.min (length ps) (length args) in
           let m := (length (tvals st2) - length (tvals st1))%nat in
           doR (st3, _) <- bind_params ps 0 k m st2;
           finallyR
             (doR (st5, v) <- parse body (set_active st3 (f :: active st3));
              liftR st5 (conv_result f st5 v))
             (fun s => set_active s (remove_z f (active s))))
        (fun s => unwind (length (tvals s) - mark) s).

Definition evaluate (f : Z) (args : list expr) (st : state) : R obj :=
  match lookup f (fns st) with
  | None => errR st 18
  | Some (ps0, body) =>
      (* the sigils of the parameters are completed at evaluation time, with the default types of that moment *)
      evaluate_call f (map (resolve st) ps0) body args st
  end.
End WithParse.

(* ---------- ExpressionParser.parse ---------- *)
Fixpoint parse (fuel : nat) (e : expr) (st : state) {struct fuel} : R obj :=
  match fuel with
  | O => (st, OutOfFuel)
  | S fuel' =>
      (* with self._memory.get_stack() as units: ... return units[0]   (frame dropped on errors too: fix D10b) *)
      finallyR
        (doR (st1, _) <- units fuel' e (push_frame st);
         retR st1 (top_obj st1))
        pop_frame
  end

(* evaluate e in the current frame, leaving its value on top of the frame *)
with units (fuel : nat) (e : expr) (st : state) {struct fuel} : R unit :=
  match fuel with
  | O => (st, OutOfFuel)
  | S fuel' =>
      match e with
      | ECat a b =>
          doR (st1, _) <- units fuel' a st;
          doR (st2, _) <- units fuel' b st1;
          (* _drain: args = reversed([units.pop(), units.pop()]); units.append(oper(l, r)) *)
          let r := top_obj st2 in
          let st3 := pop_obj st2 in
          let l := top_obj st3 in
          let st4 := pop_obj st3 in
          doR (st5, v) <- add_objs st4 l r;
          retR (push_obj st5 v) tt
      | _ =>
          doR (st1, v) <- unit_ fuel' e st;
          retR (push_obj st1 v) tt
      end
  end

(* one operand *)
with unit_ (fuel : nat) (e : expr) (st : state) {struct fuel} : R obj :=
  match fuel with
  | O => (st, OutOfFuel)
  | S fuel' =>
      match e with
      | ELit (Some a) bs =>
          if 255 <? zlen bs then errR st 15
          else if (var_start c <=? a) || (a <? code_start c) then (st, Host host_Other)     (* not a program literal: never printed *)
          else retR st (OStr (zlen bs, a))
      | ELit None bs => doR (st1, p) <- store c st bs; retR st1 (OStr p)
      | ENum t z => retR st (ONum t z)
      | EVar n0 =>
          let n := resolve st n0 in
          if is_strname n then retR st (if mem_key n (scal st) then OVar n else OStr (0, 0))
          else retR st (ONum (nty n) (match lookup n (scal st) with Some (SNum z) => z | _ => 0 end))
      | EArr n i => doR (st1, _) <- check_dim c st n i; retR st1 (OArr n i)
      | ECat _ _ => parse fuel' e st             (* not produced by the printer: a sum is not an operand *)
      | EPar e1 => parse fuel' e1 st
      | ELeft e1 n => left_right fuel' e1 n false st
      | ERight e1 n => left_right fuel' e1 n true st
      | EMid e1 s n =>
          doR (st1, sv) <- parse fuel' e1 st;
          finallyR
            (doR (st3, startv) <- parse fuel' s (tv_push st1 sv);
             match to_int16 startv with
             | Ok start =>
                 if negb (is_strobj (tv_top st3)) then errR st3 13
                 else
                   doR (st4, numo) <- match n with
                                      | Some ne => doR (st4, nv) <- parse fuel' ne st3; liftR st4 (bind (to_int16 nv) (fun z => Ok (Some z)))
                                      | None => retR st3 None
                                      end;
                   let s' := tv_top st4 in
                   let len := fst (optr st4 s') in
                   let num := match numo with Some z => z | None => len end in
                   if (start <? 1) || (255 <? start) then errR st4 5
                   else if (num <? 0) || (255 <? num) then errR st4 5
                   else if (num =? 0) || (len <? start) then retR st4 (OStr (0, 0))
                   else
                     match deref c st4 (optr st4 s') with
                     | Ok bs => doR (st5, p) <- store c st4 (takeZ num (dropZ (start - 1) bs)); retR st5 (OStr p)
                     | x => liftR st4 (bind x (fun _ => Err 13))
                     end
             | x => liftR st3 (bind x (fun _ => Err 13))
             end)
            tv_pop
      | EString n ce =>
          doR (st1, nv) <- parse fuel' n st;
          match to_int16 nv with
          | Ok num =>
              if (num <? 0) || (255 <? num) then errR st1 5
              else
                doR (st2, cv) <- parse fuel' ce st1;
                match cv with
                | ONum t z =>
                    if (t =? 2) && ((z <? 0) || (255 <? z)) then errR st2 5
                    else match conv_num 2 z with
                         | Ok a => if (a <? 0) || (255 <? a) then errR st2 5
                                   else doR (st3, p) <- store c st2 (repeat a (Z.to_nat num)); retR st3 (OStr p)
                         | x => liftR st2 (bind x (fun _ => Err 13))
                         end
                | _ =>
                    match deref c st2 (optr st2 cv) with
                    | Ok bs => doR (st3, p) <- store c st2 (repeat_list (firstn 1 bs) (Z.to_nat num)); retR st3 (OStr p)
                    | x => liftR st2 (bind x (fun _ => Err 13))
                    end
                end
          | x => liftR st1 (bind x (fun _ => Err 13))
          end
      | ESpace n =>
          doR (st1, nv) <- parse fuel' n st;
          match to_int16 nv with
          | Ok num => if (num <? 0) || (255 <? num) then errR st1 5
                      else doR (st2, p) <- store c st1 (repeat 32 (Z.to_nat num)); retR st2 (OStr p)
          | x => liftR st1 (bind x (fun _ => Err 13))
          end
      | EStr e1 =>
          doR (st1, v) <- parse fuel' e1 st;
          match v with
          | ONum _ z => doR (st2, p) <- store c st1 (str_of_num z); retR st2 (OStr p)
          | _ => errR st1 13
          end
      | EChr e1 =>
          doR (st1, v) <- parse fuel' e1 st;
          match to_int16 v with
          | Ok z => if (z <? 0) || (255 <? z) then errR st1 5
                    else doR (st2, p) <- store c st1 [z]; retR st2 (OStr p)
          | x => liftR st1 (bind x (fun _ => Err 13))
          end
      | EFre e1 =>
          doR (st1, v) <- parse fuel' e1 st;
          if is_strobj v then
            match collect c st1 with
            | Ok st2 => retR st2 (ONum 4 (free c st2))
            | x => liftR st1 (bind x (fun _ => Err 13))
            end
          else retR st1 (ONum 4 (free c st1))
      | ELen e1 =>
          doR (st1, v) <- parse fuel' e1 st;
          if is_strobj v then retR st1 (ONum 2 (fst (optr st1 v))) else errR st1 13
      | EInstr a b =>
          doR (st1, big) <- parse fuel' a st;
          if negb (is_strobj big) then errR st1 (match big with ONum _ _ => 2 | _ => 13 end)
          else
            finallyR
              (doR (st3, small) <- parse fuel' b (tv_push st1 big);
               if negb (is_strobj small) then errR st3 13
               else
                 match deref c st3 (optr st3 (tv_top st3)), deref c st3 (optr st3 small) with
                 | Ok bb, Ok sb =>
                     retR st3 (ONum 2 (match bb with [] => 0 | _ => find_from 0 bb sb + 1 end))
                 | Ok _, x => liftR st3 (bind x (fun _ => Err 13))
                 | x, _ => liftR st3 (bind x (fun _ => Err 13))
                 end)
              tv_pop
      | EFn f args => evaluate (parse fuel') f args st
      end
  end

(* LEFT$ / RIGHT$ *)
with left_right (fuel : nat) (e1 n : expr) (rj : bool) (st : state) {struct fuel} : R obj :=
  match fuel with
  | O => (st, OutOfFuel)
  | S fuel' =>
      doR (st1, sv) <- parse fuel' e1 st;
      finallyR
        (doR (st3, numv) <- parse fuel' n (tv_push st1 sv);
         let s' := tv_top st3 in
         if negb (is_strobj s') then errR st3 13
         else
           match to_int16 numv with
           | Ok stop =>
               if stop =? 0 then retR st3 (OStr (0, 0))
               else if (stop <? 0) || (255 <? stop) then errR st3 5
               else
                 match deref c st3 (optr st3 s') with
                 | Ok bs => doR (st4, p) <- store c st3 (if rj then lastZ stop bs else takeZ stop bs);
                            retR st4 (OStr p)
                 | x => liftR st3 (bind x (fun _ => Err 13))
                 end
           | x => liftR st3 (bind x (fun _ => Err 13))
           end)
        tv_pop
  end.

(* ---------- statements ---------- *)
Definition parse_expression (fuel : nat) (e : expr) (st : state) : R obj :=
  parse fuel e (reset_temporaries st).

Definition lv_name (l : lval) : Z := match l with LvS n => n | LvA n _ => n end.

(* DataSegment._preallocate *)
Definition preallocate (st : state) (l : lval) : R unit :=
  match l with
  | LvS n => set_scalar c st n None
  | LvA n i => check_dim c st n i
  end.

(* DataSegment.set_variable(name, indices, value): the value is kept on a stack while memory is claimed *)
Definition set_variable (st : state) (l : lval) (v : obj) : R unit :=
  finallyR
    (let st1 := push_obj (push_frame st) v in
     match l with
     | LvS n => set_scalar c st1 n (Some VTop)
     | LvA n i => set_array c st1 n i
     end)
    pop_frame.

(* DataSegment.view_or_create_variable for a string lvalue *)
Definition view_var (st : state) (l : lval) : R obj :=
  match l with
  | LvS n => if is_strname n then retR st (if mem_key n (scal st) then OVar n else OStr (0, 0))
             else retR st (ONum (nty n) 0)
  | LvA n i => doR (st1, _) <- check_dim c st n i; retR st1 (OArr n i)
  end.

Definition write_obj (st : state) (o : obj) (p : ptr) : state :=
  match o with
  | OVar n => set_loc st (LScal n) p
  | OArr n i => set_loc st (LArr n (Z.to_nat i)) p
  | _ => st
  end.

Definition set_binding (st : state) (a : Z) (bs : list Z) : state := set_strs st (upsert a bs (strs st)).

(* the loop of String.midset for source == target *)
Fixpoint copy_bytewise (n : nat) (off i : nat) (b : list Z) : list Z :=
  match n with
  | O => b
  | S n' => copy_bytewise n' off (S i) (update_nth (off + i) (nth i b 0) b)
  end.

Definition splice (b : list Z) (off : Z) (src : list Z) : list Z :=
  takeZ off b ++ src ++ dropZ (off + zlen src) b.

Definition pad_to (rj : bool) (n : Z) (s : list Z) : list Z :=
  let t := takeZ n s in
  let padding := repeat 32 (Z.to_nat (n - zlen t)) in
  if rj then padding ++ t else t ++ padding.

(* Implementation._input_console: every typed value is converted (strings are stored in string space) and kept on
   one evaluation stack - a collector root - until all of them have been assigned with set_variable *)
Fixpoint input_read (vars : list lval) (typed : list inval) (st : state) : R unit :=
  match vars, typed with
  | l :: vars', w :: typed' =>
      match w with
      | IStr bs =>
          if is_strname (lv_name l) then
            doR (st1, p) <- store c st bs; input_read vars' typed' (push_obj st1 (OStr p))
          else input_read vars' typed' (push_obj st (ONum 2 0))       (* not produced: would be ?Redo from start *)
      | INum z => input_read vars' typed' (push_obj st (ONum 2 z))
      end
  | _, _ => retR st tt
  end.

(* for v in varlist: set_variable(name, indices, value); value i of k sits at position k-1-i of the stack (top first) *)
Fixpoint input_assign (vars : list lval) (i k : nat) (st : state) : R unit :=
  match vars with
  | [] => retR st tt
  | l :: vars' =>
      if (i <? k)%nat then
        let v := nth (k - 1 - i) (match stack st with fr :: _ => fr | [] => [] end) (ONum 0 0) in
        doR (st1, _) <- set_variable st l v;
        input_assign vars' (S i) k st1
      else retR st tt
  end.

Definition exec (fuel : nat) (direct : bool) (s : stmt) (st : state) : R unit :=
  match s with
  | SLet l e =>
      doR (st1, _) <- preallocate st l;
      doR (st2, v) <- parse_expression fuel e st1;
      doR (st3, v') <-
        (if is_strobj v then
           let p := optr st2 v in
           if is_permanent st2 p || is_field c p then
             match deref c st2 p with
             | Ok bs => doR (st3, p') <- store c st2 bs; retR st3 (OStr p')
             | x => liftR st2 (bind x (fun _ => Err 13))
             end
           else retR st2 v
         else retR st2 v);
      set_variable st3 l v'
  | SMid l se ne e =>
      doR (st1, _) <- preallocate st l;
      doR (st2, sv) <- parse_expression fuel se st1;
      match to_int16 sv with
      | Ok start =>
          doR (st3, num) <- match ne with
                            | Some ne' => doR (st3, nv) <- parse_expression fuel ne' st2; liftR st3 (to_int16 nv)
                            | None => retR st2 255
                            end;
          doR (st4, tv) <- view_var st3 l;
          if negb (is_strobj tv) then errR st4 13
          else
            match deref c st4 (optr st4 tv) with
            | Ok sbytes =>
                if (num <? 0) || (255 <? num) then errR st4 5
                else if (0 <? num) && ((start <? 1) || (zlen sbytes <? start)) then errR st4 5
                else
                  doR (st5, val) <- parse_expression fuel e st4;
                  if negb (is_strobj val) then errR st5 13
                  else
                    (* with self.get_stack() as stack: stack.append(val)    (fix D10c) *)
                    finallyR
                      (let st6 := push_obj (push_frame st5) val in
                       doR (st7, tgt) <- view_var st6 l;
                       let off := start - 1 in
                       let num1 := Z.min num (fst (optr st7 (top_obj st7))) in
                       let len := fst (optr st7 tgt) in
                       let num2 := if len <? off + num1 then len - off else num1 in
                       doR (st10, _) <-
                         (if num2 <=? 0 then retR st7 tt
                          else
                            doR (st8, target) <- check_modify c st7 (optr st7 tgt);
                            let st9 := write_obj st8 tgt target in
                            let source := optr st9 (top_obj st9) in
                            match deref c st9 target, deref c st9 source with
                            | Ok tb, Ok sb =>
                                if var_start c <=? snd target then
                                  let nb := if (fst source =? fst target) && (snd source =? snd target)
                                            then copy_bytewise (Z.to_nat num2) (Z.to_nat off) 0 tb
                                            else splice tb off (takeZ num2 sb) in
                                  retR (set_binding st9 (snd target) nb) tt
                                else (st9, Host host_ValueError)
                            | Ok _, x => liftR st9 (bind x (fun _ => Err 13))
                            | x, _ => liftR st9 (bind x (fun _ => Err 13))
                            end);
                       set_variable st10 l tgt)
                      pop_frame
            | x => liftR st4 (bind x (fun _ => Err 13))
            end
      | x => liftR st2 (bind x (fun _ => Err 13))
      end
  | SLset l e rj =>
      doR (st1, v) <- view_var st l;
      if negb (is_strobj v) then errR st1 13
      else
        doR (st2, sv) <- parse_expression fuel e st1;
        if negb (is_strobj sv) then errR st2 13
        else
          match deref c st2 (optr st2 sv) with
          | Ok sb =>
              let len := fst (optr st2 v) in
              let inb := pad_to rj len sb in
              doR (st3, target) <- check_modify c st2 (optr st2 v);
              let st4 := write_obj st3 v target in
              let v' := match v with OStr _ => OStr target | _ => v end in
              doR (st5, _) <-
                (if len <=? 0 then retR st4 tt
                 else if var_start c <=? snd target then
                   match lookup (snd target) (strs st4) with
                   | Some old => if zlen old =? len then retR (set_binding st4 (snd target) inb) tt
                                 else (st4, Host host_ValueError)
                   | None => (st4, Host host_KeyError)
                   end
                 else (st4, Host host_ValueError));
              set_variable st5 l v'
          | x => liftR st2 (bind x (fun _ => Err 13))
          end
  | SSwap a b =>
      if negb (nty (lv_name a) =? nty (lv_name b)) then errR st 13
      else
        doR (st1, _) <- preallocate st a;
        doR (st2, _) <-
          (match b with
           | LvS n => if mem_key n (scal st1) then retR st1 tt
                      else doR (st2, _) <- set_scalar c st1 n None; errR st2 5
           | LvA n i => check_dim c st1 n i
           end);
        let get l := match l with
                     | LvS n => match lookup n (scal st2) with Some v => v | None => szero n end
                     | LvA n i => SStr (arr_ptr st2 n (Z.to_nat i))
                     end in
        let put s l v := match l, v with
                         | LvS n, _ => set_scal s (upsert n v (scal s))
                         | LvA n i, SStr p => set_loc s (LArr n (Z.to_nat i)) p
                         | LvA _ _, _ => s
                         end in
        let va := get a in
        let vb := get b in
        retR (put (put st2 a vb) b va) tt
  | SErase n => erase st n
  | SDim n d => allocate c st n d
  | SClear k =>
      match k with
      | None => retR (clear_all st) tt
      | Some k' =>
          let st1 := reset_temporaries st in
          let n := var_start c + 514 + k' in
          if n <=? 0 then errR st1 5
          else if totmem st1 <? n then errR st1 7
          else retR (clear_all (set_totmem st1 n)) tt
      end
  | SDeftype t lo hi => retR (set_deft st ((lo, (hi, t)) :: deft st)) tt
  | SInput vars typed =>
      finallyR
        (doR (st1, _) <- input_read vars typed (push_frame st);
         input_assign vars 0 (Nat.min (length vars) (length typed)) st1)
        pop_frame
  | SDef f ps body =>
      if direct then errR st 12
      else
        let st1 := set_fns st (upsert f (ps, body) (fns st)) in
        (* scalars.set(chr(128+letter)+sigil, pointer into the code): a String if the function is string-valued *)
        doR (st2, _) <- set_scalar c st1 (1000 + f) (Some (VObj (if is_strname f then OStr (0, 0) else ONum (nty f) 0)));
        (fix go (ps : list Z) (s : state) : R unit :=
           match ps with
           | [] => retR s tt
           | p :: r => doR (s1, _) <- set_scalar c s (resolve s p) None; go r s1
           end) ps st2
  end.

(* ---------- observation and histories (correspondence harness) ---------- *)
Definition ptr_obs (st : state) (p : ptr) : list Z :=
  let '(l, a) := p in
  if l =? 0 then [0; 0]
  else
    let kind := if var_start c <=? a then 1 else if code_start c <=? a then 2 else 3 in
    [kind; l] ++ (if kind =? 3 then [999] else match deref c st p with Ok bs => bs | _ => [999] end).

Definition observe (st : state) : list Z :=
  flat_map (fun n => match lookup n (scal st) with
                     | Some (SStr p) => ptr_obs st p
                     | _ => [9] end) [13; 23; 33; 243; 253]
  ++ flat_map (fun n => match lookup n (scal st) with
                        | Some (SNum z) => [1; z]
                        | _ => [9] end) [174; 184; 142; 48; 244; 252; 268; 242; 248]
  ++ flat_map (fun n => match lookup n (arrs st) with
                        | Some (d, els) => [1; d] ++ flat_map (ptr_obs st) (firstn 13 els)
                        | None => [9] end) [193; 203]
  ++ [scur st; acur st; zlen (stack st); zlen (filter is_strobj (tvals st))].

Definition hash_list (l : list Z) : Z :=
  fold_left (fun h x => (h * 31 + x + 1) mod 1000003) l 7.

Definition step_record (st : state) (r : res unit) : list Z :=
  (match r with Ok _ => [0; 0] | Err e => [1; e] | Host h => [2; h] | OutOfFuel => [3; 0] end)
  ++ [cur st; match tmp st with Some t => t | None => -1 end; free c st; hash_list (observe st)].

Fixpoint run_steps (fuel : nat) (steps : list (bool * stmt)) (st : state) : list Z :=
  match steps with
  | [] => []
  | (d, s) :: r =>
      let '(st1, res) := exec fuel d s st in
      step_record st1 res ++
      match res with
      | Host _ | OutOfFuel => []
      | _ => run_steps fuel r st1
      end
  end.
End Eval.

Definition run_history (c : cfg) (totmem stksz : Z) (steps : list (bool * stmt)) : list Z :=
  run_steps c 200 steps (init_state totmem stksz).
