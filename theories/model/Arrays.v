(* C12 / C11: model of pcbasic/basic/memory/arrays.py (class Arrays) on top of the regenerated arithmetic
   (gen/Gen_arrays.v).  Names are completed names (byte strings ending in a sigil); buffers are flat byte
   lists; every operation returns the new state together with its result, because the Python code
   changes state before raising (auto-dimension, implicit OPTION BASE 0).  NO proofs here. *)
From Coq Require Import ZArith List Bool.
From PCB Require Import lib.Result lib.PyInt lib.Harness lib.ArraysLib gen.Gen_arrays.
Import ListNotations.
Open Scope Z_scope.

(* one array: _dims[name], _buffers[name], _array_memory[name] = (name_ptr, array_ptr) *)
Record arr : Type := mkArr {
  a_name : list Z;
  a_dims : list Z;
  a_buf : list Z;
  a_nptr : Z;          (* relative to var_current *)
  a_aptr : Z
}.

(* the three dicts share their key set and insertion order: one list *)
Record astate : Type := mkA {
  a_list : list arr;
  a_base : option Z;   (* _base (None = unset) *)
  a_bydim : bool;      (* _base_set_by_dim *)
  a_cur : Z            (* current *)
}.

Definition a_init : astate := mkA [] None false 0.

(* state-and-result sequencing: the state survives an error *)
Definition bindS {S A B} (x : S * res A) (f : S -> A -> S * res B) : S * res B :=
  match x with
  | (s, Ok a) => f s a
  | (s, Err e) => (s, Err e)
  | (s, Host h) => (s, Host h)
  | (s, OutOfFuel) => (s, OutOfFuel)
  end.

(* `self._base` used as a number: None would be a TypeError *)
Definition with_base {T} (st : astate) (f : Z -> res T) : res T :=
  match a_base st with Some b => f b | None => Host host_TypeError end.

Fixpoint lookup (l : list arr) (n : list Z) : option arr :=
  match l with
  | [] => None
  | a :: r => if list_Z_eqb (a_name a) n then Some a else lookup r n
  end.

Fixpoint remove_arr (l : list arr) (n : list Z) : list arr :=
  match l with
  | [] => []
  | a :: r => if list_Z_eqb (a_name a) n then r else a :: remove_arr r n
  end.

Fixpoint update_buf (l : list arr) (n : list Z) (buf : list Z) : list arr :=
  match l with
  | [] => []
  | a :: r => if list_Z_eqb (a_name a) n
              then mkArr (a_name a) (a_dims a) buf (a_nptr a) (a_aptr a) :: r
              else a :: update_buf r n buf
  end.

Definition zeros (n : Z) : list Z := repeat 0 (Z.to_nat n).

(* Python slices l[lo:hi] and l[lo:lo+len v] = v for 0 <= lo <= hi *)
Definition slice (l : list Z) (lo hi : Z) : list Z :=
  firstn (Z.to_nat (hi - lo)) (skipn (Z.to_nat lo) l).
Definition set_slice (l : list Z) (lo : Z) (v : list Z) : list Z :=
  firstn (Z.to_nat lo) l ++ v ++ skipn (Z.to_nat lo + length v) l.

(* clear() and clear_base() *)
Definition a_clear (st : astate) : astate := mkA [] (a_base st) (a_bydim st) 0.
Definition clear_base (st : astate) : astate := mkA (a_list st) None false (a_cur st).

(* allocate(name, dimensions).  `free` = strings.current - var_current() after a possible collection,
   so that _get_free() = free - current. *)
Definition allocate (st : astate) (free : Z) (n dims : list Z) : astate * res unit :=
  match dims with
  | [] => (st, Ok tt)
  | _ :: _ =>
    match lookup (a_list st) n with
    | Some _ => (st, Err err_DUPLICATE_DEFINITION)
    | None =>
      bindS (st, arrays_allocate_negative dims) (fun st _ =>
      bindS (match a_base st with
             | None => (mkA (a_list st) (Some 0) true (a_cur st), Ok tt)
             | Some b => (st, arrays_allocate_below_base b dims)
             end) (fun st1 _ =>
      bindS (st1, with_base st1 (fun b => arrays_allocate_layout b (a_cur st1) n dims))
        (fun st1 lay =>
           let '(nptr, aptr, abytes, total) := lay in
           if free - a_cur st1 <=? total then (st1, Err err_OUT_OF_MEMORY)
           else (mkA (a_list st1 ++ [mkArr n dims (zeros abytes) nptr aptr])
                     (a_base st1) (a_bydim st1) (a_cur st1 + total), Ok tt))))
    end
  end.

(* dim_(args) with completed names *)
Fixpoint dim_ (st : astate) (free : Z) (args : list (list Z * list Z)) : astate * res unit :=
  match args with
  | [] => (st, Ok tt)
  | (n, dims) :: r => bindS (allocate st free n dims) (fun st1 _ => dim_ st1 free r)
  end.

(* check_dim(name, index): returns the dimensions *)
Definition check_dim (st : astate) (free : Z) (n idx : list Z) : astate * res (list Z) :=
  bindS (match lookup (a_list st) n with
         | Some a => (st, Ok (a_dims a))
         | None =>
             let dims := repeat 10 (length idx) in
             bindS (allocate st free n dims) (fun st1 _ => (st1, Ok dims))
         end) (fun st1 dims =>
  match lookup (a_list st1) n with
  | None => (st1, Host host_KeyError)        (* lst = self._buffers[name] *)
  | Some _ =>
      (st1, with_base st1 (fun b => bind (arrays_check_subscripts b idx dims) (fun _ => Ok dims)))
  end).

(* view_buffer(name, index): the slice [k*size, (k+1)*size) of the buffer *)
Definition elem_range (st : astate) (n idx dims : list Z) : res (Z * Z) :=
  with_base st (fun b => bind (arrays_index b idx dims) (fun k =>
    let sz := size_bytes n in Ok (k * sz, (k + 1) * sz))).

Definition elem_get (st : astate) (free : Z) (n idx : list Z) : astate * res (list Z) :=
  bindS (check_dim st free n idx) (fun st1 dims =>
  match lookup (a_list st1) n with
  | None => (st1, Host host_KeyError)
  | Some a => (st1, bind (elem_range st1 n idx dims) (fun '(lo, hi) => Ok (slice (a_buf a) lo hi)))
  end).

(* set(name, index, value) with value.to_bytes() = v; a length mismatch is a ValueError of the
   memoryview slice assignment *)
Definition elem_set (st : astate) (free : Z) (n idx v : list Z) : astate * res unit :=
  bindS (check_dim st free n idx) (fun st1 dims =>
  match lookup (a_list st1) n with
  | None => (st1, Host host_KeyError)
  | Some a =>
      bindS (st1, elem_range st1 n idx dims) (fun st1 r =>
        let '(lo, hi) := r in
        if negb (Nat.eqb (length (slice (a_buf a) lo hi)) (length v)) then (st1, Host host_ValueError)
        else (mkA (update_buf (a_list st1) n (set_slice (a_buf a) lo v))
                  (a_base st1) (a_bydim st1) (a_cur st1), Ok tt))
  end).

(* erase_(names) with completed names *)
Definition shift_after (erased freed : Z) (a : arr) : arr :=
  if a_nptr a >? erased
  then mkArr (a_name a) (a_dims a) (a_buf a) (a_nptr a - freed) (a_aptr a - freed)
  else a.

Definition erase_one (st : astate) (n : list Z) : astate * res unit :=
  match lookup (a_list st) n with
  | None => (st, Err err_IFC)
  | Some a =>
      bindS (st, with_base st (fun b => arrays_erase_freed b n (a_dims a))) (fun st freed =>
        (mkA (map (shift_after (a_nptr a) freed) (remove_arr (a_list st) n))
             (a_base st) (a_bydim st) (a_cur st - freed), Ok tt))
  end.

Fixpoint erase_names (st : astate) (names : list (list Z)) : astate * res unit :=
  match names with
  | [] => (st, Ok tt)
  | n :: r => bindS (erase_one st n) (fun st1 _ => erase_names st1 r)
  end.

Definition is_nil {A} (l : list A) : bool := match l with [] => true | _ => false end.

Definition erase_ (st : astate) (names : list (list Z)) : astate * res unit :=
  bindS (erase_names st names) (fun st1 _ =>
    (if is_nil (a_list st1) && a_bydim st1 then clear_base st1 else st1, Ok tt)).

(* option_base_ *)
Definition option_base_ (st : astate) (b : Z) : astate * res unit :=
  match a_base st with
  | Some b0 => if negb (b =? b0) then (st, Err err_DUPLICATE_DEFINITION)
               else (mkA (a_list st) (Some b) (a_bydim st) (a_cur st), Ok tt)
  | None => (mkA (a_list st) (Some b) (a_bydim st) (a_cur st), Ok tt)
  end.

(* ------------------------------------------------------------------------------------------------
   histories (C12): operations, the run of the implementation model, and the reference run in which
   element values live in a finite map keyed by (name, subscript tuple). *)
Inductive aop : Type :=
| ODim (free : Z) (args : list (list Z * list Z))
| OErase (names : list (list Z))
| OBase (b : Z)
| OSet (free : Z) (n idx v : list Z)
| OGet (free : Z) (n idx : list Z)
| OClear.                              (* CLEAR / NEW / RUN: clear() and clear_base() *)

Definition unit_out (r : res unit) : res (list Z) := bind r (fun _ => Ok []).

Definition astep (st : astate) (o : aop) : astate * res (list Z) :=
  match o with
  | ODim free args => let '(s, r) := dim_ st free args in (s, unit_out r)
  | OErase names => let '(s, r) := erase_ st names in (s, unit_out r)
  | OBase b => let '(s, r) := option_base_ st b in (s, unit_out r)
  | OSet free n idx v => let '(s, r) := elem_set st free n idx v in (s, unit_out r)
  | OGet free n idx => elem_get st free n idx
  | OClear => (a_init, Ok [])
  end.

Fixpoint arun (st : astate) (ops : list aop) : list (res (list Z)) :=
  match ops with
  | [] => []
  | o :: r => let '(s, out) := astep st o in out :: arun s r
  end.

Fixpoint afinal (st : astate) (ops : list aop) : astate :=
  match ops with
  | [] => st
  | o :: r => afinal (fst (astep st o)) r
  end.

(* a BASIC statement that performs several table operations one after the other and stops at the first
   error, e.g. DIM a(..), b(..): each array is allocated BEFORE the bounds of the next one are evaluated
   (those may read elements: OGet).  `tail` = the error of an expression evaluation that ends the
   statement after all listed operations succeeded (Overflow, Type mismatch, Syntax error). *)
Inductive xop : Type :=
| XOp (o : aop)
| XSeq (ops : list aop) (tail : option Z).

Fixpoint aseq (st : astate) (ops : list aop) : astate * res (list Z) :=
  match ops with
  | [] => (st, Ok [])
  | o :: r => let '(s, out) := astep st o in
              match out with Ok _ => aseq s r | e => (s, e) end
  end.

Definition seq_out (out : res (list Z)) (tail : option Z) : res (list Z) :=
  match out, tail with Ok _, Some e => Err e | _, _ => out end.

Definition xstep (st : astate) (x : xop) : astate * res (list Z) :=
  match x with
  | XOp o => astep st o
  | XSeq ops tail => let '(s, out) := aseq st ops in (s, seq_out out tail)
  end.

Fixpoint xrun (st : astate) (xs : list xop) : list (res (list Z)) :=
  match xs with
  | [] => []
  | x :: r => let '(s, out) := xstep st x in out :: xrun s r
  end.

Fixpoint xfinal (st : astate) (xs : list xop) : astate :=
  match xs with
  | [] => st
  | x :: r => xfinal (fst (xstep st x)) r
  end.

(* reference: finite map (name, tuple) -> value, most recent binding first *)
Definition vmap := list ((list Z * list Z) * list Z).

Definition key_eqb (a b : list Z * list Z) : bool :=
  list_Z_eqb (fst a) (fst b) && list_Z_eqb (snd a) (snd b).

Fixpoint vmap_get (m : vmap) (k : list Z * list Z) : option (list Z) :=
  match m with
  | [] => None
  | (k', v) :: r => if key_eqb k' k then Some v else vmap_get r k
  end.

(* forget every element of the arrays whose name does not satisfy `keep` *)
Definition vmap_filter (keep : list Z -> bool) (m : vmap) : vmap :=
  filter (fun kv => keep (fst (fst kv))) m.

Definition declared (st : astate) (n : list Z) : bool :=
  match lookup (a_list st) n with Some _ => true | None => false end.

(* the reference takes the shape / error behaviour from the model and the VALUES from the map:
   an array that was not declared before the step and is declared after it (DIM, auto-dimension) starts
   with all elements unset (= zero bytes); elements of arrays that disappear are forgotten *)
Definition rstep (st : astate) (m : vmap) (o : aop) : astate * vmap * res (list Z) :=
  let '(st', out) := astep st o in
  let m1 := vmap_filter (fun n => declared st n && declared st' n) m in
  match o, out with
  | OSet _ n idx v, Ok _ => (st', ((n, idx), v) :: m1, out)
  | OGet _ n idx, Ok _ =>
      (st', m1, Ok (match vmap_get m1 (n, idx) with Some v => v | None => zeros (size_bytes n) end))
  | _, _ => (st', m1, out)
  end.

Fixpoint rrun (st : astate) (m : vmap) (ops : list aop) : list (res (list Z)) :=
  match ops with
  | [] => []
  | o :: r => let '(s, m', out) := rstep st m o in out :: rrun s m' r
  end.

(* canonical encodings for the correspondence harness *)
Definition enc_unit (r : res unit) : list Z := enc_res (unit_out r).

Fixpoint enc_outs (l : list (res (list Z))) : list Z :=
  match l with
  | [] => []
  | r :: t => let e := enc_res r in (zlen e :: e) ++ enc_outs t
  end.

(* shape of the state: base (-1 = unset), by_dim flag, current, then per array: name length, name,
   rank, dims, name_ptr, array_ptr, buffer length *)
Definition enc_arr (a : arr) : list Z :=
  (zlen (a_name a) :: a_name a) ++ (zlen (a_dims a) :: a_dims a) ++ [a_nptr a; a_aptr a; zlen (a_buf a)].

Definition enc_shape (st : astate) : list Z :=
  [match a_base st with Some b => b | None => -1 end; enc_bool (a_bydim st); a_cur st;
   zlen (a_list st)] ++ flat_map enc_arr (a_list st).
