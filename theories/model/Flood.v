(* C32: model of the solid-colour PAINT of pcbasic/basic/display/graphics.py
   (Graphics.paint_ / _flood_fill / _scanline_until / _check_scanline) and its specification.

   Bitmap: a rectangle of pixel attributes positioned at (org_x, org_y) in *viewport coordinates*,
   given as a list of rows of Z (own minimal matrix; model/Matrix.v belongs to another property).
   The viewport bounds (graph_view.get_bounds()) are a separate record; the bitmap may be larger than the
   viewport (the theorems then also say that nothing outside the viewport changes).
   The fill is described by a `pat`: solid (pattern is None: tile = 1x8 matrix of the fill attribute) or a
   tile (the unpacked matrix returned by the mode's build_tile, taken as given - the bit packing is not part
   of this model) with an optional background row (first row of build_tile(bg_pattern)).  No proofs here. *)
From Coq Require Import ZArith List Bool.
From PCB Require Import lib.Result lib.PyInt.
Import ListNotations.
Open Scope Z_scope.

Record bitmap := mkBitmap { org_x : Z; org_y : Z; rows : list (list Z) }.
Record bounds := mkBounds { bx0 : Z; by0 : Z; bx1 : Z; by1 : Z }.

(* is (x,y) a cell of the bitmap *)
Definition inb (m : bitmap) (x y : Z) : bool :=
  (org_x m <=? x) && (org_y m <=? y)
  && (y - org_y m <? zlen (rows m))
  && (x - org_x m <? zlen (nth (Z.to_nat (y - org_y m)) (rows m) [])).

(* pixel attribute; -1 (never an attribute) off the bitmap *)
Definition pix (m : bitmap) (x y : Z) : Z :=
  if inb m x y
  then nth (Z.to_nat (x - org_x m)) (nth (Z.to_nat (y - org_y m)) (rows m) []) (-1)
  else -1.

(* graph_view[y, xl:xr+1] = interval, the value written at column x being f x *)
Fixpoint set_row (r : list Z) (i xl xr : Z) (f : Z -> Z) : list Z :=
  match r with
  | [] => []
  | c :: t => (if (xl <=? i) && (i <=? xr) then f i else c) :: set_row t (i + 1) xl xr f
  end.
Fixpoint set_rows (rs : list (list Z)) (j ox y xl xr : Z) (f : Z -> Z) : list (list Z) :=
  match rs with
  | [] => []
  | r :: t => (if j =? y then set_row r ox xl xr f else r) :: set_rows t (j + 1) ox y xl xr f
  end.
Definition tile_range (m : bitmap) (y xl xr : Z) (f : Z -> Z) : bitmap :=
  mkBitmap (org_x m) (org_y m) (set_rows (rows m) (org_y m) (org_x m) y xl xr f).
Definition fill_range (m : bitmap) (y xl xr a : Z) : bitmap := tile_range m y xl xr (fun _ => a).

(* ---- _scanline_until(element, y, x0, x1).width
   x1 > x0: number of cells x0, x0+1, .. before the first `element` (at most x1-x0);
   x1 < x0: number of cells x0, x0-1, .. after the last `element` (at most x0-x1) *)
Fixpoint scan_r (m : bitmap) (elt y x : Z) (n : nat) : Z :=
  match n with
  | O => 0
  | S k => if pix m x y =? elt then 0 else 1 + scan_r m elt y (x + 1) k
  end.
Fixpoint scan_l (m : bitmap) (elt y x : Z) (n : nat) : Z :=
  match n with
  | O => 0
  | S k => if pix m x y =? elt then 0 else 1 + scan_l m elt y (x - 1) k
  end.
Definition scanline_until (m : bitmap) (elt y x0 x1 : Z) : Z :=
  if x0 =? x1 then 0
  else if x0 <? x1 then scan_r m elt y x0 (Z.to_nat (x1 - x0))
  else scan_l m elt y x0 (Z.to_nat (x0 - x1)).

(* ---- the fill pattern *)
Record pat := mkPat {
  p_solid : bool;                 (* is_solid *)
  p_tile : list (list Z);         (* tile: rows of attributes *)
  p_bg : option (list Z)          (* bg_tile (one row) when a non-empty background pattern is given to a tile *)
}.
Definition solid_pat (fill : Z) : pat := mkPat true [repeat fill 8] None.

Definition tile_h (p : pat) : Z := zlen (p_tile p).
Definition tile_row (p : pat) (y : Z) : list Z := nth (Z.to_nat (y mod tile_h p)) (p_tile p) [].
Definition tile_w (p : pat) : Z := zlen (nth 0 (p_tile p) []).
(* attribute the tiled fill writes at (x, y): tile[y % height, x % width] *)
Definition tile_at (p : pat) (x y : Z) : Z := nth (Z.to_nat (x mod tile_w p)) (tile_row p y) 0.

(* rtile != ZERO_TILE[0, :rtile.width]  (ZERO_TILE is 1x8) *)
Definition row_nonzero (r : list Z) : bool := (8 <? zlen r) || existsb (fun a => negb (a =? 0)) r.

(* pattern == repeated_tile[0, tile_x : tile_x+pattern.width]: the n cells from x show the tile *)
Fixpoint same_tile (m : bitmap) (p : pat) (y x : Z) (n : nat) : bool :=
  match n with
  | O => true
  | S k => (pix m x y =? tile_at p x y) && same_tile m p y (x + 1) k
  end.
(* pattern == repeated_back[0, tile_x : tile_x+pattern.width]; k = index into the repeated background row *)
Fixpoint same_bg (m : bitmap) (bg : list Z) (y x k : Z) (n : nat) : bool :=
  match n with
  | O => true
  | S j => (pix m x y =? nth (Z.to_nat (k mod zlen bg)) bg 0) && same_bg m bg y (x + 1) (k + 1) j
  end.

(* has_same_pattern of _check_scanline for the non-border run of width w starting at x on row y:
   the run already shows the fill pattern (never for an all-zero row of a tile), unless - with a background
   row - it is at least one tile wide and shows the background as well *)
Definition has_same (m : bitmap) (p : pat) (y x w : Z) : bool :=
  (p_solid p || row_nonzero (tile_row p y))
  && same_tile m p y x (Z.to_nat w)
  && match p_bg p with
     | None => true
     | Some bg => (w <? zlen bg) || negb (same_bg m bg y x (x mod tile_w p) (Z.to_nat w))
     end.

(* work-list entry [x_start, x_stop, y, ydir]; the Python list is used as a stack, head = top here *)
Definition seedt := (Z * Z * Z * Z)%type.

(* ---- _check_scanline: the `while x <= x_stop` loop; None = fuel exhausted *)
Fixpoint check_loop (fuel : nat) (m : bitmap) (p : pat) (border y d x xstop : Z) (wl : list seedt)
  : option (list seedt) :=
  match fuel with
  | O => None
  | S f =>
      if x <=? xstop then
        let w := scanline_until m border y x (xstop + 1) in
        let wl' := if (0 <? w) && negb (has_same m p y x w)
                   then (x, x + w - 1, y, d) :: wl else wl in
        check_loop f m p border y d (x + w + 1) xstop wl'
      else Some wl
  end.
Definition check_scanline (wl : list seedt) (m : bitmap) (p : pat) (border xstart xstop y d : Z)
  : option (list seedt) :=
  if xstop <? xstart then Some wl
  else check_loop (Z.to_nat (xstop - xstart + 2)) m p border y d xstart xstop wl.

Definition obind {A B} (o : option A) (f : A -> option B) : option B :=
  match o with Some a => f a | None => None end.

(* ---- one iteration of `while len(line_seed) > 0` for the popped entry (xs, xe, y, d) *)
Definition extend_left (v : bounds) (m : bitmap) (border xs y : Z) : Z :=
  xs - scanline_until m border y (xs - 1) (bx0 v - 1).
Definition extend_right (v : bounds) (m : bitmap) (border xe y : Z) : Z :=
  xe + scanline_until m border y (xe + 1) (bx1 v + 1).

Definition push_adjacent (v : bounds) (m : bitmap) (p : pat) (border xs xe y d xl xr : Z) (rest : list seedt)
  : option (list seedt) :=
  if d =? 0 then
    obind (if y + 1 <=? by1 v then check_scanline rest m p border xl xr (y + 1) 1 else Some rest)
      (fun w1 => if by0 v <=? y - 1 then check_scanline w1 m p border xl xr (y - 1) (-1) else Some w1)
  else
    obind (if (y + d <=? by1 v) && (by0 v <=? y + d)
           then check_scanline rest m p border xl xr (y + d) d else Some rest)
      (fun w1 => if (y - d <=? by1 v) && (by0 v <=? y - d)
                 then obind (check_scanline w1 m p border xl (xs - 1) (y - d) (- d))
                        (fun w2 => check_scanline w2 m p border (xe + 1) xr (y - d) (- d))
                 else Some w1).

Definition step (v : bounds) (p : pat) (border : Z) (m : bitmap) (e : seedt) (rest : list seedt)
  : option (bitmap * list seedt) :=
  let '(xs, xe, y, d) := e in
  let xl := extend_left v m border xs y in
  let xr := extend_right v m border xe y in
  match push_adjacent v m p border xs xe y d xl xr rest with
  | None => None
  | Some wl' => Some (tile_range m y xl xr (fun x => tile_at p x y), wl')
  end.

Fixpoint flood_loop (fuel : nat) (v : bounds) (p : pat) (border : Z) (m : bitmap) (wl : list seedt)
  : res bitmap :=
  match wl with
  | [] => Ok m
  | e :: rest =>
      match fuel with
      | O => OutOfFuel
      | S f =>
          match step v p border m e rest with
          | None => OutOfFuel
          | Some (m', wl') => flood_loop f v p border m' wl'
          end
      end
  end.

Definition in_view (v : bounds) (x y : Z) : bool :=
  (bx0 v <=? x) && (x <=? bx1 v) && (by0 v <=? y) && (y <=? by1 v).

(* ---- _flood_fill, physical seed (x, y) *)
Definition flood_fill_pat (fuel : nat) (v : bounds) (m : bitmap) (x y : Z) (p : pat) (border : Z) : res bitmap :=
  if negb (in_view v x y) then Ok m
  else if pix m x y =? border then Ok m
  else flood_loop fuel v p border m [(x, x, y, 0)].

(* the solid fill (pattern is None) with fill attribute `fill` *)
Definition flood_fill (fuel : nat) (v : bounds) (m : bitmap) (x y fill border : Z) : res bitmap :=
  flood_fill_pat fuel v m x y (solid_pat fill) border.

(* fuel shown sufficient in proofs/Flood_proofs.v: (width+2)*(height+2)*2 iterations *)
Definition paint_fuel (v : bounds) : nat :=
  Z.to_nat ((Z.max 0 (bx1 v - bx0 v + 1) + 2) * (Z.max 0 (by1 v - by0 v + 1) + 2) * 2).

(* ---- glue of paint_: attribute arguments (integers as written in the statement, None = omitted),
   integer coordinates without WINDOW / STEP.  num_attr, fg: number of attributes of the mode and the
   current foreground attribute (Graphics._get_attr_index) *)
Definition attr_index (num_attr fg idx : Z) : Z :=
  if idx =? -1 then fg
  else if idx =? 0 then 0
  else Z.min (num_attr - 1) (Z.max 0 idx).

Definition int16_ok (z : Z) : bool := (-32768 <=? z) && (z <=? 32767).

(* the attributes a PAINT statement uses: omitted colour = foreground, omitted border = the colour index *)
Definition fill_index (c : option Z) : Z := match c with Some cv => cv | None => -1 end.
Definition border_index (c b : option Z) : Z := match b with Some bv => bv | None => fill_index c end.
Definition fill_of (num_attr fg : Z) (c : option Z) : Z := attr_index num_attr fg (fill_index c).
Definition border_of (num_attr fg : Z) (c b : option Z) : Z := attr_index num_attr fg (border_index c b).

Definition paint (text_mode : bool) (num_attr fg : Z) (v : bounds) (m : bitmap)
           (x y : Z) (c b : option Z) : res bitmap :=
  if text_mode then Err 5 else
  do fill_idx <- match c with
                 | None => Ok (-1)
                 | Some cv => if negb (int16_ok cv) then Err 6
                              else if (0 <=? cv) && (cv <=? 255) then Ok cv else Err 5
                 end;
  do border_idx <- match b with
                   | None => Ok fill_idx
                   | Some bv => if negb (int16_ok bv) then Err 6
                                else if (0 <=? bv) && (bv <=? 255) then Ok bv else Err 5
                   end;
  if negb (int16_ok x && int16_ok y) then Err 6 else
  flood_fill (paint_fuel v) v m x y (attr_index num_attr fg fill_idx) (attr_index num_attr fg border_idx).

(* fuel used for tiled fills (no bound is proved for tiles with all-zero rows; see proofs) *)
Definition tile_fuel (v : bounds) : nat := (paint_fuel v * 4)%nat.

(* ---- PAINT (x,y), tile$ [,border] [,background$]: tile = build_tile(tile$) (non-empty string), bg = first
   row of build_tile(background$) when that string is given and non-empty.  Border default: foreground.
   Illegal combination: all rows, or three consecutive rows, of the tile equal the background row. *)
Fixpoint rows_eqb (a b : list Z) : bool :=
  match a, b with
  | [], [] => true
  | x :: a', y :: b' => (x =? y) && rows_eqb a' b'
  | _, _ => false
  end.
Definition bg_illegal (tile : list (list Z)) (bg : list Z) : bool :=
  existsb (fun row => forallb (fun r => rows_eqb r bg) (firstn 3 (skipn row tile)))
          (seq 0 (Nat.max 1 (length tile - 2))).

Definition paint_tile (text_mode : bool) (num_attr fg : Z) (v : bounds) (m : bitmap)
           (x y : Z) (tile : list (list Z)) (b : option Z) (bg : option (list Z)) : res bitmap :=
  if text_mode then Err 5 else
  do border_idx <- match b with
                   | None => Ok (-1)
                   | Some bv => if negb (int16_ok bv) then Err 6
                                else if (0 <=? bv) && (bv <=? 255) then Ok bv else Err 5
                   end;
  if match bg with Some r => bg_illegal tile r | None => false end then Err 5 else
  if negb (int16_ok x && int16_ok y) then Err 6 else
  flood_fill_pat (tile_fuel v) v m x y (mkPat false tile bg) (attr_index num_attr fg border_idx).

(* ---- the last referenced graphics point (Graphics._last_point) across PAINT statements.
   _flood_fill records the physical seed as last point after the bounds check and BEFORE the start-on-border
   check: a PAINT whose seed is inside the viewport moves the last point even if it paints nothing; a seed
   outside the viewport, and a PAINT that raises an error, leave it.  PAINT STEP (dx,dy) starts at last point +
   (dx,dy) (no WINDOW). *)
Definition gstate := (bitmap * (Z * Z))%type.
Record paint_stmt := mkStmt { s_step : bool; s_x : Z; s_y : Z; s_c : option Z; s_b : option Z }.

Definition stmt_seed (lp : Z * Z) (st : paint_stmt) : Z * Z :=
  if s_step st then (fst lp + s_x st, snd lp + s_y st) else (s_x st, s_y st).

Definition paint_lp (text_mode : bool) (num_attr fg : Z) (v : bounds) (g : gstate) (st : paint_stmt)
  : res gstate :=
  let '(sx, sy) := stmt_seed (snd g) st in
  do m' <- paint text_mode num_attr fg v (fst g) sx sy (s_c st) (s_b st);
  Ok (m', if in_view v sx sy then (sx, sy) else snd g).

(* a program of PAINT statements under ON ERROR: the first error ends it *)
Fixpoint paint_hist (text_mode : bool) (num_attr fg : Z) (v : bounds) (g : gstate) (l : list paint_stmt)
  : res gstate :=
  match l with
  | [] => Ok g
  | st :: r => do g' <- paint_lp text_mode num_attr fg v g st; paint_hist text_mode num_attr fg v g' r
  end.

(* canonical output for the correspondence harness: 0 :: all pixels of the bitmap, row by row *)
Definition enc_paint (r : res bitmap) : list Z := enc_res (rmap (fun m => concat (rows m)) r).

(* ---- helpers for full-screen correspondence cases only (not used by the theorems): the picture is given
   as filled rectangles (x, y, w, h, attribute) drawn in order on a blank screen, the result is compared by a
   rolling checksum instead of pixel by pixel *)
Definition blank_bitmap (w h : nat) : bitmap := mkBitmap 0 0 (repeat (repeat 0 w) h).
Fixpoint fill_rows (m : bitmap) (y : Z) (n : nat) (xl xr a : Z) : bitmap :=
  match n with
  | O => m
  | S k => fill_rows (fill_range m y xl xr a) (y + 1) k xl xr a
  end.
Definition draw_rects (m : bitmap) (rs : list (Z * Z * Z * Z * Z)) : bitmap :=
  fold_left (fun m r => let '(x, y, w, h, a) := r in fill_rows m y (Z.to_nat h) x (x + w - 1) a) rs m.
Definition digest (m : bitmap) : Z :=
  fold_left (fun acc p => (acc * 31 + p + 1) mod 1000000007) (concat (rows m)) 0.
Definition enc_digest (r : res bitmap) : list Z := enc_res (rmap (fun m => [digest m]) r).

(* ================= specification ================= *)

(* a cell inside the viewport that is not a border cell *)
Definition open (m : bitmap) (v : bounds) (border x y : Z) : Prop :=
  in_view v x y = true /\ pix m x y <> border.

Definition adj4 (x y x' y' : Z) : Prop :=
  (y' = y /\ (x' = x + 1 \/ x' = x - 1)) \/ (x' = x /\ (y' = y + 1 \/ y' = y - 1)).

(* the 4-connected region of non-border cells inside the viewport reachable from the seed *)
Inductive region (m : bitmap) (v : bounds) (border sx sy : Z) : Z -> Z -> Prop :=
| region_seed : open m v border sx sy -> region m v border sx sy sx sy
| region_step : forall x y x' y', region m v border sx sy x y -> adj4 x y x' y' ->
                                  open m v border x' y' -> region m v border sx sy x' y'.

(* the bitmap contains every cell of the viewport *)
Definition covers (m : bitmap) (v : bounds) : Prop :=
  forall x y, in_view v x y = true -> inb m x y = true.
