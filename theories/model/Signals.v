(* C35 - model of the video signal path: what display/buffers.py (VideoBuffer, _PixelAccess) and
   display/display.py (set_page, _set_mode, rebuild) do to the page pixel matrices and to the video queue,
   and what the reference consumer (the handlers of interface/video_sdl2.py) does with the signals.
   The code modelled is the code WITH fixes/D11.patch (scroll fills the vacated row with `back`).

   - a pixel matrix is a total function Z -> Z -> Z; only 0 <= y < PH, 0 <= x < PW exists in Python: every
     write is clipped to that rectangle exactly like a Python slice, reads outside are never compared;
   - the text layer is abstract: an op that makes the display code render text or store graphics carries the
     picture `img` (absolute coordinates) that ends up in the rectangle concerned - glyph rendering, attributes,
     DBCS are irrelevant for equality of the two sides; the results of _refresh_dbcs (widened dirty ranges) are
     inputs `ws` of the op that runs force_submit;
   - all rectangle arithmetic is the regenerated code of gen/Gen_signals.v.
   No proofs in this file. *)
From Coq Require Import ZArith List Bool.
From PCB Require Import lib.Result lib.PyInt gen.Gen_signals.
Import ListNotations.
Open Scope Z_scope.

(* ------------------------------------------------------------------------------------------------ *)
(* geometry of a video mode: pixel size, text size, font size *)
Record cfg := mkCfg { PH : Z; PW : Z; TH : Z; TW : Z; fw : Z; fh : Z }.

(* what display/modes.py guarantees for every mode (checked on the regenerated table in the proofs):
   PW = TW*fw;  fh = ceil(PH/TH);  the last text row starts inside the matrix (Hercules: 348 < 25*14) *)
Definition cfg_okb (c : cfg) : bool :=
  (0 <? fw c) && (0 <? fh c) && (0 <? TW c) && (0 <? TH c) && (PW c =? TW c * fw c)
  && ((fh c - 1) * TH c <? PH c) && (PH c <=? TH c * fh c) && ((TH c - 1) * fh c <? PH c).

Definition cfg_of_tuple (t : Z * Z * Z * Z * Z * Z) : cfg :=
  let '(ph, pw, th, tw, fh_, fw_) := t in mkCfg ph pw th tw fw_ fh_.

Definition mat := Z -> Z -> Z.
Definition zimg : mat := fun _ _ => 0.

Definition inrect (y0 y1 x0 x1 y x : Z) : bool := (y0 <=? y) && (y <? y1) && (x0 <=? x) && (x <? x1).

(* the character-cell layer: VideoBuffer._dbcs_text, what get_chars(as_type=unicode) returns and what the
   VIDEO_UPDATE signal carries (a matrix of unicode cells; the trail cell of a fullwidth character is u'').
   A cell is an abstract code; `blank` is u' '.  Rows and columns count from 1. *)
Definition tmat := Z -> Z -> Z.
Definition blank : Z := 32.
Definition tblank : tmat := fun _ _ => blank.
Definition incells (r0 r1 c0 c1 r col : Z) : bool := (r0 <=? r) && (r <=? r1) && (c0 <=? col) && (col <=? c1).
(* list-slice assignment on rows r0..r1, columns c0..c1 (inclusive, 1-based) *)
Definition tset (t : tmat) (r0 r1 c0 c1 : Z) (img : tmat) : tmat :=
  fun r col => if incells r0 r1 c0 c1 r col then img r col else t r col.

(* ByteMatrix.__setitem__ with slices [y0:y1, x0:x1] (non-negative bounds): the slices clip to the matrix *)
Definition mset (c : cfg) (m : mat) (y0 y1 x0 x1 : Z) (img : mat) : mat :=
  fun y x => if inrect y0 y1 x0 x1 y x && inrect 0 (PH c) 0 (PW c) y x then img y x else m y x.

(* ByteMatrix.move: copy the source, replace the source by attribute 0, paste at the target *)
Definition mmove (c : cfg) (m : mat) (sy0 sy1 sx0 sx1 ty0 tx0 : Z) : mat :=
  let m1 := mset c m sy0 sy1 sx0 sx1 zimg in
  mset c m1 ty0 (ty0 + (sy1 - sy0)) tx0 (tx0 + (sx1 - sx0)) (fun y x => m (y - ty0 + sy0) (x - tx0 + sx0)).

(* ------------------------------------------------------------------------------------------------ *)
(* signals and the events recorded by the harness *)
Inductive signal :=
| SSetMode (ph pw th tw : Z)
| SUpdate (top left nr nc : Z) (tdata : tmat) (y0 x0 h w : Z) (data : mat)
    (* text rows top.., columns left..: tdata i j for 0 <= i < nr, 0 <= j < nc; sprite: data i j, 0 <= i < h, 0 <= j < w *)
| SClear (back start stop : Z)
| SScroll (dir from to back : Z).

Inductive event :=
| EWrite (p : nat) (y0 y1 x0 x1 v : Z)           (* page matrix [y0:y1, x0:x1] = scalar v, or a matrix (v = -1) *)
| EMove (p : nat) (sy0 sy1 sx0 sx1 ty0 tx0 : Z)  (* ByteMatrix.move *)
| EDraw (p : nat) (row s e : Z)                  (* _draw_text(row, s, row, e) *)
| ESig (s : signal)
| EBad (code : Z).                               (* the op is outside the envelope of the theorems *)

Fixpoint sigs (evs : list event) : list signal :=
  match evs with
  | [] => []
  | ESig s :: r => s :: sigs r
  | _ :: r => sigs r
  end.

(* ------------------------------------------------------------------------------------------------ *)
(* one page = one VideoBuffer *)
Record page := mkPage { px : mat; txt : tmat; visible : bool; locked : bool; dirty : list (Z * (Z * Z)) }.

Definition set_px (pg : page) (m : mat) : page := mkPage m (txt pg) (visible pg) (locked pg) (dirty pg).
Definition set_txt (pg : page) (t : tmat) : page := mkPage (px pg) t (visible pg) (locked pg) (dirty pg).
Definition set_visible_flag (pg : page) (b : bool) : page := mkPage (px pg) (txt pg) b (locked pg) (dirty pg).
Definition set_locked (pg : page) (b : bool) : page := mkPage (px pg) (txt pg) (visible pg) b (dirty pg).
Definition set_dirty (pg : page) (d : list (Z * (Z * Z))) : page :=
  mkPage (px pg) (txt pg) (visible pg) (locked pg) d.

Definition pos (c : cfg) (row col : Z) : Z * Z := vb_text_to_pixel_pos (TW c) (TH c) (fw c) (fh c) row col.
Definition area (c : cfg) (r0 c0 r1 c1 : Z) : Z * Z * Z * Z :=
  vb_text_to_pixel_area (TW c) (TH c) (fw c) (fh c) r0 c0 r1 c1.
Definition text_area (c : cfg) (x0 y0 x1 y1 : Z) : Z * Z * Z * Z :=
  vb_pixel_to_text_area (TW c) (TH c) (fw c) (fh c) x0 y0 x1 y1.

(* VideoBuffer._submit(top, left, bottom, right) *)
Definition submit (c : cfg) (pg : page) (top left bottom right : Z) : list event :=
  if visible pg then
    let '(x0, y0) := pos c top left in
    let '(x1, y1) := pos c (bottom + 1) (right + 1) in
    let h := Z.max 0 (Z.min y1 (PH c) - y0) in
    let w := Z.max 0 (Z.min x1 (PW c) - x0) in
    let m := px pg in
    (* text = [_row[left-1:right] for _row in self._dbcs_text[top-1:bottom]] (list slices clip) *)
    let nr := Z.max 0 (Z.min bottom (TH c) - (top - 1)) in
    let nc := Z.max 0 (Z.min right (TW c) - (left - 1)) in
    let t := txt pg in
    [ESig (SUpdate top left nr nc (fun i j => t (top + i) (left + j)) y0 x0 h w (fun i j => m (y0 + i) (x0 + j)))]
  else [].

Definition resubmit (c : cfg) (pg : page) : list event := submit c pg 1 1 (TH c) (TW c).

(* _draw_text(row, s, row, e): the rendered cells land in the pixel area of the cells *)
Definition draw (c : cfg) (p : nat) (pg : page) (row s e : Z) (img : mat) : page * list event :=
  let '(x0, y0, x1, y1) := area c row s row e in
  (set_px pg (mset c (px pg) y0 (y1 + 1) x0 (x1 + 1) img), [EDraw p row s e]).

(* _update: merge into the dirty rectangle of the row (kept sorted by row, as force_submit iterates) *)
Fixpoint dirty_add (row s e : Z) (d : list (Z * (Z * Z))) : list (Z * (Z * Z)) :=
  match d with
  | [] => [(row, (s, e))]
  | (r, (l, rr)) :: d' =>
      if row =? r then (r, (Z.min s l, Z.max e rr)) :: d'
      else if row <? r then (row, (s, e)) :: d
      else (r, (l, rr)) :: dirty_add row s e d'
  end.

(* _refresh_dbcs(row) inside force_submit: the unicode row is rebuilt from the byte row; the cells that change
   lie inside the range (s, e) it returns (monitored by the harness) *)
Definition refresh_row (pg : page) (r s e : Z) (timg : tmat) : page := set_txt pg (tset (txt pg) r r s e timg).

(* force_submit: for each dirty row in order: _refresh_dbcs (result taken from ws), _draw_text, _submit *)
Fixpoint fs_loop (c : cfg) (p : nat) (pg : page) (d : list (Z * (Z * Z))) (ws : list (Z * Z * Z)) (timg : tmat)
  (img : mat) : page * list event :=
  match d with
  | [] => (pg, match ws with [] => [] | _ => [EBad 1] end)
  | (r, (l, rr)) :: d' =>
      let '(s, e, ws', bad) :=
        match ws with
        | (r2, s2, e2) :: ws' =>
            if (r2 =? r) && (s2 <=? l) && (rr <=? e2) then (s2, e2, ws', []) else (l, rr, ws', [EBad 2])
        | [] => (l, rr, [], [EBad 3])
        end in
      let pg0 := refresh_row pg r s e timg in
      let '(pg1, ev1) := draw c p pg0 r s e img in
      let ev2 := submit c pg1 r s r e in
      let '(pg2, ev3) := fs_loop c p pg1 d' ws' timg img in
      (pg2, bad ++ ev1 ++ ev2 ++ ev3)
  end.

Definition force_submit (c : cfg) (p : nat) (pg : page) (ws : list (Z * Z * Z)) (timg : tmat) (img : mat)
  : page * list event :=
  let '(pg1, ev) := fs_loop c p pg (dirty pg) ws timg img in (set_dirty pg1 [], ev).

(* _PixelAccess.__setitem__: store, then _update_pixels -> text area -> _submit *)
Definition pix_set (c : cfg) (p : nat) (pg : page) (y0 y1 x0 x1 v : Z) (img : mat) : page * list event :=
  let '(row0, col0, row1, col1) := text_area c x0 y0 (x1 - 1) (y1 - 1) in
  (* _clear_text_area (branch without DBCS: pixel writes happen in graphics modes only): cells become blank *)
  let pg1 := set_txt (set_px pg (mset c (px pg) y0 y1 x0 x1 img)) (tset (txt pg) row0 row1 col0 col1 tblank) in
  (pg1, EWrite p y0 y1 x0 x1 v :: submit c pg1 row0 col0 row1 col1).

Definition update (c : cfg) (p : nat) (pg : page) (row s e : Z) (ws : list (Z * Z * Z)) (timg : tmat) (img : mat)
  : page * list event :=
  let pg1 := set_dirty pg (dirty_add row s e (dirty pg)) in
  if locked pg1 then (pg1, match ws with [] => [] | _ => [EBad 4] end) else force_submit c p pg1 ws timg img.

Definition unlock (c : cfg) (p : nat) (pg : page) (ws : list (Z * Z * Z)) (timg : tmat) (img : mat)
  : page * list event :=
  force_submit c p (set_locked pg false) ws timg img.

Definition clear_rows (c : cfg) (p : nat) (pg : page) (start stop back : Z) (ws : list (Z * Z * Z)) (timg : tmat)
  (img : mat) : page * list event :=
  let '(x0, y0, x1, y1) := area c start 1 stop (TW c) in
  let pg1 := set_txt (set_px pg (mset c (px pg) y0 (y1 + 1) x0 (x1 + 1) (fun _ _ => back)))
                     (tset (txt pg) start stop 1 (TW c) tblank) in
  let '(pg2, ev) := force_submit c p pg1 ws timg img in
  (pg2, EWrite p y0 (y1 + 1) x0 (x1 + 1) back :: ev
        ++ (if visible pg2 then [ESig (SClear back start stop)] else [])).

Definition scroll_up (c : cfg) (p : nat) (pg : page) (from to back : Z) (ws : list (Z * Z * Z)) (timg : tmat)
  (img : mat) : page * list event :=
  let '(pg1, ev) := force_submit c p pg ws timg img in
  let sg := if visible pg1 then [ESig (SScroll (-1) from to back)] else [] in
  let '(sx0, sy0, sx1, sy1) := area c (from + 1) 1 to (TW c) in
  let '(tx0, ty0) := pos c from 1 in
  let m1 := mmove c (px pg1) sy0 (sy1 + 1) sx0 (sx1 + 1) ty0 tx0 in
  let '(x0, y0, x1, y1) := area c to 1 to (TW c) in
  let m2 := mset c m1 y0 (y1 + 1) x0 (x1 + 1) (fun _ _ => back) in
  (* _dbcs_text[from-1:to-1] = _dbcs_text[from:to]; _dbcs_text[to-1] = blanks *)
  let t0 := txt pg1 in
  let t1 := tset t0 from (to - 1) 1 (TW c) (fun r col => t0 (r + 1) col) in
  let t2 := tset t1 to to 1 (TW c) tblank in
  (set_txt (set_px pg1 m2) t2,
   ev ++ sg ++ [EMove p sy0 (sy1 + 1) sx0 (sx1 + 1) ty0 tx0; EWrite p y0 (y1 + 1) x0 (x1 + 1) back]).

Definition scroll_down (c : cfg) (p : nat) (pg : page) (from to back : Z) (ws : list (Z * Z * Z)) (timg : tmat)
  (img : mat) : page * list event :=
  let '(pg1, ev) := force_submit c p pg ws timg img in
  let sg := if visible pg1 then [ESig (SScroll 1 from to back)] else [] in
  let '(sx0, sy0, sx1, sy1) := area c from 1 (to - 1) (TW c) in
  let '(tx0, ty0) := pos c (from + 1) 1 in
  let m1 := mmove c (px pg1) sy0 (sy1 + 1) sx0 (sx1 + 1) ty0 tx0 in
  let '(x0, y0, x1, y1) := area c from 1 from (TW c) in
  let m2 := mset c m1 y0 (y1 + 1) x0 (x1 + 1) (fun _ _ => back) in
  (* _dbcs_text[from:to] = _dbcs_text[from-1:to-1]; _dbcs_text[from-1] = blanks *)
  let t0 := txt pg1 in
  let t1 := tset t0 (from + 1) to 1 (TW c) (fun r col => t0 (r - 1) col) in
  let t2 := tset t1 from from 1 (TW c) tblank in
  (set_txt (set_px pg1 m2) t2,
   ev ++ sg ++ [EMove p sy0 (sy1 + 1) sx0 (sx1 + 1) ty0 tx0; EWrite p y0 (y1 + 1) x0 (x1 + 1) back]).

(* VideoBuffer.set_visible *)
Definition set_vis (c : cfg) (pg : page) (b : bool) : page * list event :=
  if Bool.eqb (visible pg) b then (pg, [])
  else let pg1 := set_visible_flag pg b in (pg1, if b then resubmit c pg1 else []).

(* ------------------------------------------------------------------------------------------------ *)
(* the display: pages of the current mode, Display.vpagenum (None while _set_mode is building the pages) *)
Record st := mkSt { scfg : cfg; pages : list page; vis : option nat }.

Inductive op :=
| OPixSet (p : nat) (y0 y1 x0 x1 v : Z) (img : mat)
| OUpdate (p : nat) (row s e : Z) (ws : list (Z * Z * Z)) (timg : tmat) (img : mat)
| OLock (p : nat)
| OUnlock (p : nat) (ws : list (Z * Z * Z)) (timg : tmat) (img : mat)
| OClearRows (p : nat) (start stop back : Z) (ws : list (Z * Z * Z)) (timg : tmat) (img : mat)
| OScrollUp (p : nat) (from to back : Z) (ws : list (Z * Z * Z)) (timg : tmat) (img : mat)
| OScrollDown (p : nat) (from to back : Z) (ws : list (Z * Z * Z)) (timg : tmat) (img : mat)
| OCopyFrom (dst src : nat)
| OSetPage (v : nat)
| OSetMode (c : cfg) (n : nat)
| ORebuild.

Fixpoint upd_nth {A} (n : nat) (f : A -> A) (l : list A) : list A :=
  match l, n with
  | [], _ => []
  | a :: r, O => f a :: r
  | a :: r, S k => a :: upd_nth k f r
  end.

Definition blank_page : page := mkPage zimg tblank false false [].
Definition default_page : page := blank_page.
Definition get_page (s : st) (p : nat) : page := nth p (pages s) default_page.
Definition put_page (s : st) (p : nat) (pg : page) : st := mkSt (scfg s) (upd_nth p (fun _ => pg) (pages s)) (vis s).

Definition on_page (s : st) (p : nat) (f : page -> page * list event) : st * list event :=
  let '(pg, ev) := f (get_page s p) in (put_page s p pg, ev).

Fixpoint resubmit_all (c : cfg) (l : list page) : list event :=
  match l with
  | [] => []
  | pg :: r => resubmit c pg ++ resubmit_all c r
  end.

Definition step (s : st) (o : op) : st * list event :=
  let c := scfg s in
  match o with
  | OPixSet p y0 y1 x0 x1 v img => on_page s p (fun pg => pix_set c p pg y0 y1 x0 x1 v img)
  | OUpdate p row a b ws timg img => on_page s p (fun pg => update c p pg row a b ws timg img)
  | OLock p => on_page s p (fun pg => (set_locked pg true, []))
  | OUnlock p ws timg img => on_page s p (fun pg => unlock c p pg ws timg img)
  | OClearRows p a b back ws timg img => on_page s p (fun pg => clear_rows c p pg a b back ws timg img)
  | OScrollUp p a b back ws timg img => on_page s p (fun pg => scroll_up c p pg a b back ws timg img)
  | OScrollDown p a b back ws timg img => on_page s p (fun pg => scroll_down c p pg a b back ws timg img)
  | OCopyFrom dst src =>
      (* copy_from: self._pixels[:, :] = src._pixels ; resubmit *)
      let m := px (get_page s src) in
      let t := txt (get_page s src) in
      on_page s dst (fun pg =>
        let pg1 := set_txt (set_px pg (mset c (px pg) 0 (PH c) 0 (PW c) m)) t in
        (pg1, EWrite dst 0 (PH c) 0 (PW c) (-1) :: resubmit c pg1))
  | OSetPage v =>
      (* Display.set_page: pages[vpagenum].set_visible(False); pages[new].set_visible(True) *)
      let '(s1, ev1) := match vis s with
                        | Some o => on_page s o (fun pg => set_vis c pg false)
                        | None => (s, [])
                        end in
      let '(s2, ev2) := on_page s1 v (fun pg => set_vis c pg true) in
      (mkSt (scfg s2) (pages s2) (Some v), ev1 ++ ev2)
  | OSetMode c' n =>
      (* Display._set_mode: fresh zero pages, none visible yet, SET_MODE signal *)
      (mkSt c' (repeat blank_page n) None, [ESig (SSetMode (PH c') (PW c') (TH c') (TW c'))])
  | ORebuild =>
      (s, ESig (SSetMode (PH c) (PW c) (TH c) (TW c)) :: resubmit_all c (pages s))
  end.

Fixpoint run (s : st) (ops : list op) : st * list event :=
  match ops with
  | [] => (s, [])
  | o :: r => let '(s1, ev1) := step s o in let '(s2, ev2) := run s1 r in (s2, ev1 ++ ev2)
  end.

(* ------------------------------------------------------------------------------------------------ *)
(* envelope: the argument ranges the display code relies on (and the theorems assume) *)
Definition in_rows (c : cfg) (a b : Z) : bool := (1 <=? a) && (a <=? b) && (b <=? TH c).
Definition in_cols (c : cfg) (a b : Z) : bool := (1 <=? a) && (a <=? b) && (b <=? TW c).
Definition ws_okb (c : cfg) (ws : list (Z * Z * Z)) : bool :=
  forallb (fun t => let '(r, a, b) := t in in_rows c r r && in_cols c a b) ws.
Definition no_dirty_in (d : list (Z * (Z * Z))) (a b : Z) : bool :=
  forallb (fun t => negb ((a <=? fst t) && (fst t <=? b))) d.
Definition has_page (s : st) (p : nat) : bool := Nat.ltb p (length (pages s)).

Definition op_okb (s : st) (o : op) : bool :=
  let c := scfg s in
  match o with
  | OPixSet p y0 y1 x0 x1 _ _ =>
      (* an empty rectangle is what GraphicsViewPort hands over for a point outside the viewport *)
      has_page s p && (0 <=? y0) && (y0 <=? y1) && (y1 <=? PH c) && (0 <=? x0) && (x0 <=? x1) && (x1 <=? PW c)
  | OUpdate p row a b ws _ _ => has_page s p && in_rows c row row && in_cols c a b && ws_okb c ws
  | OLock p => has_page s p && negb (locked (get_page s p))
  | OUnlock p ws _ _ => has_page s p && locked (get_page s p) && ws_okb c ws
  | OClearRows p a b _ ws _ _ =>
      (* clear_rows is never called inside collect_updates() (checked on the call graph of textscreen.py by
         gen_signals); with the state invariant `unlocked -> no dirty rows` this gives: no pending dirty text row *)
      has_page s p && in_rows c a b && ws_okb c ws && negb (locked (get_page s p))
  | OScrollUp p a b _ ws _ _ => has_page s p && in_rows c a b && (b * fh c <=? PH c) && ws_okb c ws
  | OScrollDown p a b _ ws _ _ =>
      (* from = to + 1 (nothing moves, row `from` is blanked) is what textscreen.line_feed asks for when the
         cursor sits below the scroll area (LOCATE 25,1 with KEY OFF, then Ctrl+J) *)
      has_page s p && (1 <=? a) && (a <=? b + 1) && (a <=? TH c) && (b <=? TH c) && (b * fh c <=? PH c)
      && ws_okb c ws
  | OCopyFrom dst src => has_page s dst && has_page s src
  | OSetPage v => has_page s v
  | OSetMode c' n => cfg_okb c' && Nat.ltb 0 n
  | ORebuild => true
  end.

Fixpoint ops_okb (s : st) (ops : list op) : bool :=
  match ops with
  | [] => true
  | o :: r => op_okb s o && ops_okb (fst (step s o)) r
  end.

(* ------------------------------------------------------------------------------------------------ *)
(* VideoBuffer._refresh_dbcs, the range computation: the unicode row `o` is replaced by the freshly converted row
   `n`; updated = [old != new ...]; start = updated.index(True) + 1; stop = len(updated) - updated[::-1].index(True)
   (ValueError: start, stop = len(updated), 0); then start, stop = min(start, orig_start), max(stop, orig_stop).
   Cells are compared through their codes. *)
Fixpoint updated (o n : list Z) : list bool :=
  match o, n with
  | a :: o', b :: n' => negb (a =? b) :: updated o' n'
  | _, _ => []
  end.

Fixpoint first_true (l : list bool) (i : Z) : option Z :=
  match l with
  | [] => None
  | b :: r => if b then Some i else first_true r (i + 1)
  end.

Fixpoint last_true (l : list bool) (i : Z) : option Z :=
  match l with
  | [] => None
  | b :: r => match last_true r (i + 1) with
              | Some j => Some j
              | None => if b then Some i else None
              end
  end.

Definition refresh_range (o n : list Z) (os oe : Z) : Z * Z :=
  let u := updated o n in
  let '(s, e) := match first_true u 1, last_true u 1 with
                 | Some f, Some l => (f, l)
                 | _, _ => (zlen u, 0)
                 end in
  (Z.min s os, Z.max e oe).

Definition row_fn (l : list Z) : Z -> Z := fun col => nth (Z.to_nat (col - 1)) l blank.
Definition enc_range (r : Z * Z) : list Z := [fst r; snd r].

(* ------------------------------------------------------------------------------------------------ *)
(* callers: TextScreen's scroll area (class ScrollArea, view_print_ in display/textscreen.py) - the source of
   the row arguments of clear_view / scroll / scroll_down.  Hand model; gen_signals checks (fail closed) that
   set/unset/init_mode/view_print_ and the call sites still have exactly this shape. *)
Record sarea := mkSa { sa_top : Z; sa_bottom : Z; sa_height : Z }.

Inductive sa_op :=
| SaUnset                                  (* VIEW PRINT *)
| SaViewPrint (start stop : Z) (tandy_nobar : bool)   (* VIEW PRINT start TO stop; max_line = 25 iff tandy/pcjr without key bar *)
| SaInitMode (h : Z).                      (* mode switch *)

Definition sa_unset (a : sarea) : sarea := mkSa 1 (sa_height a - 1) (sa_height a).

Definition sa_step (a : sarea) (o : sa_op) : sarea :=
  match o with
  | SaUnset => sa_unset a
  | SaViewPrint start stop tandy_nobar =>
      let max_line := if tandy_nobar then 25 else 24 in
      (* error.range_check(1, max_line, start, stop); error.throw_if(stop < start): on error nothing changes *)
      if (1 <=? start) && (start <=? max_line) && (1 <=? stop) && (stop <=? max_line) && (start <=? stop)
      then mkSa start stop (sa_height a) else a
  | SaInitMode h =>
      if sa_bottom a =? h then mkSa 1 h h else sa_unset (mkSa (sa_top a) (sa_bottom a) h)
  end.

(* ------------------------------------------------------------------------------------------------ *)
(* the reference consumer: interface/video_sdl2.py set_mode / update / clear_rows / scroll *)
Record cons := mkCons { cPH : Z; cPW : Z; cTH : Z; cTW : Z; cfh : Z; cfw : Z; canvas : mat; ctext : tmat }.

Definition set_canvas (k : cons) (m : mat) : cons :=
  mkCons (cPH k) (cPW k) (cTH k) (cTW k) (cfh k) (cfw k) m (ctext k).
Definition set_ctext (k : cons) (t : tmat) : cons :=
  mkCons (cPH k) (cPW k) (cTH k) (cTW k) (cfh k) (cfw k) (canvas k) t.

(* a slice assignment on the canvas clips to the canvas *)
Definition cset (k : cons) (y0 y1 x0 x1 : Z) (img : mat) : mat :=
  fun y x => if inrect y0 y1 x0 x1 y x && inrect 0 (cPH k) 0 (cPW k) y x then img y x else canvas k y x.

Definition consume1 (k : cons) (s : signal) : cons :=
  match s with
  | SSetMode ph pw th tw =>
      (* a new zeroed surface; font size derived from the four numbers *)
      let '(fh_, fw_) := sdl_font_size 0 0 ph pw th tw in mkCons ph pw th tw fh_ fw_ zimg tblank
  | SUpdate tr tc nr nc tdata y0 x0 h w data =>
      (* clip the sprite to the canvas, blit at (y0, x0) *)
      let clip := (y0 + h >? cPH k) || (x0 + w >? cPW k) in
      let h' := if clip then Z.min h (cPH k - y0) else h in
      let w' := if clip then Z.min w (cPW k - x0) else w in
      (* text consumers store the unicode cells they are sent at (top, left) *)
      let t := tset (ctext k) tr (tr + nr - 1) tc (tc + nc - 1) (fun r col => tdata (r - tr) (col - tc)) in
      set_ctext (set_canvas k (cset k y0 (y0 + h') x0 (x0 + w') (fun y x => data (y - y0) (x - x0)))) t
  | SClear back start stop =>
      set_ctext (set_canvas k (cset k ((start - 1) * cfh k) (stop * cfh k) 0 (cPW k) (fun _ _ => back)))
                (tset (ctext k) start stop 1 (cTW k) tblank)
  | SScroll dir from to back =>
      let '(hi0, hi1, lo0, lo1) := sdl_scroll_bands (cfh k) from to in
      let old := canvas k in
      let t0 := ctext k in
      if dir =? -1 then
        let k1 := set_canvas k (cset k hi0 hi1 0 (cPW k) (fun y x => old (y - hi0 + lo0) x)) in
        let t1 := tset t0 from (to - 1) 1 (cTW k) (fun r col => t0 (r + 1) col) in
        set_ctext (set_canvas k1 (cset k1 hi1 lo1 0 (cPW k) (fun _ _ => back))) (tset t1 to to 1 (cTW k) tblank)
      else
        let k1 := set_canvas k (cset k lo0 lo1 0 (cPW k) (fun y x => old (y - lo0 + hi0) x)) in
        let t1 := tset t0 (from + 1) to 1 (cTW k) (fun r col => t0 (r - 1) col) in
        set_ctext (set_canvas k1 (cset k1 hi0 lo0 0 (cPW k) (fun _ _ => back))) (tset t1 from from 1 (cTW k) tblank)
  end.

Definition consume (k : cons) (l : list signal) : cons := fold_left consume1 l k.

Definition cons0 : cons := mkCons 0 0 0 0 0 0 zimg tblank.

(* ------------------------------------------------------------------------------------------------ *)
(* encodings for the correspondence harness *)
Definition zn (n : nat) : Z := Z.of_nat n.

Definition enc_event (e : event) : list Z :=
  match e with
  | EWrite p y0 y1 x0 x1 v => [1; zn p; y0; y1; x0; x1; v]
  | EMove p a b c d e f => [2; zn p; a; b; c; d; e; f]
  | ESig (SUpdate tr tc nr nc _ y0 x0 h w _) => [3; 1; y0; x0; h; w; tr; tc; nr; nc]
  | ESig (SClear back a b) => [3; 2; back; a; b]
  | ESig (SScroll d a b back) => [3; 3; d; a; b; back]
  | ESig (SSetMode a b c d) => [3; 4; a; b; c; d]
  | EDraw p row a b => [4; zn p; row; a; b]
  | EBad k => [9; k]
  end.

Definition enc_page (pg : page) : list Z :=
  [b2z (visible pg); b2z (locked pg); zlen (dirty pg)].

Definition enc_state (s : st) : list Z :=
  zlen (pages s) :: (match vis s with Some v => zn v + 1 | None => 0 end) :: flat_map enc_page (pages s).

(* run with the envelope check made visible: an op outside it is reported as EBad 10 and still executed *)
Fixpoint run_checked (s : st) (ops : list op) : st * list event :=
  match ops with
  | [] => (s, [])
  | o :: r =>
      let bad := if op_okb s o then [] else [EBad 10] in
      let '(s1, ev1) := step s o in
      let '(s2, ev2) := run_checked s1 r in (s2, bad ++ ev1 ++ ev2)
  end.

Definition init_st (c : cfg) (n v : nat) : st :=
  mkSt c (upd_nth v (fun pg => set_visible_flag pg true) (repeat blank_page n)) (Some v).

(* what the harness compares: events ++ [-1] ++ final page flags; with_state = false after a host crash *)
Definition run_enc (c : cfg) (n v : nat) (with_state : bool) (ops : list op) : list Z :=
  let '(s, ev) := run_checked (init_st c n v) ops in
  flat_map enc_event ev ++ (if with_state then -1 :: enc_state s else [-2]).

(* ------------------------------------------------------------------------------------------------ *)
(* sampling the two sides (examples, refutations) *)
Definition visible_px (s : st) : option mat :=
  match vis s with Some v => Some (px (get_page s v)) | None => None end.

Fixpoint zrange (a : Z) (n : nat) : list Z := match n with O => [] | S k => a :: zrange (a + 1) k end.

Definition sample (m : mat) (h w : nat) : list (list Z) :=
  map (fun y => map (fun x => m y x) (zrange 0 w)) (zrange 0 h).
Definition tsample (t : tmat) (h w : nat) : list (list Z) :=
  map (fun r => map (fun col => t r col) (zrange 1 w)) (zrange 1 h).
Definition visible_txt (s : st) : option tmat :=
  match vis s with Some v => Some (txt (get_page s v)) | None => None end.
