(* C33: model of the DRAW statement (display/graphics.py: Graphics.draw_, _draw, _draw_step) and of the
   macro-language reader it uses (mlparser.py: MLParser on top of base/codestream.py).

   Layers
     1. command AST `cmd` and the interpreter `exec`/`run`/`draw` (mirrors _draw/_draw_step; the direction
        table, the `scale*d quot 4` scaling, the rotation tests, the range limits and the error numbers are
        the regenerated definitions of gen/Gen_draw.v);
     2. the reader `parse` from the bytes of a DRAW string to `list cmd` (mirrors the character loop of _draw
        with MLParser.parse_number / parse_string / _parse_variable / _parse_literal and
        CodeStream.skip_blank / read_name / require_read); malformed text becomes a `Fail e` node at the
        place where the real code raises, so that `draw_string = draw o parse`;
     3. the position-free specification (`plan`, `pen_after`, `segs_of`) used by the theorems;
     4. a concrete syntax `ccmd` (every spacing / case / sign / leading-zero / `=var;` / omitted-count variant
        the reader accepts) with its printer, for the printer-parser theorem.
   Angles: A n and TA 0/90/180/270/360 are followed exactly.  The quarter turns are NOT plain integer
   rotations in the code: they scale by the pixel aspect ratio through doubles,
       90:  x' = int(y*yfac), y' = -int(x//yfac)      270: x' = -int(y*yfac), y' = int(x//yfac)
   with yfac = float(aspect[1])/float(aspect[0]); section 0 models these double operations exactly on
   integers (correctly rounded division and product, Python's float floor division = exact floor).
   Outside the model (status `Excluded`): every other TA angle (sin/cos), P while a WINDOW is active
   (coordinates go through floats), array elements whose index is itself an array element.
   No proofs in this file. *)
From Coq Require Import ZArith List Bool.
From PCB Require Import lib.Result lib.PyInt lib.Harness gen.Gen_draw.
Import ListNotations.
Open Scope Z_scope.

(* ------------------------------------------------------------------------------------------------ *)
(** * 0. The double-precision operations of the quarter turns, on integers *)

(* a positive double as mant * 2^ex *)
Definition dy := (Z * Z)%type.

(* round the non-negative integer a (sticky: a nonzero part was already cut off below it) to 53 significant
   bits, ties to even: (mant, shift) with value mant * 2^shift *)
Definition round53 (a : Z) (sticky : bool) : Z * Z :=
  let bits := if a =? 0 then 0 else Z.log2 a + 1 in
  if bits <=? 53 then (a, 0)
  else
    let sh := bits - 53 in
    let hi := Z.shiftr a sh in
    let lo := Z.land a (Z.ones sh) in
    let half := 2 ^ (sh - 1) in
    let up := (half <? lo) || ((lo =? half) && (sticky || Z.odd hi)) in
    (if up then hi + 1 else hi, sh).

(* float(p) / float(q) for positive integers below 2^53: the correctly rounded quotient *)
Definition fdiv (p q : Z) : dy :=
  let s := Z.max 0 (56 + Z.log2 q - Z.log2 p) in
  let nn := p * 2 ^ s in
  let '(mant, sh) := round53 (nn / q) (negb (nn mod q =? 0)) in
  (mant, sh - s).

(* int(v * d) for an integer v (|v| < 2^53): correctly rounded product, truncated toward zero *)
Definition mul_trunc (v : Z) (d : dy) : Z :=
  let '(mant, sh) := round53 (Z.abs v * fst d) false in
  let e := sh + snd d in
  let r := if 0 <=? e then mant * 2 ^ e else Z.shiftr mant (- e) in
  if v <? 0 then - r else r.

(* int(v // d): Python's float floor division is the exact floor of the real quotient (for these sizes) *)
Definition floor_div (v : Z) (d : dy) : Z :=
  if snd d <? 0 then (v * 2 ^ (- snd d)) / fst d else v / (fst d * 2 ^ snd d).

(* yfac of _draw_step from aspect = (pixel_height * screen_aspect[0], pixel_width * screen_aspect[1]) *)
Definition yfac (asp : Z * Z) : dy := fdiv (snd asp) (fst asp).

(* ------------------------------------------------------------------------------------------------ *)
(** * 1. Commands and their interpreter *)

Definition pt := (Z * Z)%type.
Definition padd (p q : pt) : pt := (fst p + fst q, snd p + snd q).

Inductive dir := DU | DD | DL | DR | DE | DF | DG | DH.

(* the (upper-cased) command letter *)
Definition dir_byte (d : dir) : Z :=
  match d with DU => 85 | DD => 68 | DL => 76 | DR => 82 | DE => 69 | DF => 70 | DG => 71 | DH => 72 end.

Inductive cmd :=
| Move (d : dir) (n : Z)             (* U D L R E F G H with count n *)
| MRel (x y : Z)                     (* M+x,y / M-x,y *)
| MAbs (x y : Z)                     (* Mx,y *)
| PreB                               (* B: the next move does not draw *)
| PreN                               (* N: the next move returns to its start *)
| SetScale (n : Z)                   (* S n *)
| SetColour (n : Z)                  (* C n  (and "C;" = C0) *)
| SetAngle (n : Z)                   (* A n : angle 90*n *)
| TurnAngle (n : Z)                  (* TA n *)
| Sub (name : list Z) (body : list cmd)   (* X name; : the commands of the string variable *)
| Paint (f b : Z)                    (* P fill,border : flood fill from the pen position *)
| Fail (e : Z)                       (* malformed text: BASIC error e is raised here *)
| Unsupported.                       (* nested array indices: not modelled *)

(* a request to Graphics._draw_line(x0, y0, x1, y1, attr) *)
Record seg := mkseg { s_from : pt; s_to : pt; s_attr : Z }.

(* what DRAW asks of the rest of the graphics code, in order: lines, and flood fills
   (Graphics._flood_fill from the seed point with a fill and a border attribute) *)
Inductive req := RLine (s : seg) | RPaint (seed : pt) (fill border : Z).

Inductive status := Done | Raised (e : Z) | Excluded.

(* the part of the Graphics object DRAW reads and writes *)
Record dstate := mkD {
  d_pen : pt;          (* _draw_current *)
  d_last : pt;         (* _last_point *)
  d_window : bool;     (* _window_bounds is not None *)
  d_scale : Z;         (* _draw_scale *)
  d_angle : Z;         (* _draw_angle *)
  d_attr : Z;          (* _last_attr *)
  d_nattr : Z;         (* _num_attr: number of attributes of the mode *)
  d_aspect : Z * Z;    (* (pixel_height * screen_aspect[0], pixel_width * screen_aspect[1]) *)
  d_outcomes : list Z  (* what the flood fills of the P commands will find, an input of the model:
                          0 seed outside the viewport, 1 seed on the border colour, 2 filled *)
}.

Definition set_pen (st : dstate) (p : pt) : dstate :=
  mkD p (d_last st) (d_window st) (d_scale st) (d_angle st) (d_attr st) (d_nattr st) (d_aspect st) (d_outcomes st).
Definition set_scale (st : dstate) (n : Z) : dstate :=
  mkD (d_pen st) (d_last st) (d_window st) n (d_angle st) (d_attr st) (d_nattr st) (d_aspect st) (d_outcomes st).
Definition set_angle (st : dstate) (n : Z) : dstate :=
  mkD (d_pen st) (d_last st) (d_window st) (d_scale st) n (d_attr st) (d_nattr st) (d_aspect st) (d_outcomes st).
Definition set_attr (st : dstate) (n : Z) : dstate :=
  mkD (d_pen st) (d_last st) (d_window st) (d_scale st) (d_angle st) n (d_nattr st) (d_aspect st) (d_outcomes st).

Definition set_last (st : dstate) (p : pt) : dstate :=
  mkD (d_pen st) p (d_window st) (d_scale st) (d_angle st) (d_attr st) (d_nattr st) (d_aspect st) (d_outcomes st).
Definition set_outcomes (st : dstate) (os : list Z) : dstate :=
  mkD (d_pen st) (d_last st) (d_window st) (d_scale st) (d_angle st) (d_attr st) (d_nattr st) (d_aspect st) os.

(* end of _draw: `if self._window_bounds is None: self._last_point = self._draw_current` *)
Definition finish (st : dstate) : dstate :=
  if d_window st then st
  else mkD (d_pen st) (d_pen st) (d_window st) (d_scale st) (d_angle st) (d_attr st) (d_nattr st) (d_aspect st) (d_outcomes st).

(* plot, goback: locals of one _draw activation *)
Definition flags := (bool * bool)%type.
Definition fresh : flags := (true, false).

Definition in_range (r : Z * Z) (v : Z) : bool := (fst r <=? v) && (v <=? snd r).

(* unscaled offset of a one-letter move (regenerated direction table) *)
Definition dir_offset (d : dir) (n : Z) : pt := draw_dir_offset (dir_byte d) n.

(* _draw_step up to the rotation: scaled and rotated offset; None = an angle that goes through sin/cos *)
Definition offset (st : dstate) (v : pt) : option pt :=
  let '(x1, y1) := draw_scaled (d_scale st) (fst v) (snd v) in
  let yf := yfac (d_aspect st) in
  if draw_rotate_none (d_angle st) then Some (x1, y1)
  else if d_angle st =? 90 then Some (mul_trunc y1 yf, - floor_div x1 yf)
  else if draw_rotate_half (d_angle st) then Some (draw_rotated_half x1 y1)
  else if d_angle st =? 270 then Some (- mul_trunc y1 yf, floor_div x1 yf)
  else None.

(* the common tail of _draw_step and of the absolute M: draw if plot, move unless goback *)
Definition step (st : dstate) (fl : flags) (p1 : pt) : dstate * list req :=
  let p0 := d_pen st in
  (set_pen st (if snd fl then p0 else p1), if fst fl then [RLine (mkseg p0 p1 (d_attr st))] else []).

Definition rel_move (st : dstate) (fl : flags) (v : pt) : flags * dstate * list req * status :=
  match offset st v with
  | Some o =>
      let p0 := d_pen st in
      let '(st', sg) := step st fl (draw_endpoint (fst p0) (snd p0) (fst o) (snd o)) in
      (fresh, st', sg, Done)
  | None => (fl, st, [], Excluded)
  end.

Definition raise_ifc (fl : flags) (st : dstate) : flags * dstate * list req * status :=
  (fl, st, [], Raised draw_IFC).

(* _get_attr_index for the numbers of P (0..9999, so never the -1 that means "foreground") *)
Definition attr_index (na i : Z) : Z := if i =? 0 then 0 else draw_attr_index na i.

(* _get_window_physical without WINDOW: the coordinates must fit 16 bits *)
Definition in_int16 (v : Z) : bool := (-32768 <=? v) && (v <=? 32767).

(* P fill,border: a flood fill request at the pen; the prefixes B/N are not touched.  What the fill finds
   decides what it leaves behind: nothing (seed outside the viewport), the last point (seed on the border
   colour), or the last point and the fill colour as the new current colour *)
Definition paint (st : dstate) (fl : flags) (f b : Z) : flags * dstate * list req * status :=
  if d_window st then (fl, st, [], Excluded)
  else if in_int16 (fst (d_pen st)) && in_int16 (snd (d_pen st)) then
    let fa := attr_index (d_nattr st) f in
    let ba := attr_index (d_nattr st) b in
    match d_outcomes st with
    | [] => (fl, st, [], Excluded)
    | o :: os =>
        let st1 := set_outcomes st os in
        let st2 := if o =? 0 then st1
                   else if o =? 1 then set_last st1 (d_pen st)
                   else set_attr (set_last st1 (d_pen st)) fa in
        (fl, st2, [RPaint (d_pen st) fa ba], Done)
    end
  else (fl, st, [], Raised draw_OVERFLOW).

Fixpoint exec (c : cmd) (fl : flags) (st : dstate) {struct c} : flags * dstate * list req * status :=
  match c with
  | Move d n =>
      if in_range draw_range_step n then rel_move st fl (dir_offset d n) else raise_ifc fl st
  | MRel x y =>
      if in_range draw_range_x x && in_range draw_range_y y then rel_move st fl (x, y) else raise_ifc fl st
  | MAbs x y =>
      if in_range draw_range_x x && in_range draw_range_y y then
        let '(st', sg) := step st fl (x, y) in (fresh, st', sg, Done)
      else raise_ifc fl st
  | PreB => ((false, snd fl), st, [], Done)
  | PreN => ((fst fl, true), st, [], Done)
  | SetScale n => if in_range draw_range_scale n then (fl, set_scale st n, [], Done) else raise_ifc fl st
  | SetColour n =>
      (* range-checked, then clamped to the attributes of the mode (regenerated expression) *)
      if in_range draw_range_attr n then (fl, set_attr st (draw_colour (d_nattr st) n), [], Done)
      else raise_ifc fl st
  | SetAngle n =>
      if in_range draw_range_angle_a n then (fl, set_angle st (90 * n), [], Done) else raise_ifc fl st
  | TurnAngle n =>
      if in_range draw_range_angle_ta n then (fl, set_angle st n, [], Done) else raise_ifc fl st
  | Sub _ body =>
      (* self._draw(sub): a new activation with its own plot/goback; the caller's flags are untouched *)
      let '(st', sg, stat) :=
        (fix go (l : list cmd) (fl : flags) (st : dstate) {struct l} : dstate * list req * status :=
           match l with
           | [] => (st, [], Done)
           | c :: r =>
               let '(fl', st', sg, stat) := exec c fl st in
               match stat with
               | Done => let '(st'', sg', stat') := go r fl' st' in (st'', sg ++ sg', stat')
               | _ => (st', sg, stat)
               end
           end) body fresh st in
      match stat with
      | Done => (fl, finish st', sg, Done)
      | _ => (fl, st', sg, stat)
      end
  | Paint f b =>
      if in_range draw_range_fill f && in_range draw_range_border b then paint st fl f b else raise_ifc fl st
  | Fail e => (fl, st, [], Raised e)
  | Unsupported => (fl, st, [], Excluded)
  end.

(* the command loop of one activation *)
Fixpoint run (l : list cmd) (fl : flags) (st : dstate) {struct l} : dstate * list req * status :=
  match l with
  | [] => (st, [], Done)
  | c :: r =>
      let '(fl', st', sg, stat) := exec c fl st in
      match stat with
      | Done => let '(st'', sg', stat') := run r fl' st' in (st'', sg ++ sg', stat')
      | _ => (st', sg, stat)
      end
  end.

(* the Graphics object between statements *)
Record gstate := mkG {
  g_cur : option pt;   (* _draw_current (None after reset and after every non-DRAW graphics statement) *)
  g_last : pt;
  g_window : bool;
  g_scale : Z;
  g_angle : Z;
  g_attr : Z;
  g_text : bool;       (* _mode.is_text_mode *)
  g_nattr : Z;         (* _num_attr *)
  g_aspect : Z * Z;
  g_outcomes : list Z
}.

Definition current (g : gstate) : pt := match g_cur g with Some p => p | None => g_last g end.

(* draw_ + the outermost _draw *)
Definition draw (g : gstate) (cmds : list cmd) : gstate * list req * status :=
  if g_text g then (g, [], Raised draw_IFC)
  else
    let '(st, sg, stat) :=
      run cmds fresh (mkD (current g) (g_last g) (g_window g) (g_scale g) (g_angle g) (g_attr g) (g_nattr g)
                          (g_aspect g) (g_outcomes g)) in
    let st' := match stat with Done => finish st | _ => st end in
    (mkG (Some (d_pen st')) (d_last st') (d_window st') (d_scale st') (d_angle st') (d_attr st') false
         (d_nattr st') (d_aspect st') (d_outcomes st'), sg, stat).

Definition dr_state (r : gstate * list req * status) : gstate := fst (fst r).
Definition dr_reqs (r : gstate * list req * status) : list req := snd (fst r).
Definition dr_status (r : gstate * list req * status) : status := snd r.

(* histories: DRAW statements, with WINDOW switched on or off in between (window_ / _unset_window change the
   logical coordinate system only: _draw_current, _last_point, scale, angle and colour are not touched) *)
Inductive stmt := SDraw (cmds : list cmd) | SWindow (on : bool).

Definition set_window (g : gstate) (b : bool) : gstate :=
  mkG (g_cur g) (g_last g) b (g_scale g) (g_angle g) (g_attr g) (g_text g) (g_nattr g) (g_aspect g) (g_outcomes g).

Definition do_stmt (g : gstate) (s : stmt) : gstate :=
  match s with
  | SDraw cmds => fst (fst (draw g cmds))
  | SWindow b => set_window g b
  end.

Definition history (g : gstate) (ss : list stmt) : gstate := fold_left do_stmt ss g.

(* point_ with one argument 0 or 1: `current = self._draw_current or self._last_point; current[fn]`
   (the value is then wrapped in a Single: exact for |v| <= 2^24) *)
Definition point_fn (g : gstate) (fn : Z) : Z := if fn =? 0 then fst (current g) else snd (current g).

(* ------------------------------------------------------------------------------------------------ *)
(** * 2. The macro-language reader *)

(* scalars are keyed by their name (upper case, with the type character if one was written); arrays by
   name ++ "(" with their maximum indices and the cells that are not 0 / ""; VARPTR$ references by
   0 :: the three bytes *)
Inductive value :=
| VNum (z : Z)
| VStr (s : list Z)
| VArr (dims : list Z) (cells : list (list Z * value)).
Definition env := list (list Z * value).

Definition memb (c : Z) (l : list Z) : bool := existsb (Z.eqb c) l.
Definition is_blank (c : Z) : bool := memb c ml_blanks.
Definition is_digit (c : Z) : bool := memb c ml_digits.
Definition is_letter (c : Z) : bool := memb c ml_letters.
Definition is_name_char (c : Z) : bool := memb c ml_name_chars.
Definition is_sigil (c : Z) : bool := memb c ml_sigils.
(* bytes.upper() *)
Definition upper (c : Z) : Z := if (97 <=? c) && (c <=? 122) then c - 32 else c.

Fixpoint lookup (e : env) (name : list Z) : option value :=
  match e with
  | [] => None
  | (k, v) :: r => if list_Z_eqb k name then Some v else lookup r name
  end.

(* memory.view_or_create_variable: an unset variable reads as 0 or "" *)
Definition var_value (e : env) (name : list Z) : value :=
  match lookup e name with
  | Some v => v
  | None => if (List.last name 0 =? 36) then VStr [] else VNum 0
  end.

Fixpoint skip_blank (s : list Z) : list Z :=
  match s with
  | c :: r => if is_blank c then skip_blank r else s
  | [] => []
  end.

(* MLParser._parse_literal: `while self.skip_blank() in DIGITS: digits.append(self.read(1))` *)
Fixpoint lit (acc : Z) (s : list Z) : Z * list Z :=
  match s with
  | c :: r => if is_blank c then lit acc r
              else if is_digit c then lit (10 * acc + (c - 48)) r
              else (acc, s)
  | [] => (acc, [])
  end.

Fixpoint take_name (s : list Z) : list Z * list Z :=
  match s with
  | c :: r => if is_name_char c then let '(n, r') := take_name r in (c :: n, r') else ([], s)
  | [] => ([], [])
  end.

(* CodeStream.read_name: None = no name here (b'') *)
Definition read_name (s : list Z) : option (list Z * list Z) :=
  match skip_blank s with
  | c :: r =>
      if is_letter c then
        let '(n, r1) := take_name (c :: r) in
        let n40 := firstn 40 n in
        match r1 with
        | g :: r2 => if is_sigil g then Some (map upper (n40 ++ [g]), r2) else Some (map upper n40, r1)
        | [] => Some (map upper n40, [])
        end
      else None
  | [] => None
  end.

Inductive pres (A : Type) := POk (a : A) (rest : list Z) | PErr (e : Z) | PUnsup.
Arguments POk {A} a rest.
Arguments PErr {A} e.
Arguments PUnsup {A}.

(* an array index inside a macro-language string: a literal or a scalar variable (to_int of its value) *)
Definition parse_index (e : env) (s : list Z) : pres Z :=
  match skip_blank s with
  | c :: r =>
      if is_digit c then let '(v, r') := lit 0 (c :: r) in POk v r'
      else
        match read_name (c :: r) with
        | None => PErr draw_IFC
        | Some (name, r1) =>
            match skip_blank r1 with
            | c1 :: r2 =>
                if (c1 =? 91) || (c1 =? 40) then PUnsup      (* an array element as index: not modelled *)
                else match var_value e name with
                     | VNum v => POk v (c1 :: r2)
                     | _ => PErr draw_TYPE_MISMATCH
                     end
            | [] => match var_value e name with
                    | VNum v => POk v []
                    | _ => PErr draw_TYPE_MISMATCH
                    end
            end
        end
  | [] => PErr draw_IFC
  end.

(* MLParser._parse_indices after the opening bracket: indices separated by commas, then ] or ) *)
Fixpoint parse_indices (e : env) (fuel : nat) (s : list Z) {struct fuel} : pres (list Z) :=
  match fuel with
  | O => PUnsup
  | S f =>
      match parse_index e s with
      | POk v r =>
          match skip_blank r with
          | c :: r' =>
              if c =? 44 then
                match parse_indices e f r' with
                | POk l r'' => POk (v :: l) r''
                | PErr x => PErr x
                | PUnsup => PUnsup
                end
              else if (c =? 93) || (c =? 41) then POk [v] r'
              else PErr draw_STX
          | [] => PErr draw_STX
          end
      | PErr x => PErr x
      | PUnsup => PUnsup
      end
  end.

(* Arrays.check_dim + get: an array that was never dimensioned has maximum index 10 in every dimension *)
Fixpoint check_idx (idx dims : list Z) : option Z :=
  match idx, dims with
  | i :: r, d :: rd =>
      if i <? 0 then Some draw_IFC
      else if d <? i then Some draw_SUBSCRIPT_OUT_OF_RANGE
      else check_idx r rd
  | _, _ => None
  end.

Definition arr_value (e : env) (name : list Z) (idx : list Z) : value + Z :=
  let '(dims, cells) := match lookup e (name ++ [40]) with
                        | Some (VArr d c) => (d, c)
                        | _ => (repeat 10 (length idx), [])
                        end in
  if Nat.eqb (length idx) (length dims) then
    match check_idx idx dims with
    | Some err => inr err
    | None => match lookup cells idx with
              | Some v => inl v
              | None => inl (if (List.last name 0 =? 36) then VStr [] else VNum 0)
              end
    end
  else inr draw_SUBSCRIPT_OUT_OF_RANGE.

(* MLParser._parse_variable: name, value and rest (after the blanks _parse_indices skips) *)
Definition parse_variable (e : env) (s : list Z) : pres (list Z * value) :=
  match read_name s with
  | None => PErr draw_IFC                       (* error.throw_if(not name) *)
  | Some (name, r) =>
      match skip_blank r with
      | c :: r' =>
          if (c =? 91) || (c =? 40) then           (* [ ( : array element *)
            match parse_indices e (S (length r')) r' with
            | POk idx r'' =>
                match arr_value e name idx with
                | inl v => POk (name, v) r''
                | inr err => PErr err
                end
            | PErr x => PErr x
            | PUnsup => PUnsup
            end
          else POk (name, var_value e name) (c :: r')
      | [] => POk (name, var_value e name) []
      end
  end.

(* Memory.get_value_for_varptrstr: the value at the pointer, or a null value of the type the first byte
   names when the pointer is not the address of a variable; None: Illegal function call *)
Definition ptr_value (e : env) (k : list Z) : option value :=
  match lookup e (0 :: k) with
  | Some v => Some v
  | None =>
      match k with
      | a :: _ => if (a =? 2) || (a =? 4) || (a =? 8) then Some (VNum 0)
                  else if a =? 3 then Some (VStr [])
                  else None
      | [] => None
      end
  end.

(* CodeStream.require_read((b';',), err=IFC) *)
Definition require_semicolon (s : list Z) : option (list Z) :=
  match skip_blank s with
  | c :: r => if c =? 59 then Some r else None
  | [] => None
  end.

(* MLParser.parse_number(default), after the optional sign: `=variable;`, a literal, or the default *)
Definition parse_magnitude (e : env) (dflt : option Z) (s : list Z) : pres Z :=
  match s with
  | c2 :: r2 =>
      if c2 =? 61 then                           (* = *)
        match r2 with
        | [] => PErr draw_IFC
        | c3 :: _ =>
            if c3 >? 8 then
              match parse_variable e r2 with
              | POk (_, VNum v) r3 =>
                  match require_semicolon r3 with
                  | Some r4 => POk v r4
                  | None => PErr draw_IFC
                  end
              | POk (_, _) _ => PErr draw_TYPE_MISMATCH          (* values.pass_number *)
              | PErr x => PErr x
              | PUnsup => PUnsup
              end
            else                                 (* VARPTR$ form: three bytes, no semicolon *)
              match r2 with
              | a :: b :: c :: r5 =>
                  match ptr_value e [a; b; c] with
                  | Some (VNum v) => POk v r5
                  | Some _ => PErr draw_TYPE_MISMATCH
                  | None => PErr draw_IFC
                  end
              | _ => PErr draw_IFC
              end
        end
      else if is_digit c2 then let '(v, r3) := lit 0 s in POk v r3
      else match dflt with Some v => POk v s | None => PErr draw_IFC end
  | [] => match dflt with Some v => POk v [] | None => PErr draw_IFC end
  end.

Definition negate (neg : bool) (r : pres Z) : pres Z :=
  match r with
  | POk v rest => POk (if neg then - v else v) rest
  | PErr x => PErr x
  | PUnsup => PUnsup
  end.

(* MLParser.parse_number(default): blanks, an optional sign (which cancels the default; no blanks may
   follow it), then the magnitude *)
Definition parse_number (e : env) (dflt : option Z) (s : list Z) : pres Z :=
  match skip_blank s with
  | [] => match dflt with Some v => POk v [] | None => PErr draw_IFC end
  | c :: r =>
      if (c =? 43) || (c =? 45) then negate (c =? 45) (parse_magnitude e None r)
      else parse_magnitude e dflt (c :: r)
  end.

(* MLParser.parse_string: name, bytes of the string, rest *)
Definition parse_string (e : env) (s : list Z) : pres (list Z * list Z) :=
  match skip_blank s with
  | [] => PErr draw_IFC
  | c :: r =>
      if c >? 8 then
        match parse_variable e (c :: r) with
        | POk (name, v) r3 =>
            match require_semicolon r3 with
            | Some r4 =>
                match v with
                | VStr str => POk (name, str) r4
                | _ => PErr draw_TYPE_MISMATCH                     (* values.pass_string *)
                end
            | None => PErr draw_IFC
            end
        | PErr x => PErr x
        | PUnsup => PUnsup
        end
      else                                       (* VARPTR$ form *)
        match c :: r with
        | a :: b :: c3 :: r5 =>
            match ptr_value e [a; b; c3] with
            | Some (VStr str) => POk (0 :: [a; b; c3], str) r5
            | Some _ => PErr draw_TYPE_MISMATCH
            | None => PErr draw_IFC
            end
        | _ => PErr draw_IFC
        end
  end.

(* "allow empty spec (default 0), but only if followed by a semicolon" (C, A, TA); the ; is not consumed *)
Definition parse_number_or_semicolon (e : env) (s : list Z) : pres Z :=
  match skip_blank s with
  | c :: r => if c =? 59 then POk 0 (c :: r) else parse_number e None s
  | [] => parse_number e None s
  end.

Definition dir_of_byte (c : Z) : option dir :=
  if c =? 85 then Some DU else if c =? 68 then Some DD else if c =? 76 then Some DL
  else if c =? 82 then Some DR else if c =? 69 then Some DE else if c =? 70 then Some DF
  else if c =? 71 then Some DG else if c =? 72 then Some DH else None.

Definition with_number (r : pres Z) (k : Z -> list Z -> list cmd) : list cmd :=
  match r with
  | POk v rest => k v rest
  | PErr x => [Fail x]
  | PUnsup => [Unsupported]
  end.

(* one command of the character loop of _draw: c is the upper-cased command letter, r what follows it,
   k the rest of the loop; `sub` reads the string of an X command (one nesting level less) *)
Definition dispatch (sub : list Z -> list cmd) (e : env) (k : list Z -> list cmd) (c : Z) (r : list Z)
  : list cmd :=
  if c =? 59 then k r
  else if c =? 66 then PreB :: k r
  else if c =? 78 then PreN :: k r
  else if c =? 88 then
    match parse_string e r with
    | POk (name, str) r' => Sub name (sub str) :: k r'
    | PErr x => [Fail x]
    | PUnsup => [Unsupported]
    end
  else if c =? 67 then
    with_number (parse_number_or_semicolon e r) (fun v r' => SetColour v :: k r')
  else if c =? 83 then
    with_number (parse_number e None r) (fun v r' => SetScale v :: k r')
  else if c =? 65 then
    with_number (parse_number_or_semicolon e r) (fun v r' => SetAngle v :: k r')
  else if c =? 84 then
    match r with
    | a :: r1 =>
        if upper a =? 65 then
          with_number (parse_number_or_semicolon e r1) (fun v r' => TurnAngle v :: k r')
        else [Fail draw_IFC]
    | [] => [Fail draw_IFC]
    end
  else if c =? 77 then
    let relative := match skip_blank r with
                    | c1 :: _ => (c1 =? 43) || (c1 =? 45)
                    | [] => false
                    end in
    with_number (parse_number e None r) (fun x r1 =>
      if in_range draw_range_x x then
        match skip_blank r1 with
        | c2 :: r2 =>
            if c2 =? 44 then
              with_number (parse_number e None r2) (fun y r3 =>
                (if relative then MRel x y else MAbs x y) :: k r3)
            else [Fail draw_IFC]
        | [] => [Fail draw_IFC]
        end
      else [Fail draw_IFC])
  else if c =? 80 then
    with_number (parse_number e None r) (fun f r1 =>
      if in_range draw_range_fill f then
        match skip_blank r1 with
        | c2 :: r2 =>
            if c2 =? 44 then
              with_number (parse_number e None r2) (fun b r3 => Paint f b :: k r3)
            else [Fail draw_IFC]
        | [] => [Fail draw_IFC]
        end
      else [Fail draw_IFC])
  else
    match dir_of_byte c with
    | Some d => with_number (parse_number e (Some 1) r) (fun v r' => Move d v :: k r')
    | None => [Fail draw_IFC]
    end.

(* the character loop of _draw *)
Fixpoint loop (sub : list Z -> list cmd) (e : env) (fuel : nat) (s : list Z) {struct fuel} : list cmd :=
  match fuel with
  | O => [Unsupported]
  | S f =>
    match skip_blank s with
    | [] => []
    | c0 :: r => dispatch sub e (loop sub e f) (upper c0) r
    end
  end.

(* depth = how many more levels of X substrings may be entered (MAX_DRAW_DEPTH at the statement level);
   an X beyond that raises Out of memory *)
Fixpoint parse (depth : nat) (e : env) (s : list Z) {struct depth} : list cmd :=
  loop (match depth with O => fun _ => [Fail draw_OUT_OF_MEMORY] | S d => parse d e end) e (S (length s)) s.

Definition draw_string (depth : nat) (e : env) (g : gstate) (s : list Z) : gstate * list req * status :=
  draw g (parse depth e s).

(* ------------------------------------------------------------------------------------------------ *)
(** * 3. Specification: what the property says, without positions inside the command pass *)

(* unit vector of a direction letter (screen coordinates: y grows downwards) *)
Definition unit (d : dir) : pt :=
  match d with
  | DU => (0, -1) | DD => (0, 1) | DL => (-1, 0) | DR => (1, 0)
  | DE => (1, -1) | DF => (1, 1) | DG => (-1, 1) | DH => (-1, -1)
  end.

(* "times the scale divided by four and truncated" *)
Definition scaled (sc : Z) (v : pt) : pt := (Z.quot (sc * fst v) 4, Z.quot (sc * snd v) 4).

(* one pen movement: an offset (relative) or a target (absolute), with its prefixes resolved *)
Record move := mkmove { m_abs : bool; m_vec : pt; m_plot : bool; m_back : bool; m_attr : Z }.

Definition target (p : pt) (m : move) : pt := if m_abs m then m_vec m else padd p (m_vec m).
(* N: the pen returns to where the move started *)
Definition next (p : pt) (m : move) : pt := if m_back m then p else target p m.

Fixpoint pen_after (p : pt) (ms : list move) : pt :=
  match ms with [] => p | m :: r => pen_after (next p m) r end.

(* B: no segment *)
Fixpoint segs_of (p : pt) (ms : list move) : list seg :=
  match ms with
  | [] => []
  | m :: r => (if m_plot m then [mkseg p (target p m) (m_attr m)] else []) ++ segs_of (next p m) r
  end.

(* pen position before each move *)
Fixpoint positions (p : pt) (ms : list move) : list pt :=
  match ms with [] => [] | m :: r => p :: positions (next p m) r end.

Definition vsum (l : list pt) : pt := fold_right padd (0, 0) l.
Definition stays (m : move) : bool := negb (m_back m).          (* moves that are not undone by N *)
Definition rel_offsets (ms : list move) : list pt := map m_vec (filter stays ms).
Definition no_abs (ms : list move) : bool := forallb (fun m => negb (m_abs m && stays m)) ms.

(* the position-free pass over the commands: which moves happen (flags, scale, angle, colour, X nesting,
   and where the statement stops).  P is outside (the theorems assume `paint_free`: what a flood fill
   leaves behind depends on the pixels, and its overflow test on the position). *)
Record pst := mkP { p_scale : Z; p_attr : Z; p_nattr : Z; p_angle : Z; p_aspect : Z * Z }.

(* the colour C n selects: n brought into the attribute range 0 .. nattr-1 of the mode *)
Definition clamp_attr (nattr n : Z) : Z := Z.min (nattr - 1) (Z.max 0 n).

(* the scaled offset turned by the angle: nothing for 0/360, a point reflection for 180; the quarter
   turns swap the coordinates and scale by the pixel aspect ratio yfac (a double):
   90: (trunc(y*yfac), -floor(x/yfac)), 270: (-trunc(y*yfac), floor(x/yfac)); other angles: outside *)
Definition turned (ang : Z) (asp : Z * Z) (v : pt) : option pt :=
  if (ang =? 0) || (ang =? 360) then Some v
  else if ang =? 90 then Some (mul_trunc (snd v) (yfac asp), - floor_div (fst v) (yfac asp))
  else if ang =? 180 then Some (- fst v, - snd v)
  else if ang =? 270 then Some (- mul_trunc (snd v) (yfac asp), floor_div (fst v) (yfac asp))
  else None.

Definition set_p_scale (ps : pst) (n : Z) : pst := mkP n (p_attr ps) (p_nattr ps) (p_angle ps) (p_aspect ps).
Definition set_p_attr (ps : pst) (n : Z) : pst := mkP (p_scale ps) n (p_nattr ps) (p_angle ps) (p_aspect ps).
Definition set_p_angle (ps : pst) (n : Z) : pst := mkP (p_scale ps) (p_attr ps) (p_nattr ps) n (p_aspect ps).

Definition plan_move (fl : flags) (ps : pst) (ab : bool) (v : pt) : flags * pst * list move * status :=
  (fresh, ps, [mkmove ab v (fst fl) (snd fl) (p_attr ps)], Done).

Definition plan_rel (fl : flags) (ps : pst) (v : pt) : flags * pst * list move * status :=
  match turned (p_angle ps) (p_aspect ps) (scaled (p_scale ps) v) with
  | Some o => plan_move fl ps false o
  | None => (fl, ps, [], Excluded)
  end.

Fixpoint plan1 (c : cmd) (fl : flags) (ps : pst) {struct c} : flags * pst * list move * status :=
  match c with
  | Move d n =>
      if in_range (-99999, 99999) n
      then plan_rel fl ps (n * fst (unit d), n * snd (unit d))
      else (fl, ps, [], Raised 5)
  | MRel x y =>
      if in_range (-9999, 9999) x && in_range (-9999, 9999) y
      then plan_rel fl ps (x, y)
      else (fl, ps, [], Raised 5)
  | MAbs x y =>
      if in_range (-9999, 9999) x && in_range (-9999, 9999) y
      then plan_move fl ps true (x, y)
      else (fl, ps, [], Raised 5)
  | PreB => ((false, snd fl), ps, [], Done)
  | PreN => ((fst fl, true), ps, [], Done)
  | SetScale n => if in_range (1, 255) n then (fl, set_p_scale ps n, [], Done) else (fl, ps, [], Raised 5)
  | SetColour n =>
      if in_range (-99999, 99999) n
      then (fl, set_p_attr ps (clamp_attr (p_nattr ps) n), [], Done)
      else (fl, ps, [], Raised 5)
  | SetAngle n => if in_range (0, 3) n then (fl, set_p_angle ps (90 * n), [], Done) else (fl, ps, [], Raised 5)
  | TurnAngle n => if in_range (-360, 360) n then (fl, set_p_angle ps n, [], Done) else (fl, ps, [], Raised 5)
  | Paint _ _ | Unsupported => (fl, ps, [], Excluded)
  | Sub _ body =>
      let '(ps', ms, stat) :=
        (fix go (l : list cmd) (fl : flags) (ps : pst) {struct l} : pst * list move * status :=
           match l with
           | [] => (ps, [], Done)
           | c :: r =>
               let '(fl', ps', ms, stat) := plan1 c fl ps in
               match stat with
               | Done => let '(ps'', ms', stat') := go r fl' ps' in (ps'', ms ++ ms', stat')
               | _ => (ps', ms, stat)
               end
           end) body fresh ps in
      (fl, ps', ms, stat)
  | Fail e => (fl, ps, [], Raised e)
  end.

Fixpoint plan (l : list cmd) (fl : flags) (ps : pst) {struct l} : pst * list move * status :=
  match l with
  | [] => (ps, [], Done)
  | c :: r =>
      let '(fl', ps', ms, stat) := plan1 c fl ps in
      match stat with
      | Done => let '(ps'', ms', stat') := plan r fl' ps' in (ps'', ms ++ ms', stat')
      | _ => (ps', ms, stat)
      end
  end.

Definition pl_pst (r : pst * list move * status) : pst := fst (fst r).
Definition pl_moves (r : pst * list move * status) : list move := snd (fst r).
Definition pl_status (r : pst * list move * status) : status := snd r.

(* the plan state of a Graphics object *)
Definition pst_of_g (g : gstate) : pst := mkP (g_scale g) (g_attr g) (g_nattr g) (g_angle g) (g_aspect g).

(* the plan of a history: every DRAW statement starts with fresh prefixes from the scale, angle and colour
   the previous one left (also when that one stopped with an error); WINDOW changes nothing of it *)
Fixpoint hist_plan (ps : pst) (ss : list stmt) : pst * list move :=
  match ss with
  | [] => (ps, [])
  | SWindow _ :: r => hist_plan ps r
  | SDraw c :: r =>
      let pl := plan c fresh ps in
      let '(ps', ms) := hist_plan (fst (fst pl)) r in
      (ps', snd (fst pl) ++ ms)
  end.

(* strings without P *)
Fixpoint paint_free1 (c : cmd) : bool :=
  match c with
  | Paint _ _ => false
  | Sub _ body => (fix go (l : list cmd) : bool :=
                     match l with [] => true | c :: r => paint_free1 c && go r end) body
  | _ => true
  end.
Fixpoint paint_free (l : list cmd) : bool :=
  match l with [] => true | c :: r => paint_free1 c && paint_free r end.

Definition stmt_paint_free (s : stmt) : bool :=
  match s with SDraw c => paint_free c | SWindow _ => true end.

(* angles that the model follows: A n always (multiples of 90), TA only 0, 90, 180, 270, 360 *)
Definition right_angle (a : Z) : bool := (a =? 0) || (a =? 90) || (a =? 180) || (a =? 270) || (a =? 360).

(* ------------------------------------------------------------------------------------------------ *)
(** * 4. Concrete syntax and printer *)

Definition blanks (n : nat) : list Z := repeat 32 n.

Inductive sign := SNone | SPlus | SMinus.
Definition sign_bytes (s : sign) : list Z := match s with SNone => [] | SPlus => [43] | SMinus => [45] end.
Definition sign_apply (s : sign) (v : Z) : Z := match s with SMinus => - v | _ => v end.

(* a variable name as written: first a letter, then name characters, then an optional type character *)
Record vname := mkname { v_base : list Z; v_sigil : option Z }.
Definition vname_bytes (n : vname) : list Z :=
  v_base n ++ match v_sigil n with Some g => [g] | None => [] end.
Definition vname_key (n : vname) : list Z := map upper (vname_bytes n).
Definition vname_ok (n : vname) : bool :=
  match v_base n with
  | c :: r => is_letter c && forallb is_name_char (c :: r) && (Nat.leb (length (c :: r)) 40)
  | [] => false
  end && match v_sigil n with Some g => is_sigil g | None => true end.

(* a number as written *)
Inductive numc :=
| NLit (pre : nat) (sg : sign) (ds : list (Z * nat))
    (* blanks, sign, digit characters each followed by some blanks *)
| NVar (pre : nat) (sg : sign) (b1 : nat) (nm : vname) (b2 : nat).
    (* blanks, sign, =, blanks, name, blanks, ; *)

Fixpoint digits_bytes (ds : list (Z * nat)) : list Z :=
  match ds with [] => [] | (c, g) :: r => c :: blanks g ++ digits_bytes r end.
Definition dec_value (ds : list (Z * nat)) : Z := fold_left (fun a d => 10 * a + (fst d - 48)) ds 0.

Definition num_bytes (n : numc) : list Z :=
  match n with
  | NLit pre sg ds => blanks pre ++ sign_bytes sg ++ digits_bytes ds
  | NVar pre sg b1 nm b2 => blanks pre ++ sign_bytes sg ++ [61] ++ blanks b1 ++ vname_bytes nm ++ blanks b2 ++ [59]
  end.
Definition num_sign (n : numc) : sign := match n with NLit _ sg _ => sg | NVar _ sg _ _ _ => sg end.
Definition num_value (e : env) (n : numc) : Z :=
  match n with
  | NLit _ sg ds => sign_apply sg (dec_value ds)
  | NVar _ sg _ nm _ => sign_apply sg (match var_value e (vname_key nm) with VNum v => v | _ => 0 end)
  end.
Definition num_ok (e : env) (n : numc) : bool :=
  match n with
  | NLit _ _ ds => negb (Nat.eqb (length ds) 0) && forallb (fun d => is_digit (fst d)) ds
  | NVar _ _ _ nm _ => vname_ok nm && match var_value e (vname_key nm) with VNum _ => true | _ => false end
  end.

(* a command letter as written: blanks before it, upper or lower case *)
Definition letter (pre : nat) (low : bool) (c : Z) : list Z := blanks pre ++ [if low then c + 32 else c].

Inductive ccmd :=
| CSemi (pre : nat)                                             (* ; *)
| CB (pre : nat) (low : bool)
| CN (pre : nat) (low : bool)
| CMove (pre : nat) (low : bool) (d : dir) (n : option numc)    (* None: count omitted (= 1) *)
| CMRel (pre : nat) (low : bool) (x : numc) (bc : nat) (y : numc)
| CMAbs (pre : nat) (low : bool) (x : numc) (bc : nat) (y : numc)
| CS (pre : nat) (low : bool) (n : numc)
| CC (pre : nat) (low : bool) (n : option (numc)) (b : nat)     (* None: "C" blanks ";" (= C0) *)
| CA (pre : nat) (low : bool) (n : option (numc)) (b : nat)
| CTA (pre : nat) (low lowa : bool) (n : option (numc)) (b : nat)
| CP (pre : nat) (low : bool) (f : numc) (bc : nat) (b : numc)     (* P fill , border *)
| CX (pre : nat) (low : bool) (b1 : nat) (nm : vname) (b2 : nat) (body : list cmd).
    (* X name ; where the variable holds a string that reads as `body` *)

Definition opt_num_bytes (n : option numc) (b : nat) : list Z :=
  match n with Some n => num_bytes n | None => blanks b ++ [59] end.
Definition opt_num_value (e : env) (n : option numc) : Z :=
  match n with Some n => num_value e n | None => 0 end.

Definition ccmd_bytes (c : ccmd) : list Z :=
  match c with
  | CSemi pre => blanks pre ++ [59]
  | CB pre low => letter pre low 66
  | CN pre low => letter pre low 78
  | CMove pre low d n => letter pre low (dir_byte d) ++ match n with Some n => num_bytes n | None => [] end
  | CMRel pre low x bc y => letter pre low 77 ++ num_bytes x ++ blanks bc ++ [44] ++ num_bytes y
  | CMAbs pre low x bc y => letter pre low 77 ++ num_bytes x ++ blanks bc ++ [44] ++ num_bytes y
  | CS pre low n => letter pre low 83 ++ num_bytes n
  | CC pre low n b => letter pre low 67 ++ opt_num_bytes n b
  | CA pre low n b => letter pre low 65 ++ opt_num_bytes n b
  | CTA pre low lowa n b => letter pre low 84 ++ [if lowa then 97 else 65] ++ opt_num_bytes n b
  | CP pre low f bc b => letter pre low 80 ++ num_bytes f ++ blanks bc ++ [44] ++ num_bytes b
  | CX pre low b1 nm b2 _ => letter pre low 88 ++ blanks b1 ++ vname_bytes nm ++ blanks b2 ++ [59]
  end.

(* the commands a piece of concrete syntax stands for *)
Definition ccmd_abs (e : env) (c : ccmd) : list cmd :=
  match c with
  | CSemi _ => []
  | CB _ _ => [PreB]
  | CN _ _ => [PreN]
  | CMove _ _ d n => [Move d (match n with Some n => num_value e n | None => 1 end)]
  | CMRel _ _ x _ y => [MRel (num_value e x) (num_value e y)]
  | CMAbs _ _ x _ y => [MAbs (num_value e x) (num_value e y)]
  | CS _ _ n => [SetScale (num_value e n)]
  | CC _ _ n _ => [SetColour (opt_num_value e n)]
  | CA _ _ n _ => [SetAngle (opt_num_value e n)]
  | CTA _ _ _ n _ => [TurnAngle (opt_num_value e n)]
  | CP _ _ f _ b => [Paint (num_value e f) (num_value e b)]
  | CX _ _ _ nm _ body => [Sub (vname_key nm) body]
  end.

Definition opt_num_ok (e : env) (n : option numc) : bool :=
  match n with Some n => num_ok e n | None => true end.
Definition signed (n : numc) : bool := match num_sign n with SNone => false | _ => true end.

(* side conditions: numbers well formed; relative M has a sign on x, absolute M has none; M's x within the
   range that is checked before the comma is looked for; an X variable holds a string that reads as `body` *)
Definition ccmd_ok (sub : list Z -> list cmd) (e : env) (c : ccmd) : Prop :=
  match c with
  | CSemi _ | CB _ _ | CN _ _ => True
  | CMove _ _ _ n => opt_num_ok e n = true
  | CMRel _ _ x _ y => num_ok e x = true /\ num_ok e y = true /\ signed x = true
                       /\ in_range draw_range_x (num_value e x) = true
  | CMAbs _ _ x _ y => num_ok e x = true /\ num_ok e y = true /\ signed x = false
                       /\ in_range draw_range_x (num_value e x) = true
  | CS _ _ n => num_ok e n = true
  | CC _ _ n _ | CA _ _ n _ | CTA _ _ _ n _ => opt_num_ok e n = true
  | CP _ _ f _ b => num_ok e f = true /\ num_ok e b = true
                    /\ in_range draw_range_fill (num_value e f) = true
  | CX _ _ _ nm _ body => vname_ok nm = true /\
                          exists str, var_value e (vname_key nm) = VStr str /\ sub str = body
  end.

Definition print (cs : list ccmd) : list Z := flat_map ccmd_bytes cs.
Definition abstract (e : env) (cs : list ccmd) : list cmd := flat_map (ccmd_abs e) cs.

(* canonical printing of a command list (decimal literals, no blanks, upper case); X bodies must be in the
   environment under the name carried by the Sub node *)
Fixpoint digits_fuel (fuel : nat) (n : Z) : list (Z * nat) :=
  match fuel with
  | O => []
  | S f => if n <? 10 then [(48 + n, O)] else digits_fuel f (n / 10) ++ [(48 + n mod 10, O)]
  end.
Definition digits (n : Z) : list (Z * nat) := digits_fuel (S (Z.to_nat (Z.log2 n))) n.
Definition lit_num (plus : bool) (z : Z) : numc :=
  NLit O (if z <? 0 then SMinus else if plus then SPlus else SNone) (digits (Z.abs z)).

Definition canon (c : cmd) : option ccmd :=
  match c with
  | Move d n => Some (CMove O false d (Some (lit_num false n)))
  | MRel x y => Some (CMRel O false (lit_num true x) O (lit_num false y))
  | MAbs x y => if x <? 0 then None else Some (CMAbs O false (lit_num false x) O (lit_num false y))
  | PreB => Some (CB O false)
  | PreN => Some (CN O false)
  | SetScale n => Some (CS O false (lit_num false n))
  | SetColour n => Some (CC O false (Some (lit_num false n)) O)
  | SetAngle n => Some (CA O false (Some (lit_num false n)) O)
  | TurnAngle n => Some (CTA O false false (Some (lit_num false n)) O)
  | Paint f b => Some (CP O false (lit_num false f) O (lit_num false b))
  | Sub _ _ | Fail _ | Unsupported => None
  end.

Fixpoint canon_all (l : list cmd) : option (list ccmd) :=
  match l with
  | [] => Some []
  | c :: r => match canon c, canon_all r with
              | Some cc, Some rr => Some (cc :: rr)
              | _, _ => None
              end
  end.

(* ------------------------------------------------------------------------------------------------ *)
(** * 5. Encodings for the correspondence harness *)

Definition enc_pt (p : pt) : list Z := [fst p; snd p].
Definition enc_req (r : req) : list Z :=
  match r with
  | RLine s => 0 :: enc_pt (s_from s) ++ enc_pt (s_to s) ++ [s_attr s]
  | RPaint p f b => 1 :: enc_pt p ++ [f; b; 0]
  end.
Definition enc_status (s : status) : list Z :=
  match s with Done => [0; 0] | Raised e => [1; e] | Excluded => [9; 9] end.

(* one DRAW statement: status, pen, last point, scale, angle, colour, POINT(0), POINT(1), requests *)
Definition enc_draw (r : gstate * list req * status) : list Z :=
  let '(g, sg, stat) := r in
  enc_status stat ++ enc_pt (current g) ++ enc_pt (g_last g) ++ [g_scale g; g_angle g; g_attr g]
  ++ [point_fn g 0; point_fn g 1] ++ [zlen sg] ++ flat_map enc_req sg.

(* the double operations on their own (checked against the host's doubles): yfac normalised to an odd
   mantissa, int(v*yfac), int(v//yfac) *)
Fixpoint strip_even (fuel : nat) (m e : Z) : Z * Z :=
  match fuel with
  | O => (m, e)
  | S f => if (m =? 0) || Z.odd m then (m, e) else strip_even f (m / 2) (e + 1)
  end.
Definition enc_float (a0 a1 v : Z) : list Z :=
  let d := fdiv a1 a0 in
  let '(m, e) := strip_even 2000 (fst d) (snd d) in
  [m; e; mul_trunc v d; floor_div v d].

(* several DRAW statements one after the other on the same Graphics object; the boolean tells that a
   statement left the model's domain (the harness stops the implementation at the same place) *)
Fixpoint draw_strings (depth : nat) (e : env) (g : gstate) (ss : list (list Z)) : list Z * bool :=
  match ss with
  | [] => ([], false)
  | s :: r =>
      let res := draw_string depth e g s in
      match dr_status res with
      | Excluded => (enc_draw res, true)
      | _ => let '(o, b) := draw_strings depth e (dr_state res) r in (enc_draw res ++ o, b)
      end
  end.

(* groups of DRAW statements, each from the Graphics state observed before it *)
Fixpoint draw_groups (depth : nat) (e : env) (gs : list (gstate * list (list Z))) : list Z :=
  match gs with
  | [] => []
  | (g, ss) :: r =>
      let '(o, b) := draw_strings depth e g ss in
      if b then o else o ++ draw_groups depth e r
  end.

(* the same, where a group that is preceded only by WINDOW statements continues from the model's own state
   (`do_stmt (SWindow b)`), and reports that state first so that it is compared with the observed one *)
Fixpoint draw_strings_st (depth : nat) (e : env) (g : gstate) (ss : list (list Z)) : list Z * bool * gstate :=
  match ss with
  | [] => ([], false, g)
  | s :: r =>
      let res := draw_string depth e g s in
      match dr_status res with
      | Excluded => (enc_draw res, true, dr_state res)
      | _ => let '(o, b, g') := draw_strings_st depth e (dr_state res) r in (enc_draw res ++ o, b, g')
      end
  end.

Definition with_outcomes (g : gstate) (os : list Z) : gstate :=
  mkG (g_cur g) (g_last g) (g_window g) (g_scale g) (g_angle g) (g_attr g) (g_text g) (g_nattr g) (g_aspect g) os.

Fixpoint draw_groups_chain (depth : nat) (e : env) (prev : gstate)
    (gs : list ((gstate + bool * list Z) * list (list Z))) : list Z :=
  match gs with
  | [] => []
  | (start, ss) :: r =>
      let '(g, hdr) :=
        match start with
        | inl g => (g, [])
        | inr (b, os) =>
            let g := with_outcomes (do_stmt prev (SWindow b)) os in
            (g, enc_pt (current g) ++ enc_pt (g_last g) ++ [g_scale g; g_angle g; g_attr g])
        end in
      let '(o, b, g') := draw_strings_st depth e g ss in
      if b then hdr ++ o else hdr ++ o ++ draw_groups_chain depth e g' r
  end.
