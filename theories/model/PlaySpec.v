(* C42: the property text as an executable specification over MML command lists (no proofs here).
   The abstract state holds what the sentence talks about: octave, current L, tempo T, MN/ML/MS, MF/MB.
   Frequencies are table indices i (freq = 440*2^((i-33)/12), see Play_freq_proofs.v):
     lettered note  i = 12*octave + semitone          N n  i = n - 1
   seconds(T, L, dots) = (240/T) * (1/L) * (3/2)^dots ; tone = seconds*fill ; gap = seconds*(1-fill). *)
From Coq Require Import ZArith QArith List Bool.
From PCB Require Import lib.Result lib.PyInt gen.Gen_play model.Play.
Import ListNotations.
Open Scope Z_scope.

Record astate := mka { a_octave : Z; a_L : Z; a_T : Z; a_mode : fillmode; a_fg : bool }.

Definition init_astate : astate := mka 4 4 120 FillN true.

(* C D E F G A B = 0 2 4 5 7 9 11; # or + raises, - lowers; E#, B#, C-, F- do not exist *)
Definition base_semitone (letter : Z) : option Z :=
  if letter =? 67 then Some 0 else if letter =? 68 then Some 2 else if letter =? 69 then Some 4
  else if letter =? 70 then Some 5 else if letter =? 71 then Some 7 else if letter =? 65 then Some 9
  else if letter =? 66 then Some 11 else None.

Definition semitone_spec (letter : Z) (acc : accidental) : option Z :=
  match base_semitone letter with
  | None => None
  | Some b =>
      match acc with
      | AccNone => Some b
      | AccSharp => if (b =? 4) || (b =? 11) then None else Some (b + 1)
      | AccFlat => if (b =? 0) || (b =? 5) then None else Some (b - 1)
      end
  end.

Definition seconds (T L : Z) (dots : nat) : Q :=
  ((240 / inject_Z T) * (1 / inject_Z L) * (3 # 2) ^ Z.of_nat dots)%Q.

(* the part of the note's time that is silent: 1/8, 0, 1/4 *)
Definition gap_fraction (m : fillmode) : Q :=
  match m with FillN => 1 # 8 | FillL => 0 | FillS => 1 # 4 end.

Definition the_volume : Z := 15.

Definition spec_sound (a : astate) (idx : Z) (secs : Q) : list event :=
  mkev (Some idx) (secs * fill_of (a_mode a))%Q the_volume ::
  match a_mode a with
  | FillL => []
  | _ => [mkev None (secs * gap_fraction (a_mode a))%Q 0]
  end.

Definition spec_rest (secs : Q) : list event := [mkev None secs the_volume].

Definition set_octave (a : astate) (o : Z) : astate := mka o (a_L a) (a_T a) (a_mode a) (a_fg a).

Definition spec_step (a : astate) (c : cmd) : res (astate * list event) :=
  match c with
  | CNote letter acc len d =>
      if len_ok len then
        match semitone_spec letter acc with
        | None => Err ifc
        | Some sem =>
            let L := match len with Some l => if 0 <? l then l else a_L a | None => a_L a end in
            Ok (a, spec_sound a (12 * a_octave a + sem) (seconds (a_T a) L d))
        end
      else Err ifc
  | CPause acc len d =>
      match acc, len with
      | AccNone, Some l =>
          if (0 <=? l) && (l <=? 64) then
            if l =? 0 then match d with O => Ok (a, []) | S _ => Err ifc end
            else Ok (a, spec_rest (seconds (a_T a) l d))
          else Err ifc
      | _, _ => Err ifc
      end
  | CNum n d =>
      if (0 <=? n) && (n <=? 84) then
        if n =? 0 then Ok (a, spec_rest (seconds (a_T a) (a_L a) d))
        else Ok (a, spec_sound a (n - 1) (seconds (a_T a) (a_L a) d))
      else Err ifc
  | CLen n => if (1 <=? n) && (n <=? 64) then Ok (mka (a_octave a) n (a_T a) (a_mode a) (a_fg a), []) else Err ifc
  | CTempo n => if (32 <=? n) && (n <=? 255) then Ok (mka (a_octave a) (a_L a) n (a_mode a) (a_fg a), [])
                else Err ifc
  | COct n => if (0 <=? n) && (n <=? 6) then Ok (set_octave a n, []) else Err ifc
  | CUp => Ok (set_octave a (Z.min 6 (a_octave a + 1)), [])
  | CDown => Ok (set_octave a (Z.max 0 (a_octave a - 1)), [])
  | CFill m => Ok (mka (a_octave a) (a_L a) (a_T a) m (a_fg a), [])
  | CFg b => Ok (mka (a_octave a) (a_L a) (a_T a) (a_mode a) b, [])
  | CBad e => Err e
  | CHost k => Host k
  | CFuel => OutOfFuel
  end.

Fixpoint spec_run (a : astate) (cs : list cmd) : list event * astate * res unit :=
  match cs with
  | [] => ([], a, Ok tt)
  | c :: r =>
      match spec_step a c with
      | Ok (a', evs) => let '(evs', a'', status) := spec_run a' r in (evs ++ evs', a'', status)
      | Err e => ([], a, Err e)
      | Host k => ([], a, Host k)
      | OutOfFuel => ([], a, OutOfFuel)
      end
  end.

(* commands that sound a tone (not pauses), with the table index the property assigns *)
Definition spec_note_index (a : astate) (c : cmd) : option Z :=
  match c with
  | CNote letter acc _ _ =>
      match semitone_spec letter acc with Some sem => Some (12 * a_octave a + sem) | None => None end
  | CNum n _ => if n =? 0 then None else Some (n - 1)
  | _ => None
  end.

(* the note indices of the commands executed before the first rejected one, in order *)
Fixpoint spec_notes (a : astate) (cs : list cmd) : list Z :=
  match cs with
  | [] => []
  | c :: r =>
      match spec_step a c with
      | Ok (a', _) =>
          match spec_note_index a c with
          | Some i => i :: spec_notes a' r
          | None => spec_notes a' r
          end
      | _ => []
      end
  end.

(* the sounding tone signals of an event list *)
Fixpoint sounding (evs : list event) : list Z :=
  match evs with
  | [] => []
  | e :: r => match ev_note e with Some i => i :: sounding r | None => sounding r end
  end.

(* commands the property calls malformed (rejected in every state) *)
Definition malformed (c : cmd) : bool :=
  match c with
  | CNote letter acc len _ => negb (len_ok len) || match semitone_spec letter acc with None => true | _ => false end
  | CPause acc len d =>
      match acc, len with
      | AccNone, Some l => negb ((0 <=? l) && (l <=? 64)) || ((l =? 0) && match d with O => false | _ => true end)
      | _, _ => true
      end
  | CNum n _ => negb ((0 <=? n) && (n <=? 84))
  | CLen n => negb ((1 <=? n) && (n <=? 64))
  | CTempo n => negb ((32 <=? n) && (n <=? 255))
  | COct n => negb ((0 <=? n) && (n <=? 6))
  | CBad e => e =? ifc
  | _ => false
  end.

(* equality of event lists up to == on the rational durations *)
Definition ev_eq (e1 e2 : event) : Prop :=
  ev_note e1 = ev_note e2 /\ (ev_dur e1 == ev_dur e2)%Q /\ ev_vol e1 = ev_vol e2.
Definition evs_eq : list event -> list event -> Prop := Forall2 ev_eq.

(* the concrete play state represents the abstract one *)
Definition represents (st : pstate) (a : astate) : Prop :=
  st_octave st = a_octave a /\ 0 <= a_octave a <= 6 /\ 1 <= a_L a <= 64 /\ 32 <= a_T a <= 255
  /\ (st_length st == 1 / inject_Z (a_L a))%Q /\ (st_tempo st == 240 / inject_Z (a_T a))%Q
  /\ (st_fill st == fill_of (a_mode a))%Q /\ st_volume st = the_volume /\ st_fg st = a_fg a.
