(* C44 / C01: model of dos.py Environment (ENVIRON statement, ENVIRON$ function) over an abstract host
   environment.  The codepage conversion of values is a Section variable pair (dec, enc) (property C41);
   the host environment is an association list from upper-case ASCII names to host strings, with
   os.environ's refusal of NUL / '=' / empty names made explicit as a Host ValueError. *)
From Coq Require Import ZArith List Bool.
From PCB Require Import lib.Result lib.PyInt lib.Harness.
Import ListNotations.
Open Scope Z_scope.

Section Environ.
Variable U : Type.                       (* host (unicode) strings *)
Variable dec : list Z -> U.              (* codepage.bytes_to_unicode *)
Variable enc : U -> list Z.              (* codepage.unicode_to_bytes *)
Variable u_has_nul : U -> bool.          (* host string contains U+0000 *)

Definition env := list (list Z * U).

Definition upper_b (b : Z) : Z := if (97 <=? b) && (b <=? 122) then b - 32 else b.
Definition upper (l : list Z) : list Z := map upper_b l.
Definition is_ascii (l : list Z) : bool := forallb (fun b => b <? 128) l.
Definition has_byte (x : Z) (l : list Z) : bool := existsb (fun b => b =? x) l.

Fixpoint find_eq (i : Z) (l : list Z) : Z :=      (* bytes.find(b'=') *)
  match l with
  | [] => -1
  | b :: r => if b =? 61 then i else find_eq (i + 1) r
  end.

Fixpoint lookup (k : list Z) (e : env) : option U :=
  match e with
  | [] => None
  | (k', v) :: r => if list_Z_eqb k k' then Some v else lookup k r
  end.
Fixpoint update (k : list Z) (v : U) (e : env) : env :=
  match e with
  | [] => [(k, v)]
  | (k', v') :: r => if list_Z_eqb k k' then (k, v) :: r else (k', v') :: update k v r
  end.

(* os.environ[key] = value *)
Definition host_setenv (e : env) (k : list Z) (v : U) : res env :=
  if (match k with [] => true | _ => false end) || has_byte 61 k || has_byte 0 k || u_has_nul v
  then Host host_ValueError else Ok (update k v e).

Definition setenv (e : env) (key value : list Z) : res env :=
  if negb (is_ascii key) then Err 5 else
  if has_byte 0 key || has_byte 0 value then Err 5 else
  host_setenv e (upper key) (dec value).

Definition environ_stmt (e : env) (s : list Z) : res env :=
  let eqs := find_eq 0 s in
  if eqs <=? 0 then Err 5 else
  setenv e (firstn (Z.to_nat eqs) s) (skipn (Z.to_nat (eqs + 1)) s).

Definition environ_fn_str (e : env) (key : list Z) : res (list Z) :=
  match key with
  | [] => Err 5
  | _ => if negb (is_ascii key) then Err 5 else
         match lookup (upper key) e with Some v => Ok (enc v) | None => Ok [] end
  end.

Definition environ_fn_idx (e : env) (n : Z) : res (list Z) :=
  if negb ((1 <=? n) && (n <=? 255)) then Err 5 else
  match nth_error e (Z.to_nat (n - 1)) with
  | Some (k, v) => Ok (k ++ [61] ++ enc v)
  | None => Ok []
  end.
End Environ.

(* harness: run a history of operations on the identity codepage (values are byte lists) and encode outputs.
   inl s = ENVIRON s ; inr (inl k) = ENVIRON$(k) ; inr (inr n) = ENVIRON$(n) *)
Definition enc_get (r : res (list Z)) : list Z :=
  match r with
  | Ok l => [0; zlen l] ++ l
  | Err e => [1; e]
  | Host x => [2; x]
  | OutOfFuel => [3]
  end.
Fixpoint env_run (e : env (list Z)) (ops : list (list Z + (list Z + Z))) : list Z :=
  match ops with
  | [] => []
  | inl s :: r =>
      match environ_stmt (list Z) (fun v => v) (has_byte 0) e s with
      | Ok e' => 0 :: env_run e' r
      | Err n => [1; n] ++ env_run e r
      | Host x => [2; x] ++ env_run e r
      | OutOfFuel => [3]
      end
  | inr (inl k) :: r => enc_get (environ_fn_str (list Z) (fun u => u) e k) ++ env_run e r
  | inr (inr n) :: r => enc_get (environ_fn_idx (list Z) (fun u => u) e n) ++ env_run e r
  end.
