(* C40: the text-input state of a RANDOM file's record buffer (diskfiles.FieldFile) across pickling.
   A text file delivers first its read-ahead characters, then the bytes of its stream from the stream position on.
   FieldFile.__getstate__ drops the memoryview-backed stream and pickles _pos = stream.tell() next to the rest of the
   object (which includes the read-ahead list); __setstate__ re-creates the stream over the record buffer and seeks to
   _pos.  Hand model, tied by correspondence with real sessions (harness/C40.py, kind 'field'). *)
From Coq Require Import ZArith List Bool.
From PCB Require Import lib.PyInt.
Import ListNotations.
Open Scope Z_scope.

Record tstate := TS { t_buf : list Z; t_pos : nat; t_ra : list Z }.

(* the characters the following INPUT# / LINE INPUT# / INPUT$ will see *)
Definition pending (s : tstate) : list Z := t_ra s ++ skipn (t_pos s) (t_buf s).

(* position in the record as FIELD overflow / PRINT# see it *)
Definition logical_pos (s : tstate) : Z := Z.of_nat (t_pos s) - zlen (t_ra s).

Definition field_getstate (s : tstate) : nat * list Z := (t_pos s, t_ra s).
Definition field_setstate (buf : list Z) (p : nat * list Z) : tstate := TS buf (fst p) (snd p).
Definition field_roundtrip (s : tstate) : tstate := field_setstate (t_buf s) (field_getstate s).

(* the variant that pickles the logical position while keeping the read-ahead (seeded change C40e) *)
Definition field_getstate_logical (s : tstate) : nat * list Z := ((t_pos s - length (t_ra s))%nat, t_ra s).

(* harness interface: stream position, read-ahead length, pending characters after the round trip *)
Definition field_out (buf : list Z) (pos : Z) (ra : list Z) : list Z :=
  let s := field_roundtrip (TS buf (Z.to_nat pos) ra) in
  Z.of_nat (t_pos s) :: zlen (t_ra s) :: pending s.
