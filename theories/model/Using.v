(* C08: executable model of PRINT USING.
   devices/formatter.py: StringField.__init__/format, NumberField.__init__/format, Formatter._print_using;
   values/numbers.py: Float.to_str_fixed, to_str_scientific, _group_thousands, _scientific_notation,
   _decimal_notation, _get_digits.
   Strings are `list Z` of bytes.  A numeric value enters as `nval`: sign, is_zero, single/double and the
   table  n |-> Float.to_decimal(n) = (mantissa, exp10)  (n in 0 .. 7 single / 16 double) of its
   absolute value (binary->decimal conversion is property C07's business; everything that is done with
   the mantissa afterwards is modelled here).  The model follows the code with defects D08a-d fixed.
   The while-loop of _print_using is modelled as `tokenize` (what is recognised at a stream position
   depends on the position only) followed by passes over the item list.       NO proofs here. *)
From Coq Require Import ZArith List Bool.
From Coq Require Strings.String Strings.Ascii.
From PCB Require Import lib.Result lib.PyInt lib.Harness gen.Gen_using.
Import ListNotations.
Open Scope Z_scope.

(* ---------------------------------------------------------------- characters and error numbers *)
Definition cEXCL : Z := 33.    (* ! *)
Definition cHASH : Z := 35.    (* # *)
Definition cDOLLAR : Z := 36.  (* $ *)
Definition cPCT : Z := 37.     (* % *)
Definition cAMP : Z := 38.     (* & *)
Definition cSTAR : Z := 42.    (* * *)
Definition cPLUS : Z := 43.    (* + *)
Definition cCOMMA : Z := 44.   (* , *)
Definition cMINUS : Z := 45.   (* - *)
Definition cDOT : Z := 46.     (* . *)
Definition cZERO : Z := 48.    (* 0 *)
Definition cD : Z := 68.
Definition cE : Z := 69.
Definition cBSL : Z := 92.     (* \ *)
Definition cCARET : Z := 94.   (* ^ *)
Definition cUSCORE : Z := 95.  (* _ *)
Definition cSPACE : Z := 32.

(* regenerated from base/error.py and NumberField.format (gen.Gen_using) *)
Definition err_IFC : Z := using_IFC.
Definition err_TYPE_MISMATCH : Z := using_TYPE_MISMATCH.
Definition max_digit_positions : Z := using_max_digits.

(* ---------------------------------------------------------------- Python bytes primitives *)
Definition ljust (s : list Z) (n : nat) (fill : Z) : list Z := s ++ repeat fill (n - length s).
Definition rjust (s : list Z) (n : nat) (fill : Z) : list Z := repeat fill (n - length s) ++ s.
Definition memz (c : Z) (l : list Z) : bool := existsb (Z.eqb c) l.
Fixpoint prefixb (p s : list Z) : bool :=
  match p, s with
  | [], _ => true
  | _ :: _, [] => false
  | x :: p', y :: s' => (x =? y) && prefixb p' s'
  end.
Definition zeros (n : Z) : list Z := repeat cZERO (Z.to_nat n).      (* b'0' * n *)

(* b'%d' % n for n >= 0 *)
Fixpoint digs_rev (fuel : nat) (n : Z) : list Z :=
  match fuel with
  | O => []
  | S f => if n <? 10 then [cZERO + n] else (cZERO + n mod 10) :: digs_rev f (n / 10)
  end.
Definition dec_str (n : Z) : list Z := rev (digs_rev (S (Z.to_nat (Z.log2 n))) n).

(* numbers._get_digits(mantissa, min_digits) *)
Definition get_digits (m mind : Z) : list Z := rjust (dec_str (Z.abs m)) (Z.to_nat mind) cZERO.

(* ---------------------------------------------------------------- string fields *)

(* the loop of StringField.__init__ after the opening backslash: characters read up to and including the
   closing backslash; anything but a space in between (or the end of the format) is a ValueError *)
Fixpoint sf_scan (s : list Z) : option (list Z * list Z) :=
  match s with
  | [] => None
  | c :: r =>
      if c =? cBSL then Some ([c], r)
      else if c =? cSPACE then
        match sf_scan r with Some (w, r') => Some (c :: w, r') | None => None end
      else None
  end.

(* StringField(fors): Some (field word, rest of the format) or None = ValueError with the stream unmoved *)
Definition parse_string_field (s : list Z) : option (list Z * list Z) :=
  match s with
  | [] => None
  | c :: r =>
      if (c =? cEXCL) || (c =? cAMP) then Some ([c], r)
      else if c =? cBSL then
        match sf_scan r with Some (w, r') => Some (c :: w, r') | None => None end
      else None
  end.

(* StringField.format on the bytes of the string value *)
Definition format_string (word s : list Z) : list Z :=
  if list_Z_eqb word [cAMP] then s
  else firstn (length word) (ljust s (length word) cSPACE).

(* ---------------------------------------------------------------- number fields *)
Record nfield := mkNF { nf_tokens : list Z; nf_before : Z; nf_decimals : Z; nf_comma : bool }.

Record nloop := mkNL { nl_word : list Z; nl_before : Z; nl_dec : Z; nl_comma : bool; nl_rest : list Z }.

(* the `while True` loop over # , . of NumberField.__init__ *)
Fixpoint nf_loop (s : list Z) (dot : bool) : nloop :=
  match s with
  | [] => mkNL [] 0 0 false []
  | c :: r =>
      if negb dot && (c =? cDOT) then
        let L := nf_loop r true in
        mkNL (c :: nl_word L) (nl_before L) (nl_dec L) (nl_comma L) (nl_rest L)
      else if (c =? cHASH) || (negb dot && (c =? cCOMMA)) then
        let L := nf_loop r dot in
        mkNL (c :: nl_word L)
             (if dot then nl_before L else nl_before L + 1)
             (if dot then nl_dec L + 1 else nl_dec L)
             (nl_comma L || (negb dot && (c =? cCOMMA)))
             (nl_rest L)
      else mkNL [] 0 0 false s
  end.

(* the `$ and * combinations` part: Some (chars, digit positions, rest); None = ValueError.
   D08b fixed: both characters must be present and equal *)
Definition nf_prefix (s : list Z) : option (list Z * Z * list Z) :=
  match s with
  | c :: r1 =>
      if (c =? cDOLLAR) || (c =? cSTAR) then
        match r1 with
        | c2 :: r2 =>
            if c2 =? c then
              if c =? cSTAR then
                match r2 with
                | c3 :: r3 => if c3 =? cDOLLAR then Some ([c; c2; c3], 2, r3) else Some ([c; c2], 2, r2)
                | [] => Some ([c; c2], 2, r2)
                end
              else Some ([c; c2], 1, r2)
            else None
        | [] => None
        end
      else Some ([], 0, s)
  | [] => Some ([], 0, s)
  end.

Definition hd_is (c : Z) (s : list Z) : bool := match s with x :: _ => x =? c | [] => false end.

(* NumberField(fors) *)
Definition parse_number_field (s : list Z) : option (nfield * list Z) :=
  let leading_plus := hd_is cPLUS s in
  let w0 := if leading_plus then [cPLUS] else [] in
  let s1 := if leading_plus then tl s else s in
  match nf_prefix s1 with
  | None => None
  | Some (w1, b1, s2) =>
      let dot := hd_is cDOT s2 in
      let wdot := if dot then [cDOT] else [] in
      let s3 := if dot then tl s2 else s2 in
      let L := if dot || hd_is cHASH s2 then nf_loop s3 dot else mkNL [] 0 0 false s3 in
      let before := b1 + nl_before L in
      let decimals := nl_dec L in
      if before + decimals =? 0 then None
      else
        let s4 := nl_rest L in
        let has_exp := prefixb [cCARET; cCARET; cCARET; cCARET] s4 in
        let wexp := if has_exp then [cCARET; cCARET; cCARET; cCARET] else [] in
        let s5 := if has_exp then skipn 4 s4 else s4 in
        let has_sign := negb leading_plus && (hd_is cMINUS s5 || hd_is cPLUS s5) in
        let wsign := if has_sign then firstn 1 s5 else [] in
        let s6 := if has_sign then tl s5 else s5 in
        Some (mkNF (w0 ++ w1 ++ wdot ++ nl_word L ++ wexp ++ wsign) before decimals (nl_comma L), s6)
  end.

(* ---------------------------------------------------------------- numeric values *)
Record nval := mkNV { nv_neg : bool; nv_zero : bool; nv_dbl : bool; nv_tab : list (Z * (Z * Z)) }.
Inductive uval := UStr (s : list Z) | UNum (v : nval).

Definition nv_digits (v : nval) : Z := if nv_dbl v then using_digits_double else using_digits_single.
Definition exp_sign (v : nval) : Z := if nv_dbl v then cD else cE.

(* Float.to_decimal(n): n is clamped to 0 .. self.digits by the code itself; the result is an input *)
Fixpoint assocz {A} (k : Z) (l : list (Z * A)) : option A :=
  match l with
  | [] => None
  | (k', a) :: r => if k' =? k then Some a else assocz k r
  end.
Definition to_decimal (v : nval) (n : Z) : res (Z * Z) :=
  match assocz (Z.max 0 (Z.min n (nv_digits v))) (nv_tab v) with
  | Some p => Ok p
  | None => Host host_KeyError      (* the harness did not supply this entry *)
  end.

(* Float._group_thousands *)
Fixpoint chunks3 (fuel : nat) (l : list Z) : list (list Z) :=
  match fuel with
  | O => []
  | S f => match l with [] => [] | _ => firstn 3 l :: chunks3 f (skipn 3 l) end
  end.
Fixpoint join_comma (cs : list (list Z)) : list Z :=
  match cs with
  | [] => []
  | [c] => c
  | c :: r => c ++ cCOMMA :: join_comma r
  end.
Definition group_thousands (d : list Z) : list Z :=
  let first := Nat.modulo (length d) 3 in
  let chunks := chunks3 (length d) (skipn first d) in
  join_comma (if Nat.eqb first 0 then chunks else firstn first d :: chunks).

(* Float._scientific_notation(digitstr, exp10, digits_to_dot, force_dot) *)
Definition scientific_notation (v : nval) (digitstr : list Z) (exp10 dtd : Z) (force_dot : bool) : list Z :=
  let n := Z.to_nat dtd in
  let mant :=
    if Z.of_nat (length digitstr) >? dtd then firstn n digitstr ++ cDOT :: skipn n digitstr
    else if (Z.of_nat (length digitstr) =? dtd) && force_dot then firstn n digitstr ++ [cDOT]
    else firstn n digitstr in
  let exponent := using_sci_exponent exp10 dtd in
  mant ++ exp_sign v :: (if exponent <? 0 then cMINUS else cPLUS) :: get_digits (Z.abs exponent) 2.

(* Float._decimal_notation(digitstr, exp10, type_sign='', force_dot, group_thousands) *)
Definition decimal_notation (digitstr : list Z) (exp10 : Z) (force_dot group : bool) : list Z :=
  let e := exp10 + 1 in
  let len := Z.of_nat (length digitstr) in
  let grp := fun l => if group then group_thousands l else l in
  if e >=? len then grp (digitstr ++ zeros (e - len)) ++ (if force_dot then [cDOT] else [])
  else if e >? 0 then grp (firstn (Z.to_nat e) digitstr) ++ cDOT :: skipn (Z.to_nat e) digitstr
  else cDOT :: zeros (- e) ++ digitstr.

(* Float.to_str_scientific(digits_before_radix, digits_after_radix, always_show_radix)  (D08c fixed) *)
(* the mantissa shown and radix_position, for work_digits = w:
   renormalisation after a rounding carry, radix_position = exponent + work_digits (regenerated) *)
Definition sci_pair (v : nval) (w : Z) : res (Z * Z) :=
  do p <- to_decimal v w;
  Ok (using_sci_carry w (fst p) (snd p)).

Definition to_str_scientific (v : nval) (db da : Z) (force_dot : bool) : res (list Z) :=
  if nv_zero v then
    if force_dot then Ok (cDOT :: zeros da ++ [exp_sign v; cPLUS; cZERO; cZERO])
    else if nv_dbl v then Ok [cZERO; cD; cPLUS; cZERO; cZERO]
    else Ok [cE; cPLUS; cZERO; cZERO]
  else
    let req := db + da in
    let w := using_work_digits (nv_digits v) req in
    do mr <- sci_pair v w;
    let digitstr := firstn (Z.to_nat req) (ljust (get_digits (fst mr) w) (Z.to_nat req) cZERO) in
    Ok (scientific_notation v digitstr (snd mr - 1) db force_dot).

(* Float.to_str_fixed(n_decimals, force_dot, group_thousands)  (D08a fixed) *)
(* the (mantissa, exp10) that is shown: full precision, or the working precision n_work if the value has
   more decimals than the field, or 0 / 1 unit of the last decimal if it is below that unit *)
Definition fixed_pair (v : nval) (n_dec : Z) : res (Z * Z) :=
  do p <- to_decimal v (nv_digits v);
  if - snd p >? n_dec then
    let n_work := using_n_work (nv_digits v) (- snd p) n_dec in
    if n_work >? 0 then to_decimal v n_work
    else Ok (using_round_small (nv_digits v) n_work (fst p) n_dec)
  else Ok p.

Definition to_str_fixed (v : nval) (n_dec : Z) (force_dot group : bool) : res (list Z) :=
  if nv_zero v then
    if force_dot then Ok (cDOT :: zeros n_dec)
    else if negb (n_dec =? 0) then Ok (zeros n_dec)
    else Ok [cZERO]
  else
    do q <- fixed_pair v n_dec;
    let n_after := - snd q in
    let ds := dec_str (Z.abs (fst q)) in
    let n_before := Z.of_nat (length ds) - n_after in
    let digitstr := ljust ds (Z.to_nat (n_dec + n_before)) cZERO in
    Ok (decimal_notation digitstr (n_before - 1) force_dot group).

(* ---------------------------------------------------------------- NumberField.format *)
Definition nf_lead_plus (f : nfield) : bool := hd_is cPLUS (nf_tokens f).
Definition nf_trail_plus (f : nfield) : bool := negb (nf_lead_plus f) && (last (nf_tokens f) 0 =? cPLUS).
Definition nf_trail_minus (f : nfield) : bool :=
  negb (nf_lead_plus f) && negb (nf_trail_plus f) && (last (nf_tokens f) 0 =? cMINUS).
Definition nf_dollar (f : nfield) : bool := memz cDOLLAR (nf_tokens f).
Definition nf_star (f : nfield) : bool := memz cSTAR (nf_tokens f).
Definition nf_dot (f : nfield) : bool := memz cDOT (nf_tokens f).
Definition nf_exp (f : nfield) : bool := memz cCARET (nf_tokens f).

(* sign written before / after the number *)
Definition lead_sign (f : nfield) (neg : bool) : list Z :=
  if nf_lead_plus f then [if neg then cMINUS else cPLUS]
  else if nf_trail_plus f || nf_trail_minus f then []
  else if neg then [cMINUS] else [].
Definition post_sign (f : nfield) (neg : bool) : list Z :=
  if nf_lead_plus f then []
  else if nf_trail_plus f then [if neg then cMINUS else cPLUS]
  else if nf_trail_minus f then [if neg then cMINUS else cSPACE]
  else [].
(* digits before the radix handed to the scientific formatter: one position is the sign's unless the
   field has its own sign position or a dollar sign *)
Definition sci_before (f : nfield) : Z :=
  if nf_lead_plus f || nf_trail_plus f || nf_trail_minus f then nf_before f
  else using_sci_before (nf_dollar f) (nf_before f).

(* "add leading zero before radix if there's space": the radix may be preceded by a sign and/or the
   currency sign (prefixes '', '+', '-', '$', '+$', '-$'; D08d fixed) *)
Definition add_leading_zero (valstr : list Z) : list Z :=
  let sign := match valstr with
              | c :: _ => if (c =? cPLUS) || (c =? cMINUS) then [c] else []
              | [] => []
              end in
  let r1 := skipn (length sign) valstr in
  let dollar := if hd_is cDOLLAR r1 then [cDOLLAR] else [] in
  let r2 := skipn (length dollar) r1 in
  if hd_is cDOT r2 then sign ++ dollar ++ cZERO :: r2 else valstr.

(* the number as text: sign, dollar, digits from the numeric layer, trailing sign *)
Definition number_text (f : nfield) (v : nval) : res (list Z) :=
  do core <- (if nf_exp f then to_str_scientific v (sci_before f) (nf_decimals f) (nf_dot f)
              else to_str_fixed v (nf_decimals f) (nf_dot f) (nf_comma f));
  Ok (lead_sign f (nv_neg v) ++ (if nf_dollar f then [cDOLLAR] else []) ++ core ++ post_sign f (nv_neg v)).

Definition fit_field (f : nfield) (valstr : list Z) : list Z :=
  let width := length (nf_tokens f) in
  let valstr := if (length valstr <? width)%nat then add_leading_zero valstr else valstr in
  if (width <? length valstr)%nat then cPCT :: valstr
  else rjust valstr width (if nf_star f then cSTAR else cSPACE).

Definition format_number (f : nfield) (v : nval) : res (list Z) :=
  if nf_before f + nf_decimals f >? max_digit_positions then Err err_IFC
  else
    do valstr <- number_text f v;
    Ok (fit_field f valstr).

(* ---------------------------------------------------------------- the format string *)
Inductive item := ILit (c : Z) | IStr (word : list Z) | INum (f : nfield).

(* what the loop of _print_using recognises at the head of s: (item, rest) *)
Definition next_item (s : list Z) : option (item * list Z) :=
  match s with
  | [] => None
  | c :: r =>
      if c =? cUSCORE then
        (* fors.read(2)[-1:]: the escaped character, or the underscore itself if it is last *)
        match r with x :: r' => Some (ILit x, r') | [] => Some (ILit c, []) end
      else
        match parse_string_field s with
        | Some (w, r') => Some (IStr w, r')
        | None =>
            match parse_number_field s with
            | Some (f, r') => Some (INum f, r')
            | None => Some (ILit c, r)
            end
        end
  end.

Fixpoint tokenize_fuel (fuel : nat) (s : list Z) : list item :=
  match fuel with
  | O => []
  | S f => match next_item s with Some (it, r) => it :: tokenize_fuel f r | None => [] end
  end.
Definition tokenize (s : list Z) : list item := tokenize_fuel (length s) s.

Definition format_item (it : item) (v : uval) : res (list Z) :=
  match it, v with
  | IStr w, UStr s => Ok (format_string w s)
  | IStr _, UNum _ => Err err_TYPE_MISMATCH            (* values.pass_string *)
  | INum f, UNum n => format_number f n
  | INum _, UStr _ => Err err_TYPE_MISMATCH            (* values.pass_number *)
  | ILit c, _ => Ok [c]
  end.

(* one pass over the format from the current position to its end.
   fc = format_chars, sc = start_cycle, ini = initial_literal, out = bytes written so far.
   trailing = the value list ends with a separator (next(args) returns None instead of StopIteration) *)
Inductive pres :=
| PEnd (fc : bool) (ini out : list Z) (vals : list uval)
| PStop (out : list Z) (r : res bool).

Fixpoint pass (trailing : bool) (cur : list item) (fc sc : bool) (ini out : list Z) (vals : list uval) : pres :=
  match cur with
  | [] => PEnd fc ini out vals
  | ILit c :: r =>
      if sc then pass trailing r fc sc (ini ++ [c]) out vals
      else pass trailing r fc sc ini (out ++ [c]) vals
  | fld :: r =>
      match vals with
      | [] => PStop out (Ok (negb trailing))
      | v :: vs =>
          let out1 := if sc then out ++ ini else out in
          match format_item fld v with
          | Ok t => pass trailing r true false ini (out1 ++ t) vs
          | Err e => PStop out1 (Err e)
          | Host x => PStop out1 (Host x)
          | OutOfFuel => PStop out1 OutOfFuel
          end
      end
  end.

Fixpoint cycles (n : nat) (trailing : bool) (items : list item) (fc : bool) (out : list Z)
                (vals : list uval) : list Z * res bool :=
  match n with
  | O => (out, OutOfFuel)
  | S n' =>
      match pass trailing items fc true [] out vals with
      | PStop o r => (o, r)
      | PEnd fc' ini o vs =>
          if negb fc' then (o ++ ini, Err err_IFC)        (* no format chars in the string *)
          else cycles n' trailing items fc' o vs           (* loop the format string *)
      end
  end.

(* Formatter._print_using: bytes written and the `newline` result / error *)
Definition print_using (fmt : list Z) (vals : list uval) (trailing : bool) : list Z * res bool :=
  match fmt with
  | [] => ([], Err err_IFC)
  | _ => cycles (S (length vals)) trailing (tokenize fmt) false [] vals
  end.

(* ---------------------------------------------------------------- harness encoding (compact literals) *)
(* byte strings are written as hex strings in the case files; outputs are compared 7 bytes per integer *)
Definition hexval (a : Ascii.ascii) : Z :=
  let n := Z.of_N (Ascii.N_of_ascii a) in if n <? 58 then n - 48 else n - 87.
Fixpoint hexz (s : String.string) : list Z :=
  match s with
  | String.String a (String.String b r) => (16 * hexval a + hexval b) :: hexz r
  | _ => []
  end.
Fixpoint pack7 (fuel : nat) (l : list Z) : list Z :=
  match fuel with
  | O => []
  | S f => match l with
           | [] => []
           | _ => fold_left (fun a b => a * 256 + b) (firstn 7 l) 0 :: pack7 f (skipn 7 l)
           end
  end.
Definition packed (l : list Z) : list Z := zlen l :: pack7 (length l) l.

(* what reaches the output device: bytes written, then the line end `nl` if PRINT ends the line *)
Definition enc_stream (nl : list Z) (r : list Z * res bool) : list Z :=
  match r with
  | (o, Ok b) => 0 :: 0 :: packed (o ++ (if b then nl else []))
  | (o, Err e) => 1 :: e :: packed o
  | (o, Host x) => [2; x]
  | (o, OutOfFuel) => [3]
  end.

(* canonical encoding for the correspondence harness: status, code, bytes written *)
Definition enc_using (r : list Z * res bool) : list Z :=
  match r with
  | (o, Ok nl) => 0 :: enc_bool nl :: o
  | (o, Err e) => 1 :: e :: o
  | (o, Host x) => 2 :: x :: o
  | (o, OutOfFuel) => [3]
  end.
