(* C26: executable model of devices/diskfiles.py `Locks` / `LockingParameters` and of the statement glue in
   devices/files.py (OPEN, CLOSE, LOCK, UNLOCK, GET, PUT: argument checks, error order) and devices/disk.py
   (DiskDevice.open: registration before the stream is opened).  The range test, the record limits and the
   error numbers come from the regenerated gen/Gen_locks.v.  No proofs in this file. *)
From Coq Require Import ZArith List Bool.
From PCB Require Import lib.Result lib.PyInt gen.Gen_locks.
Import ListNotations.
Open Scope Z_scope.

Inductive fmode := MI | MO | MA | MR.                    (* b'I' b'O' b'A' b'R' *)
Inductive ltype := LNone | LShared | LR | LW | LRW.      (* no clause / SHARED / LOCK READ / LOCK WRITE / LOCK READ WRITE *)
Inductive acc := ANone | AR | AW | ARW.                  (* no clause / ACCESS READ / WRITE / READ WRITE *)

Definition mode_code (m : fmode) : Z := match m with MI => 0 | MO => 1 | MA => 2 | MR => 3 end.
Definition lock_code (l : ltype) : Z := match l with LNone => 0 | LShared => 1 | LR => 2 | LW => 3 | LRW => 4 end.
Definition acc_code (a : acc) : Z := match a with ANone => 0 | AR => 1 | AW => 2 | ARW => 3 end.

Definition is_oa (m : fmode) : bool := match m with MO | MA => true | _ => false end.
Definition lnone (l : ltype) : bool := match l with LNone => true | _ => false end.
Definition anone (a : acc) : bool := match a with ANone => true | _ => false end.
(* lock_type and lock_type != b'SHARED' *)
Definition lrw_kind (l : ltype) : bool := match l with LR | LW | LRW => true | _ => false end.
Definition lock_r (l : ltype) : bool := match l with LR | LRW => true | _ => false end.
Definition lock_w (l : ltype) : bool := match l with LW | LRW => true | _ => false end.
Definition acc_r (a : acc) : bool := match a with AR | ARW => true | _ => false end.
Definition acc_w (a : acc) : bool := match a with AW | ARW => true | _ => false end.
(* set(iterchar(lock)) & set(iterchar(access)) for lock in R, W, RW *)
Definition meets (l : ltype) (a : acc) : bool := (lock_r l && acc_r a) || (lock_w l && acc_w a).
Definition is_lrw (l : ltype) : bool := match l with LRW => true | _ => false end.

(* the condition inside `for f in already_open` of Locks.open_file, new (lt, a) against open (flt, fa) *)
Definition open_conflict (lt : ltype) (a : acc) (flt : ltype) (fa : acc) : bool :=
  (lnone lt && negb (lnone flt))
  || is_lrw lt
  || (negb (lnone lt) && lnone flt)
  || (lrw_kind lt && negb (anone fa) && meets lt fa)
  || (lrw_kind flt && ((negb (anone a) && meets flt a) || (anone a && is_lrw flt))).

(* if lock_type and not access: access = b'RW' *)
Definition stored_access (lt : ltype) (a : acc) : acc :=
  if negb (lnone lt) && anone a then ARW else a.

(* a held lock: None = (None, None) = the whole file; Some (start, stop) *)
Definition range := option (Z * Z).
Definition range_eqb (r1 r2 : range) : bool :=
  match r1, r2 with
  | None, None => true
  | Some (s1, e1), Some (s2, e2) => (s1 =? s2) && (e1 =? e2)
  | _, _ => false
  end.

(* one open file number: LockingParameters (name, mode, lock_type, access, lock_set) + RandomFile._recpos *)
Record fent := mkEnt {
  lp_name : Z; lp_mode : fmode; lp_lock : ltype; lp_access : acc; lp_set : list range; lp_recpos : Z }.

Definition files := list (Z * fent).      (* Locks._locking_parameters / Files.files, in insertion order *)

Fixpoint find (n : Z) (fs : files) : option fent :=
  match fs with
  | [] => None
  | (k, e) :: r => if k =? n then Some e else find n r
  end.
Definition is_open (n : Z) (fs : files) : bool := match find n fs with Some _ => true | None => false end.

(* dict assignment *)
Definition update (n : Z) (f : fent -> fent) (fs : files) : files :=
  map (fun ke => if fst ke =? n then (fst ke, f (snd ke)) else ke) fs.
Definition set_entry (fs : files) (n : Z) (e : fent) : files :=
  if is_open n fs then update n (fun _ => e) fs else fs ++ [(n, e)].
Definition remove_entry (n : Z) (fs : files) : files := filter (fun ke => negb (fst ke =? n)) fs.

(* Locks.list_open(name, exclude_number) *)
Definition list_open (fs : files) (nm : Z) (excl : option Z) : files :=
  filter (fun ke => (lp_name (snd ke) =? nm) &&
                    match excl with Some n => negb (fst ke =? n) | None => true end) fs.

Definition nonempty {A} (l : list A) : bool := match l with [] => false | _ => true end.

(* Locks.open_file *)
Definition locks_open_file (fs : files) (nm n : Z) (m : fmode) (lt : ltype) (a : acc) : res files :=
  let already := list_open fs nm None in
  if is_oa m && nonempty already then Err locks_err_FILE_ALREADY_OPEN
  else if n =? 0 then Ok fs
  else if existsb (fun ke => open_conflict lt a (lp_lock (snd ke)) (lp_access (snd ke))) already
       then Err locks_err_PERMISSION_DENIED
  else Ok (set_entry fs n (mkEnt nm m lt (stored_access lt a) [] 0)).

(* Locks.try_access(number, access) with access b'R' (w = false) or b'W' (w = true) *)
Definition own_denied (a : acc) (w : bool) : bool :=
  negb (anone a) && negb (if w then acc_w a else acc_r a).
Definition other_lock_denies (l : ltype) (w : bool) : bool :=
  lrw_kind l && (if w then lock_w l else lock_r l).
Definition try_access (fs : files) (n : Z) (w : bool) : res unit :=
  if n =? 0 then Ok tt else
  match find n fs with
  | None => Host host_KeyError
  | Some this =>
      if own_denied (lp_access this) w then Err locks_err_PATH_FILE_ACCESS_ERROR
      else if existsb (fun ke => other_lock_denies (lp_lock (snd ke)) w) (list_open fs (lp_name this) (Some n))
           then Err locks_err_PATH_FILE_ACCESS_ERROR
      else Ok tt
  end.

(* the test of one held range against the requested range [start, stop] *)
Definition held_conflict (s e : Z) (h : range) : bool :=
  match h with
  | None => true
  | Some (s1, e1) => locks_range_conflict s e s1 e1
  end.

(* the lock sets consulted by Locks._try_record_lock *)
Definition consulted (fs : files) (nm n : Z) (allow_self read_only : bool) : list range :=
  flat_map (fun ke => lp_set (snd ke))
    (filter (fun ke => negb (is_oa (lp_mode (snd ke)) && read_only))
       (list_open fs nm (if allow_self then Some n else None))).

(* Locks._try_record_lock *)
Definition try_record_lock (fs : files) (n : Z) (r : range) (allow_self read_only : bool) : res unit :=
  match find n fs with
  | None => Host host_KeyError
  | Some this =>
      let held := consulted fs (lp_name this) n allow_self read_only in
      match r with
      | None => if nonempty held then Err locks_err_PERMISSION_DENIED else Ok tt
      | Some (s, e) => if existsb (held_conflict s e) held then Err locks_err_PERMISSION_DENIED else Ok tt
      end
  end.

Definition try_record_access (fs : files) (n : Z) (k : Z) (w : bool) : res unit :=
  do _ <- try_access fs n w;
  try_record_lock fs n (Some (k, k)) true (negb w).

(* lock_set is a Python set *)
Definition set_mem (r : range) (s : list range) : bool := existsb (range_eqb r) s.
Definition set_add (r : range) (s : list range) : list range := if set_mem r s then s else s ++ [r].
Definition set_remove (r : range) (s : list range) : list range := filter (fun x => negb (range_eqb r x)) s.

Definition with_set (f : list range -> list range) (e : fent) : fent :=
  mkEnt (lp_name e) (lp_mode e) (lp_lock e) (lp_access e) (f (lp_set e)) (lp_recpos e).
Definition with_recpos (p : Z) (e : fent) : fent :=
  mkEnt (lp_name e) (lp_mode e) (lp_lock e) (lp_access e) (lp_set e) p.

(* Locks.acquire_record_lock / release_record_lock *)
Definition acquire_record_lock (fs : files) (n : Z) (r : range) : res files :=
  do _ <- try_record_lock fs n r false false;
  Ok (update n (with_set (set_add r)) fs).
Definition release_record_lock (fs : files) (n : Z) (r : range) : res files :=
  match find n fs with
  | None => Host host_KeyError
  | Some this =>
      if set_mem r (lp_set this) then Ok (update n (with_set (set_remove r)) fs)
      else Err locks_err_PERMISSION_DENIED
  end.

(* ------------------------------------------------------------------------------------------------
   statement level (devices/files.py, devices/disk.py).  Session defaults: max_files = 3, max_reclen = 128 *)
Definition max_files : Z := 3.
Definition max_reclen : Z := 128.

Record state := mkState { st_files : files; st_exist : list Z }.    (* open numbers; names existing on disk *)
Definition init : state := mkState [] [].

Definition exists_name (nm : Z) (l : list Z) : bool := existsb (Z.eqb nm) l.
Definition add_name (nm : Z) (l : list Z) : list Z := if exists_name nm l then l else l ++ [nm].

(* round(values.to_single(x).to_value()) for an integer x: nearest 24-bit significand, ties to even *)
Definition single_round (x : Z) : Z :=
  let a := Z.abs x in
  let k := Z.log2 a - 23 in
  if k <=? 0 then x
  else
    let q := Z.shiftr a k in
    let r := a - Z.shiftl q k in
    let half := Z.shiftl 1 (k - 1) in
    let q' := if (half <? r) || ((half =? r) && Z.odd q) then q + 1 else q in
    Z.sgn x * Z.shiftl q' k.

Definition acc_eqb (a b : acc) : bool := acc_code a =? acc_code b.
Definition mode_eqb (a b : fmode) : bool := mode_code a =? mode_code b.

Definition with_files (st : state) (fs : files) : state := mkState fs (st_exist st).

(* Files.open_ + Files.open + DiskDevice.open *)
Definition open_stmt (st : state) (nm n : Z) (m : fmode) (a : acc) (lt : ltype) (reclen : Z) : state * res unit :=
  if (n <? 0) || (255 <? n) then (st, Err locks_err_IFC)
  else if negb (anone a) && mode_eqb m MA && acc_eqb a AW then (st, Err locks_err_PATH_FILE_ACCESS_ERROR)
  else if negb (anone a) && ((mode_eqb m MI && negb (acc_eqb a AR)) || (mode_eqb m MO && negb (acc_eqb a AW))
                             || (mode_eqb m MA && negb (acc_eqb a ARW))) then (st, Err locks_err_STX)
  else if (reclen <? 1) || (max_reclen <? reclen) then (st, Err locks_err_IFC)
  else if (n <? 1) || (max_files <? n) then (st, Err locks_err_BAD_FILE_NUMBER)
  else if is_open n (st_files st) then (st, Err locks_err_FILE_ALREADY_OPEN)
  else if mode_eqb m MI && negb (exists_name nm (st_exist st)) then (st, Err locks_err_FILE_NOT_FOUND)
  else match locks_open_file (st_files st) nm n m lt a with
       | Ok fs => (mkState fs (add_name nm (st_exist st)), Ok tt)
       | Err e => (st, Err e)
       | Host h => (st, Host h)
       | OutOfFuel => (st, OutOfFuel)
       end.

(* Files.close_ with one number *)
Definition close_stmt (st : state) (n : Z) : state * res unit :=
  if (n <? 0) || (255 <? n) then (st, Err locks_err_IFC)
  else (with_files st (remove_entry n (st_files st)), Ok tt).

(* Files._get_lock_limits on integer-valued arguments *)
Definition lock_limits (so eo : option Z) : res range :=
  match so, eo with
  | None, None => Ok None
  | _, _ =>
      let s := match so with Some x => single_round x | None => 1 end in
      let e := match eo with Some x => single_round x | None => s end in
      if files_lock_limits_bad s e then Err locks_err_BAD_RECORD_NUMBER else Ok (Some (s, e))
  end.

(* TextFile.lock ignores the bounds; RandomFile.lock passes them on *)
Definition effective_range (e : fent) (r : range) : range :=
  match lp_mode e with MR => r | _ => None end.

(* Files.lock_ / Files.unlock_ *)
Definition lock_stmt (unlock : bool) (st : state) (n : Z) (so eo : option Z) : state * res unit :=
  if (n <? 0) || (255 <? n) then (st, Err locks_err_IFC)
  else if n <? 1 then (st, Err locks_err_BAD_FILE_NUMBER)
  else match find n (st_files st) with
       | None => (st, Err locks_err_BAD_FILE_NUMBER)
       | Some this =>
           match lock_limits so eo with
           | Ok r =>
               match (if unlock then release_record_lock else acquire_record_lock)
                       (st_files st) n (effective_range this r) with
               | Ok fs => (with_files st fs, Ok tt)
               | Err e => (st, Err e)
               | Host h => (st, Host h)
               | OutOfFuel => (st, OutOfFuel)
               end
           | Err e => (st, Err e)
           | Host h => (st, Host h)
           | OutOfFuel => (st, OutOfFuel)
           end
       end.

(* Files._check_pos on an integer-valued argument *)
Definition check_pos (pos : option Z) : res (option Z) :=
  match pos with
  | None => Ok None
  | Some x =>
      let p := single_round x in
      if (p <? files_pos_min) || (files_pos_max <? p) then Err locks_err_BAD_RECORD_NUMBER else Ok (Some p)
  end.

(* Files.get_ / put_ + RandomFile.get / put without the data transfer *)
Definition getput_stmt (put : bool) (st : state) (n : Z) (pos : option Z) : state * res unit :=
  if (n <? 0) || (255 <? n) then (st, Err locks_err_IFC)
  else if n <? 1 then (st, Err locks_err_BAD_FILE_NUMBER)
  else match find n (st_files st) with
       | None => (st, Err locks_err_BAD_FILE_MODE)
       | Some this =>
           if negb (mode_eqb (lp_mode this) MR) then (st, Err locks_err_BAD_FILE_MODE)
           else match check_pos pos with
                | Ok p =>
                    let recpos := match p with Some x => rf_setpos_recpos x | None => lp_recpos this end in
                    let fs1 := update n (with_recpos recpos) (st_files st) in
                    let k := if put then rf_put_record recpos else rf_get_record recpos in
                    match try_record_access fs1 n k put with
                    | Ok _ =>
                        let nxt := if put then rf_put_next recpos else rf_get_next recpos in
                        (with_files st (update n (with_recpos nxt) fs1), Ok tt)
                    | Err e => (with_files st fs1, Err e)
                    | Host h => (with_files st fs1, Host h)
                    | OutOfFuel => (with_files st fs1, OutOfFuel)
                    end
                | Err e => (st, Err e)
                | Host h => (st, Host h)
                | OutOfFuel => (st, OutOfFuel)
                end
       end.

(* X$ = INPUT$(1, #n): Files.input_ + TextFile.read - the access check comes before any data is read;
   what is read (or Input past end) depends on the file contents and is not modelled: Host host_Other *)
Definition textread_stmt (st : state) (n : Z) : state * res unit :=
  if (n <? 0) || (255 <? n) then (st, Err locks_err_IFC)
  else if n <? 1 then (st, Err locks_err_BAD_FILE_NUMBER)
  else match find n (st_files st) with
       | None => (st, Err locks_err_BAD_FILE_MODE)
       | Some this =>
           match lp_mode this with
           | MO | MA => (st, Err locks_err_BAD_FILE_MODE)
           | MR => (st, Host host_Other)                 (* reads the FIELD buffer *)
           | MI => match try_access (st_files st) n false with
                   | Ok _ => (st, Host host_Other)
                   | Err e => (st, Err e)
                   | Host h => (st, Host h)
                   | OutOfFuel => (st, OutOfFuel)
                   end
           end
       end.

Inductive op :=
| OpOpen (nm n : Z) (m : fmode) (a : acc) (lt : ltype) (reclen : Z)
| OpClose (n : Z)
| OpLock (n : Z) (so eo : option Z)
| OpUnlock (n : Z) (so eo : option Z)
| OpGet (n : Z) (pos : option Z)
| OpPut (n : Z) (pos : option Z)
| OpTextRead (n : Z).

Definition step (st : state) (o : op) : state * res unit :=
  match o with
  | OpOpen nm n m a lt reclen => open_stmt st nm n m a lt reclen
  | OpClose n => close_stmt st n
  | OpLock n so eo => lock_stmt false st n so eo
  | OpUnlock n so eo => lock_stmt true st n so eo
  | OpGet n pos => getput_stmt false st n pos
  | OpPut n pos => getput_stmt true st n pos
  | OpTextRead n => textread_stmt st n
  end.

(* direct mode: an error ends the statement, the next statement runs on the state left behind *)
Fixpoint run (st : state) (ops : list op) : state :=
  match ops with
  | [] => st
  | o :: r => run (fst (step st o)) r
  end.

(* ------------------------------------------------------------------------------------------------
   observation for the correspondence harness *)
Definition range_key (r : range) : Z * Z := match r with None => (0, 0) | Some p => p end.
Definition key_le (a b : Z * Z) : bool := (fst a <? fst b) || ((fst a =? fst b) && (snd a <=? snd b)).
Fixpoint insert_sorted (r : range) (l : list range) : list range :=
  match l with
  | [] => [r]
  | x :: t => if key_le (range_key r) (range_key x) then r :: l else x :: insert_sorted r t
  end.
Definition sort_ranges (l : list range) : list range := fold_right insert_sorted [] l.

Definition enc_range (r : range) : list Z := let k := range_key r in [fst k; snd k].
Definition enc_entry (fs : files) (n : Z) : list Z :=
  match find n fs with
  | None => [0]
  | Some e => [1; lp_name e; mode_code (lp_mode e); lock_code (lp_lock e); acc_code (lp_access e); lp_recpos e;
               zlen (lp_set e)] ++ flat_map enc_range (sort_ranges (lp_set e))
  end.
Definition enc_res_unit (r : res unit) : list Z :=
  match r with Ok _ => [0; 0] | Err e => [1; e] | Host h => [2; h] | OutOfFuel => [3; 0] end.
Definition enc_state (st : state) : list Z :=
  enc_entry (st_files st) 1 ++ enc_entry (st_files st) 2 ++ enc_entry (st_files st) 3
  ++ [enc_bool (exists_name 1 (st_exist st)); enc_bool (exists_name 2 (st_exist st))].

Fixpoint trace (st : state) (ops : list op) : list Z :=
  match ops with
  | [] => []
  | o :: r => let (st', res) := step st o in enc_res_unit res ++ enc_state st' ++ trace st' r
  end.
