(* C13 / C14: the abstract side.  A program is a finite map line number -> tokenised body, kept as a
   list sorted by line number; its memory image, its index, and what each editing command means on it.
   Definitions only. *)
From Coq Require Import ZArith List Bool Sorting.Sorted.
From PCB Require Import lib.Result lib.PyInt gen.Gen_program model.Program.
Import ListNotations.
Open Scope Z_scope.

Definition line := (Z * list Z)%type.          (* (number, tokenised body) *)
Definition nums (ls : list line) : list Z := map fst ls.

Fixpoint size (ls : list line) : Z :=
  match ls with [] => 0 | l :: r => 5 + zlen (snd l) + size r end.

(* memory image of the lines when the first one sits at offset p:
   00 | address of the next line's link field (2) | number (2) | body *)
Fixpoint lay (cs0 p : Z) (ls : list line) : list Z :=
  match ls with
  | [] => []
  | l :: r => (0 :: le2 (cs0 + 1 + p + 5 + zlen (snd l)) ++ le2 (fst l) ++ snd l)
              ++ lay cs0 (p + 5 + zlen (snd l)) r
  end.
(* ... followed by the terminator 00 00 00 and whatever lies behind it (left over from LOAD) *)
Definition image (cs0 : Z) (ls : list line) (tail : list Z) : list Z := lay cs0 0 ls ++ 0 :: 0 :: 0 :: tail.

(* offsets of the lines, and the sentinel 65536 -> offset of the terminator *)
Fixpoint idx (p : Z) (ls : list line) : list (Z * Z) :=
  match ls with
  | [] => []
  | l :: r => (fst l, p) :: idx (p + 5 + zlen (snd l)) r
  end.
Definition index (ls : list line) : list (Z * Z) := idx 0 ls ++ [(65536, size ls)].

Definition cfg_ok (c : cfg) : Prop := 0 <= cs c /\ cs c + 3 <= limit c /\ limit c <= 65535.

(* the representation invariant WF: state s stores exactly the lines ls (with [tail] behind the terminator) *)
Record abs_ok (c : cfg) (s : prog) (ls : list line) (tail : list Z) : Prop := {
  a_sorted : StronglySorted Z.lt (nums ls);
  a_nums : Forall (fun l : line => 0 <= fst l <= 65535) ls;
  a_bodies : Forall (fun l : line => wf_body (snd l) = true) ls;
  a_code : code s = image (cs c) ls tail;
  a_keys : NoDup (keys (lines s));
  a_lines : forall k v, In (k, v) (lines s) <-> In (k, v) (index ls);
  a_fit : cs c + size ls + 3 + zlen tail <= limit c
}.

(* ---- commands on the abstract program *)
Definition spec_remove (a b : Z) (ls : list line) : list line :=
  filter (fun l : line => negb (in_range a b (fst l))) ls.
Definition spec_store (n : Z) (b : list Z) (ls : list line) : list line :=
  filter (fun l : line => fst l <? n) ls ++ (n, b) :: filter (fun l : line => n <? fst l) ls.
Definition has_line (n : Z) (ls : list line) : bool := existsb (fun l : line => fst l =? n) ls.
Definition blank_body (b : list Z) : bool := match skip_blank b with [] => true | x :: _ => x =? 0 end.

Definition spec_step (c : cfg) (tail : list Z) (ls : list line) (o : op) : list line :=
  match o with
  | OStore (_ :: _ :: _ :: lo :: hi :: b) =>
      let n := unpack_H lo hi in
      if blank_body b then spec_remove n n ls            (* unchanged when line n does not exist *)
      else if cs c + size (spec_store n b ls) + 3 + zlen tail >? limit c then ls      (* Out of memory *)
      else spec_store n b ls
  | OStore _ => ls
  | ODelete f t =>
      spec_remove (match f with Some f => f | None => 0 end) (match t with Some t => t | None => 65535 end) ls
  | ONew => []
  | ORebuild => ls
  end.

(* well-formed commands: what the tokeniser / the parser hand over *)
Definition op_ok (o : op) : Prop :=
  match o with
  | OStore lb => exists n b, lb = mk_linebuf n b /\ 0 <= n <= 65535 /\ wf_body b = true
  | ODelete f t => (match f with Some f => 0 <= f <= 65535 | None => True end)
                   /\ (match t with Some t => 0 <= t <= 65535 | None => True end)
  | ONew => True
  | ORebuild => True
  end.

(* ONew also drops the tail (erase truncates) *)
Definition tail_step (tail : list Z) (o : op) : list Z := match o with ONew => [] | _ => tail end.

Definition spec_run (c : cfg) (ops : list op) : list line := fold_left (spec_step c []) ops [].
