(* C42: model of Sound.play_ (pcbasic/basic/sound.py) and of the MML scanner it drives (mlparser.py,
   base/codestream.py), for one voice in the default (non-Tandy/PCjr) syntax.

   Two layers:
     lex  : bytes -> list cmd     the scanner: blanks, upper-casing, one absorbed ';', numbers (literal, signed,
                                  =variable;), note suffixes (accidental, literal length, dots), X substrings.
                                  Scanning does not depend on the play state, so it is done up front; a position
                                  where the scanner raises becomes a final CBad/CHost command.
     step/run : pstate -> cmd(s)  the interpreter: range checks, state updates, emitted tone events.
   Durations are exact rationals (Q), computed in the ORDER of the Python code
   (dur = length; dur *= 1.5 per dot; duration = dur*tempo; tone = fill*duration; gap = (1-fill)*duration).
   The binary64 rounding of these products is outside the model (see design_notes/C42.md).
   No proofs here. *)
From Coq Require Import ZArith QArith List Bool.
From PCB Require Import lib.Result lib.PyInt lib.Harness gen.Gen_play.
Import ListNotations.
Open Scope Z_scope.

(* ---------- commands ---------- *)
Inductive accidental := AccNone | AccSharp | AccFlat.
Inductive fillmode := FillN | FillL | FillS.

Inductive cmd :=
| CNote (letter : Z) (acc : accidental) (len : option Z) (dots : nat)   (* A..G (byte code), #/+ or -, digits, dots *)
| CPause (acc : accidental) (len : option Z) (dots : nat)                (* P *)
| CNum (n : Z) (dots : nat)                                              (* N n *)
| CLen (n : Z) | CTempo (n : Z) | COct (n : Z)                           (* L n, T n, O n *)
| CUp | CDown                                                            (* > < *)
| CFill (m : fillmode)                                                   (* MN ML MS *)
| CFg (b : bool)                                                         (* MF (true) MB (false) *)
| CBad (e : Z)                                                           (* the scanner raises BASIC error e here *)
| CHost (k : Z)                                                          (* not modelled (arrays, VARPTR$ forms) *)
| CFuel.                                                                 (* scanner fuel exhausted (X recursion) *)

(* ---------- state and events ---------- *)
Record pstate := mkst {
  st_octave : Z; st_length : Q; st_tempo : Q; st_fill : Q; st_volume : Z; st_fg : bool }.

(* one AUDIO_TONE signal: table index of the frequency (None = frequency 0), duration in seconds, volume *)
Record event := mkev { ev_note : option Z; ev_dur : Q; ev_vol : Z }.

Definition qof (p : Z * positive) : Q := Qmake (fst p) (snd p).

Definition init_state : pstate :=
  mkst play_default_octave (qof play_default_length) (qof play_default_tempo) (qof play_default_fill)
       play_default_volume true.

Definition ifc : Z := 5.
Definition type_mismatch : Z := 13.

(* 1. / recip,  240. / recip  (recip >= 1 where used) *)
Definition recipQ (n : Z) : Q := Qmake 1 (Z.to_pos n).
Definition tempoQ (n : Z) : Q := Qmake 240 (Z.to_pos n).

Definition fill_of (m : fillmode) : Q :=
  match m with FillN => 7 # 8 | FillL => 1 | FillS => 3 # 4 end.

(* while read('.'): dur *= 1.5 *)
Fixpoint dotted (d : Q) (n : nat) : Q :=
  match n with O => d | S k => dotted (d * (3 # 2)) k end.

(* Sound.emit_tone: the tone, then a separate gap unless fill == 1 *)
Definition emit_tone (note : option Z) (duration fill : Q) (vol : Z) : list event :=
  mkev note (fill * duration) vol ::
  (if Qeq_bool fill 1 then [] else [mkev None ((1 - fill) * duration) 0]).

Definition acc_bytes (a : accidental) : list Z :=
  match a with AccNone => [] | AccSharp => [35] | AccFlat => [45] end.

Fixpoint assoc_bytes (k : list Z) (t : list (list Z * Z)) : option Z :=
  match t with
  | [] => None
  | (k', v) :: r => if list_Z_eqb k k' then Some v else assoc_bytes k r
  end.

(* error.range_check(0, 64, length) on an optional literal length *)
Definition len_ok (len : option Z) : bool :=
  match len with None => true | Some l => (0 <=? l) && (l <=? 64) end.

Definition step (st : pstate) (c : cmd) : res (pstate * list event) :=
  match c with
  | CNum n d =>
      if (0 <=? n) && (n <=? 84) then
        let dur := dotted (st_length st) d in
        if n =? 0 then Ok (st, emit_tone None (dur * st_tempo st) 1 (st_volume st))
        else Ok (st, emit_tone (Some (n - 1)) (dur * st_tempo st) (st_fill st) (st_volume st))
      else Err ifc
  | CLen n => if (1 <=? n) && (n <=? 64)
              then Ok (mkst (st_octave st) (recipQ n) (st_tempo st) (st_fill st) (st_volume st) (st_fg st), [])
              else Err ifc
  | CTempo n => if (32 <=? n) && (n <=? 255)
                then Ok (mkst (st_octave st) (st_length st) (tempoQ n) (st_fill st) (st_volume st) (st_fg st), [])
                else Err ifc
  | COct n => if (0 <=? n) && (n <=? 6)
              then Ok (mkst n (st_length st) (st_tempo st) (st_fill st) (st_volume st) (st_fg st), [])
              else Err ifc
  | CUp => let o := st_octave st + 1 in
           Ok (mkst (if o >? 6 then 6 else o) (st_length st) (st_tempo st) (st_fill st) (st_volume st) (st_fg st), [])
  | CDown => let o := st_octave st - 1 in
           Ok (mkst (if o <? 0 then 0 else o) (st_length st) (st_tempo st) (st_fill st) (st_volume st) (st_fg st), [])
  | CNote letter acc len d =>
      if len_ok len then
        let dur0 := match len with
                    | Some l => if 0 <? l then recipQ l else st_length st
                    | None => st_length st
                    end in
        let dur := dotted dur0 d in
        match assoc_bytes (letter :: acc_bytes acc) play_notes with
        | None => Err ifc                                  (* KeyError -> IFC *)
        | Some sem =>
            let idx := st_octave st * 12 + sem in
            if (0 <=? idx) && (idx <? zlen play_note_freq)
            then Ok (st, emit_tone (Some idx) (dur * st_tempo st) (st_fill st) (st_volume st))
            else Host host_IndexError                      (* NOTE_FREQ[idx]; unreachable, see C42_note_index *)
        end
      else Err ifc
  | CPause acc len d =>
      if len_ok len then
        match acc with
        | AccNone =>
            match len with
            | None => Err ifc                              (* length must be specified *)
            | Some l =>
                if l =? 0 then match d with O => Ok (st, []) | S _ => Err ifc end
                else Ok (st, emit_tone None (dotted (recipQ l) d * st_tempo st) 1 (st_volume st))
            end
        | _ => Err ifc                                     (* NOTES[b'P#'] KeyError -> IFC *)
        end
      else Err ifc
  | CFill m => Ok (mkst (st_octave st) (st_length st) (st_tempo st) (fill_of m) (st_volume st) (st_fg st), [])
  | CFg b => Ok (mkst (st_octave st) (st_length st) (st_tempo st) (st_fill st) (st_volume st) b, [])
  | CBad e => Err e
  | CHost k => Host k
  | CFuel => OutOfFuel
  end.

(* the events emitted before the first failing command stay in the queue; the state keeps what was set *)
Fixpoint run (st : pstate) (cs : list cmd) : list event * pstate * res unit :=
  match cs with
  | [] => ([], st, Ok tt)
  | c :: r =>
      match step st c with
      | Ok (st', evs) => let '(evs', st'', status) := run st' r in (evs ++ evs', st'', status)
      | Err e => ([], st, Err e)
      | Host k => ([], st, Host k)
      | OutOfFuel => ([], st, OutOfFuel)
      end
  end.

(* ---------- scanner ---------- *)
Fixpoint skip_blank (s : list Z) : list Z :=
  match s with
  | c :: r => if c =? 32 then skip_blank r else s
  | [] => []
  end.

Definition upper (c : Z) : Z := if (97 <=? c) && (c <=? 122) then c - 32 else c.
Definition is_digit (c : Z) : bool := (48 <=? c) && (c <=? 57).
Definition is_letter (c : Z) : bool := ((65 <=? c) && (c <=? 90)) || ((97 <=? c) && (c <=? 122)).
Definition is_name_char (c : Z) : bool := is_letter c || is_digit c || (c =? 46).
Definition is_sigil (c : Z) : bool := (c =? 35) || (c =? 33) || (c =? 37) || (c =? 36).

(* MLParser._parse_literal and the note-length loop: digits with blanks skipped before each; int(...) *)
Fixpoint lit_digits (acc : Z) (s : list Z) : Z * list Z :=
  match s with
  | c :: r => if c =? 32 then lit_digits acc r
              else if is_digit c then lit_digits (acc * 10 + (c - 48)) r
              else (acc, s)
  | [] => (acc, [])
  end.

(* while skip_blank_read_if('.') *)
Fixpoint read_dots (s : list Z) : nat * list Z :=
  match s with
  | c :: r => if c =? 32 then read_dots r
              else if c =? 46 then let (n, r') := read_dots r in (S n, r')
              else (O, s)
  | [] => (O, [])
  end.

Fixpoint span_name (s : list Z) : list Z * list Z :=
  match s with
  | c :: r => if is_name_char c then let (a, b) := span_name r in (c :: a, b) else ([], s)
  | [] => ([], [])
  end.

(* CodeStream.read_name: [] when the next non-blank is not a letter *)
Definition read_name (s : list Z) : list Z * list Z :=
  match skip_blank s with
  | c :: r =>
      if is_letter c then
        let (nm, r') := span_name (c :: r) in
        let nm40 := firstn 40 nm in
        match r' with
        | d :: r'' => if is_sigil d then (map upper (nm40 ++ [d]), r'') else (map upper nm40, r')
        | [] => (map upper nm40, [])
        end
      else ([], c :: r)
  | [] => ([], [])
  end.

(* variables: the harness supplies the values of the variables it has set (numeric ones as the integer that
   to_int() gives; only integer-valued numbers are used); unset variables read as 0 / "" *)
Inductive value := VNum (z : Z) | VStr (b : list Z).
Definition env := list (list Z * value).

(* Memory.complete_name with the default DEFtype table (single) *)
Definition complete_name (nm : list Z) : list Z :=
  if is_sigil (last nm 0) then nm else nm ++ [33].

Fixpoint lookup (e : env) (nm : list Z) : option value :=
  match e with
  | [] => None
  | (k, v) :: r => if list_Z_eqb nm k then Some v else lookup r nm
  end.

Definition var_value (e : env) (nm : list Z) : value :=
  match lookup e nm with
  | Some v => v
  | None => if last nm 0 =? 36 then VStr [] else VNum 0
  end.

(* MLParser._parse_variable (scalars only) *)
Definition parse_variable (e : env) (s : list Z) : res (value * list Z) :=
  let (nm, r) := read_name s in
  match nm with
  | [] => Err ifc
  | _ :: _ =>
      let r1 := skip_blank r in
      match r1 with
      | c :: _ => if (c =? 91) || (c =? 40) then Host host_Other
                  else Ok (var_value e (complete_name nm), r1)
      | [] => Ok (var_value e (complete_name nm), [])
      end
  end.

(* require_read((b';',), err=IFC) *)
Definition require_semicolon (s : list Z) : res (list Z) :=
  match skip_blank s with
  | c :: r => if c =? 59 then Ok r else Err ifc
  | [] => Err ifc
  end.

(* MLParser.parse_number() without default *)
Definition parse_number (e : env) (s : list Z) : res (Z * list Z) :=
  let s1 := skip_blank s in
  match s1 with
  | [] => Err ifc
  | c :: r =>
      let sgn := if c =? 45 then -1 else 1 in
      let s2 := if (c =? 43) || (c =? 45) then r else s1 in
      match s2 with
      | [] => Err ifc
      | c2 :: r2 =>
          if c2 =? 61 then
            match r2 with
            | [] => Err ifc
            | c3 :: _ =>
                if c3 >? 8 then
                  do vr <- parse_variable e r2;
                  match fst vr with
                  | VStr _ => Err type_mismatch
                  | VNum z => do r4 <- require_semicolon (snd vr); Ok (sgn * z, r4)
                  end
                else Host host_Other
            end
          else if is_digit c2 then let (z, r3) := lit_digits 0 s2 in Ok (sgn * z, r3)
          else Err ifc
      end
  end.

(* MLParser.parse_string() *)
Definition parse_string (e : env) (s : list Z) : res (list Z * list Z) :=
  match skip_blank s with
  | [] => Err ifc
  | c :: _ =>
      if c >? 8 then
        do vr <- parse_variable e s;
        do r' <- require_semicolon (snd vr);
        match fst vr with
        | VStr b => Ok (b, r')
        | VNum _ => Err type_mismatch
        end
      else Host host_Other
  end.

Definition res_cmd (r : res (Z * list Z)) (k : Z -> list Z -> list cmd) : list cmd :=
  match r with
  | Ok (n, rest) => k n rest
  | Err e => [CBad e]
  | Host h => [CHost h]
  | OutOfFuel => [CFuel]
  end.

(* accidental, literal length and dots after a note letter or P *)
Definition note_suffix (r : list Z) : accidental * option Z * nat * list Z :=
  let s1 := skip_blank r in
  let (acc, s2) := match s1 with
                   | c :: r' => if (c =? 35) || (c =? 43) then (AccSharp, r')
                                else if c =? 45 then (AccFlat, r') else (AccNone, s1)
                   | [] => (AccNone, [])
                   end in
  let s3 := skip_blank s2 in
  let (len, s4) := match s3 with
                   | c :: _ => if is_digit c then let (z, r') := lit_digits 0 s3 in (Some z, r')
                               else (None, s3)
                   | [] => (None, [])
                   end in
  let (d, s5) := read_dots s4 in
  (acc, len, d, s5).

(* one command whose (upper-cased) command character c has been read; rec scans the rest of the string *)
Definition lex_cmd (rec : list Z -> list cmd) (e : env) (c : Z) (r : list Z) : list cmd :=
  if c =? 88 then                                               (* X: the substring is pasted in front *)
    match parse_string e r with
    | Ok (sub, r') => rec (sub ++ r')
    | Err x => [CBad x]
    | Host h => [CHost h]
    | OutOfFuel => [CFuel]
    end
  else if c =? 78 then                                          (* N *)
    res_cmd (parse_number e r)
            (fun n rest => let (d, rest') := read_dots rest in CNum n d :: rec rest')
  else if c =? 76 then res_cmd (parse_number e r) (fun n rest => CLen n :: rec rest)
  else if c =? 84 then res_cmd (parse_number e r) (fun n rest => CTempo n :: rec rest)
  else if c =? 79 then res_cmd (parse_number e r) (fun n rest => COct n :: rec rest)
  else if c =? 62 then CUp :: rec r
  else if c =? 60 then CDown :: rec r
  else if ((65 <=? c) && (c <=? 71)) || (c =? 80) then
    match note_suffix r with
    | (acc, len, d, rest) =>
        (if c =? 80 then CPause acc len d else CNote c acc len d) :: rec rest
    end
  else if c =? 77 then                                          (* M *)
    match skip_blank r with
    | [] => [CBad ifc]
    | m :: r' =>
        let u := upper m in
        if u =? 78 then CFill FillN :: rec r'
        else if u =? 76 then CFill FillL :: rec r'
        else if u =? 83 then CFill FillS :: rec r'
        else if u =? 70 then CFg true :: rec r'
        else if u =? 66 then CFg false :: rec r'
        else [CBad ifc]
    end
  else [CBad ifc].                                              (* includes V: no multivoice in this syntax *)

(* one fuel unit per command read *)
Fixpoint lex (fuel : nat) (e : env) (s : list Z) : list cmd :=
  match fuel with
  | O => [CFuel]
  | S f =>
      match skip_blank s with
      | [] => []
      | c0 :: r0 =>
          (* absorb one (and only one) semicolon; nothing after it falls through to the final else: IFC *)
          if c0 =? 59 then
            match skip_blank r0 with
            | [] => [CBad ifc]
            | c1 :: r1 => lex_cmd (lex f e) e (upper c1) r1
            end
          else lex_cmd (lex f e) e (upper c0) r0
      end
  end.

(* one PLAY statement with one string operand; `if not any(mml_list): raise MISSING_OPERAND` makes the empty
   string (not the blank one) Missing operand *)
Definition missing_operand : Z := 22.
Definition play (fuel : nat) (e : env) (st : pstate) (s : list Z) : list event * pstate * res unit :=
  match s with
  | [] => ([], st, Err missing_operand)
  | _ :: _ => run st (lex fuel e s)
  end.

(* ---------- canonical encoding for the correspondence ---------- *)
(* is the observed binary64 value n/d within 2^-40 relative of the exact q ? *)
Definition close_to (obs : Z * Z) (q : Q) : bool :=
  let a := Qnum q in
  let b := Zpos (Qden q) in
  let (n, d) := obs in
  (0 <? d) && (Z.abs (n * b - a * d) * 2 ^ 40 <=? Z.abs a * d).

Fixpoint enc_events (evs : list event) (obs : list (Z * Z)) : list Z :=
  match evs with
  | [] => []
  | ev :: r =>
      let o := match obs with o :: _ => o | [] => (0, 0) end in
      (match ev_note ev with Some i => i + 1 | None => 0 end)
        :: ev_vol ev :: b2z (close_to o (ev_dur ev)) :: enc_events r (tl obs)
  end.

Definition enc_status (r : res unit) : list Z :=
  match r with Ok _ => [0; 0] | Err e => [1; e] | Host k => [2; k] | OutOfFuel => [3; 0] end.

(* stmts: MML string, observed event durations, observed (length, tempo, fill) after the statement *)
Fixpoint play_case (fuel : nat) (e : env) (st : pstate)
         (stmts : list (list Z * list (Z * Z) * list (Z * Z))) : list Z :=
  match stmts with
  | [] => []
  | (s, obs, sobs) :: rest =>
      let '(evs, st', status) := play fuel e st s in
      (zlen evs :: enc_events evs obs) ++ enc_status status
        ++ [st_octave st'; b2z (st_fg st');
            b2z (close_to (nth 0 sobs (0, 0)) (st_length st'));
            b2z (close_to (nth 1 sobs (0, 0)) (st_tempo st'));
            b2z (close_to (nth 2 sobs (0, 0)) (st_fill st'))]
        ++ play_case fuel e st' rest
  end.

(* ---------- multi-string PLAY (Tandy/PCjr syntax): three voices, three play states ----------
   Sound.play_ keeps one PlayState per voice and reads ONE command per voice in turn:
       voices = [0, 1, 2]
       while voices:
           for voice in voices:
               c = next command character of mml[voice]
               if c == b'': voices.remove(voice); continue      # removal DURING the iteration
               ... execute the command on self._state[voice] ...
   `sched` is the order of turns that loop takes (it depends only on the numbers of commands); `run_sched`
   executes any order of turns.  Not modelled here: the V command, the 110 Hz floor of the Tandy tone generator,
   the synchronisation markers, and X substrings taking a turn of their own (the scanner expands them in place);
   the MF/MB flag is kept per voice in the model (it is one global flag in the implementation). *)
Inductive voice := V0 | V1 | V2.
Definition tri (A : Type) : Type := (A * A * A)%type.

Definition get3 {A} (v : voice) (t : tri A) : A :=
  let '(a, b, c) := t in match v with V0 => a | V1 => b | V2 => c end.
Definition set3 {A} (v : voice) (x : A) (t : tri A) : tri A :=
  let '(a, b, c) := t in match v with V0 => (x, b, c) | V1 => (a, x, c) | V2 => (a, b, x) end.
Definition voice_eqb (v w : voice) : bool :=
  match v, w with V0, V0 | V1, V1 | V2, V2 => true | _, _ => false end.

(* execute the turns of `turns` (a turn of a voice whose string is exhausted does nothing); the first rejected
   command ends the statement.  Result: tone signals tagged with their voice, states, unread commands, status *)
Fixpoint run_sched (turns : list voice) (sts : tri pstate) (css : tri (list cmd))
  : list (voice * event) * tri pstate * tri (list cmd) * res unit :=
  match turns with
  | [] => ([], sts, css, Ok tt)
  | v :: r =>
      match get3 v css with
      | [] => run_sched r sts css
      | c :: cs' =>
          match step (get3 v sts) c with
          | Ok (st', evs) =>
              let '(evs', sts', css', status) := run_sched r (set3 v st' sts) (set3 v cs' css) in
              (map (pair v) evs ++ evs', sts', css', status)
          | Err e => ([], sts, css, Err e)
          | Host k => ([], sts, css, Host k)
          | OutOfFuel => ([], sts, css, OutOfFuel)
          end
      end
  end.

(* the tone signals of one voice *)
Fixpoint proj (v : voice) (evs : list (voice * event)) : list event :=
  match evs with
  | [] => []
  | (w, e) :: r => if voice_eqb w v then e :: proj v r else proj v r
  end.

(* one pass of `for voice in voices` over the active list A with n commands left per voice: a voice with nothing
   left is removed, and because the list shrinks under the iterator the voice after it is skipped in this pass *)
Fixpoint pass (A : list voice) (n : tri nat) : list voice * list voice * tri nat :=
  match A with
  | [] => ([], [], n)
  | x :: r =>
      match get3 x n with
      | O => match r with
             | [] => ([], [], n)
             | y :: r' => let '(ex, A', n') := pass r' n in (ex, y :: A', n')
             end
      | S k => let '(ex, A', n') := pass r (set3 x k n) in (x :: ex, x :: A', n')
      end
  end.

Fixpoint sched_from (fuel : nat) (A : list voice) (n : tri nat) : list voice :=
  match fuel with
  | O => []
  | S f => match A with
           | [] => []
           | _ :: _ => let '(ex, A', n') := pass A n in ex ++ sched_from f A' n'
           end
  end.

Definition sched (n : tri nat) : list voice :=
  let '(a, b, c) := n in sched_from (a + b + c + 4) [V0; V1; V2] n.

Definition all_read (css : tri (list cmd)) : bool :=
  let '(a, b, c) := css in
  match a, b, c with [], [], [] => true | _, _, _ => false end.

(* one PLAY statement with up to three strings (an omitted operand is the empty string) *)
Definition play_multi (fuel : nat) (e : env) (sts : tri pstate) (ss : tri (list Z))
  : list (voice * event) * tri pstate * res unit :=
  let '(s0, s1, s2) := ss in
  match s0, s1, s2 with
  | [], [], [] => ([], sts, Err missing_operand)
  | _, _, _ =>
      let css := (lex fuel e s0, lex fuel e s1, lex fuel e s2) in
      let n := (length (lex fuel e s0), length (lex fuel e s1), length (lex fuel e s2)) in
      let '(evs, sts', css', status) := run_sched (sched n) sts css in
      match status with
      | Ok _ => if all_read css' then (evs, sts', Ok tt) else (evs, sts', OutOfFuel)
      | _ => (evs, sts', status)
      end
  end.

(* canonical encoding: per voice, the records of the statements that voice takes part in (as play_case) *)
Definition mstmt : Type := (tri (list Z) * tri bool * tri (list (Z * Z)) * tri (list (Z * Z)))%type.

Definition voice_code (v : voice) : Z := match v with V0 => 0 | V1 => 1 | V2 => 2 end.

(* result: the three per-voice records, and the voices of all tone signals in the order they were queued *)
Fixpoint play_multi_case (fuel : nat) (e : env) (sts : tri pstate) (stmts : list mstmt)
  : tri (list Z) * list Z :=
  match stmts with
  | [] => (([], [], []), [])
  | (ss, pres, obs, sobs) :: rest =>
      let '(evs, sts', status) := play_multi fuel e sts ss in
      let enc := fun v : voice =>
        if get3 v pres then
          let ev := proj v evs in
          let st' := get3 v sts' in
          (zlen ev :: enc_events ev (get3 v obs)) ++ enc_status status
            ++ [st_octave st'; b2z (st_fg st');
                b2z (close_to (nth 0 (get3 v sobs) (0, 0)) (st_length st'));
                b2z (close_to (nth 1 (get3 v sobs) (0, 0)) (st_tempo st'));
                b2z (close_to (nth 2 (get3 v sobs) (0, 0)) (st_fill st'))]
        else [] in
      let '((a, b, c), order) := play_multi_case fuel e sts' rest in
      ((enc V0 ++ a, enc V1 ++ b, enc V2 ++ c), map (fun p => voice_code (fst p)) evs ++ order)
  end.

Definition flat3 (t : tri (list Z) * list Z) : list Z := let '((a, b, c), order) := t in a ++ b ++ c ++ order.
