(* C25: executable model of RandomFile (devices/diskfiles.py) on an explicit model of the host stream
   (io file object: seek / read / write / tell, zero fill when writing past the end), the FIELD buffer
   (memory/memory.py Field, strings.lset) and the statement glue (OPEN / CLOSE / FIELD+LSET/RSET / PUT / GET /
   LOF / LOC / EOF) for three file numbers, each on its own file.  The pointer arithmetic comes from the
   regenerated gen/Gen_locks.v (names rf_...).  A reference model (record map + high-water mark) is at the end.
   No proofs in this file. *)
From Coq Require Import ZArith List Bool.
From PCB Require Import lib.Result lib.PyInt gen.Gen_locks model.Locks.
Import ListNotations.
Open Scope Z_scope.

Definition zeros (n : Z) : list Z := repeat 0 (Z.to_nat n).
Definition ztake (n : Z) (l : list Z) : list Z := firstn (Z.to_nat n) l.
Definition zdrop (n : Z) (l : list Z) : list Z := skipn (Z.to_nat n) l.

(* ---- host stream: the bytes of the file and the position of this handle *)
Record stream := mkStream { s_bytes : list Z; s_pos : Z }.
Definition s_len (s : stream) : Z := zlen (s_bytes s).
Definition s_seek (p : Z) (s : stream) : stream := mkStream (s_bytes s) p.        (* seek(p) *)
Definition s_seek_end (s : stream) : stream := mkStream (s_bytes s) (s_len s).      (* seek(0, 2) *)
Definition s_tell (s : stream) : Z := s_pos s.
(* read(n): what is there, possibly fewer than n bytes, nothing beyond the end *)
Definition s_read (n : Z) (s : stream) : list Z * stream :=
  let d := ztake n (zdrop (s_pos s) (s_bytes s)) in (d, mkStream (s_bytes s) (s_pos s + zlen d)).
(* write(d): overwrite / extend; a position beyond the end is filled with zero bytes first *)
Definition s_write (d : list Z) (s : stream) : stream :=
  let b := s_bytes s in
  let p := s_pos s in
  let b' := if zlen b <? p then b ++ zeros (p - zlen b) ++ d
            else ztake p b ++ d ++ zdrop (p + zlen d) b in
  mkStream b' (p + zlen d).

(* ---- RandomFile *)
Record rfile := mkRF { rf_stream : stream; rf_recpos : Z; rf_reclen : Z }.

(* RandomFile.lof(): tell, seek(0, 2), tell, seek(back) *)
Definition rf_lof (f : rfile) : Z := s_len (rf_stream f).

(* RandomFile._set_record_pos *)
Definition set_record_pos (pos : option Z) (f : rfile) : rfile :=
  match pos with
  | None => f
  | Some p => mkRF (s_seek (rf_setpos_seek (rf_reclen f) p) (rf_stream f)) (rf_setpos_recpos p) (rf_reclen f)
  end.

(* FieldFile.set_buffer: buffer[:reclen] = contents.ljust(reclen, NUL) *)
Definition set_buffer (reclen : Z) (contents buf : list Z) : list Z :=
  contents ++ zeros (reclen - zlen contents) ++ zdrop reclen buf.

(* RandomFile.get (the lock check is C26) *)
Definition rf_get (pos : option Z) (f : rfile) (buf : list Z) : rfile * list Z :=
  let f1 := set_record_pos pos f in
  let L := rf_reclen f1 in
  let '(contents, st) :=
    if rf_eof (rf_recpos f1) L (rf_lof f1) then (zeros L, rf_stream f1)
    else s_read L (s_seek (rf_get_seek (rf_recpos f1) L (s_pos (rf_stream f1))) (rf_stream f1)) in
  (mkRF st (rf_get_next (rf_recpos f1)) L, set_buffer L contents buf).

(* RandomFile.put *)
Definition rf_put (pos : option Z) (f : rfile) (buf : list Z) : rfile :=
  let f1 := set_record_pos pos f in
  let L := rf_reclen f1 in
  let lof := rf_lof f1 in
  let st1 :=
    if rf_put_gap (rf_recpos f1) L lof
    then s_write (zeros (rf_put_pad (rf_recpos f1) L lof)) (s_seek_end (rf_stream f1))
    else s_seek (rf_put_seek (rf_recpos f1) L (s_pos (rf_stream f1))) (rf_stream f1) in
  let st2 := s_write (ztake L buf) st1 in
  mkRF st2 (rf_put_next (rf_recpos f1)) L.

Definition rf_loc (f : rfile) : Z := rf_recpos f.
Definition rf_iseof (f : rfile) : bool := rf_eof (rf_recpos f) (rf_reclen f) (rf_lof f).

(* ---- LSET / RSET into the FIELD buffer: in_str[:w].ljust(w) / .rjust(w) at offset off *)
Definition spaces (n : Z) : list Z := repeat 32 (Z.to_nat n).
Definition justify (rj : bool) (w : Z) (d : list Z) : list Z :=
  let t := ztake w d in
  if rj then spaces (w - zlen t) ++ t else t ++ spaces (w - zlen t).
Definition buf_set (off w : Z) (rj : bool) (d buf : list Z) : list Z :=
  ztake off buf ++ justify rj w d ++ zdrop (off + w) buf.

(* LOF() and LOC() return Single.from_int(n): exact below 2^24, above that cut to 24 significant bits *)
Definition single_trunc (x : Z) : Z :=
  let a := Z.abs x in
  let k := Z.log2 a - 23 in
  if k <=? 0 then x else Z.sgn x * Z.shiftl (Z.shiftr a k) k.

(* ---- one file number: the file on disk (kept while closed), the open handle, the FIELD buffer *)
Definition field_size : Z := 128.       (* Field(max_reclen): the buffer does not depend on LEN= *)
Record fstate := mkFS { fs_disk : list Z; fs_open : option rfile; fs_buf : list Z }.
Definition fs_init : fstate := mkFS [] None (zeros field_size).

Record world := mkW { w1 : fstate; w2 : fstate; w3 : fstate }.
Definition w_init : world := mkW fs_init fs_init fs_init.
Definition wget (n : Z) (w : world) : option fstate :=
  if n =? 1 then Some (w1 w) else if n =? 2 then Some (w2 w) else if n =? 3 then Some (w3 w) else None.
Definition wset (n : Z) (x : fstate) (w : world) : world :=
  if n =? 1 then mkW x (w2 w) (w3 w) else if n =? 2 then mkW (w1 w) x (w3 w) else mkW (w1 w) (w2 w) x.

Inductive wop :=
| WOpen (n reclen : Z)                                   (* OPEN "R<n>" FOR RANDOM AS n LEN=reclen *)
| WClose (n : Z)
| WField (n off w : Z) (rj : bool) (d : list Z)       (* FIELD #n, off AS Z$, w AS A$ : LSET/RSET A$ = d *)
| WPut (n : Z) (pos : option Z)
| WGet (n : Z) (pos : option Z)
| WQuery (n : Z).                                        (* LOF(n), LOC(n), EOF(n) *)

(* current bytes of the file of a number *)
Definition fs_bytes (x : fstate) : list Z :=
  match fs_open x with Some f => s_bytes (rf_stream f) | None => fs_disk x end.

Definition unmodelled {A} : res A := Host host_Other.

(* result: Ok l with l the observed values (GET: the record in the buffer; query: LOF, LOC, EOF) *)
Definition wstep (w : world) (o : wop) : world * res (list Z) :=
  match o with
  | WOpen n reclen =>
      match wget n w with
      | None => (w, unmodelled)
      | Some x =>
          if (reclen <? 1) || (max_reclen <? reclen) then (w, Err locks_err_IFC)
          else match fs_open x with
               | Some _ => (w, Err locks_err_FILE_ALREADY_OPEN)
               | None => (wset n (mkFS (fs_disk x) (Some (mkRF (mkStream (fs_disk x) 0) 0 reclen)) (fs_buf x)) w,
                          Ok [])
               end
      end
  | WClose n =>
      match wget n w with
      | None => (w, unmodelled)
      | Some x => (wset n (mkFS (fs_bytes x) None (fs_buf x)) w, Ok [])
      end
  | WField n off wd rj d =>
      match wget n w with
      | None => (w, unmodelled)
      | Some x =>
          match fs_open x with
          | None => (w, Err locks_err_BAD_FILE_NUMBER)
          | Some f =>
              if (off <? 0) || (255 <? off) || (wd <? 0) || (255 <? wd) then (w, Err locks_err_IFC)
              else if (field_size <? off) || (field_size <? off + wd) then (w, Err locks_err_FIELD_OVERFLOW)
              else (wset n (mkFS (fs_disk x) (Some f) (buf_set off wd rj d (fs_buf x))) w, Ok [])
          end
      end
  | WPut n pos =>
      match wget n w with
      | None => (w, unmodelled)
      | Some x =>
          match fs_open x with
          | None => (w, Err locks_err_BAD_FILE_MODE)
          | Some f =>
              match check_pos pos with
              | Ok p => (wset n (mkFS (fs_disk x) (Some (rf_put p f (fs_buf x))) (fs_buf x)) w, Ok [])
              | Err e => (w, Err e)
              | Host h => (w, Host h)
              | OutOfFuel => (w, OutOfFuel)
              end
          end
      end
  | WGet n pos =>
      match wget n w with
      | None => (w, unmodelled)
      | Some x =>
          match fs_open x with
          | None => (w, Err locks_err_BAD_FILE_MODE)
          | Some f =>
              match check_pos pos with
              | Ok p => let '(f', buf') := rf_get p f (fs_buf x) in
                        (wset n (mkFS (fs_disk x) (Some f') buf') w, Ok (ztake (rf_reclen f) buf'))
              | Err e => (w, Err e)
              | Host h => (w, Host h)
              | OutOfFuel => (w, OutOfFuel)
              end
          end
      end
  | WQuery n =>
      match wget n w with
      | None => (w, unmodelled)
      | Some x =>
          match fs_open x with
          | None => (w, Err locks_err_BAD_FILE_NUMBER)
          | Some f => (w, Ok [single_trunc (rf_lof f); single_trunc (rf_loc f); if rf_iseof f then -1 else 0])
          end
      end
  end.

(* observation for the correspondence harness: per statement the result, at the end the bytes of every
   file and every FIELD buffer *)
Fixpoint wtrace (w : world) (ops : list wop) : list Z :=
  match ops with
  | [] => flat_map (fun x => (zlen (fs_bytes x) :: fs_bytes x) ++ fs_buf x) [w1 w; w2 w; w3 w]
  | o :: r => let (w', res) := wstep w o in
              match res with
              | Ok l => (0 :: zlen l :: l)
              | Err e => [1; e]
              | Host h => [2; h]
              | OutOfFuel => [3; 0]
              end ++ wtrace w' r
  end.

(* ------------------------------------------------------------------------------------------------
   one open file with a fixed record length L: implementation model and reference model side by side *)
Inductive rop :=
| RSet (off w : Z) (rj : bool) (d : list Z)      (* LSET / RSET into the buffer *)
| RPut (pos : option Z)                              (* record number already checked by Files._check_pos *)
| RGet (pos : option Z)
| RQuery                                             (* LOF, LOC, EOF *)
| RReopen.                                           (* CLOSE and OPEN again with the same record length *)

Record istate := mkI { i_file : rfile; i_buf : list Z }.
Definition i_init (L : Z) (buf : list Z) : istate := mkI (mkRF (mkStream [] 0) 0 L) buf.

Definition istep (s : istate) (o : rop) : istate * list Z :=
  match o with
  | RSet off w rj d => (mkI (i_file s) (buf_set off w rj d (i_buf s)), [])
  | RPut pos => (mkI (rf_put pos (i_file s) (i_buf s)) (i_buf s), [])
  | RGet pos => let '(f', b') := rf_get pos (i_file s) (i_buf s) in
                (mkI f' b', ztake (rf_reclen (i_file s)) b')
  | RQuery => (s, [rf_lof (i_file s); rf_loc (i_file s); if rf_iseof (i_file s) then -1 else 0])
  | RReopen => (mkI (mkRF (mkStream (s_bytes (rf_stream (i_file s))) 0) 0 (rf_reclen (i_file s))) (i_buf s), [])
  end.

Fixpoint irun (s : istate) (ops : list rop) : list (list Z) * istate :=
  match ops with
  | [] => ([], s)
  | o :: r => let '(s', out) := istep s o in let '(outs, s'') := irun s' r in (out :: outs, s'')
  end.

(* reference: a finite map record number -> bytes, the highest record written, the last record accessed *)
Record sstate := mkS { sp_map : list (Z * list Z); sp_hw : Z; sp_loc : Z; sp_buf : list Z }.
Definition s_init (buf : list Z) : sstate := mkS [] 0 0 buf.

Fixpoint lookup (k : Z) (m : list (Z * list Z)) : option (list Z) :=
  match m with
  | [] => None
  | (j, d) :: r => if j =? k then Some d else lookup k r
  end.
(* the record k: what was PUT last, zero bytes if never written *)
Definition sp_rec (L : Z) (m : list (Z * list Z)) (k : Z) : list Z :=
  match lookup k m with Some d => d | None => zeros L end.

Definition target (pos : option Z) (loc : Z) : Z := match pos with Some k => k | None => loc + 1 end.

Definition sstep (L : Z) (s : sstate) (o : rop) : sstate * list Z :=
  match o with
  | RSet off w rj d => (mkS (sp_map s) (sp_hw s) (sp_loc s) (buf_set off w rj d (sp_buf s)), [])
  | RPut pos =>
      let k := target pos (sp_loc s) in
      (mkS ((k, ztake L (sp_buf s)) :: sp_map s) (Z.max (sp_hw s) k) k (sp_buf s), [])
  | RGet pos =>
      let k := target pos (sp_loc s) in
      let d := sp_rec L (sp_map s) k in
      (mkS (sp_map s) (sp_hw s) k (d ++ zdrop L (sp_buf s)), d)
  | RQuery => (s, [L * sp_hw s; sp_loc s; if L * sp_hw s <? sp_loc s * L then -1 else 0])
  | RReopen => (mkS (sp_map s) (sp_hw s) 0 (sp_buf s), [])
  end.

Fixpoint srun (L : Z) (s : sstate) (ops : list rop) : list (list Z) * sstate :=
  match ops with
  | [] => ([], s)
  | o :: r => let '(s', out) := sstep L s o in let '(outs, s'') := srun L s' r in (out :: outs, s'')
  end.
