(* C08 <-> C07 bridge: the numeric value of PRINT USING given by its MBF bytes; the (mantissa, exponent)
   table of model/Using.v is COMPUTED by the regenerated Float.to_decimal core of gen/Gen_dec.v
   (mbf_to_decimal_core, property C07) with the limit byte strings to_decimal(k) builds
   (gen.Gen_using.using_limits_*, dumped from the repository's from_int/_just_under).   NO proofs here. *)
From Coq Require Import ZArith List Bool.
From PCB Require Import lib.Result lib.PyInt lib.Harness lib.MBFPrims gen.Gen_mbf gen.Gen_dec model.MBF
  gen.Gen_using model.Using.
Import ListNotations.
Open Scope Z_scope.

Definition dec_consts (dbl : bool) : fconst := if dbl then Double_consts else Single_consts.

(* the limits Float.to_decimal(k) compares with: the class limits for k >= digits, else just under
   10^(k-1) and 10^k (0 and just under 1 for k <= 0) *)
Definition dec_limits (dbl : bool) (k : Z) : list Z * list Z :=
  let C := dec_consts dbl in
  if k >=? c_digits C then (c_lim_bot C, c_lim_top C)
  else nth (Z.to_nat (Z.max 0 k)) (if dbl then using_limits_double else using_limits_single)
           (c_lim_bot C, c_lim_top C).

(* value.clone().iabs().to_decimal(k) *)
Definition buf_to_decimal (dbl : bool) (b : list Z) (k : Z) : res (Z * Z) :=
  let C := dec_consts dbl in
  do a <- mbf_iabs C b;
  mbf_to_decimal_core C a (fst (dec_limits dbl k)) (snd (dec_limits dbl k)).

(* the value as model/Using.v sees it: sign, is_zero, type and to_decimal at the precisions `ks` *)
Definition nval_of_buf (dbl : bool) (b : list Z) (ks : list Z) : nval :=
  mkNV (f_neg (dec_consts dbl) b) (f_zero b) dbl
       (flat_map (fun k => match buf_to_decimal dbl b k with Ok p => [(k, p)] | _ => [] end) ks).

(* all precisions 0 .. digits *)
Definition all_ks (dbl : bool) : list Z :=
  map Z.of_nat (seq 0 (S (Z.to_nat (c_digits (dec_consts dbl))))).
Definition nval_of_bytes (dbl : bool) (b : list Z) : nval := nval_of_buf dbl b (all_ks dbl).
