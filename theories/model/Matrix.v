(* base/bytematrix.py ByteMatrix as far as the graphics write funnel uses it (C30, C31):
   a matrix is a list of rows (bytearrays); __setitem__ with Python's index / slice semantics,
   including negative indices (wrap from the end), out-of-range slice bounds (clamped) and the
   resizing slice assignment of bytearray rows when a block row has a different length.
   NO proofs here (proofs/Matrix_proofs.v). *)
From Coq Require Import ZArith List Bool.
From PCB Require Import lib.Result lib.PyInt lib.GfxPrims.
Import ListNotations.
Open Scope Z_scope.

Definition matrix := list (list Z).

(* PySlice_AdjustIndices for step 1: a bound i against a sequence of length len *)
Definition norm_bound (len i : Z) : Z :=
  if i <? 0 then Z.max 0 (i + len) else Z.min i len.

(* (start, stop) of seq[lo:hi] as naturals, with stop >= start (an inverted slice is empty at start) *)
Definition slice_bounds (len : Z) (lo hi : option Z) : nat * nat :=
  let a := match lo with None => 0 | Some a => norm_bound len a end in
  let b := match hi with None => len | Some b => norm_bound len b end in
  (Z.to_nat a, Z.to_nat (Z.max a b)).

(* seq[i] for an int i: negative counts from the end; None = IndexError *)
Definition py_index (len i : Z) : option nat :=
  if i <? 0 then (if i + len <? 0 then None else Some (Z.to_nat (i + len)))
  else if i <? len then Some (Z.to_nat i) else None.

(* row[lo:hi] = data  (bytearray slice assignment; resizes when length data <> hi - lo) *)
Definition row_setslice (row : list Z) (lo hi : option Z) (data : list Z) : list Z :=
  let '(a, b) := slice_bounds (zlen row) lo hi in
  firstn a row ++ data ++ skipn b row.

(* row[lo:hi] = bytearray(v for _ in row[lo:hi]) *)
Definition row_fill (row : list Z) (lo hi : option Z) (v : Z) : list Z :=
  let '(a, b) := slice_bounds (zlen row) lo hi in
  firstn a row ++ repeat v (b - a) ++ skipn b row.

Fixpoint set_nth (l : list Z) (n : nat) (v : Z) : list Z :=
  match l, n with
  | [], _ => []
  | _ :: r, O => v :: r
  | x :: r, S n' => x :: set_nth r n' v
  end.

(* apply the row transformers fs to the consecutive rows skip, skip+1, ... (zip: stops at the shorter) *)
Fixpoint upd_rows (m : matrix) (skip : nat) (fs : list (list Z -> list Z)) : matrix :=
  match m with
  | [] => []
  | r :: rs =>
    match skip with
    | S k => r :: upd_rows rs k fs
    | O => match fs with
           | [] => r :: rs
           | f :: fs' => f r :: upd_rows rs O fs'
           end
    end
  end.

(* ByteMatrix.__setitem__((yidx, xidx), data); the viewport only ever passes (int, int) or (slice, slice);
   mixed index pairs are not modelled (Host 99) *)
Definition mat_setitem (m : matrix) (yi xi : idx) (d : wdata) : res matrix :=
  match yi, xi with
  | IInt y, IInt x =>
    match d with
    | Fill v =>
      match py_index (zlen m) y with
      | None => Host host_IndexError
      | Some yn =>
        match py_index (zlen (nth yn m [])) x with
        | None => Host host_IndexError
        | Some xn => Ok (upd_rows m yn [fun r => set_nth r xn v])
        end
      end
    | Block _ => Ok m     (* neither branch of the non-int case applies: nothing is written *)
    end
  | ISlice ylo yhi, ISlice xlo xhi =>
    let '(ra, rb) := slice_bounds (zlen m) ylo yhi in
    match d with
    | Fill v => Ok (upd_rows m ra (repeat (fun r => row_fill r xlo xhi v) (rb - ra)))
    | Block src => Ok (upd_rows m ra (map (fun s r => row_setslice r xlo xhi s) (firstn (rb - ra) src)))
    end
  | _, _ => Host 99
  end.

(* ByteMatrix.__getitem__ for (int, int) and (slice, slice) *)
Definition sublist {A} (l : list A) (a b : nat) : list A := firstn (b - a) (skipn a l).

Definition mat_getslice (m : matrix) (ylo yhi xlo xhi : option Z) : matrix :=
  let '(ra, rb) := slice_bounds (zlen m) ylo yhi in
  map (fun r => let '(a, b) := slice_bounds (zlen r) xlo xhi in sublist r a b) (sublist m ra rb).

(* observation *)
Definition cell (m : matrix) (y x : nat) : option Z :=
  match nth_error m y with
  | None => None
  | Some r => nth_error r x
  end.

Definition cellZ (m : matrix) (y x : Z) : option Z :=
  if (y <? 0) || (x <? 0) then None else cell m (Z.to_nat y) (Z.to_nat x).

Definition mat_dims (m : matrix) (h w : Z) : Prop :=
  zlen m = h /\ Forall (fun r => zlen r = w) m.

Definition blank (h w : Z) (v : Z) : matrix := repeat (repeat v (Z.to_nat w)) (Z.to_nat h).

(* cells (y, x, new value) that differ between two matrices of the same shape, row-major *)
Fixpoint diff_row (y x : Z) (r r' : list Z) : list (Z * Z * Z) :=
  match r, r' with
  | a :: t, b :: t' => if a =? b then diff_row y (x + 1) t t' else (y, x, b) :: diff_row y (x + 1) t t'
  | _, _ => []
  end.

Fixpoint diff_rows (y : Z) (m m' : matrix) : list (Z * Z * Z) :=
  match m, m' with
  | r :: t, r' :: t' => diff_row y 0 r r' ++ diff_rows (y + 1) t t'
  | _, _ => []
  end.

Definition mat_diff (m m' : matrix) : list (Z * Z * Z) := diff_rows 0 m m'.

Fixpoint same_shape (m m' : matrix) : bool :=
  match m, m' with
  | [], [] => true
  | r :: t, r' :: t' => (length r =? length r')%nat && same_shape t t'
  | _, _ => false
  end.
