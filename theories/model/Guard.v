(* C16: model of the protection guards of pcbasic (program.py, machine.py, implementation.py, interpreter.py,
   memory/memory.py).  Executable Gallina, no proofs.  Every decision "does this callback refuse?" and every
   write of the flag is interpreted FROM the regenerated table gen/Gen_guard.v.

   Abstraction.  A program in memory is a list of LINE CODES (each code stands for the bytes of that line):
     1 syntax-error line   2 DATA line   3 line with an undefined jump target   4 any other line
     10..14 further lines of the same file (END, a REM that is poked, two deletable lines, the ON ERROR handler)
     50 a line of some other (unprotected, user-owned) file      60 a line typed / merged / poked by the user
   An OBSERVATION is what a callback exposes: nothing, plain program lines, or lines through the C15 cipher
   (SAVE ,P).  "has_program" of DESIGN.md is  prog s <> [].  *)
From Coq Require Import ZArith List Bool.
From PCB Require Import lib.Result lib.PyInt gen.Gen_guard.
Import ListNotations.
Open Scope Z_scope.

Inductive obs := NoObs | Plain (b : list Z) | Cipher (b : list Z).

Record state := mkState {
  protected : bool;       (* Program.protected *)
  allow_protect : bool;   (* Program.allow_protect = Session(hide_protected=...) *)
  run_mode : bool;        (* Interpreter.run_mode *)
  prog : list Z;          (* line codes of the program in memory *)
  secret : bool;          (* the program in memory came from a protected (,P) file *)
  tainted : bool          (* lines or bytes supplied in direct mode were stored into it since it was loaded *)
}.

Definition set_protected (s : state) (b : bool) : state :=
  mkState b (allow_protect s) (run_mode s) (prog s) (secret s) (tainted s).
Definition set_run (s : state) (b : bool) : state :=
  mkState (protected s) (allow_protect s) b (prog s) (secret s) (tainted s).
Definition set_prog (s : state) (p : list Z) : state :=
  mkState (protected s) (allow_protect s) (run_mode s) p (secret s) (tainted s).
Definition set_tainted (s : state) (b : bool) : state :=
  mkState (protected s) (allow_protect s) (run_mode s) (prog s) (secret s) b.

Definition memz (x : Z) (l : list Z) : bool := existsb (Z.eqb x) l.
Definition remove_codes (rs l : list Z) : list Z := filter (fun x => negb (memz x rs)) l.
Definition add_code (x : Z) (l : list Z) : list Z := if memz x l then l else l ++ [x].

(* does the guard of kind g fire?  x is the extra condition of the two binary kinds (mode <> P / merge) *)
Definition fires (g : gkind) (s : state) (x : bool) : bool :=
  match g with
  | GNone => false
  | GProt => protected s
  | GProtNotRun => protected s && negb (run_mode s)
  | GProtNotP => protected s && x
  | GProtMerge => protected s && x
  end.

(* value written to the flag by a writer of kind w (v = poked value) *)
Definition wvalue (w : wkind) (s : state) (v : Z) : bool :=
  match w with
  | WFalse => false
  | WTrue => true
  | WAllow => allow_protect s
  | WValNonzero => negb (v =? 0)
  end.

Definition E_IFC : Z := guard_err.
Definition E_OUT_OF_DATA : Z := 4.
Definition E_UNDEF_LINE : Z := 8.
Definition E_FILE_NOT_FOUND : Z := 53.

Inductive smode := SA | SB | SP.
Inductive file := FMissing | FPlain (code : list Z) | FProt (code : list Z).
(* FIELD widths: they fit the buffer / the second variable starts at the end of the buffer and is short (reaches
   the first program line only) / the variables after the first cover the whole code area *)
Inductive fwidth := FFit | FOverSmall | FOverAll.

Inductive op :=
| OList | OLlist                       (* list_ / llist_ -> Program.list_lines *)
| OEdit (r : Z)                        (* EDIT <line r> then the prompt -> Program.edit *)
| OEditPrompt                          (* RUN of a program whose line 1 has a syntax error, then the prompt *)
| OSave (m : smode)                    (* save_ -> Program.save *)
| OPeekCode | OPeekOther | OPeekFlag   (* peek_ (a loop over the code area / elsewhere / PEEK(1450)) *)
| OBsaveCode | OBsaveOther             (* bsave_ *)
| OPokeFlag (v : Z) | OPokeCode | OPokeOther   (* poke_ *)
| OBloadMissing | OBloadFlag (v : Z) | OBloadCode | OBloadOther   (* bload_ *)
| OStoreNew | OStoreDel (r : Z)        (* a typed program line / a typed bare line number *)
| OAutoLine (empty : bool)             (* a line entered at the AUTO prompt *)
| OMerge (has_lines : bool)            (* merge_ of an ASCII file with / without numbered lines *)
| OChainMerge (has_lines : bool)       (* chain_ with MERGE *)
| OLoad (f : file) | ORunFile (f : file) | OChain (f : file) | ONew
| ODelete (rs : list Z)                (* delete_ of the lines with these codes *)
| ORenum                               (* renum_ (prints "Undefined line" for line code 3) *)
| ORead                                (* READ A$ : PRINT A$ (reads line code 2) *)
| OEnterRun | OLeaveRun                (* RUN/GOTO/CONT/handler entry ; END/STOP/error/return to the prompt *)
| ORunUser                             (* RUN of the program in memory at the interactive prompt: if lines or bytes
                                          supplied in direct mode are part of it (tainted), they execute in run mode,
                                          where the PEEK family is allowed, and may dump the code area *)
| OField (last : bool) (w : fwidth).   (* OPEN "R" on the highest / another file number, FIELD with these widths,
                                          then PRINT / ASC / MID$ / INSTR of the fielded variables.  The FIELD
                                          buffer of the highest file number ends exactly at the program code and
                                          StringSpace.view reads descriptors >= code_start from the code, unguarded:
                                          the only protection is that no such descriptor is ever created *)

Definition plain (b : list Z) : obs := match b with [] => NoObs | _ => Plain b end.
Definition cipher (b : list Z) : obs := match b with [] => NoObs | _ => Cipher b end.

Definition result := (state * res Z * obs)%type.
Definition refuse (s : state) : result := (s, Err E_IFC, NoObs).
Definition done (s : state) : result := (s, Ok 0, NoObs).

(* Program.erase + the file-type chain of Program.load *)
Definition erase (s : state) : state :=
  mkState (wvalue w_erase s 0) (allow_protect s) (run_mode s) [] false false.
Definition load_file (s : state) (f : file) : state :=
  let e := if load_erases_first then erase s else s in
  match f with
  | FMissing => s
  | FPlain c => mkState (protected e) (allow_protect e) (run_mode e) c false false
  | FProt c => mkState (wvalue w_load_P e 0) (allow_protect e) (run_mode e) c true false
  end.

(* DataSegment._set_basic_memory at the flag address *)
Definition write_flag (s : state) (v : Z) : state :=
  if negb poke_needs_allow || allow_protect s then set_protected s (wvalue w_poke s v) else s.

(* user-supplied bytes reach the program: typed in direct mode they taint it, written by the running program
   they are the program's own doing *)
Definition taint (s : state) : state := set_tainted s (tainted s || negb (run_mode s)).

Definition step (s : state) (o : op) : result :=
  match o with
  | OList | OLlist =>
      if fires g_cb_list s false || fires g_cb_llist s false || fires g_list_lines s false then refuse s
      else (set_run s false, Ok 0, plain (prog s))
  | OEdit r =>
      if fires g_cb_edit s false then refuse s
      else if negb (memz r (prog s)) then (s, Err E_UNDEF_LINE, NoObs)
      else let s1 := set_run s false in
           if fires g_cb_show_prompt s1 false || fires g_edit s1 false then (s1, Err E_IFC, NoObs)
           else (s1, Ok 0, Plain [r])
  | OEditPrompt =>
      let s1 := set_run s false in
      if negb (memz 1 (prog s)) then done s1
      else if fires g_cb_show_prompt s1 false || fires g_edit s1 false then (s1, Err E_IFC, NoObs)
      else (s1, Ok 0, Plain [1])
  | OSave m =>
      let notp := match m with SP => false | _ => true end in
      if fires g_cb_save s notp || fires g_save s notp then refuse s
      else match m with
           | SA => (set_run s false, Ok 0, plain (prog s))
           | SB => (s, Ok 0, plain (prog s))
           | SP => (s, Ok 0, cipher (prog s))
           end
  | OPeekCode =>
      if fires g_peek s false || fires g_get_memory s false then refuse s else (s, Ok 0, plain (prog s))
  | OPeekOther => if fires g_peek s false then refuse s else done s
  | OPeekFlag =>
      if fires g_peek s false then refuse s
      else (s, Ok (if protected s then flag_peek_value else 0), NoObs)
  | OBsaveCode =>
      if fires g_bsave s false || fires g_get_memory s false then refuse s else (s, Ok 0, plain (prog s))
  | OBsaveOther => if fires g_bsave s false then refuse s else done s
  | OPokeFlag v =>
      if fires g_poke s false then refuse s
      else if (v <? 0) || (255 <? v) then refuse s
      else done (write_flag s v)
  | OPokeCode =>
      if fires g_poke s false || fires g_set_memory s false then refuse s else done (taint s)
  | OPokeOther => if fires g_poke s false then refuse s else done s
  | OBloadMissing => if fires g_bload s false then refuse s else (s, Err E_FILE_NOT_FOUND, NoObs)
  | OBloadFlag v => if fires g_bload s false then refuse s else done (write_flag s v)
  | OBloadCode => if fires g_bload s false || fires g_set_memory s false then refuse s else done (taint s)
  | OBloadOther => if fires g_bload s false then refuse s else done s
  | OStoreNew =>
      let s1 := set_run s false in
      if fires g_cb_store_line s1 false || fires g_store_line s1 false then refuse s1
      else done (taint (set_prog s1 (add_code 60 (prog s1))))
  | OStoreDel r =>
      let s1 := set_run s false in
      if fires g_cb_store_line s1 false || fires g_store_line s1 false then refuse s1
      else if negb (memz r (prog s1)) then (s1, Err E_UNDEF_LINE, NoObs)
      else done (set_prog s1 (remove_codes [r] (prog s1)))
  | OAutoLine empty =>
      if empty then done s
      else if fires g_cb_auto_step s false || fires g_store_line s false then refuse s
      else done (taint (set_prog (set_run s false) (add_code 60 (prog s))))
  | OMerge has_lines =>
      if fires g_cb_merge s false || fires g_merge s false then refuse s
      else if negb has_lines then done (set_run s false)
      else if fires g_store_line s false then refuse s
      else done (taint (set_prog (set_run s false) (add_code 60 (prog s))))
  | OChainMerge has_lines =>
      if fires g_chain s true then refuse s
      else if negb has_lines then done (set_run s true)
      else if fires g_merge s false || fires g_store_line s false then refuse (set_run s false)
      else done (set_run (taint (set_prog s (add_code 60 (prog s)))) true)
  | OLoad f =>
      match f with
      | FMissing => (s, Err E_FILE_NOT_FOUND, NoObs)
      | _ => done (set_run (load_file s f) false)
      end
  | ORunFile f =>
      match f with
      | FMissing => (s, Err E_FILE_NOT_FOUND, NoObs)
      | _ => done (set_run (load_file s f) true)
      end
  | OChain f =>
      if fires g_chain s false then refuse s
      else match f with
           | FMissing => (set_run s false, Err E_FILE_NOT_FOUND, NoObs)
           | _ => done (set_run (load_file s f) true)
           end
  | ONew => done (set_run (if new_erases then erase s else s) false)
  | ODelete rs =>
      if fires g_cb_delete s false || fires g_delete s false then refuse s
      else match filter (fun x => memz x rs) (prog s) with
           | [] => refuse s          (* "no lines selected" is also Illegal function call *)
           | _ => done (set_run (set_prog s (remove_codes rs (prog s))) false)
           end
  | ORenum =>
      if fires g_cb_renum s false || fires g_renum s false then refuse s
      else (set_run s false, Ok 0, if memz 3 (prog s) then Plain [3] else NoObs)
  | ORead =>
      if fires g_read s false then refuse s
      else if memz 2 (prog s) then (s, Ok 0, Plain [2]) else (s, Err E_OUT_OF_DATA, NoObs)
  | OEnterRun => done (set_run s true)
  | OLeaveRun => done (set_run s false)
  | ORunUser =>
      if tainted s && memz 60 (prog s) then
        let s1 := set_run s true in
        if fires g_peek s1 false || fires g_get_memory s1 false then (set_run s false, Err E_IFC, NoObs)
        else (set_run s false, Ok 0, plain (prog s))
      else done (set_run s false)
  | OField last w =>
      match w with
      | FFit => done s
      | FOverSmall =>
          (s, Err field_overflow_err,
           if field_bounded || negb last then NoObs else if memz 1 (prog s) then Plain [1] else NoObs)
      | FOverAll =>
          (s, Err field_overflow_err, if field_bounded || negb last then NoObs else plain (prog s))
      end
  end.

Definition st (r : result) : state := fst (fst r).
Definition rs_ (r : result) : res Z := snd (fst r).
Definition ob (r : result) : obs := snd r.

(* An EVENT is either a command typed at the prompt (Implementation._store_line sets run_mode := False before
   it is executed) or a statement executed by the running program (only while run_mode is set). *)
Inductive event := Direct (o : op) | Prog (o : op).

Definition estep (s : state) (e : event) : result :=
  match e with
  | Direct o => step (set_run s false) o
  | Prog o => if run_mode s then step s o else (s, Ok 0, NoObs)
  end.

Fixpoint run_events (s : state) (es : list event) : state :=
  match es with
  | [] => s
  | e :: r => run_events (st (estep s e)) r
  end.

(* ---- canonical encoding for the correspondence harness ---- *)
Definition is_secret_code (x : Z) : bool := (1 <=? x) && (x <=? 4).
Definition leak_class (o : obs) : Z :=
  match o with
  | NoObs => 0
  | Plain b => if existsb is_secret_code b then 1 else 0
  | Cipher b => if existsb is_secret_code b then 2 else 0
  end.
Definition enc_result (r : result) : list Z :=
  (match rs_ r with Ok v => [0; v] | Err e => [1; e] | Host x => [2; x] | OutOfFuel => [3; 0] end)
  ++ [leak_class (ob r); enc_bool (protected (st r))].

Fixpoint enc_events (s : state) (es : list event) : list Z :=
  match es with
  | [] => []
  | e :: r => let x := estep s e in enc_result x ++ enc_events (st x) r
  end.

(* several observations together: plain text anywhere is class 1, else cipher text is class 2 *)
Definition comb (a b : Z) : Z := if (a =? 1) || (b =? 1) then 1 else Z.max a b.

(* program run (kind "run" of the harness): per statement [executed; err; flag after] and the largest leak *)
Fixpoint enc_prog (s : state) (os : list op) : list Z * Z :=
  match os with
  | [] => ([], 0)
  | o :: r =>
      if run_mode s then
        let x := step s o in
        let '(l, k) := enc_prog (st x) r in
        (1 :: match rs_ x with Err e => e | _ => 0 end
           :: enc_bool (protected (st x) && run_mode (st x)) :: l,   (* F%(i) is only assigned if the program goes on *)
         comb (leak_class (ob x)) k)
      else let '(l, k) := enc_prog s r in (0 :: 0 :: 0 :: l, k)
  end.
Definition enc_run (s : state) (os : list op) : list Z :=
  let '(l, k) := enc_prog s os in k :: l.

(* interactive transcript (kind "inter" of the harness): number of refusals, largest leak, final flag *)
Fixpoint enc_inter_from (s : state) (es : list event) (n k : Z) : list Z :=
  match es with
  | [] => [n; k; enc_bool (protected s)]
  | e :: r =>
      let x := estep s e in
      enc_inter_from (st x) r
        (match rs_ x with Err e => if e =? E_IFC then n + 1 else n | _ => n end)
        (comb k (leak_class (ob x)))
  end.
Definition enc_inter (s : state) (es : list event) : list Z := enc_inter_from s es 0 0.

(* the files of the harness: P = the protected file, Q = the same program saved unprotected, U = another file *)
Definition secret_code : list Z := [1; 2; 3; 4; 10; 11; 12; 13; 14].
Definition secret_code_nostx : list Z := [2; 3; 4; 10; 11; 12; 13; 14].
Definition other_code : list Z := [50].
Definition init (allow : bool) : state := mkState false allow false [] false false.
