(* C36: executable model of the text cursor / text buffer of display/textscreen.py (TextScreen, ScrollArea),
   the row operations of display/buffers.py (VideoBuffer.put_char_attr / clear_rows / scroll_up / scroll_down),
   console.py (Console.write: control characters), devices/devicebase.py (SCRNFile.write for the master SCRN:
   file), devices/formatter.py (PRINT with ; and ,) and the statement glue (LOCATE, CLS, VIEW PRINT, WIDTH,
   KEY ON/OFF, SCREEN n, SCREEN(r,c), error message printing) for the default (cga) adapter, with the fixes
   D36a (LOCATE), D36b (scroll_down) and D36c (init_mode order).
   No proofs in this file.

   `hist` is a ghost log of the buffer primitives that were executed (most recent first); no control decision
   reads it.  It is what "the character last written at that cell" is stated against (proofs/Cursor_proofs.v). *)
From Coq Require Import ZArith List Bool.
From PCB Require Import lib.Result lib.PyInt.
Import ListNotations.
Open Scope Z_scope.

Inductive event :=
| EPut (r c ch : Z)          (* put_char_attr(row, col, char) *)
| EScrollUp (a b : Z)        (* scroll_up(from_row, to_row) *)
| EScrollDown (a b : Z)      (* scroll_down(from_row, to_row) *)
| EClear (a b : Z)           (* clear_rows(start, stop) / clearing the text under a pixel area *)
| EReset.                    (* new pages on a mode change *)

Record st := mkst {
  row : Z; col : Z;          (* current_row, current_col *)
  ovf : bool;                (* overflow *)
  bra : bool;                (* _bottom_row_allowed *)
  top : Z; bot : Z;          (* scroll_area._top, _bottom *)
  act : bool;                (* scroll_area._active *)
  width : Z; height : Z;     (* mode.width, mode.height *)
  cells : list (list Z);     (* _rows[i].chars as bytes *)
  wraps : list bool;         (* _rows[i].wrap *)
  barvis : bool;             (* _bottom_bar.visible *)
  modenr : Z;                (* 0 text, 1 = 320x200x4, 2 = 640x200x2 *)
  csw : bool;                (* display.colorswitch *)
  vga : bool;                (* video adapter: false = cga, true = vga (SCREEN 7, 8, 9 exist) *)
  hist : list event          (* ghost *)
}.

Definition set_row s v := mkst v (col s) (ovf s) (bra s) (top s) (bot s) (act s) (width s) (height s) (cells s) (wraps s) (barvis s) (modenr s) (csw s) (vga s) (hist s).
Definition set_col s v := mkst (row s) v (ovf s) (bra s) (top s) (bot s) (act s) (width s) (height s) (cells s) (wraps s) (barvis s) (modenr s) (csw s) (vga s) (hist s).
Definition set_rc s r c := mkst r c (ovf s) (bra s) (top s) (bot s) (act s) (width s) (height s) (cells s) (wraps s) (barvis s) (modenr s) (csw s) (vga s) (hist s).
Definition set_ovf s v := mkst (row s) (col s) v (bra s) (top s) (bot s) (act s) (width s) (height s) (cells s) (wraps s) (barvis s) (modenr s) (csw s) (vga s) (hist s).
Definition set_bra s v := mkst (row s) (col s) (ovf s) v (top s) (bot s) (act s) (width s) (height s) (cells s) (wraps s) (barvis s) (modenr s) (csw s) (vga s) (hist s).
Definition set_area s t b a := mkst (row s) (col s) (ovf s) (bra s) t b a (width s) (height s) (cells s) (wraps s) (barvis s) (modenr s) (csw s) (vga s) (hist s).
Definition set_wraps s v := mkst (row s) (col s) (ovf s) (bra s) (top s) (bot s) (act s) (width s) (height s) (cells s) v (barvis s) (modenr s) (csw s) (vga s) (hist s).
Definition set_buf s c w h := mkst (row s) (col s) (ovf s) (bra s) (top s) (bot s) (act s) (width s) (height s) c w (barvis s) (modenr s) (csw s) (vga s) h.
Definition set_barvis s v := mkst (row s) (col s) (ovf s) (bra s) (top s) (bot s) (act s) (width s) (height s) (cells s) (wraps s) v (modenr s) (csw s) (vga s) (hist s).
Definition set_mode_fields s nr w cs := mkst (row s) (col s) (ovf s) (bra s) (top s) (bot s) (act s) w (height s) (cells s) (wraps s) (barvis s) nr cs (vga s) (hist s).

(* ---- list helpers (Python list.insert / del / item assignment / negative index) *)
Definition zn (z : Z) : nat := Z.to_nat z.
Definition insert_at {A} (n : nat) (x : A) (l : list A) : list A := firstn n l ++ x :: skipn n l.
Definition delete_at {A} (n : nat) (l : list A) : list A := firstn n l ++ skipn (S n) l.
Fixpoint upd {A} (n : nat) (x : A) (l : list A) : list A :=
  match l with
  | [] => []
  | y :: t => match n with O => x :: t | S k => y :: upd k x t end
  end.
Definition pyidx (i : Z) (len : nat) : Z := if i <? 0 then i + Z.of_nat len else i.
Fixpoint mapi_from {A} (i : Z) (f : Z -> A -> A) (l : list A) : list A :=
  match l with
  | [] => []
  | x :: t => f i x :: mapi_from (i + 1) f t
  end.

Definition blank_row (w : Z) : list Z := repeat 32 (zn w).
Definition in_rows (a b i : Z) : bool := (a <=? i) && (i <=? b).

(* get_byte(row, col) for 1 <= row, col *)
Definition get_cell (cs : list (list Z)) (r c : Z) : Z :=
  nth (zn (c - 1)) (nth (zn (r - 1)) cs []) 32.

(* ---- buffer primitives (display/buffers.py); every one logs itself in hist *)
Definition put_l (cs : list (list Z)) (r c ch : Z) : list (list Z) :=
  upd (zn (r - 1)) (upd (zn (c - 1)) ch (nth (zn (r - 1)) cs [])) cs.

Definition b_put (s : st) (r c ch : Z) : st :=
  set_buf s (put_l (cells s) r c ch) (wraps s) (EPut r c ch :: hist s).

(* clear_rows(a, b): chars to spaces and wrap flags off; keepwrap = the pixel-area variant (clear_wrap=False) *)
Definition b_clear (s : st) (a b : Z) (keepwrap : bool) : st :=
  set_buf s
    (mapi_from 1 (fun i rw => if in_rows a b i then blank_row (width s) else rw) (cells s))
    (if keepwrap then wraps s else mapi_from 1 (fun i w => if in_rows a b i then false else w) (wraps s))
    (EClear a b :: hist s).

(* scroll_up(from_row, to_row):
     self._rows.insert(to_row, new_row)
     if self._rows[from_row-2].wrap: self._rows[from_row-2].wrap = self._rows[from_row-1].wrap
     del self._rows[from_row-1]                                                              *)
Definition b_scroll_up (s : st) (a b : Z) : st :=
  let cs := delete_at (zn (a - 1)) (insert_at (zn b) (blank_row (width s)) (cells s)) in
  let w1 := insert_at (zn b) false (wraps s) in
  let i := zn (pyidx (a - 2) (length w1)) in
  let w2 := if nth i w1 false then upd i (nth (zn (a - 1)) w1 false) w1 else w1 in
  set_buf s cs (delete_at (zn (a - 1)) w2) (EScrollUp a b :: hist s).

(* scroll_down(from_row, to_row)  [with fix D36b: the row pushed out is row to_row]:
     self._rows.insert(from_row - 1, new_row)
     del self._rows[to_row]
     if self._rows[from_row-2].wrap: self._rows[from_row-1].wrap = True                      *)
Definition b_scroll_down (s : st) (a b : Z) : st :=
  let cs := delete_at (zn b) (insert_at (zn (a - 1)) (blank_row (width s)) (cells s)) in
  let w1 := delete_at (zn b) (insert_at (zn (a - 1)) false (wraps s)) in
  let i := zn (pyidx (a - 2) (length w1)) in
  let w2 := if nth i w1 false then upd (zn (a - 1)) true w1 else w1 in
  set_buf s cs w2 (EScrollDown a b :: hist s).

(* new VideoBuffer pages *)
Definition b_reset (s : st) : st :=
  set_buf s (repeat (blank_row (width s)) (zn (height s))) (repeat false (zn (height s))) (EReset :: hist s).

(* ---- TextScreen *)
Definition wraps_at (s : st) (r : Z) : bool :=
  nth (zn (pyidx (r - 1) (length (wraps s)))) (wraps s) false.
Definition set_wrap (s : st) (r : Z) (b : bool) : st :=
  set_wraps s (upd (zn (pyidx (r - 1) (length (wraps s)))) b (wraps s)).

(* scroll(from_row=None) *)
Definition scroll (s : st) : st :=
  let s1 := b_scroll_up s (top s) (bot s) in
  if row s1 >? top s1 then set_row s1 (row s1 - 1) else s1.

Definition scroll_down (s : st) (from : Z) : st :=
  let s1 := b_scroll_down s from (bot s) in
  if row s1 >=? from then set_row s1 (row s1 + 1) else s1.

(* _wrap_around_and_scroll_as_needed(scroll_ok) *)
Definition wrap_scroll (scroll_ok : bool) (s : st) : st :=
  if bra s && (row s =? height s) then
    let c := Z.min (width s) (col s) in
    set_col s (if c <? 1 then c + 1 else c)
  else
    let s := set_bra s false in
    let s :=
      if col s >? width s then
        if (row s <? bot s) || scroll_ok then set_rc s (row s + 1) (col s - width s)
        else set_col s (width s)
      else if col s <? 1 then
        if row s >? top s then set_rc s (row s - 1) (col s + width s) else set_col s 1
      else s in
    if row s >? bot s then
      let s := if scroll_ok then scroll s else s in
      set_row s (bot s)
    else if row s <? top s then set_row s (top s)
    else s.

(* set_pos(to_row, to_col, scroll_ok) *)
Definition set_pos (s : st) (r c : Z) (scroll_ok : bool) : st :=
  let s := if c <? width s then set_ovf s false else s in
  wrap_scroll scroll_ok (set_rc s r c).

(* _consume_overflow_before_write(do_scroll_down) *)
Definition consume_overflow (dsd : bool) (s : st) : st :=
  let s := if ovf s then set_ovf (set_col s (col s + 1)) false else s in
  if col s >? width s then
    if row s <? height s then
      let s :=
        if negb (wraps_at s (row s)) then
          let s := if dsd && (row s <? bot s) then scroll_down s (row s + 1) else s in
          set_wrap s (row s) true
        else s in
      set_rc s (row s + 1) 1
    else set_col s (width s)
  else s.

(* write_char(char, do_scroll_down) *)
Definition write_char (dsd : bool) (s : st) (ch : Z) : st :=
  let s := consume_overflow dsd s in
  let s := wrap_scroll true s in
  let s := b_put s (row s) (col s) ch in
  let s :=
    if col s <? width s then set_col s (col s + 1)
    else if wraps_at s (row s) then set_rc s (row s + 1) 1
    else set_ovf s true in
  wrap_scroll true s.

Definition write_chars (dsd : bool) (s : st) (str : list Z) : st := fold_left (write_char dsd) str s.

Definition newline (s : st) (wrap : bool) : st :=
  let s := set_wrap s (row s) wrap in set_pos s (row s + 1) 1 true.

Definition clear_view (s : st) : st :=
  let s := b_clear s (top s) (bot s) false in set_pos s (top s) 1 true.

Definition clear_all (s : st) : st :=
  let s := b_clear s 1 (height s) false in set_pos s 1 1 true.

(* BottomBar contents for the default function key macros (80 entries) *)
Definition default_bar : list Z :=
  [32;49;76;73;83;84;32;32; 32;50;82;85;78;27;32;32; 32;51;76;79;65;68;34;32; 32;52;83;65;86;69;34;32;
   32;53;67;79;78;84;27;32; 32;54;44;34;76;80;84;49; 32;55;84;82;79;78;27;32; 32;56;84;82;79;70;70;27;
   32;57;75;69;89;32;32;32; 32;48;83;67;82;69;69;78].

Fixpoint put_bar (s : st) (c : Z) (l : list Z) (n : nat) : st :=
  match n, l with
  | S k, ch :: t => put_bar (b_put s (height s) c ch) (c + 1) t k
  | _, _ => s
  end.

(* redraw_bar() *)
Definition redraw_bar (s : st) : st :=
  let s := b_clear s (height s) (height s) false in
  if barvis s then put_bar s 1 default_bar (zn ((width s / 8) * 8)) else s.

(* ScrollArea.unset / init_mode, TextScreen.init_mode *)
Definition unset_area (s : st) : st := set_area s 1 (height s - 1) false.
(* [with fix D36c: the cursor goes home before the key bar is redrawn] *)
Definition init_mode (s : st) : st :=
  let s := if bot s =? height s then set_area s 1 (height s) true else unset_area s in
  let s := set_pos s (top s) 1 true in
  redraw_bar s.

(* csrlin_, pos_ *)
Definition csrlin (s : st) : Z :=
  if ovf s && (col s =? width s) && (row s <? bot s) then row s + 1 else row s.
Definition pos (s : st) : Z :=
  if (col s =? width s) && ovf s then 1 else col s.

Definition int16 (z : Z) : bool := (-32768 <=? z) && (z <=? 32767).
Definition oint16 (o : option Z) : bool := match o with Some z => int16 z | None => true end.
Definition rng (a b z : Z) : bool := (a <=? z) && (z <=? b).

(* screen_fn_(row, col) without the attribute argument *)
Definition screen_fn (s : st) (r c : Z) : res Z :=
  if negb (int16 r && int16 c) then Err 6
  else if negb (rng 0 (height s) r) then Err 5
  else if negb (rng 0 (width s) c) then Err 5
  else if (r =? 0) && (c =? 0) then Err 5
  else
    let r := if r =? 0 then 1 else r in
    let c := if c =? 0 then 1 else c in
    if act s && negb (rng (top s) (bot s) r) then Err 5
    else Ok (get_cell (cells s) r c).

(* locate_(row, col, cursor)  [with fix D36a: an explicit column drops a pending overflow].
   The third argument is checked after the cursor has moved. *)
Definition locate (s : st) (r c cur : option Z) : st * res unit :=
  if negb (oint16 r && oint16 c && oint16 cur) then (s, Err 6)
  else
    let r' := match r with Some z => z | None => row s end in
    let c' := match c with Some z => z | None => col s end in
    if (r' =? height s) && barvis s then (s, Err 5)
    else if negb (if act s then rng (top s) (bot s) r' else rng 1 (height s) r') then (s, Err 5)
    else if negb (rng 1 (width s) c') then (s, Err 5)
    else
      let s := if r' =? height s then set_bra s true else s in
      let s := match c with Some _ => set_ovf s false | None => s end in
      let s := set_pos s r' c' false in
      match cur with
      | Some v => if rng 0 1 v then (s, Ok tt) else (s, Err 5)
      | None => (s, Ok tt)
      end.

(* view_print_(start, stop) *)
Definition view_print (s : st) (ab : option (Z * Z)) : st * res unit :=
  match ab with
  | None => (unset_area s, Ok tt)
  | Some (a, b) =>
      if negb (int16 a && int16 b) then (s, Err 6)
      else if negb (rng 1 24 a && rng 1 24 b) then (s, Err 5)
      else if b <? a then (s, Err 5)
      else (set_rc (set_ovf (set_area s a b true) false) a 1, Ok tt)
  end.

(* show_bar(on) *)
Definition show_bar (s : st) (on : bool) : st * res unit :=
  if on && (bot s =? height s) then (s, Err 5)
  else if Bool.eqb on (barvis s) then (s, Ok tt)
  else (redraw_bar (set_barvis s on), Ok tt).

(* Display._set_mode + TextScreen.init_mode *)
Definition set_mode (s : st) (nr w : Z) : st :=
  init_mode (b_reset (set_mode_fields s nr w false)).

(* width of the graphics mode nr; 0 = no such mode on this adapter (modes._MODES) *)
Definition gfx_width (v : bool) (nr : Z) : Z :=
  if nr =? 1 then 40 else if nr =? 2 then 80
  else if v && (nr =? 7) then 40 else if v && ((nr =? 8) || (nr =? 9)) then 80 else 0.

(* Display.screen(mode_nr, None, None, None); colorswitch becomes bool(None) = False *)
Definition screen_stmt (s : st) (nr : Z) : st * res unit :=
  if negb (int16 nr) then (s, Err 6)
  else if negb (rng 0 255 nr) then (s, Err 5)
  else if negb (nr =? 0) && (gfx_width (vga s) nr =? 0) then (s, Err 5)
  else
    let w := if nr =? 0 then (if width s =? 20 then 40 else width s) else gfx_width (vga s) nr in
    if negb (nr =? modenr s) || negb (w =? width s) || csw s then (set_mode s nr w, Ok tt)
    else (s, Ok tt).

(* modes.TO_WIDTH for cga / vga *)
Definition width_target (m w : Z) : Z :=
  if m =? 0 then 0
  else if (m =? 7) || (m =? 8) then (if w =? 40 then 7 else 8)
  else if m =? 9 then (if w =? 40 then 1 else 9)
  else (if w =? 40 then 1 else 2).

(* Files.width_ for the screen -> Display.set_width *)
Definition width_stmt (s : st) (w : Z) : st * res unit :=
  if negb (int16 w) then (s, Err 6)
  else if negb (rng 0 255 w) then (s, Err 5)
  else if w =? width s then (s, Ok tt)
  else if (w =? 40) || (w =? 80) then (set_mode s (width_target (modenr s) w) w, Ok tt)
  else (s, Err 5).

(* Display.cls_ (no graphics viewport) *)
Definition cls (s : st) (v : option Z) : st * res unit :=
  if negb (oint16 v) then (s, Err 6)
  else if match v with Some z => negb (rng 0 2 z) | None => false end then (s, Err 5)
  else
    let is1 := match v with Some z => z =? 1 | None => false end in
    let is0 := match v with Some z => z =? 0 | None => false end in
    let is2 := match v with Some z => z =? 2 | None => false end in
    let isn := match v with Some _ => false | None => true end in
    if negb (modenr s =? 0) && is1 then
      (set_pos (redraw_bar (b_clear s 1 (height s) true)) 1 1 true, Ok tt)
    else if is0 || (isn && negb (act s)) then (redraw_bar (clear_all s), Ok tt)
    else if is2 then (clear_view s, Ok tt)
    else if isn then (clear_view s, Ok tt)
    else (s, Ok tt).

(* ---- the cursor keys of the line editor (Console._interact -> TextScreen.up/down/incr_pos/decr_pos, HOME,
   CTRL+HOME) for single-byte codepages, where every character is one cell wide *)
Definition edit_key (s : st) (k : Z) : st :=
  if k =? 0 then set_pos s (row s - 1) (col s) false
  else if k =? 1 then set_pos s (row s + 1) (col s) false
  else if k =? 2 then set_pos s (row s) (col s + 1) false
  else if k =? 3 then
    let s := if ovf s then set_ovf (set_col s (col s + 1)) false else s in
    set_pos s (row s) (col s - 1) false
  else if k =? 4 then set_pos s 1 1 true
  else if k =? 5 then clear_view s
  else s.

(* ---- Console.write *)
Fixpoint write_spaces (s : st) (n : nat) : st :=
  match n with O => s | S k => write_spaces (write_char false s 32) k end.

Definition is_ctrl (c : Z) : bool :=
  (c =? 9) || (c =? 10) || (c =? 13) || (c =? 7) || (c =? 11) || (c =? 12)
  || (c =? 28) || (c =? 29) || (c =? 30) || (c =? 31).

Definition console_char (s : st) (c : Z) : st :=
  if c =? 9 then write_spaces s (zn (8 - (col s - 1) mod 8))
  else if (c =? 10) || (c =? 13) then newline s false
  else if c =? 7 then s
  else if c =? 11 then set_pos s 1 1 false
  else if c =? 12 then clear_view s
  else if c =? 28 then set_pos s (row s) (col s + 1) false
  else if c =? 29 then set_pos s (row s) (col s - 1) false
  else if c =? 30 then set_pos s (row s - 1) (col s) false
  else if c =? 31 then set_pos s (row s + 1) (col s) false
  else write_char false s c.

Definition console_write (s : st) (str : list Z) : st :=
  match str with
  | [] => s
  | _ => fold_left console_char str (set_wrap s (row s) false)
  end.

(* start_line() *)
Definition start_line (s : st) : st :=
  let s := if negb (col s =? 1) then set_pos s (row s + 1) 1 true else s in
  set_wrap s (row s - 1) false.

Definition err_msg (e : Z) : list Z :=
  if e =? 5 then [73;108;108;101;103;97;108;32;102;117;110;99;116;105;111;110;32;99;97;108;108]
  else if e =? 6 then [79;118;101;114;102;108;111;119]
  else [].

(* Implementation._handle_error in direct mode *)
Definition report_error (s : st) (e : Z) : st :=
  console_write (console_write (console_write (start_line s) (err_msg e)) [255]) [13].

(* ---- SCRNFile.write (master file: col = console.current_col, width = mode.width) *)
Fixpoint swidth (str : list Z) : Z :=
  match str with
  | [] => 0
  | c :: t =>
      if (c =? 13) || (c =? 10) then 0
      else (if c =? 8 then -1 else if 32 <=? c then 1 else 0) + swidth t
  end.
Definition has_newline (str : list Z) : bool := existsb (fun c => (c =? 13) || (c =? 10)) str.

Fixpoint scrn_loop (s : st) (out : list Z) (str : list Z) : st :=
  match str with
  | [] => console_write s out
  | c :: t =>
      let so := if col s >? width s then (console_write s (out ++ [13]), []) else (s, out) in
      let s := fst so in
      let out := snd so ++ [c] in
      if (c =? 10) || (c =? 13) then scrn_loop (console_write s out) [] t else scrn_loop s out t
  end.

Definition scrn_breaks (s : st) (str : list Z) : bool :=
  negb (width s =? 255) && negb (row s =? height s) && negb (col s =? 1)
  && (col s - 1 + swidth str >? width s) && negb (has_newline str).

Definition scrn_write (s : st) (str : list Z) (can_break : bool) : st :=
  match str with
  | [] => s
  | _ =>
      let s := if can_break && scrn_breaks s str then console_write s [13] else s in
      scrn_loop s [] str
  end.

Definition scrn_write_line (s : st) (str : list Z) : st :=
  console_write (scrn_write s str true) [13].

(* ---- Formatter.format with string values, `;` and `,` *)
Inductive pitem := PV (v : list Z) | PComma | PSemi.

Definition print_comma (s : st) : st :=
  let nz := Z.max 1 (width s / 14) in
  let next := (col s - 1) / 14 + 1 in
  if (next >=? nz) && (width s >=? 14) && negb (width s =? 255) then scrn_write_line s []
  else scrn_write s (repeat 32 (zn (1 + 14 * next - col s))) false.

Fixpoint print_items (s : st) (items : list pitem) (nl : bool) : st * bool :=
  match items with
  | [] => (s, nl)
  | PV v :: t => print_items (scrn_write s v true) t true
  | PComma :: t => print_items (print_comma s) t false
  | PSemi :: t => print_items s t false
  end.

Definition print_stmt (s : st) (items : list pitem) : st :=
  let sn := print_items s items true in
  let s := fst sn in
  if snd sn then
    let s := if ovf s then scrn_write_line s [] else s in
    scrn_write_line s []
  else s.

(* ---- statements *)
Inductive stmt :=
| SPrint (items : list pitem)
| SLocate (r c cur : option Z)
| SCls (v : option Z)
| SViewPrint (ab : option (Z * Z))
| SWidth (w : Z)
| SKey (on : bool)
| SScreen (nr : Z)
| SScreenFn (r c : Z)          (* evaluate SCREEN(r, c) *)
| STyped (str : list Z)        (* TextScreen.write_chars(str, do_scroll_down=True): overwrite-mode typing *)
| SEdit (k : Z).               (* cursor key of the line editor: 0 up 1 down 2 right 3 left 4 HOME 5 CTRL+HOME *)

Definition finish (sr : st * res unit) : st * list Z :=
  match snd sr with
  | Ok _ => (fst sr, [0; 0])
  | Err e => (report_error (fst sr) e, [1; e])
  | Host x => (fst sr, [2; x])
  | OutOfFuel => (fst sr, [3; 0])
  end.

Definition run_stmt (s : st) (x : stmt) : st * list Z :=
  match x with
  | SPrint items => (print_stmt s items, [0; 0])
  | SLocate r c cur => finish (locate s r c cur)
  | SCls v => finish (cls s v)
  | SViewPrint ab => finish (view_print s ab)
  | SWidth w => finish (width_stmt s w)
  | SKey on => finish (show_bar s on)
  | SScreen nr => finish (screen_stmt s nr)
  | SScreenFn r c =>
      match screen_fn s r c with
      | Ok v => (s, [0; v])
      | Err e => (report_error s e, [1; e])
      | Host x => (s, [2; x])
      | OutOfFuel => (s, [3; 0])
      end
  | STyped str => (write_chars true s str, [0; 0])
  | SEdit k => (edit_key s k, [0; 0])
  end.

Definition step (s : st) (x : stmt) : st := fst (run_stmt s x).
Definition run (s : st) (l : list stmt) : st := fold_left step l s.

(* Session start: w x 25 text mode (text_width option), colorswitch 1, keys off, adapter cga or vga *)
Definition init_with (w : Z) (v : bool) : st :=
  mkst 1 1 false false 1 24 false w 25 (repeat (blank_row w) 25) (repeat false 25) false 0 true v [EReset].
Definition init_st : st := init_with 80 false.

(* ---- observation for the correspondence harness *)
Definition grid_hash (cs : list (list Z)) : Z :=
  fold_left (fun h c => Z.land (h * 33 + c) 1073741823) (concat cs) 0.

Definition obs (s : st) : list Z :=
  [csrlin s; pos s; row s; col s; b2z (ovf s); b2z (bra s); top s; bot s; b2z (act s); width s;
   b2z (barvis s); modenr s; b2z (csw s); grid_hash (cells s)].

Fixpoint run_obs (s : st) (l : list stmt) : st * list Z :=
  match l with
  | [] => (s, [])
  | x :: t =>
      let sr := run_stmt s x in
      let rest := run_obs (fst sr) t in
      (fst rest, snd sr ++ obs (fst sr) ++ snd rest)
  end.

(* run-length encoding of the final grid: (byte, count) pairs *)
Fixpoint rle_from (cur cnt : Z) (l : list Z) : list Z :=
  match l with
  | [] => [cur; cnt]
  | c :: t => if c =? cur then rle_from cur (cnt + 1) t else cur :: cnt :: rle_from c 1 t
  end.
Definition rle (l : list Z) : list Z := match l with [] => [] | c :: t => rle_from c 1 t end.

Definition run_case_on (w : Z) (v : bool) (l : list stmt) : list Z :=
  let sr := run_obs (init_with w v) l in
  snd sr ++ rle (concat (cells (fst sr))) ++ map b2z (wraps (fst sr)).

Definition run_case (l : list stmt) : list Z :=
  let sr := run_obs init_st l in
  snd sr ++ rle (concat (cells (fst sr))) ++ map b2z (wraps (fst sr)).
