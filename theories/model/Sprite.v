(* display/framebuffer.py PackedSpriteBuilder (pack / unpack of the GET / PUT array format in the packed-pixel
   modes: SCREEN 1, 2 and the Tandy/PCjr/Olivetti/Hercules packed modes) over base/bytematrix.py
   pack_bytes / unpack_bytes / ByteMatrix.packed / frompacked (C31).  bpp = bits per pixel in {1, 2, 4, 8}.
   NO proofs here (proofs/Sprite_proofs.v). *)
From Coq Require Import ZArith List Bool.
From PCB Require Import lib.Result lib.PyInt model.Matrix.
Import ListNotations.
Open Scope Z_scope.

(* shifts = [8 - bpp - sh for sh in range(0, 8, bpp)] *)
Definition shifts (bpp : Z) : list Z :=
  map (fun k => 8 - bpp - bpp * Z.of_nat k) (seq 0 (Z.to_nat (8 / bpp))).

Definition ipb (bpp : Z) : nat := Z.to_nat (8 / bpp).      (* items per byte *)

(* one byte of pack_bytes: sum of (pixel & mask) << shift over the (at most ipb) pixels of the group *)
Definition pack_group (bpp : Z) (g : list Z) : Z :=
  fold_right Z.add 0 (map (fun '(p, s) => Z.shiftl (Z.land p (2 ^ bpp - 1)) s) (combine g (shifts bpp))).

(* the pixels of one byte in unpack_bytes *)
Definition unpack_byte (bpp : Z) (b : Z) : list Z :=
  map (fun s => Z.land (Z.shiftr b s) (2 ^ bpp - 1)) (shifts bpp).

Fixpoint chunks {A} (fuel : nat) (n : nat) (l : list A) : list (list A) :=
  match fuel with
  | O => []
  | S f => match l with
           | [] => []
           | _ => firstn n l :: chunks f n (skipn n l)
           end
  end.

(* pack_bytes(row, items_per_byte) *)
Definition pack_row (bpp : Z) (row : list Z) : list Z :=
  map (pack_group bpp) (chunks (length row) (ipb bpp) row).

(* unpack_bytes(packed, items_per_byte) *)
Definition unpack_row (bpp : Z) (bytes : list Z) : list Z := concat (map (unpack_byte bpp) bytes).

(* PackedSpriteBuilder.pack: '<HH' (width * bpp, height) then the rows, each aligned on a byte *)
Definition sprite_w (s : matrix) : Z := match s with [] => 0 | r :: _ => zlen r end.

Definition pack_sprite (bpp : Z) (s : matrix) : list Z :=
  le_encode 2 (sprite_w s * bpp) ++ le_encode 2 (zlen s) ++ concat (map (pack_row bpp) s).

(* PackedSpriteBuilder.unpack on an array buffer (which may be longer than the sprite data) *)
Definition unpack_sprite (bpp : Z) (arr : list Z) : matrix :=
  let row_bits := le_decode (firstn 2 arr) in
  let height := le_decode (firstn 2 (skipn 2 arr)) in
  let width := row_bits / bpp in
  let row_bytes := (width * bpp + 7) / 8 in
  let packed := firstn (Z.to_nat (row_bytes * height)) (skipn 4 arr) in
  (* ByteMatrix.frompacked(packed, height, items_per_byte) *)
  if (zlen packed =? 0) || (height =? 0) then []
  else
    let w := zlen packed / height in
    if w =? 0 then []
    else
      let rows := map (unpack_row bpp) (chunks (length packed) (Z.to_nat w) packed) in
      (* sprite[:, :width] *)
      map (firstn (Z.to_nat width)) rows.

(* a sprite as GET produces it: h rows of w cells below 2^bpp *)
Definition sprite_ok (bpp : Z) (s : matrix) (w h : Z) : Prop :=
  zlen s = h /\ Forall (fun r => zlen r = w /\ Forall (fun p => 0 <= p < 2 ^ bpp) r) s.
