(* display/framebuffer.py PackedSpriteBuilder (pack / unpack of the GET / PUT array format in the packed-pixel
   modes: SCREEN 1, 2 and the Tandy/PCjr/Olivetti/Hercules packed modes) over base/bytematrix.py
   pack_bytes / unpack_bytes / ByteMatrix.packed / frompacked (C31).  bpp = bits per pixel in {1, 2, 4, 8}.
   NO proofs here (proofs/Sprite_proofs.v). *)
From Coq Require Import ZArith List Bool.
From PCB Require Import lib.Result lib.PyInt model.Matrix.
Import ListNotations.
Open Scope Z_scope.

(* shifts = [8 - bpp - sh for sh in range(0, 8, bpp)] *)
Definition shifts (bpp : Z) : list Z :=
  map (fun k => 8 - bpp - bpp * Z.of_nat k) (seq 0 (Z.to_nat (8 / bpp))).

Definition ipb (bpp : Z) : nat := Z.to_nat (8 / bpp).      (* items per byte *)

(* one byte of pack_bytes: sum of (pixel & mask) << shift over the (at most ipb) pixels of the group *)
Definition pack_group (bpp : Z) (g : list Z) : Z :=
  fold_right Z.add 0 (map (fun '(p, s) => Z.shiftl (Z.land p (2 ^ bpp - 1)) s) (combine g (shifts bpp))).

(* the pixels of one byte in unpack_bytes *)
Definition unpack_byte (bpp : Z) (b : Z) : list Z :=
  map (fun s => Z.land (Z.shiftr b s) (2 ^ bpp - 1)) (shifts bpp).

Fixpoint chunks {A} (fuel : nat) (n : nat) (l : list A) : list (list A) :=
  match fuel with
  | O => []
  | S f => match l with
           | [] => []
           | _ => firstn n l :: chunks f n (skipn n l)
           end
  end.

(* pack_bytes(row, items_per_byte) *)
Definition pack_row (bpp : Z) (row : list Z) : list Z :=
  map (pack_group bpp) (chunks (length row) (ipb bpp) row).

(* unpack_bytes(packed, items_per_byte) *)
Definition unpack_row (bpp : Z) (bytes : list Z) : list Z := concat (map (unpack_byte bpp) bytes).

(* PackedSpriteBuilder.pack: '<HH' (width * bpp, height) then the rows, each aligned on a byte *)
Definition sprite_w (s : matrix) : Z := match s with [] => 0 | r :: _ => zlen r end.

Definition pack_sprite (bpp : Z) (s : matrix) : list Z :=
  le_encode 2 (sprite_w s * bpp) ++ le_encode 2 (zlen s) ++ concat (map (pack_row bpp) s).

(* PackedSpriteBuilder.unpack on an array buffer (which may be longer than the sprite data) *)
Definition unpack_sprite (bpp : Z) (arr : list Z) : matrix :=
  let row_bits := le_decode (firstn 2 arr) in
  let height := le_decode (firstn 2 (skipn 2 arr)) in
  let width := row_bits / bpp in
  let row_bytes := (width * bpp + 7) / 8 in
  let packed := firstn (Z.to_nat (row_bytes * height)) (skipn 4 arr) in
  (* ByteMatrix.frompacked(packed, height, items_per_byte) *)
  if (zlen packed =? 0) || (height =? 0) then []
  else
    let w := zlen packed / height in
    if w =? 0 then []
    else
      let rows := map (unpack_row bpp) (chunks (length packed) (Z.to_nat w) packed) in
      (* sprite[:, :width] *)
      map (firstn (Z.to_nat width)) rows.

(* a sprite as GET produces it: h rows of w cells below 2^bpp *)
Definition sprite_ok (bpp : Z) (s : matrix) (w h : Z) : Prop :=
  zlen s = h /\ Forall (fun r => zlen r = w /\ Forall (fun p => 0 <= p < 2 ^ bpp) r) s.

(* ---------- PlanedSpriteBuilder (EGA modes, n colour planes) and Tandy6SpriteBuilder *)

(* plane p of a row: (sprite >> p), which pack_bytes then masks with 1 *)
Definition plane_bits (p : nat) (row : list Z) : list Z :=
  map (fun v => Z.land (Z.shiftr v (Z.of_nat p)) 1) row.

(* the planes of one sprite row, plane 0 first: rows are interlaced row by row *)
Definition row_planes (n : nat) (row : list Z) : list (list Z) := map (fun p => plane_bits p row) (seq 0 n).

Definition pack_planed (n : nat) (s : matrix) : list Z :=
  le_encode 2 (sprite_w s) ++ le_encode 2 (zlen s) ++
  concat (map (fun row => concat (map (pack_row 1) (row_planes n row))) s).

(* elementwise OR of rows (equal lengths in every use) *)
Fixpoint lor_rows (a b : list Z) : list Z :=
  match a, b with
  | [], _ => b
  | _, [] => a
  | x :: a', y :: b' => Z.lor x y :: lor_rows a' b'
  end.

(* reduce(ior, (plane_p << p for p ..)) for the planes of one row; << is masked to a byte *)
Fixpoint or_planes (p : Z) (planes : list (list Z)) : list Z :=
  match planes with
  | [] => []
  | r :: rest => lor_rows (map (fun b => Z.land (Z.shiftl b p) 255) r) (or_planes (p + 1) rest)
  end.

Definition unpack_planed (n : nat) (arr : list Z) : matrix :=
  let width := le_decode (firstn 2 arr) in
  let height := le_decode (firstn 2 (skipn 2 arr)) in
  let row_bytes := (width + 7) / 8 in
  let packed := firstn (Z.to_nat (height * Z.of_nat n * row_bytes)) (skipn 4 arr) in
  let nrows := height * Z.of_nat n in
  if (zlen packed =? 0) || (nrows =? 0) then []
  else
    let w := zlen packed / nrows in
    if w =? 0 then []
    else
      let allplanes := map (fun r => firstn (Z.to_nat width) (unpack_row 1 r))
                           (chunks (length packed) (Z.to_nat w) packed) in
      map (or_planes 0) (chunks (length allplanes) n allplanes).

(* Tandy SCREEN 6: the size record holds half the width *)
Definition pack_tandy6 (s : matrix) : list Z :=
  le_encode 2 (sprite_w s / 2) ++ skipn 2 (pack_planed 2 s).

Definition unpack_tandy6 (arr : list Z) : matrix :=
  unpack_planed 2 (le_encode 2 (le_decode (firstn 2 arr) * 2) ++ skipn 2 arr).
