(* C44 / C01: model of clock.py (TIME$=, DATE$=, TIME$, DATE$) over an abstract host clock.
   The host clock and the session offset are integers in microseconds since 0001-01-01 (proleptic
   Gregorian), which is how datetime arithmetic behaves; Python's int(bytes) grammar and the range checks
   of datetime's constructor are modelled explicitly so that a host ValueError is a visible outcome. *)
From Coq Require Import ZArith List Bool.
From PCB Require Import lib.Result lib.PyInt.
Import ListNotations.
Open Scope Z_scope.

(* ---- component parsing *)
Definition is_space (b : Z) : bool :=
  (b =? 32) || (b =? 9) || (b =? 10) || (b =? 11) || (b =? 12) || (b =? 13).
Definition is_digit (b : Z) : bool := (48 <=? b) && (b <=? 57).

Fixpoint lstrip (l : list Z) : list Z :=
  match l with
  | b :: r => if is_space b then lstrip r else l
  | [] => []
  end.
Definition strip (l : list Z) : list Z := rev (lstrip (rev (lstrip l))).

(* a component is accepted iff, after bytes.strip(), it is a non-empty run of ASCII digits
   (`s.strip().isdigit()`); then int(s) is its decimal value.  None = rejected *)
Fixpoint digits (acc : Z) (l : list Z) : option Z :=
  match l with
  | [] => Some acc
  | b :: r => if is_digit b then digits (acc * 10 + (b - 48)) r else None
  end.

Definition py_int (l : list Z) : option Z :=
  match strip l with
  | [] => None
  | r => digits 0 r
  end.

Fixpoint py_ints (ls : list (list Z)) : option (list Z) :=
  match ls with
  | [] => Some []
  | s :: r => match py_int s, py_ints r with
              | Some z, Some zs => Some (z :: zs)
              | _, _ => None
              end
  end.

(* bytes.split(sep) for a one-byte separator: always at least one field *)
Fixpoint split_on (sep : Z) (cur : list Z) (l : list Z) : list (list Z) :=
  match l with
  | [] => [rev cur]
  | b :: r => if b =? sep then rev cur :: split_on sep [] r else split_on sep (b :: cur) r
  end.
Definition split (sep : Z) (l : list Z) : list (list Z) := split_on sep [] l.
Definition replace (a b : Z) (l : list Z) : list Z := map (fun x => if x =? a then b else x) l.

(* ---- calendar: days since 0001-01-01 (day 0) of a civil date, and back; datetime's own rules *)
Definition is_leap (y : Z) : bool :=
  ((y mod 4 =? 0) && negb (y mod 100 =? 0)) || (y mod 400 =? 0).
Definition days_in_month (y m : Z) : Z :=
  if m =? 2 then (if is_leap y then 29 else 28)
  else if (m =? 4) || (m =? 6) || (m =? 9) || (m =? 11) then 30 else 31.
Definition days_from_civil (y m d : Z) : Z :=      (* closed form; day 0 = 0001-01-01 *)
  let y' := if m <=? 2 then y - 1 else y in
  let era := y' / 400 in
  let yoe := y' - era * 400 in
  let doy := (153 * (if 2 <? m then m - 3 else m + 9) + 2) / 5 + d - 1 in
  let doe := yoe * 365 + yoe / 4 - yoe / 100 + doy in
  era * 146097 + doe - 306.

Definition valid_date (y m d : Z) : bool :=
  (1 <=? y) && (y <=? 9999) && (1 <=? m) && (m <=? 12) && (1 <=? d) && (d <=? days_in_month y m).

(* civil_from_days: closed form (days since 0001-01-01 -> (y, m, d)), era arithmetic on 400-year cycles
   starting on March 1st; the proofs only use the round-trip lemma (finite sweep over the accepted years) *)
Definition civil_from_days (n : Z) : Z * Z * Z :=
  let z := n + 306 in
  let era := z / 146097 in
  let doe := z - era * 146097 in
  let yoe := (doe - doe / 1460 + doe / 36524 - doe / 146096) / 365 in
  let y := yoe + era * 400 in
  let doy := doe - (365 * yoe + yoe / 4 - yoe / 100) in
  let mp := (5 * doy + 2) / 153 in
  let d := doy - (153 * mp + 2) / 5 + 1 in
  let m := if mp <? 10 then mp + 3 else mp - 9 in
  (if m <=? 2 then y + 1 else y, m, d).

Definition US : Z := 1000000.
Definition DAY_US : Z := 86400 * US.

(* ---- TIME$ = s.  now = host + offset (microseconds).  Result: new offset *)
Definition time_parse (s : list Z) : res (Z * Z * Z) :=
  let strlist := split 58 (replace 46 58 s) in
  let strlist := match strlist with [one] => split 46 one | _ => strlist end in
  let n := length strlist in
  if negb ((n =? 1)%nat || (n =? 2)%nat || (n =? 3)%nat) then Err 5 else
  match py_ints strlist with
  | None => Err 5
  | Some tl =>
      let h := nth 0 tl 0 in let m := nth 1 tl 0 in let sec := nth 2 tl 0 in
      if negb ((0 <=? h) && (h <=? 23)) || negb ((0 <=? m) && (m <=? 59)) || negb ((0 <=? sec) && (sec <=? 59))
      then Err 5 else Ok (h, m, sec)
  end.

(* datetime.datetime(y, mo, d, h, mi, s, us) raises ValueError outside its ranges *)
Definition mk_datetime (y mo d h mi s us : Z) : res Z :=
  if valid_date y mo d && (0 <=? h) && (h <=? 23) && (0 <=? mi) && (mi <=? 59) && (0 <=? s) && (s <=? 59)
     && (0 <=? us) && (us <? US)
  then Ok (days_from_civil y mo d * DAY_US + (h * 3600 + mi * 60 + s) * US + us)
  else Host host_ValueError.

Definition time_set (host offset : Z) (s : list Z) : res Z :=
  let now := host + offset in
  do hms <- time_parse s;
  let '(h, m, sec) := hms in
  let '(y, mo, d) := civil_from_days (now / DAY_US) in
  do newtime <- mk_datetime y mo d h m sec (now mod US);
  Ok (offset + (newtime - now)).

Definition date_parse (s : list Z) : res (Z * Z * Z) :=   (* (year, month, day) *)
  let strlist := split 45 (replace 47 45 s) in
  if negb (length strlist =? 3)%nat then Err 5 else
  match py_ints strlist with
  | None => Err 5
  | Some dl =>
      let mo := nth 0 dl 0 in let d := nth 1 dl 0 in let y := nth 2 dl 0 in
      if (12 <? mo) || (31 <? d) || ((77 <? y) && (y <? 80)) || ((99 <? y) && (y <? 1980)) || (2099 <? y)
      then Err 5 else
      let y := if y <=? 77 then 2000 + y else if (y <? 100) && (79 <? y) then 1900 + y else y in
      Ok (y, mo, d)
  end.

Definition date_set (host offset : Z) (s : list Z) : res Z :=
  let now := host + offset in
  do ymd <- date_parse s;
  let '(y, mo, d) := ymd in
  let tod := now mod DAY_US in
  (* the constructor's ValueError is caught and turned into Illegal function call *)
  match mk_datetime y mo d (tod / (3600 * US)) ((tod / (60 * US)) mod 60) ((tod / US) mod 60) (tod mod US) with
  | Ok newtime => Ok (offset + (newtime - now))
  | _ => Err 5
  end.

(* ---- TIME$ / DATE$ functions: strftime('%H:%M:%S'), strftime('%m-%d-%Y') *)
Definition dig (z : Z) : Z := 48 + z.
Definition two (z : Z) : list Z := [dig (z / 10 mod 10); dig (z mod 10)].
Definition four (z : Z) : list Z := [dig (z / 1000 mod 10); dig (z / 100 mod 10); dig (z / 10 mod 10); dig (z mod 10)].

Definition time_fn (host offset : Z) : list Z :=
  let tod := ((host + offset) mod DAY_US) / US in
  two (tod / 3600) ++ [58] ++ two (tod / 60 mod 60) ++ [58] ++ two (tod mod 60).

Definition date_fn (host offset : Z) : list Z :=
  let '(y, m, d) := civil_from_days ((host + offset) / DAY_US) in
  two m ++ [45] ++ two d ++ [45] ++ four y.

(* harness encodings *)
Definition enc_offset (old : Z) (r : res Z) : list Z :=
  match r with
  | Ok o => [0; o - old]
  | Err e => [1; e]
  | Host x => [2; x]
  | OutOfFuel => [3]
  end.
