(* C18: model of ExpressionParser.parse / _drain (parser/expressions.py) over the regenerated operator tables
   of parser/operators.py (gen/Gen_prec.v).  No proofs here.

   Part 1 (Section Parser): the parse loop, generic in the value domain V and in the operator semantics
           unop / binop, and in the tables T;  expression trees, their evaluation and the printer.
   Part 2: the instance of the tables regenerated from /repo, the spelling of operators by token names,
           and the two value domains used by the correspondence harness. *)
From Coq Require Import ZArith List Bool.
From PCB Require Import lib.Result lib.PyInt gen.Gen_prec.
Import ListNotations.
Open Scope Z_scope.

(* ---- semantic operators = the callbacks the tables UNARY / BINARY map tokens to (functions of values.py) *)
Inductive uop := Neg | Pos | Not.
Inductive bop := Pow | Mul | Div | IntDiv | Mod | Add | Sub | Gt | Eq | Lt | Ge | Le | Ne
               | And | Or | Xor | Eqv | Imp.

(* function ids as dumped by translate/targets/gen_prec.py (UN_ID / BIN_ID) *)
Definition uid (o : uop) : Z := match o with Neg => 1 | Pos => 2 | Not => 3 end.
Definition bid (o : bop) : Z :=
  match o with
  | Pow => 1 | Mul => 2 | Div => 3 | IntDiv => 4 | Mod => 5 | Add => 6 | Sub => 7 | Gt => 8 | Eq => 9
  | Lt => 10 | Ge => 11 | Le => 12 | Ne => 13 | And => 14 | Or => 15 | Xor => 16 | Eqv => 17 | Imp => 18
  end.
Definition all_uops : list uop := [Neg; Pos; Not].
Definition all_bops : list bop :=
  [Pow; Mul; Div; IntDiv; Mod; Add; Sub; Gt; Eq; Lt; Ge; Le; Ne; And; Or; Xor; Eqv; Imp].
Definition uop_of_id (z : Z) : option uop := find (fun o => uid o =? z) all_uops.
Definition bop_of_id (z : Z) : option bop := find (fun o => bid o =? z) all_bops.

(* ---- the precedence order of the property statement:
   ^ > unary minus (and plus) > * / > \ > MOD > + - > relational > NOT > AND > OR > XOR > EQV > IMP *)
Definition bprec (o : bop) : Z :=
  match o with
  | Pow => 13 | Mul | Div => 11 | IntDiv => 10 | Mod => 9 | Add | Sub => 8
  | Gt | Eq | Lt | Ge | Le | Ne => 7 | And => 5 | Or => 4 | Xor => 3 | Eqv => 2 | Imp => 1
  end.
Definition uprec (o : uop) : Z := match o with Neg | Pos => 12 | Not => 6 end.

(* ---- the tables of operators.py (plus the constants of tokens.py / error.py the parser refers to) *)
Record tables := {
  t_prec : list ((Z * Z) * Z);     (* PRECEDENCE : (token key, nargs) -> precedence *)
  t_operators : list Z;            (* OPERATORS *)
  t_combinable : list Z;           (* COMBINABLE *)
  t_unary : list (Z * Z);          (* UNARY : token key -> function id *)
  t_binary : list (Z * Z);         (* BINARY *)
  t_not : Z;                       (* tk.NOT *)
  t_stx : Z;                       (* error.STX *)
  t_missing : Z                    (* error.MISSING_OPERAND *)
}.

Definition memZ (k : Z) (l : list Z) : bool := existsb (Z.eqb k) l.
Definition lookupZ (k : Z) (l : list (Z * Z)) : option Z :=
  option_map snd (find (fun kv => fst kv =? k) l).
Definition lookup_prec (k n : Z) (l : list ((Z * Z) * Z)) : option Z :=
  option_map snd (find (fun kv => (fst (fst kv) =? k) && (snd (fst kv) =? n)) l).

(* how a binary operator is spelled: one raw token, or two combinable raw tokens (>= => <= =< <> ><) *)
Inductive spelling := One (k : Z) | Two (k1 k2 : Z).
Definition spelling_toks (s : spelling) : list Z :=
  match s with One k => [k] | Two k1 k2 => [k1; k2] end.
(* `d += nxt` on bytes strings, under the big-endian key *)
Definition combine (k1 k2 : Z) : Z := k1 * 256 + k2.

Section Parser.
Variable V : Type.
Variable unop : uop -> V -> res V.
Variable binop : bop -> V -> V -> res V.
Variable T : tables.

(* tokens of the (blank-free) tokenised stream *)
Inductive token :=
| TUnit (r : res V)     (* literal, variable, function call: evaluated when it is read; may raise *)
| TOp (k : Z)           (* one keyword / operator token byte *)
| TLParen               (* ( *)
| TRParen               (* ) *)
| TEndStmt              (* : or NUL  (END_STATEMENT; the end of the stream is one too) *)
| TEndExpr              (* , ; ]     (END_EXPRESSION other than ')' ) *)
| TJunk.                (* anything else that cannot start a unit (read_number_literal raises STX) *)

Inductive oper := OUn (o : uop) | OBin (o : bop).
Definition entry := (oper * Z)%type.                (* (callback, arity) , precedence *)
Record frame := { f_units : list V; f_ops : list entry }.   (* the stacks of a suspended outer parse() *)
Definition R := res (V * list token).

(* oper applied to its args popped from the units stack (head = top); popping from an empty deque raises IndexError *)
Definition apply_op (f : oper) (us : list V) : res (list V) :=
  match f with
  | OUn o => match us with
             | a :: us' => do r <- unop o a; Ok (r :: us')
             | [] => Host host_IndexError
             end
  | OBin o => match us with
              | b :: a :: us' => do r <- binop o a b; Ok (r :: us')
              | _ => Host host_IndexError
              end
  end.

(* _drain(precedence, operations, units) *)
Fixpoint drain (q : Z) (us : list V) (ops : list entry) : res (list V * list entry) :=
  match ops with
  | [] => Ok (us, [])
  | (f, p) :: ops' =>
      if q >? p then Ok (us, ops)
      else do us' <- apply_op f us; drain q us' ops'
  end.

Fixpoint last_opt (l : list V) : option V :=
  match l with [] => None | [x] => Some x | _ :: l' => last_opt l' end.

(* try: self._drain(0, ..); return units[0]   except IndexError: MISSING_OPERAND if final else STX *)
Definition finish (final : bool) (us : list V) (ops : list entry) : res V :=
  match (do uo <- drain 0 us ops;
         match last_opt (fst uo) with Some v => Ok v | None => Host host_IndexError end) with
  | Host x => if x =? host_IndexError then Err (if final then t_missing T else t_stx T) else Host x
  | r => r
  end.

(* leaving the loop: drain, then either return to the caller of the top-level parse (with the stream
   positioned at the token that ended the expression) or to the suspended outer parse, which does
   require_read(')') *)
Definition close_with (final is_rparen : bool) (toks : list token) (frames : list frame)
    (us : list V) (ops : list entry) (resume : frame -> list frame -> V -> R) : R :=
  do v <- finish final us ops;
  match frames with
  | [] => Ok (v, toks)
  | fr :: frames' => if is_rparen then resume fr frames' v else Err (t_stx T)
  end.

(* an operator token d (already combined) in the loop; k continues the loop *)
Definition op_step (d : Z) (opnd : bool) (us : list V) (ops : list entry)
    (k : list V -> list entry -> bool -> R) : R :=
  if opnd || (d =? t_not T) then
    match lookupZ d (t_unary T), lookup_prec d 1 (t_prec T) with
    | Some f, Some p =>
        match uop_of_id f with
        | Some o => k us ((OUn o, p) :: ops) (memZ d (t_operators T))
        | None => Host host_Other
        end
    | _, _ => Err (t_stx T)
    end
  else
    match lookupZ d (t_binary T), lookup_prec d 2 (t_prec T) with
    | Some f, Some p =>
        match bop_of_id f with
        | Some o => do uo <- drain p us ops;
                    k (fst uo) ((OBin o, p) :: snd uo) (memZ d (t_operators T))
        | None => Host host_Other
        end
    | _, _ => Err (t_stx T)
    end.

(* the loop of parse(); opnd = (last in op.OPERATORS or last == b'');
   a nested parse() for '(' is a pushed frame *)
Fixpoint run (toks : list token) (frames : list frame) (us : list V) (ops : list entry)
    (opnd : bool) {struct toks} : R :=
  let no_resume := fun (_ : frame) (_ : list frame) (_ : V) => Err (t_stx T) : R in
  match toks with
  | [] => close_with true false toks frames us ops no_resume
  | TOp d :: rest =>
      if memZ d (t_operators T) then
        if (d =? t_not T) && negb opnd then close_with true false toks frames us ops no_resume
        else
          match rest with
          | TOp n :: rest' =>
              if memZ d (t_combinable T) && memZ n (t_combinable T)
              then op_step (combine d n) opnd us ops (fun us' ops' o' => run rest' frames us' ops' o')
              else op_step d opnd us ops (fun us' ops' o' => run rest frames us' ops' o')
          | _ => op_step d opnd us ops (fun us' ops' o' => run rest frames us' ops' o')
          end
      else if opnd then Err (t_stx T)
      else close_with true false toks frames us ops no_resume
  | TUnit r :: rest =>
      if opnd then do v <- r; run rest frames (v :: us) ops false
      else close_with true false toks frames us ops no_resume
  | TLParen :: rest =>
      if opnd then run rest ({| f_units := us; f_ops := ops |} :: frames) [] [] true
      else close_with true false toks frames us ops no_resume
  | TRParen :: rest =>
      close_with (negb opnd) true toks frames us ops
        (fun fr frames' v => run rest frames' (v :: f_units fr) (f_ops fr) false)
  | TEndStmt :: rest => close_with true false toks frames us ops no_resume
  | TEndExpr :: rest => close_with (negb opnd) false toks frames us ops no_resume
  | TJunk :: rest =>
      if opnd then Err (t_stx T) else close_with true false toks frames us ops no_resume
  end.

(* parse(ins) at the top level: value and the unread rest of the stream *)
Definition sy_parse (toks : list token) : R := run toks [] [] [] true.
Definition sy_eval (toks : list token) : res V := rmap fst (sy_parse toks).

(* ---- reference: expression trees; Par is an explicit (possibly redundant) pair of parentheses *)
Inductive expr :=
| Leaf (r : res V)
| Par (e : expr)
| Un (o : uop) (e : expr)
| Bin (o : bop) (l r : expr).

Fixpoint eval (e : expr) : res V :=
  match e with
  | Leaf r => r
  | Par e1 => eval e1
  | Un o e1 => do a <- eval e1; unop o a
  | Bin o l r => do a <- eval l; do b <- eval r; binop o a b
  end.

(* ---- the printer.  utok / bspell give the spelling of the operators as raw tokens (two spellings for
   the combined relational operators, chosen per operator by alt). *)
Variable utok : uop -> Z.
Variable bspell : bop -> bool -> spelling.
Variable alt : bop -> bool.

(* the operand of an operator of precedence c (right operand of a binary, operand of a unary) needs
   parentheses iff it is a binary operation that does not bind tighter than c;
   a unary operator never needs them there (it is pushed without draining) *)
Definition need_operand (c : Z) (e : expr) : bool :=
  match e with Bin o _ _ => bprec o <=? c | _ => false end.

(* all operators on the right edge of e, as printed, have precedence >= q
   (so a following binary operator of precedence q, applied after e, drains all of them) *)
Fixpoint redge_ge (q : Z) (e : expr) : bool :=
  match e with
  | Leaf _ | Par _ => true
  | Un o e1 => (q <=? uprec o) && (need_operand (uprec o) e1 || redge_ge q e1)
  | Bin o l r => (q <=? bprec o) && (need_operand (bprec o) r || redge_ge q r)
  end.
(* the left operand needs parentheses iff some operator on its right edge binds looser than o, e.g. a
   trailing low-precedence unary:  (2 ^ NOT 3) * 4,  (- 2) ^ 3,  (1 + 2) * 3 *)
Definition need_left (c : Z) (e : expr) : bool := negb (redge_ge c e).

Definition paren (b : bool) (ts : list token) : list token :=
  if b then TLParen :: ts ++ [TRParen] else ts.
Definition btoks (o : bop) : list token := map TOp (spelling_toks (bspell o (alt o))).

Fixpoint pr (e : expr) : list token :=
  match e with
  | Leaf r => [TUnit r]
  | Par e1 => paren true (pr e1)
  | Un o e1 => TOp (utok o) :: paren (need_operand (uprec o) e1) (pr e1)
  | Bin o l r => paren (need_left (bprec o) l) (pr l) ++ btoks o
                 ++ paren (need_operand (bprec o) r) (pr r)
  end.

(* every operand in parentheses *)
Fixpoint par_all (e : expr) : expr :=
  match e with
  | Leaf r => Leaf r
  | Par e1 => Par (par_all e1)
  | Un o e1 => Un o (Par (par_all e1))
  | Bin o l r => Bin o (Par (par_all l)) (Par (par_all r))
  end.
Definition pr_full (e : expr) : list token := pr (par_all e).

(* no explicit parentheses *)
Fixpoint strip (e : expr) : expr :=
  match e with
  | Leaf r => Leaf r
  | Par e1 => strip e1
  | Un o e1 => Un o (strip e1)
  | Bin o l r => Bin o (strip l) (strip r)
  end.

(* ---- what the theorems need from the tables: every operator, as spelled, is found with the callback
   and the precedence of the property statement *)
Definition spelling_ok (o : bop) (s : spelling) : Prop :=
  match s with
  | One k =>
      memZ k (t_operators T) = true /\ (k =? t_not T) = false
      /\ lookupZ k (t_binary T) = Some (bid o) /\ lookup_prec k 2 (t_prec T) = Some (bprec o)
  | Two k1 k2 =>
      memZ k1 (t_operators T) = true /\ (k1 =? t_not T) = false
      /\ memZ k1 (t_combinable T) = true /\ memZ k2 (t_combinable T) = true
      /\ memZ (combine k1 k2) (t_operators T) = true /\ (combine k1 k2 =? t_not T) = false
      /\ lookupZ (combine k1 k2) (t_binary T) = Some (bid o)
      /\ lookup_prec (combine k1 k2) 2 (t_prec T) = Some (bprec o)
  end.
Definition tables_ok : Prop :=
  (forall o : uop,
      memZ (utok o) (t_operators T) = true /\ memZ (utok o) (t_combinable T) = false
      /\ lookupZ (utok o) (t_unary T) = Some (uid o)
      /\ lookup_prec (utok o) 1 (t_prec T) = Some (uprec o))
  /\ (forall (o : bop) (a : bool), spelling_ok o (bspell o a)).

End Parser.

Arguments TUnit {V} r.
Arguments TOp {V} k.
Arguments TLParen {V}.
Arguments TRParen {V}.
Arguments TEndStmt {V}.
Arguments TEndExpr {V}.
Arguments TJunk {V}.
Arguments Leaf {V} r.
Arguments Par {V} e.
Arguments Un {V} o e.
Arguments Bin {V} o l r.
Arguments f_units {V} f.
Arguments f_ops {V} f.

(* ------------------------------------------------------------------------------------------------ *)
(* Part 2: the instance regenerated from /repo *)

Definition gen_tables : tables := {|
  t_prec := prec_table; t_operators := prec_operators; t_combinable := prec_combinable;
  t_unary := prec_unary; t_binary := prec_binary; t_not := prec_tk_NOT;
  t_stx := prec_err_STX; t_missing := prec_err_MISSING_OPERAND |}.

(* spelling by the token names of tokens.py *)
Definition gen_utok (o : uop) : Z :=
  match o with Neg => prec_tk_O_MINUS | Pos => prec_tk_O_PLUS | Not => prec_tk_NOT end.
Definition gen_bspell (o : bop) (a : bool) : spelling :=
  match o with
  | Pow => One prec_tk_O_CARET | Mul => One prec_tk_O_TIMES | Div => One prec_tk_O_DIV
  | IntDiv => One prec_tk_O_INTDIV | Mod => One prec_tk_MOD
  | Add => One prec_tk_O_PLUS | Sub => One prec_tk_O_MINUS
  | Gt => One prec_tk_O_GT | Eq => One prec_tk_O_EQ | Lt => One prec_tk_O_LT
  | Ge => if a then Two prec_tk_O_EQ prec_tk_O_GT else Two prec_tk_O_GT prec_tk_O_EQ
  | Le => if a then Two prec_tk_O_EQ prec_tk_O_LT else Two prec_tk_O_LT prec_tk_O_EQ
  | Ne => if a then Two prec_tk_O_GT prec_tk_O_LT else Two prec_tk_O_LT prec_tk_O_GT
  | And => One prec_tk_AND | Or => One prec_tk_OR | Xor => One prec_tk_XOR
  | Eqv => One prec_tk_EQV | Imp => One prec_tk_IMP
  end.

(* ---- value domain 1 (correspondence, grouping): V = prefix encoding of the operator tree.
   The harness replaces the callbacks in op.UNARY / op.BINARY by recorders computing the same.
   To observe the order of evaluation, an application whose left (or only) operand is the literal
   240..243, or whose right operand is the literal 250..253, raises a BASIC error. *)
Definition tr_leaf (n : Z) : list Z := [0; n].
Definition tr_poison (lo : Z) (codes : list Z) (a : list Z) : option Z :=
  match a with
  | [0; n] => if (lo <=? n) && (n <? lo + zlen codes) then Some (nth (Z.to_nat (n - lo)) codes 0) else None
  | _ => None
  end.
Definition tr_unop (o : uop) (a : list Z) : res (list Z) :=
  match tr_poison 240 [6; 11; 13; 5] a with
  | Some e => Err e
  | None => Ok (1 :: uid o :: a)
  end.
Definition tr_binop (o : bop) (a b : list Z) : res (list Z) :=
  match tr_poison 240 [6; 11; 13; 5] a with
  | Some e => Err e
  | None => match tr_poison 250 [14; 15; 16; 7] b with
            | Some e => Err e
            | None => Ok (2 :: bid o :: a ++ b)
            end
  end.

Definition tr_parse (toks : list (token (list Z))) : res (list Z * list (token (list Z))) :=
  sy_parse (list Z) tr_unop tr_binop gen_tables toks.
(* canonical output: 0 :: number of unread tokens :: tree | [1; err] | [2; host] *)
Definition tr_enc (r : res (list Z * list (token (list Z)))) : list Z :=
  enc_res (rmap (fun vr => zlen (snd vr) :: fst vr) r).
Definition tU (n : Z) : token (list Z) := TUnit (Ok (tr_leaf n)).
Definition tUE (e : Z) : token (list Z) := TUnit (Err e).
Definition tO (k : Z) : token (list Z) := TOp k.

(* terms the harness prints *)
Definition trL (n : Z) : expr (list Z) := Leaf (Ok (tr_leaf n)).
Definition trE (e : Z) : expr (list Z) := Leaf (Err e).
Definition alt3 (ge le ne : bool) (o : bop) : bool :=
  match o with Ge => ge | Le => le | Ne => ne | _ => false end.
Definition tr_pr (ge le ne : bool) (e : expr (list Z)) : list (token (list Z)) :=
  pr (list Z) gen_utok gen_bspell (alt3 ge le ne) e.
